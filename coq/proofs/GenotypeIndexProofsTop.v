(* Proofs about coq/model/GenotypeIndex.v, part 5: the Genotype object (constructor, get_index,
   ==, <, __getstate__/__setstate__) within the supported limits (ploidy <= 14, alleles 0..15), for
   the 32-bit arithmetic of the compiled code and for unbounded arithmetic. *)
From Coq Require Import ZArith List Bool Lia Permutation Sorted.
From WH.Model Require Import GenotypeIndex.
From WH.Proofs Require Import GenotypeIndexProofs GenotypeIndexProofsCNS GenotypeIndexProofsCode GenotypeIndexProofsW.
Import ListNotations.
Open Scope Z_scope.

Definition desc (al : list Z) : list Z := rev (isort al).

Lemma desc_length al : length (desc al) = length al.
Proof. unfold desc. rewrite rev_length, isort_length. reflexivity. Qed.

Lemma desc_okd al : valid_alleles al -> okd 15 (desc al).
Proof. apply okd_desc. Qed.

(* ---- get_index *)
Theorem get_index32_code al : valid_alleles al -> get_index wrap_s32 wrap_u32 (code al) = idx_desc (desc al).
Proof.
intro Hv. unfold get_index. rewrite code_ploidy by exact Hv. rewrite Nat2Z.id.
rewrite <- (desc_length al).
apply get_index32_loop.
- apply desc_okd; exact Hv.
- rewrite desc_length. destruct Hv; lia.
- intros j Hj. rewrite desc_length in Hj. apply code_position; assumption.
Qed.

Theorem get_indexI_code al : valid_alleles al -> get_index ideal ideal (code al) = idx_desc (desc al).
Proof.
intro Hv. unfold get_index. rewrite code_ploidy by exact Hv. rewrite Nat2Z.id.
rewrite <- (desc_length al).
apply (get_index_ideal 14 15).
- apply desc_okd; exact Hv.
- rewrite desc_length. destruct Hv; lia.
- intros j Hj. rewrite desc_length in Hj. apply code_position; assumption.
Qed.

(* ---- == and < *)
Theorem g_eq_iff_perm al bl : valid_alleles al -> valid_alleles bl ->
  (g_eq (code al) (code bl) = true <-> Permutation al bl).
Proof.
intros Ha Hb. unfold g_eq. rewrite Z.eqb_eq. split; [apply code_injective; assumption|apply code_perm].
Qed.

Lemma desc_eq_perm al bl : desc al = desc bl -> Permutation al bl.
Proof.
unfold desc. intro E. apply (f_equal (@rev Z)) in E. rewrite !rev_involutive in E.
rewrite <- (isort_perm al), <- (isort_perm bl), E. reflexivity.
Qed.

Theorem g_eq_iff_index al bl : valid_alleles al -> valid_alleles bl -> length al = length bl ->
  (g_eq (code al) (code bl) = true <-> idx_desc (desc al) = idx_desc (desc bl)).
Proof.
intros Ha Hb Hlen. rewrite (g_eq_iff_perm al bl Ha Hb). split.
- intro P. unfold desc. rewrite (isort_unique al bl P). reflexivity.
- intro E. apply desc_eq_perm.
  apply (idx_desc_injective (desc al) (desc bl) 15 15); try apply desc_okd; try assumption.
  rewrite !desc_length. exact Hlen.
Qed.

Theorem g_lt32_iff_index al bl : valid_alleles al -> valid_alleles bl ->
  g_lt wrap_s32 wrap_u32 (code al) (code bl) = (idx_desc (desc al) <? idx_desc (desc bl)).
Proof. intros Ha Hb. unfold g_lt. rewrite !get_index32_code by assumption. reflexivity. Qed.

Theorem g_trichotomy32 al bl : valid_alleles al -> valid_alleles bl -> length al = length bl ->
  let lt := g_lt wrap_s32 wrap_u32 in
  (lt (code al) (code bl) = true /\ g_eq (code al) (code bl) = false /\ lt (code bl) (code al) = false) \/
  (lt (code al) (code bl) = false /\ g_eq (code al) (code bl) = true /\ lt (code bl) (code al) = false) \/
  (lt (code al) (code bl) = false /\ g_eq (code al) (code bl) = false /\ lt (code bl) (code al) = true).
Proof.
intros Ha Hb Hlen lt. subst lt. rewrite !g_lt32_iff_index by assumption.
pose proof (g_eq_iff_index al bl Ha Hb Hlen) as E.
destruct (g_eq (code al) (code bl)) eqn:Eq.
- right; left. assert (H : idx_desc (desc al) = idx_desc (desc bl)) by (apply E; reflexivity).
  rewrite H, Z.ltb_irrefl. auto.
- assert (H : idx_desc (desc al) <> idx_desc (desc bl)) by (intro H; apply E in H; discriminate).
  destruct (Z.ltb_spec (idx_desc (desc al)) (idx_desc (desc bl))) as [Hlt|Hge].
  + left. destruct (Z.ltb_spec (idx_desc (desc bl)) (idx_desc (desc al))); [lia|auto].
  + right; right. destruct (Z.ltb_spec (idx_desc (desc bl)) (idx_desc (desc al))); [auto|lia].
Qed.

(* ---- sortedness bridges *)
Lemma okd_all a d : okd a d -> Forall (fun x => 0 <= x <= a) d.
Proof.
revert a. induction d as [|b r IH]; intros a Hok; [constructor|].
destruct Hok as [Hb Hr]. constructor; [exact Hb|].
eapply Forall_impl; [|apply (IH b Hr)]. cbv beta. intros; lia.
Qed.

Lemma ss_snoc (l : list Z) x : StronglySorted Z.le l -> Forall (fun y => y <= x) l -> StronglySorted Z.le (l ++ [x]).
Proof.
induction 1 as [|y r Hs IH Hy]; intro Hall.
- simpl. constructor; constructor.
- inversion Hall as [|? ? Hyx Hall']; subst. simpl. constructor; [apply IH; exact Hall'|].
  apply Forall_app. split; [exact Hy|constructor; [exact Hyx|constructor]].
Qed.

Lemma okd_rev_ss a d : okd a d -> StronglySorted Z.le (rev d).
Proof.
revert a. induction d as [|b r IH]; intros a Hok; [constructor|].
destruct Hok as [Hb Hr]. simpl. apply ss_snoc; [apply (IH b Hr)|].
apply Forall_rev. eapply Forall_impl; [|apply (okd_all b r Hr)]. cbv beta. intros; lia.
Qed.

Lemma isort_rev_okd a d : okd a d -> isort (rev d) = rev d.
Proof.
intro Hok. apply sorted_perm_eq; [apply isort_sorted|apply (okd_rev_ss a d Hok)|apply isort_perm].
Qed.

Lemma valid_rev_okd d : okd 15 d -> (length d < 15)%nat -> valid_alleles (rev d).
Proof.
intros Hok Hlen. split; [rewrite rev_length; exact Hlen|].
apply Forall_rev. eapply Forall_impl; [|apply (okd_all 15 d Hok)]. unfold digit. cbv beta. intros; lia.
Qed.

Lemma desc_rev_okd d : okd 15 d -> desc (rev d) = d.
Proof. intro Hok. unfold desc. rewrite (isort_rev_okd 15 d Hok). apply rev_involutive. Qed.

Lemma valid_isort al : valid_alleles al -> valid_alleles (isort al).
Proof.
intros [Hl Hd]. split; [rewrite isort_length; exact Hl|].
eapply Permutation_Forall; [symmetry; apply isort_perm|exact Hd].
Qed.

(* ---- index <-> alleles within the limits, compiled arithmetic *)
Theorem unindex32_of_index al fuel : valid_alleles al -> (17 <= fuel)%nat ->
  convert_index_to_alleles wrap_s32 wrap_u32 fuel (get_index wrap_s32 wrap_u32 (code al)) (get_ploidy (code al))
  = Some (isort al).
Proof.
intros Hv Hfuel. rewrite get_index32_code, code_ploidy by exact Hv.
rewrite <- (desc_length al). rewrite convert32.
- unfold desc. rewrite rev_involutive. reflexivity.
- apply desc_okd; exact Hv.
- rewrite desc_length. destruct Hv; lia.
- lia.
Qed.

Theorem index32_of_unindex (i p : Z) fuel : 1 <= p <= 14 -> 0 <= i < n_genotypes p 16 -> (17 <= fuel)%nat ->
  exists al, convert_index_to_alleles wrap_s32 wrap_u32 fuel i p = Some al /\
             valid_alleles al /\ Z.of_nat (length al) = p /\ isort al = al /\
             get_index wrap_s32 wrap_u32 (code al) = i.
Proof.
intros Hp Hi Hfuel.
destruct (unindex_index_ideal i p 16 fuel ltac:(lia) ltac:(lia) Hi ltac:(lia)) as [d [_ [Hok [Hlen Hidx]]]].
replace (16 - 1) with 15 in Hok by lia.
exists (rev d).
assert (Hv : valid_alleles (rev d)) by (apply valid_rev_okd; [exact Hok|lia]).
repeat split.
- rewrite <- Hidx, <- Hlen. apply convert32; [exact Hok|lia|lia].
- apply Hv.
- apply Hv.
- rewrite rev_length. exact Hlen.
- apply (isort_rev_okd 15 d Hok).
- rewrite get_index32_code by exact Hv. rewrite desc_rev_okd by exact Hok. exact Hidx.
Qed.

(* ---- __setstate__(__getstate__(g)) *)
Theorem setstate_getstate32 al fuel : valid_alleles al -> (17 <= fuel)%nat ->
  setstate wrap_s32 wrap_u32 fuel (getstate wrap_s32 wrap_u32 (code al)) = inr (code al).
Proof.
intros Hv Hfuel. unfold setstate, getstate. cbn [fst snd].
rewrite unindex32_of_index by assumption.
rewrite mk_genotype_code by (apply valid_isort; exact Hv).
f_equal. apply code_perm. apply isort_perm.
Qed.

(* ---- the compiled arithmetic agrees with unbounded arithmetic within the limits *)
Theorem no_overflow_get_index al : valid_alleles al ->
  get_index wrap_s32 wrap_u32 (code al) = get_index ideal ideal (code al).
Proof. intro Hv. rewrite get_index32_code, get_indexI_code by exact Hv. reflexivity. Qed.

Theorem no_overflow_unindex al fuel : valid_alleles al -> (17 <= fuel)%nat ->
  convert_index_to_alleles wrap_s32 wrap_u32 fuel (idx_desc (desc al)) (Z.of_nat (length al)) =
  convert_index_to_alleles ideal ideal fuel (idx_desc (desc al)) (Z.of_nat (length al)).
Proof.
intros Hv Hfuel. rewrite <- (desc_length al).
rewrite convert32; [|apply desc_okd; exact Hv|rewrite desc_length; destruct Hv; lia|lia].
rewrite (index_unindex_ideal (desc al) 16 fuel); [reflexivity| |lia].
replace (16 - 1) with 15 by lia. apply desc_okd; exact Hv.
Qed.

(* the index of a valid genotype fits the 32-bit index variable with room to spare *)
Theorem index_lt_2_31 al : valid_alleles al -> 0 <= idx_desc (desc al) < 2 ^ 31.
Proof.
intro Hv. pose proof (desc_okd al Hv) as Hok.
pose proof (idx_desc_range (desc al) 16 ltac:(lia) ltac:(replace (16 - 1) with 15 by lia; exact Hok)) as [H0 H1].
split; [exact H0|]. unfold n_genotypes in H1. rewrite desc_length in H1.
destruct Hv as [Hlen _].
destruct (Nat.eq_dec (length al) 0) as [E|E].
- rewrite E in H1. change (Z.of_nat 0) with 0 in H1. rewrite chooseZ_0_r in H1 by lia. lia.
- pose proof (range32 (Z.of_nat (length al)) 16 ltac:(lia) ltac:(lia)) as [_ [_ [_ [Hr _]]]].
  unfold R32, f in Hr. replace (16 + Z.of_nat (length al) - 1) with (Z.of_nat (length al) + 16 - 1) in H1 by lia. lia.
Qed.

(* ================================================================== statements in the vocabulary
   of the model file (boolean validity tests, mk_genotype), as quoted by props/C19.v *)
Lemma valid_alleles_intro al : (length al < 15)%nat -> Forall (fun a => 0 <= a < 16) al -> valid_alleles al.
Proof. intros H1 H2. split; assumption. Qed.

Theorem index_unindex_all (p n : Z) (d : list Z) (fuel : nat) :
  valid_desc p n d = true -> n < Z.of_nat fuel ->
  convert_index_to_alleles ideal ideal fuel (idx_desc d) p = Some (rev d).
Proof.
intros Hv Hfuel. destruct (valid_desc_okd p n d Hv) as [Hlen Hok]. rewrite <- Hlen.
apply (index_unindex_ideal d n fuel Hok Hfuel).
Qed.

Theorem unindex_index_all (i p n : Z) (fuel : nat) :
  1 <= p -> 1 <= n -> 0 <= i < n_genotypes p n -> n < Z.of_nat fuel ->
  exists d, convert_index_to_alleles ideal ideal fuel i p = Some (rev d) /\
            valid_desc p n d = true /\ idx_desc d = i.
Proof.
intros Hp Hn Hi Hfuel.
destruct (unindex_index_ideal i p n fuel Hp Hn Hi Hfuel) as [d [Hrun [Hok [Hlen Hidx]]]].
exists d. repeat split; [exact Hrun| |exact Hidx]. rewrite <- Hlen. apply okd_valid_desc. exact Hok.
Qed.

Theorem index_range_all (p n : Z) (d : list Z) :
  1 <= n -> valid_desc p n d = true -> 0 <= idx_desc d < n_genotypes p n.
Proof.
intros Hn Hv. destruct (valid_desc_okd p n d Hv) as [Hlen Hok]. rewrite <- Hlen.
apply idx_desc_range; assumption.
Qed.

Theorem index_injective_all (p n : Z) (d1 d2 : list Z) :
  valid_desc p n d1 = true -> valid_desc p n d2 = true -> idx_desc d1 = idx_desc d2 -> d1 = d2.
Proof.
intros H1 H2 E. destruct (valid_desc_okd p n d1 H1) as [L1 O1]. destruct (valid_desc_okd p n d2 H2) as [L2 O2].
apply (idx_desc_injective d1 d2 (n - 1) (n - 1) O1 O2); [lia|exact E].
Qed.

Theorem get_index_loop_all (gt p n : Z) (d : list Z) :
  valid_desc p n d = true ->
  (forall j : nat, (j < length d)%nat -> get_position gt (Z.of_nat j) = nth j d 0) ->
  index_loop ideal ideal (Z.to_nat p) gt p 0 0 1 = idx_desc d.
Proof.
intros Hv Hpos. destruct (valid_desc_okd p n d Hv) as [Hlen Hok]. rewrite <- Hlen, Nat2Z.id.
apply (get_index_ideal (Z.of_nat (length d)) (n - 1)); [exact Hok|lia|exact Hpos].
Qed.

Section Object.
Variable al : list Z.
Hypothesis Hlen : (length al < 15)%nat.
Hypothesis Hall : Forall (fun a => 0 <= a < 16) al.
Let Hv : valid_alleles al := valid_alleles_intro al Hlen Hall.

Theorem constructor_spec :
  exists g, mk_genotype al = inr g /\ as_vector g = rev (isort al) /\ get_ploidy g = Z.of_nat (length al) /\
            valid_desc (Z.of_nat (length al)) 16 (as_vector g) = true.
Proof.
exists (code al). rewrite mk_genotype_code, as_vector_code, code_ploidy by exact Hv.
repeat split. rewrite <- (desc_length al). apply okd_valid_desc.
replace (16 - 1) with 15 by lia. apply desc_okd. exact Hv.
Qed.

Theorem object_index g : mk_genotype al = inr g ->
  get_index wrap_s32 wrap_u32 g = idx_desc (as_vector g) /\
  get_index wrap_s32 wrap_u32 g = get_index ideal ideal g /\
  0 <= get_index wrap_s32 wrap_u32 g < n_genotypes (Z.of_nat (length al)) 16 /\
  get_index wrap_s32 wrap_u32 g < 2 ^ 31.
Proof.
rewrite mk_genotype_code by exact Hv. intro E. injection E as <-.
rewrite as_vector_code by exact Hv. fold (desc al).
rewrite <- no_overflow_get_index by exact Hv. rewrite get_index32_code by exact Hv.
repeat split.
- apply idx_desc_nonneg.
- rewrite <- (desc_length al). apply idx_desc_range; [lia|].
  replace (16 - 1) with 15 by lia. apply desc_okd. exact Hv.
- apply index_lt_2_31. exact Hv.
Qed.

Theorem object_setstate_getstate g fuel : mk_genotype al = inr g -> (17 <= fuel)%nat ->
  setstate wrap_s32 wrap_u32 fuel (getstate wrap_s32 wrap_u32 g) = inr g.
Proof.
rewrite mk_genotype_code by exact Hv. intro E. injection E as <-. apply setstate_getstate32. exact Hv.
Qed.

Theorem object_unindex_index g fuel : mk_genotype al = inr g -> (17 <= fuel)%nat ->
  convert_index_to_alleles wrap_s32 wrap_u32 fuel (get_index wrap_s32 wrap_u32 g) (get_ploidy g) = Some (isort al) /\
  convert_index_to_alleles wrap_s32 wrap_u32 fuel (get_index wrap_s32 wrap_u32 g) (get_ploidy g) =
  convert_index_to_alleles ideal ideal fuel (get_index ideal ideal g) (get_ploidy g).
Proof.
rewrite mk_genotype_code by exact Hv. intros E Hfuel. injection E as <-.
split; [apply unindex32_of_index; assumption|].
rewrite get_index32_code, get_indexI_code, code_ploidy by exact Hv. apply no_overflow_unindex; assumption.
Qed.

Section Two.
Variable bl : list Z.
Hypothesis Hlenb : (length bl < 15)%nat.
Hypothesis Hallb : Forall (fun a => 0 <= a < 16) bl.
Let Hvb : valid_alleles bl := valid_alleles_intro bl Hlenb Hallb.

Theorem object_eq g1 g2 : mk_genotype al = inr g1 -> mk_genotype bl = inr g2 ->
  (g_eq g1 g2 = true <-> Permutation al bl) /\ g_ne g1 g2 = negb (g_eq g1 g2).
Proof.
rewrite !mk_genotype_code by assumption. intros E1 E2. injection E1 as <-. injection E2 as <-.
split; [apply g_eq_iff_perm; assumption|reflexivity].
Qed.

Theorem object_order g1 g2 : mk_genotype al = inr g1 -> mk_genotype bl = inr g2 -> length al = length bl ->
  let lt := g_lt wrap_s32 wrap_u32 in
  let ix := get_index wrap_s32 wrap_u32 in
  (g_eq g1 g2 = true <-> ix g1 = ix g2) /\
  lt g1 g2 = (ix g1 <? ix g2) /\
  ((lt g1 g2 = true /\ g_eq g1 g2 = false /\ lt g2 g1 = false) \/
   (lt g1 g2 = false /\ g_eq g1 g2 = true /\ lt g2 g1 = false) \/
   (lt g1 g2 = false /\ g_eq g1 g2 = false /\ lt g2 g1 = true)).
Proof.
rewrite !mk_genotype_code by assumption. intros E1 E2 Hl lt ix. injection E1 as <-. injection E2 as <-.
subst lt ix. split; [|split].
- rewrite !get_index32_code by assumption. apply g_eq_iff_index; assumption.
- reflexivity.
- apply g_trichotomy32; assumption.
Qed.
End Two.
End Object.

Theorem unindex_index32_within_limits (i p : Z) fuel :
  1 <= p <= 14 -> 0 <= i < n_genotypes p 16 -> (17 <= fuel)%nat ->
  exists al g, convert_index_to_alleles wrap_s32 wrap_u32 fuel i p = Some al /\
               (length al < 15)%nat /\ Forall (fun a => 0 <= a < 16) al /\ Z.of_nat (length al) = p /\
               mk_genotype al = inr g /\ get_index wrap_s32 wrap_u32 g = i /\ get_ploidy g = p.
Proof.
intros Hp Hi Hfuel.
destruct (index32_of_unindex i p fuel Hp Hi Hfuel) as [al [Hrun [Hv [Hlen [_ Hidx]]]]].
exists al, (code al). pose proof Hv as [H1 H2].
repeat split; try assumption.
- apply mk_genotype_code; exact Hv.
- rewrite code_ploidy by exact Hv. exact Hlen.
Qed.
