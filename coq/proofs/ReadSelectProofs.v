(* Proofs for C07 (read selection).  Stdlib style.
   Route: a state invariant GInv over (coverage monitor, selected, undecided) that is preserved by the
   three possible decisions (violates / selected / skipped) whatever read is popped; the slice loop and
   the bridging loop are sequences of such decisions; progress comes from the first pop of a slice. *)
From Coq Require Import Arith List Bool ZArith Lia Relations.
From WH.Model Require Import UnionFind UFSpec ReadSelect.
From WH.Proofs Require Import UFProofs.
Import ListNotations.

(* ---------------------------------------------------------------------------------------------- *)
(* 1. sets as lists                                                                                *)

Lemma mem_In x l : mem x l = true <-> In x l.
Proof.
  unfold mem. rewrite existsb_exists. split.
  - intros [y [Hy E]]. apply Nat.eqb_eq in E. subst. exact Hy.
  - intro H. exists x. split; [exact H | apply Nat.eqb_refl].
Qed.

Lemma mem_false x l : mem x l = false <-> ~ In x l.
Proof.
  rewrite <- mem_In. destruct (mem x l); split; intro H; try congruence.
Qed.

Lemma set_add_In x y l : In y (set_add x l) <-> y = x \/ In y l.
Proof.
  unfold set_add. destruct (mem x l) eqn:E.
  - apply mem_In in E. split; [auto|]. intros [-> | H]; assumption.
  - rewrite in_app_iff. simpl. split; intros [H | H]; auto.
    + destruct H as [H | []]. auto.
Qed.

Lemma NoDup_snoc (x : nat) l : NoDup l -> ~ In x l -> NoDup (l ++ [x]).
Proof.
  induction l as [|a l IH]; intros H N; simpl.
  - constructor; [intros []|constructor].
  - inversion H as [|a' l' Ha Hl]; subst. constructor.
    + rewrite in_app_iff. simpl. intros [H1 | [H1 | []]]; [auto|]. subst. apply N. left. reflexivity.
    + apply IH; [exact Hl|]. intro H1. apply N. right. exact H1.
Qed.

Lemma set_add_NoDup x l : NoDup l -> NoDup (set_add x l).
Proof.
  intro H. unfold set_add. destruct (mem x l) eqn:E; [exact H|].
  apply mem_false in E. apply NoDup_snoc; assumption.
Qed.

Lemma set_union_snoc l a x : set_union l (a ++ [x]) = set_add x (set_union l a).
Proof. unfold set_union. rewrite fold_left_app. reflexivity. Qed.

Lemma set_union_In l a y : In y (set_union l a) <-> In y l \/ In y a.
Proof.
  revert l. induction a as [|x a IH]; intro l; simpl.
  - tauto.
  - unfold set_union in *. simpl. rewrite IH. rewrite set_add_In. split; intros [H | H]; auto.
    + destruct H as [-> | H]; auto.
    + destruct H as [-> | H]; auto.
Qed.

Lemma set_union_NoDup l a : NoDup l -> NoDup (set_union l a).
Proof.
  revert l. induction a as [|x a IH]; intros l H; simpl; [exact H|].
  unfold set_union in *. simpl. apply IH. apply set_add_NoDup. exact H.
Qed.

Lemma set_union_set_add l a x : set_union l (set_add x a) = set_add x (set_union l a).
Proof.
  unfold set_add at 1. destruct (mem x a) eqn:E.
  - apply mem_In in E. unfold set_add.
    assert (H : mem x (set_union l a) = true) by (apply mem_In, set_union_In; auto).
    rewrite H. reflexivity.
  - apply set_union_snoc.
Qed.

Lemma set_diff_In l rm y : In y (set_diff l rm) <-> In y l /\ ~ In y rm.
Proof.
  unfold set_diff. rewrite filter_In. rewrite negb_true_iff, mem_false. tauto.
Qed.

Lemma NoDup_filter_nat (f : nat -> bool) l : NoDup l -> NoDup (filter f l).
Proof.
  induction l as [|a l IH]; intro H; simpl; [constructor|].
  inversion H as [|a' l' Ha Hl]; subst. destruct (f a).
  - constructor; [|apply IH; exact Hl]. rewrite filter_In. tauto.
  - apply IH; exact Hl.
Qed.

Lemma set_diff_NoDup l rm : NoDup l -> NoDup (set_diff l rm).
Proof. apply NoDup_filter_nat. Qed.

Lemma set_remove_In x l y : In y (set_remove x l) <-> In y l /\ y <> x.
Proof.
  unfold set_remove. rewrite filter_In, negb_true_iff, Nat.eqb_neq. tauto.
Qed.

Lemma set_remove_NoDup x l : NoDup l -> NoDup (set_remove x l).
Proof. apply NoDup_filter_nat. Qed.

Lemma filter_length_le (f : nat -> bool) l : length (filter f l) <= length l.
Proof. induction l as [|a l IH]; simpl; [lia|]. destruct (f a); simpl; lia. Qed.

Lemma filter_length_lt (f : nat -> bool) l x : In x l -> f x = false -> length (filter f l) < length l.
Proof.
  induction l as [|a l IH]; intros Hin Hf; simpl; [destruct Hin|].
  destruct Hin as [-> | Hin].
  - rewrite Hf. pose proof (filter_length_le f l). lia.
  - specialize (IH Hin Hf). destruct (f a); simpl; lia.
Qed.

Lemma nodupb_NoDup l : nodupb l = true <-> NoDup l.
Proof.
  induction l as [|a l IH]; simpl.
  - split; [constructor | reflexivity].
  - rewrite andb_true_iff, negb_true_iff, mem_false, IH. split.
    + intros [H1 H2]. constructor; assumption.
    + intro H. inversion H; subst. split; assumption.
Qed.

Lemma subsetb_incl a b : subsetb a b = true <-> forall x, In x a -> In x b.
Proof.
  unfold subsetb. rewrite forallb_forall. split; intros H x Hx.
  - apply mem_In. apply H. exact Hx.
  - apply mem_In. apply H. exact Hx.
Qed.

Lemma is_perm_spec order u : is_perm order u = true ->
  NoDup order /\ forall x, In x order <-> In x u.
Proof.
  unfold is_perm. rewrite !andb_true_iff. intros [[H1 H2] H3].
  apply nodupb_NoDup in H1. rewrite subsetb_incl in H2, H3.
  split; [exact H1|]. intro x. split; auto.
Qed.

Lemma is_perm_refl u : NoDup u -> is_perm u u = true.
Proof.
  intro H. unfold is_perm. rewrite !andb_true_iff. split; [split|].
  - apply nodupb_NoDup. exact H.
  - apply subsetb_incl. auto.
  - apply subsetb_incl. auto.
Qed.

(* ---------------------------------------------------------------------------------------------- *)
(* 2. the coverage monitor                                                                         *)

Definition cv (c : covmon) (i : nat) : nat := nth i c 0.

Lemma add_from_length c : forall i b e, length (add_from c i b e) = length c.
Proof. induction c as [|x c IH]; intros i b e; simpl; [reflexivity|]. rewrite IH. reflexivity. Qed.

Lemma add_read_length c b e : length (add_read c b e) = length c.
Proof. apply add_from_length. Qed.

Lemma add_from_nth c : forall off b e j,
  nth j (add_from c off b e) 0 =
  nth j c 0 + (if (b <=? off + j) && (off + j <? e) && (j <? length c) then 1 else 0).
Proof.
  induction c as [|x c IH]; intros off b e j; simpl.
  - destruct j; simpl; rewrite andb_false_r; lia.
  - destruct j as [|j].
    + rewrite Nat.add_0_r. simpl. rewrite andb_true_r.
      destruct ((b <=? off) && (off <? e)); lia.
    + rewrite IH. replace (S off + j) with (off + S j) by lia.
      change (S j <? S (length c)) with (j <? length c). reflexivity.
Qed.

Lemma add_read_cv c b e i :
  cv (add_read c b e) i = cv c i + (if (b <=? i) && (i <? e) && (i <? length c) then 1 else 0).
Proof. unfold cv, add_read. rewrite add_from_nth. reflexivity. Qed.

Lemma cv_out c i : length c <= i -> cv c i = 0.
Proof. intro H. unfold cv. apply nth_overflow. exact H. Qed.

Lemma cov_init_cv n i : cv (cov_init n) i = 0.
Proof.
  unfold cv, cov_init. destruct (Nat.lt_ge_cases i n) as [H | H].
  - apply nth_repeat.
  - apply nth_overflow. rewrite repeat_length. exact H.
Qed.

Lemma nth_skipn_nat : forall b (c : list nat) j, nth j (skipn b c) 0 = nth (b + j) c 0.
Proof.
  induction b as [|b IH]; intros c j; simpl; [reflexivity|].
  destruct c as [|x c]; simpl; [destruct j; reflexivity|]. apply IH.
Qed.

Lemma nth_firstn_nat : forall m (l : list nat) j, j < m -> nth j (firstn m l) 0 = nth j l 0.
Proof.
  induction m as [|m IH]; intros l j H; [lia|].
  destruct l as [|x l]; simpl; [reflexivity|].
  destruct j as [|j]; [reflexivity|]. apply IH. lia.
Qed.

Lemma cov_slice_In c b e x :
  In x (cov_slice c b e) <-> exists i, b <= i /\ i < e /\ i < length c /\ x = cv c i.
Proof.
  unfold cov_slice, cv. split.
  - intro H. apply (In_nth _ _ 0) in H. destruct H as [j [Hj E]].
    rewrite firstn_length, skipn_length in Hj.
    rewrite nth_firstn_nat in E by lia.
    rewrite nth_skipn_nat in E. exists (b + j). subst x. repeat split; lia || reflexivity.
  - intros [i (H1 & H2 & H3 & ->)].
    replace i with (b + (i - b)) by lia. rewrite <- nth_skipn_nat.
    rewrite <- (nth_firstn_nat (e - b)) by lia.
    apply nth_In. rewrite firstn_length, skipn_length. lia.
Qed.

Lemma list_max_In l : l <> [] -> In (list_max l) l.
Proof.
  induction l as [|a l IH]; intro H; [congruence|]. simpl.
  destruct l as [|b l].
  - simpl. left. lia.
  - assert (Hne : b :: l <> []) by congruence. specialize (IH Hne).
    change (list_max (b :: l)) with (Nat.max b (list_max l)) in *.
    destruct (Nat.max_spec a (Nat.max b (list_max l))) as [[_ E] | [_ E]].
    + right. simpl in E. rewrite E. exact IH.
    + left. simpl in E. rewrite E. reflexivity.
Qed.

Lemma list_max_ge l x : In x l -> x <= list_max l.
Proof.
  intro H. pose proof (proj1 (list_max_le l (list_max l)) (le_n _)) as F.
  rewrite Forall_forall in F. apply F. exact H.
Qed.

(* some index of the range carries the maximum, when that maximum is positive *)
Lemma max_range_witness c b e k : 1 <= k -> k <= max_coverage_in_range c b e ->
  exists i, b <= i /\ i < e /\ i < length c /\ k <= cv c i.
Proof.
  unfold max_coverage_in_range. intros Hk H.
  assert (Hne : cov_slice c b e <> []).
  { intro E. rewrite E in H. simpl in H. lia. }
  pose proof (list_max_In _ Hne) as Hin. apply cov_slice_In in Hin.
  destruct Hin as [i (H1 & H2 & H3 & E)]. exists i. repeat split; try assumption. lia.
Qed.

Lemma max_range_ge c b e i : b <= i -> i < e -> i < length c -> cv c i <= max_coverage_in_range c b e.
Proof.
  intros H1 H2 H3. unfold max_coverage_in_range. apply list_max_ge. apply cov_slice_In.
  exists i. repeat split; assumption.
Qed.

Lemma max_range_lt c b e k i : max_coverage_in_range c b e < k -> b <= i -> i < e -> cv c i < k.
Proof.
  intros H H1 H2. destruct (Nat.lt_ge_cases i (length c)) as [H3 | H3].
  - pose proof (max_range_ge c b e i H1 H2 H3). lia.
  - rewrite cv_out by exact H3. lia.
Qed.

Lemma max_range_mono c c' b e : length c = length c' -> (forall i, cv c i <= cv c' i) ->
  max_coverage_in_range c b e <= max_coverage_in_range c' b e.
Proof.
  intros HL Hle. destruct (max_coverage_in_range c b e) as [|m] eqn:E; [lia|].
  destruct (max_range_witness c b e (S m)) as [i (H1 & H2 & H3 & H4)]; [lia | lia |].
  pose proof (max_range_ge c' b e i H1 H2). specialize (Hle i). lia.
Qed.

Lemma add_read_ge c b e i : cv c i <= cv (add_read c b e) i.
Proof. rewrite add_read_cv. lia. Qed.

(* ---------------------------------------------------------------------------------------------- *)
(* 3. well-formed reads, span counts                                                               *)

Lemma increasing_lt : forall r x y tl, r = x :: tl -> increasing r = true -> In y tl -> x < y.
Proof.
  intros r x y tl -> . revert x. induction tl as [|z tl IH]; intros x Hinc Hin; [destruct Hin|].
  simpl in Hinc. apply andb_true_iff in Hinc. destruct Hinc as [H1 H2]. apply Nat.ltb_lt in H1.
  destruct Hin as [-> | Hin]; [exact H1|].
  specialize (IH z H2 Hin). lia.
Qed.

Lemma wf_read_spec n r : wf_read n r = true ->
  2 <= length r /\ increasing r = true /\ forall v, In v r -> v < n.
Proof.
  unfold wf_read. rewrite !andb_true_iff. intros [[H1 H2] H3].
  apply Nat.leb_le in H1. rewrite forallb_forall in H3.
  repeat split; try assumption. intros v Hv. apply Nat.ltb_lt. apply H3. exact Hv.
Qed.

Lemma wf_reads_get n reads ri : wf_reads n reads = true -> ri < length reads ->
  wf_read n (get_read reads ri) = true.
Proof.
  unfold wf_reads, get_read. rewrite forallb_forall. intros H L. apply H. apply nth_In. exact L.
Qed.

Definition sc := span_count.

Lemma sc_nil reads i : sc reads [] i = 0.
Proof. reflexivity. Qed.

Lemma sc_snoc reads l x i :
  sc reads (l ++ [x]) i = sc reads l i + (if spans (get_read reads x) i then 1 else 0).
Proof.
  unfold sc, span_count. rewrite filter_app, app_length. simpl.
  destruct (spans (get_read reads x) i); simpl; lia.
Qed.

Lemma sc_set_add reads l x i :
  sc reads (set_add x l) i =
  sc reads l i + (if mem x l then 0 else if spans (get_read reads x) i then 1 else 0).
Proof.
  unfold set_add. destruct (mem x l); [lia|]. apply sc_snoc.
Qed.

Lemma spans_range r i : spans r i = true <-> rbegin r <= i /\ i < rend r.
Proof. unfold spans. rewrite andb_true_iff, Nat.leb_le, Nat.ltb_lt. tauto. Qed.
