(* Proofs for C07 (read selection).  Stdlib style.
   Route: a state invariant GInv over (coverage monitor, selected, undecided) that is preserved by the
   three possible decisions (violates / selected / skipped) whatever read is popped; the slice loop and
   the bridging loop are sequences of such decisions; progress comes from the first pop of a slice. *)
From Coq Require Import Arith List Bool ZArith Lia Relations.
From WH.Model Require Import UnionFind UFSpec ReadSelect.
From WH.Proofs Require Import UFProofs.
Import ListNotations.

(* ---------------------------------------------------------------------------------------------- *)
(* 1. sets as lists                                                                                *)

Lemma mem_In x l : mem x l = true <-> In x l.
Proof.
  unfold mem. rewrite existsb_exists. split.
  - intros [y [Hy E]]. apply Nat.eqb_eq in E. subst. exact Hy.
  - intro H. exists x. split; [exact H | apply Nat.eqb_refl].
Qed.

Lemma mem_false x l : mem x l = false <-> ~ In x l.
Proof.
  rewrite <- mem_In. destruct (mem x l); split; intro H; try congruence.
Qed.

Lemma set_add_In x y l : In y (set_add x l) <-> y = x \/ In y l.
Proof.
  unfold set_add. destruct (mem x l) eqn:E.
  - apply mem_In in E. split; [auto|]. intros [-> | H]; assumption.
  - rewrite in_app_iff. simpl. split; intros [H | H]; auto.
    + destruct H as [H | []]. auto.
Qed.

Lemma NoDup_snoc (x : nat) l : NoDup l -> ~ In x l -> NoDup (l ++ [x]).
Proof.
  induction l as [|a l IH]; intros H N; simpl.
  - constructor; [intros []|constructor].
  - inversion H as [|a' l' Ha Hl]; subst. constructor.
    + rewrite in_app_iff. simpl. intros [H1 | [H1 | []]]; [auto|]. subst. apply N. left. reflexivity.
    + apply IH; [exact Hl|]. intro H1. apply N. right. exact H1.
Qed.

Lemma set_add_NoDup x l : NoDup l -> NoDup (set_add x l).
Proof.
  intro H. unfold set_add. destruct (mem x l) eqn:E; [exact H|].
  apply mem_false in E. apply NoDup_snoc; assumption.
Qed.

Lemma set_union_snoc l a x : set_union l (a ++ [x]) = set_add x (set_union l a).
Proof. unfold set_union. rewrite fold_left_app. reflexivity. Qed.

Lemma set_union_In l a y : In y (set_union l a) <-> In y l \/ In y a.
Proof.
  revert l. induction a as [|x a IH]; intro l; simpl.
  - tauto.
  - unfold set_union in *. simpl. rewrite IH. rewrite set_add_In. split; intros [H | H]; auto.
    + destruct H as [-> | H]; auto.
    + destruct H as [-> | H]; auto.
Qed.

Lemma set_union_NoDup l a : NoDup l -> NoDup (set_union l a).
Proof.
  revert l. induction a as [|x a IH]; intros l H; simpl; [exact H|].
  unfold set_union in *. simpl. apply IH. apply set_add_NoDup. exact H.
Qed.

Lemma set_union_set_add l a x : set_union l (set_add x a) = set_add x (set_union l a).
Proof.
  unfold set_add at 1. destruct (mem x a) eqn:E.
  - apply mem_In in E. unfold set_add.
    assert (H : mem x (set_union l a) = true) by (apply mem_In, set_union_In; auto).
    rewrite H. reflexivity.
  - apply set_union_snoc.
Qed.

Lemma set_diff_In l rm y : In y (set_diff l rm) <-> In y l /\ ~ In y rm.
Proof.
  unfold set_diff. rewrite filter_In. rewrite negb_true_iff, mem_false. tauto.
Qed.

Lemma NoDup_filter_nat (f : nat -> bool) l : NoDup l -> NoDup (filter f l).
Proof.
  induction l as [|a l IH]; intro H; simpl; [constructor|].
  inversion H as [|a' l' Ha Hl]; subst. destruct (f a).
  - constructor; [|apply IH; exact Hl]. rewrite filter_In. tauto.
  - apply IH; exact Hl.
Qed.

Lemma set_diff_NoDup l rm : NoDup l -> NoDup (set_diff l rm).
Proof. apply NoDup_filter_nat. Qed.

Lemma set_remove_In x l y : In y (set_remove x l) <-> In y l /\ y <> x.
Proof.
  unfold set_remove. rewrite filter_In, negb_true_iff, Nat.eqb_neq. tauto.
Qed.

Lemma set_remove_NoDup x l : NoDup l -> NoDup (set_remove x l).
Proof. apply NoDup_filter_nat. Qed.

Lemma filter_length_le (f : nat -> bool) l : length (filter f l) <= length l.
Proof. induction l as [|a l IH]; simpl; [lia|]. destruct (f a); simpl; lia. Qed.

Lemma filter_length_lt (f : nat -> bool) l x : In x l -> f x = false -> length (filter f l) < length l.
Proof.
  induction l as [|a l IH]; intros Hin Hf; simpl; [destruct Hin|].
  destruct Hin as [-> | Hin].
  - rewrite Hf. pose proof (filter_length_le f l). lia.
  - specialize (IH Hin Hf). destruct (f a); simpl; lia.
Qed.

Lemma nodupb_NoDup l : nodupb l = true <-> NoDup l.
Proof.
  induction l as [|a l IH]; simpl.
  - split; [constructor | reflexivity].
  - rewrite andb_true_iff, negb_true_iff, mem_false, IH. split.
    + intros [H1 H2]. constructor; assumption.
    + intro H. inversion H; subst. split; assumption.
Qed.

Lemma subsetb_incl a b : subsetb a b = true <-> forall x, In x a -> In x b.
Proof.
  unfold subsetb. rewrite forallb_forall. split; intros H x Hx.
  - apply mem_In. apply H. exact Hx.
  - apply mem_In. apply H. exact Hx.
Qed.

Lemma is_perm_spec order u : is_perm order u = true ->
  NoDup order /\ forall x, In x order <-> In x u.
Proof.
  unfold is_perm. rewrite !andb_true_iff. intros [[H1 H2] H3].
  apply nodupb_NoDup in H1. rewrite subsetb_incl in H2, H3.
  split; [exact H1|]. intro x. split; auto.
Qed.

Lemma is_perm_refl u : NoDup u -> is_perm u u = true.
Proof.
  intro H. unfold is_perm. rewrite !andb_true_iff. split; [split|].
  - apply nodupb_NoDup. exact H.
  - apply subsetb_incl. auto.
  - apply subsetb_incl. auto.
Qed.

(* ---------------------------------------------------------------------------------------------- *)
(* 2. the coverage monitor                                                                         *)

Definition cv (c : covmon) (i : nat) : nat := nth i c 0.

Lemma add_from_length c : forall i b e, length (add_from c i b e) = length c.
Proof. induction c as [|x c IH]; intros i b e; simpl; [reflexivity|]. rewrite IH. reflexivity. Qed.

Lemma add_read_length c b e : length (add_read c b e) = length c.
Proof. apply add_from_length. Qed.

Lemma add_from_nth c : forall off b e j,
  nth j (add_from c off b e) 0 =
  nth j c 0 + (if (b <=? off + j) && (off + j <? e) && (j <? length c) then 1 else 0).
Proof.
  induction c as [|x c IH]; intros off b e j; simpl.
  - destruct j; simpl; rewrite andb_false_r; lia.
  - destruct j as [|j].
    + rewrite Nat.add_0_r. simpl. rewrite andb_true_r.
      destruct ((b <=? off) && (off <? e)); lia.
    + rewrite IH. replace (S off + j) with (off + S j) by lia.
      change (S j <? S (length c)) with (j <? length c). reflexivity.
Qed.

Lemma add_read_cv c b e i :
  cv (add_read c b e) i = cv c i + (if (b <=? i) && (i <? e) && (i <? length c) then 1 else 0).
Proof. unfold cv, add_read. rewrite add_from_nth. reflexivity. Qed.

Lemma cv_out c i : length c <= i -> cv c i = 0.
Proof. intro H. unfold cv. apply nth_overflow. exact H. Qed.

Lemma cov_init_cv n i : cv (cov_init n) i = 0.
Proof.
  unfold cv, cov_init. destruct (Nat.lt_ge_cases i n) as [H | H].
  - apply nth_repeat.
  - apply nth_overflow. rewrite repeat_length. exact H.
Qed.

Lemma nth_skipn_nat : forall b (c : list nat) j, nth j (skipn b c) 0 = nth (b + j) c 0.
Proof.
  induction b as [|b IH]; intros c j; simpl; [reflexivity|].
  destruct c as [|x c]; simpl; [destruct j; reflexivity|]. apply IH.
Qed.

Lemma nth_firstn_nat : forall m (l : list nat) j, j < m -> nth j (firstn m l) 0 = nth j l 0.
Proof.
  induction m as [|m IH]; intros l j H; [lia|].
  destruct l as [|x l]; simpl; [reflexivity|].
  destruct j as [|j]; [reflexivity|]. apply IH. lia.
Qed.

Lemma cov_slice_In c b e x :
  In x (cov_slice c b e) <-> exists i, b <= i /\ i < e /\ i < length c /\ x = cv c i.
Proof.
  unfold cov_slice, cv. split.
  - intro H. apply (In_nth _ _ 0) in H. destruct H as [j [Hj E]].
    rewrite firstn_length, skipn_length in Hj.
    rewrite nth_firstn_nat in E by lia.
    rewrite nth_skipn_nat in E. exists (b + j). subst x. repeat split; lia || reflexivity.
  - intros [i (H1 & H2 & H3 & ->)].
    replace i with (b + (i - b)) by lia. rewrite <- nth_skipn_nat.
    rewrite <- (nth_firstn_nat (e - b)) by lia.
    apply nth_In. rewrite firstn_length, skipn_length. lia.
Qed.

Lemma list_max_In l : l <> [] -> In (list_max l) l.
Proof.
  induction l as [|a l IH]; intro H; [congruence|]. simpl.
  destruct l as [|b l].
  - simpl. left. lia.
  - assert (Hne : b :: l <> []) by congruence. specialize (IH Hne).
    change (list_max (b :: l)) with (Nat.max b (list_max l)) in *.
    destruct (Nat.max_spec a (Nat.max b (list_max l))) as [[_ E] | [_ E]].
    + right. simpl in E. rewrite E. exact IH.
    + left. simpl in E. rewrite E. reflexivity.
Qed.

Lemma list_max_ge l x : In x l -> x <= list_max l.
Proof.
  intro H. pose proof (proj1 (list_max_le l (list_max l)) (le_n _)) as F.
  rewrite Forall_forall in F. apply F. exact H.
Qed.

(* some index of the range carries the maximum, when that maximum is positive *)
Lemma max_range_witness c b e k : 1 <= k -> k <= max_coverage_in_range c b e ->
  exists i, b <= i /\ i < e /\ i < length c /\ k <= cv c i.
Proof.
  unfold max_coverage_in_range. intros Hk H.
  assert (Hne : cov_slice c b e <> []).
  { intro E. rewrite E in H. simpl in H. lia. }
  pose proof (list_max_In _ Hne) as Hin. apply cov_slice_In in Hin.
  destruct Hin as [i (H1 & H2 & H3 & E)]. exists i. repeat split; try assumption. lia.
Qed.

Lemma max_range_ge c b e i : b <= i -> i < e -> i < length c -> cv c i <= max_coverage_in_range c b e.
Proof.
  intros H1 H2 H3. unfold max_coverage_in_range. apply list_max_ge. apply cov_slice_In.
  exists i. repeat split; assumption.
Qed.

Lemma max_range_lt c b e k i : max_coverage_in_range c b e < k -> b <= i -> i < e -> cv c i < k.
Proof.
  intros H H1 H2. destruct (Nat.lt_ge_cases i (length c)) as [H3 | H3].
  - pose proof (max_range_ge c b e i H1 H2 H3). lia.
  - rewrite cv_out by exact H3. lia.
Qed.

Lemma max_range_mono c c' b e : length c = length c' -> (forall i, cv c i <= cv c' i) ->
  max_coverage_in_range c b e <= max_coverage_in_range c' b e.
Proof.
  intros HL Hle. destruct (max_coverage_in_range c b e) as [|m] eqn:E; [lia|].
  destruct (max_range_witness c b e (S m)) as [i (H1 & H2 & H3 & H4)]; [lia | lia |].
  pose proof (max_range_ge c' b e i H1 H2). specialize (Hle i). lia.
Qed.

Lemma add_read_ge c b e i : cv c i <= cv (add_read c b e) i.
Proof. rewrite add_read_cv. lia. Qed.

(* ---------------------------------------------------------------------------------------------- *)
(* 3. well-formed reads, span counts                                                               *)

Lemma increasing_lt : forall r x y tl, r = x :: tl -> increasing r = true -> In y tl -> x < y.
Proof.
  intros r x y tl -> . revert x. induction tl as [|z tl IH]; intros x Hinc Hin; [destruct Hin|].
  simpl in Hinc. apply andb_true_iff in Hinc. destruct Hinc as [H1 H2]. apply Nat.ltb_lt in H1.
  destruct Hin as [-> | Hin]; [exact H1|].
  specialize (IH z H2 Hin). lia.
Qed.

Lemma wf_read_spec n r : wf_read n r = true ->
  2 <= length r /\ increasing r = true /\ forall v, In v r -> v < n.
Proof.
  unfold wf_read. rewrite !andb_true_iff. intros [[H1 H2] H3].
  apply Nat.leb_le in H1. rewrite forallb_forall in H3.
  repeat split; try assumption. intros v Hv. apply Nat.ltb_lt. apply H3. exact Hv.
Qed.

Lemma wf_reads_get n reads ri : wf_reads n reads = true -> ri < length reads ->
  wf_read n (get_read reads ri) = true.
Proof.
  unfold wf_reads, get_read. rewrite forallb_forall. intros H L. apply H. apply nth_In. exact L.
Qed.

Definition sc := span_count.

Lemma sc_nil reads i : sc reads [] i = 0.
Proof. reflexivity. Qed.

Lemma sc_snoc reads l x i :
  sc reads (l ++ [x]) i = sc reads l i + (if spans (get_read reads x) i then 1 else 0).
Proof.
  unfold sc, span_count. rewrite filter_app, app_length. simpl.
  destruct (spans (get_read reads x) i); simpl; lia.
Qed.

Lemma sc_set_add reads l x i :
  sc reads (set_add x l) i =
  sc reads l i + (if mem x l then 0 else if spans (get_read reads x) i then 1 else 0).
Proof.
  unfold set_add. destruct (mem x l); [lia|]. apply sc_snoc.
Qed.

Lemma spans_range r i : spans r i = true <-> rbegin r <= i /\ i < rend r.
Proof. unfold spans. rewrite andb_true_iff, Nat.leb_le, Nat.ltb_lt. tauto. Qed.

Lemma wf_read_span n r : wf_read n r = true -> rbegin r < rend r /\ rend r <= n.
Proof.
  intro H. apply wf_read_spec in H. destruct H as (H2 & Hinc & Hlt).
  destruct r as [|x [|y tl]]; simpl in H2; try lia.
  unfold rbegin, rend. cbn [hd].
  assert (Hl : In (last (x :: y :: tl) 0) (y :: tl)).
  { change (last (x :: y :: tl) 0) with (last (y :: tl) 0).
    destruct (exists_last (l := y :: tl)) as [l' [a E]]; [congruence|].
    rewrite E. rewrite last_last. apply in_or_app. right. left. reflexivity. }
  pose proof (increasing_lt _ x _ (y :: tl) eq_refl Hinc Hl) as H1.
  assert (H3 : last (x :: y :: tl) 0 < n) by (apply Hlt; right; exact Hl).
  lia.
Qed.

Lemma set_diff_nil l : set_diff l [] = l.
Proof. unfold set_diff. induction l as [|a l IH]; simpl; [reflexivity|]. f_equal. exact IH. Qed.

Lemma covers_new_nil r : r <> [] -> covers_new [] r = true.
Proof. destruct r as [|x r]; [congruence|]. intros _. reflexivity. Qed.

(* ---------------------------------------------------------------------------------------------- *)
(* 4. the state invariant and the three decisions                                                  *)

Section Invariant.
Variables (reads : list read) (n k : nat).
Hypothesis Hwf : wf_reads n reads = true.
(* D: the reads that take part in the current phase (the preferred ones / all of them) *)
Variable D : nat -> Prop.
Hypothesis HD : forall r, D r -> r < length reads.

Definition span_b (ri : nat) : nat := rbegin (get_read reads ri).
Definition span_e (ri : nat) : nat := rend (get_read reads ri).
(* read ri was / would be rejected: the monitor shows >= k somewhere on its span *)
Definition blockedP (c : covmon) (ri : nat) : Prop := k <= max_coverage_in_range c (span_b ri) (span_e ri).

Record GInv (x : bool) (c : covmon) (sl ud : list nat) : Prop := {
  gi_len : length c = n;
  gi_cap : forall i, cv c i <= k;
  gi_cnt : forall i, sc reads sl i <= cv c i;
  gi_nd_sel : NoDup sl;
  gi_nd_und : NoDup ud;
  gi_dom : forall r, In r sl \/ In r ud -> D r;
  gi_dec : forall r, D r -> In r sl \/ In r ud \/ blockedP c r;
  gi_exact : x = true -> (forall i, sc reads sl i = cv c i) /\ (forall r, In r sl -> ~ In r ud) }.

Lemma span_wf ri : ri < length reads -> span_b ri < span_e ri /\ span_e ri <= n.
Proof. intro H. apply wf_read_span. apply wf_reads_get; assumption. Qed.

Lemma dec_violates x c sl ud ud' ri :
  GInv x c sl ud -> blockedP c ri -> NoDup ud' ->
  (forall y, In y ud' <-> In y ud /\ y <> ri) -> GInv x c sl ud'.
Proof.
  intros G B ND E. destruct G. constructor; try assumption.
  - intros r [H | H]; apply gi_dom0; [left; exact H | right; apply E in H; tauto].
  - intros r Hr. destruct (gi_dec0 r Hr) as [H | [H | H]]; auto.
    destruct (Nat.eq_dec r ri) as [-> | Hne]; [auto|]. right. left. apply E. tauto.
  - intro Hx. destruct (gi_exact0 Hx) as [H1 H2]. split; [exact H1|].
    intros r Hr Hin. apply E in Hin. apply (H2 r Hr). tauto.
Qed.

Lemma dec_selected x c sl ud ud' ri :
  GInv x c sl ud -> In ri ud -> max_coverage_in_range c (span_b ri) (span_e ri) < k -> NoDup ud' ->
  (forall y, In y ud' <-> In y ud /\ y <> ri) ->
  GInv x (add_read c (span_b ri) (span_e ri)) (set_add ri sl) ud'.
Proof.
  intros G Hin Hlt ND E. destruct G.
  assert (Dri : D ri) by (apply gi_dom0; right; exact Hin).
  destruct (span_wf ri (HD ri Dri)) as [Hbe Hen].
  assert (Hsp : forall i, spans (get_read reads ri) i = true ->
                          (span_b ri <=? i) && (i <? span_e ri) && (i <? length c) = true).
  { intros i Hs. apply spans_range in Hs. fold (span_b ri) (span_e ri) in Hs.
    rewrite !andb_true_iff, Nat.leb_le, !Nat.ltb_lt. lia. }
  constructor.
  - rewrite add_read_length. exact gi_len0.
  - intro i. rewrite add_read_cv.
    destruct ((span_b ri <=? i) && (i <? span_e ri) && (i <? length c)) eqn:Er.
    + rewrite !andb_true_iff, Nat.leb_le, !Nat.ltb_lt in Er.
      pose proof (max_range_lt c _ _ k i Hlt (proj1 (proj1 Er)) (proj2 (proj1 Er))). lia.
    + pose proof (gi_cap0 i). lia.
  - intro i. rewrite add_read_cv, sc_set_add. pose proof (gi_cnt0 i) as Hc.
    destruct (mem ri sl); [lia|].
    destruct (spans (get_read reads ri) i) eqn:Es; [|lia].
    rewrite (Hsp i Es). lia.
  - apply set_add_NoDup. exact gi_nd_sel0.
  - exact ND.
  - intros r [H | H].
    + apply set_add_In in H. destruct H as [-> | H]; [exact Dri | apply gi_dom0; left; exact H].
    + apply gi_dom0. right. apply E in H. tauto.
  - intros r Hr. destruct (Nat.eq_dec r ri) as [-> | Hne].
    + left. apply set_add_In. left. reflexivity.
    + destruct (gi_dec0 r Hr) as [H | [H | H]].
      * left. apply set_add_In. right. exact H.
      * right. left. apply E. tauto.
      * right. right. unfold blockedP in *.
        pose proof (max_range_mono c (add_read c (span_b ri) (span_e ri)) (span_b r) (span_e r)
                      (eq_sym (add_read_length _ _ _)) (add_read_ge c _ _)). lia.
  - intro Hx. destruct (gi_exact0 Hx) as [H1 H2].
    assert (Hnot : ~ In ri sl) by (intro H; apply (H2 ri H Hin)).
    apply mem_false in Hnot. split.
    + intro i. rewrite add_read_cv, sc_set_add, Hnot, H1.
      destruct (spans (get_read reads ri) i) eqn:Es.
      * rewrite (Hsp i Es). reflexivity.
      * unfold spans in Es. fold (span_b ri) (span_e ri) in Es. rewrite Es. reflexivity.
    + intros r Hr Hu. apply E in Hu. apply set_add_In in Hr. destruct Hr as [-> | Hr]; [tauto|].
      apply (H2 r Hr). tauto.
Qed.

(* ---- the slice loop ------------------------------------------------------------------------- *)
Variables (sl0 ud0 : list nat).

Definition eff_sel (ss : slice_st) : list nat := set_union sl0 (s_in ss).
Definition eff_und (ss : slice_st) : list nat := set_diff (set_diff ud0 (s_in ss)) (s_viol ss).
Definition SInv (x : bool) (ss : slice_st) : Prop := GInv x (s_cov ss) (eff_sel ss) (eff_und ss).

Lemma eff_und_In ss y : In y (eff_und ss) <-> In y ud0 /\ ~ In y (s_in ss) /\ ~ In y (s_viol ss).
Proof. unfold eff_und. rewrite !set_diff_In. tauto. Qed.

Lemma eff_und_NoDup ss : NoDup ud0 -> NoDup (eff_und ss).
Proof. intro H. unfold eff_und. apply set_diff_NoDup, set_diff_NoDup. exact H. Qed.

Lemma slice_step_inv x ss ri ss' d :
  SInv x ss -> NoDup ud0 -> In ri ud0 -> ~ In ri (s_in ss) -> ~ In ri (s_viol ss) ->
  slice_step reads k ss ri = (ss', d) ->
  SInv x ss' /\
  (forall y, In y (s_in ss) -> In y (s_in ss')) /\ (forall y, In y (s_viol ss) -> In y (s_viol ss')) /\
  (forall y, In y (s_in ss') \/ In y (s_viol ss') -> y = ri \/ In y (s_in ss) \/ In y (s_viol ss)) /\
  (d <> Skipped -> In ri (s_in ss') \/ In ri (s_viol ss')).
Proof.
  intros G ND Hu Hni Hnv Hs. unfold slice_step in Hs. fold (span_b ri) (span_e ri) in Hs.
  assert (Hin : In ri (eff_und ss)) by (apply eff_und_In; tauto).
  destruct (k <=? max_coverage_in_range (s_cov ss) (span_b ri) (span_e ri)) eqn:Ek.
  - apply Nat.leb_le in Ek. injection Hs as <- <-. cbn [s_cov s_in s_viol s_covered].
    split; [|split; [|split; [|split]]].
    + unfold SInv. cbn [s_cov]. unfold eff_sel. cbn [s_in].
      apply (dec_violates x _ _ (eff_und ss) _ ri G Ek).
      * apply eff_und_NoDup. exact ND.
      * intro y. rewrite !eff_und_In. cbn [s_in s_viol]. rewrite set_add_In. tauto.
    + auto.
    + intros y H. apply set_add_In. auto.
    + intros y [H | H]; [auto|]. apply set_add_In in H. tauto.
    + intros _. right. apply set_add_In. auto.
  - apply Nat.leb_gt in Ek. destruct (covers_new (s_covered ss) (get_read reads ri)) eqn:Ec.
    + injection Hs as <- <-. cbn [s_cov s_in s_viol s_covered].
      split; [|split; [|split; [|split]]].
      * unfold SInv. cbn [s_cov]. unfold eff_sel. cbn [s_in]. rewrite set_union_set_add.
        apply (dec_selected x _ _ (eff_und ss) _ ri G Hin Ek).
        -- apply eff_und_NoDup. exact ND.
        -- intro y. rewrite !eff_und_In. cbn [s_in s_viol]. rewrite set_add_In. tauto.
      * intros y H. apply set_add_In. auto.
      * auto.
      * intros y [H | H]; [|auto]. apply set_add_In in H. tauto.
      * intros _. left. apply set_add_In. auto.
    + injection Hs as <- <-. split; [exact G|]. split; [auto|]. split; [auto|]. split; [tauto|congruence].
Qed.

Lemma slice_run_inv x : forall order ss ss' ds,
  SInv x ss -> NoDup ud0 -> NoDup order ->
  (forall y, In y order -> In y ud0 /\ ~ In y (s_in ss) /\ ~ In y (s_viol ss)) ->
  slice_run reads k ss order = (ss', ds) ->
  SInv x ss' /\
  (forall y, In y (s_in ss) -> In y (s_in ss')) /\ (forall y, In y (s_viol ss) -> In y (s_viol ss')) /\
  (forall y, In y (s_in ss') \/ In y (s_viol ss') -> In y order \/ In y (s_in ss) \/ In y (s_viol ss)).
Proof.
  induction order as [|ri rest IH]; intros ss ss' ds G ND NDo Hord Hr; simpl in Hr.
  - injection Hr as <- <-. split; [exact G|]. split; [auto|]. split; [auto|]. tauto.
  - destruct (slice_step reads k ss ri) as [ss1 d] eqn:Es.
    destruct (slice_run reads k ss1 rest) as [ss2 ds2] eqn:Er.
    injection Hr as <- <-.
    destruct (Hord ri (or_introl eq_refl)) as (Hu & Hni & Hnv).
    destruct (slice_step_inv x ss ri ss1 d G ND Hu Hni Hnv Es) as (G1 & M1 & M2 & M3 & _).
    inversion NDo as [|a l Hnotin NDrest]; subst.
    assert (Hord' : forall y, In y rest -> In y ud0 /\ ~ In y (s_in ss1) /\ ~ In y (s_viol ss1)).
    { intros y Hy. destruct (Hord y (or_intror Hy)) as (H1 & H2 & H3).
      split; [exact H1|].
      assert (Hne : y <> ri) by (intros ->; apply Hnotin; exact Hy).
      split; intro H; destruct (M3 y) as [E | [E | E]]; auto. }
    destruct (IH ss1 ss2 ds2 G1 ND NDrest Hord' Er) as (G2 & N1 & N2 & N3).
    split; [exact G2|]. split; [auto|]. split; [auto|].
    intros y Hy. destruct (N3 y Hy) as [H | H].
    + left. right. exact H.
    + destruct (M3 y H) as [-> | H']; [left; left; reflexivity | right; exact H'].
Qed.

(* the first pop of a slice is decided (it sees an empty already_covered set) *)
Lemma slice_run_first x ri rest ss ss' ds :
  SInv x ss -> NoDup ud0 -> NoDup (ri :: rest) ->
  (forall y, In y (ri :: rest) -> In y ud0 /\ ~ In y (s_in ss) /\ ~ In y (s_viol ss)) ->
  s_covered ss = [] -> D ri ->
  slice_run reads k ss (ri :: rest) = (ss', ds) ->
  In ri (s_in ss') \/ In ri (s_viol ss').
Proof.
  intros G ND NDo Hord Hc Dri Hr. simpl in Hr.
  destruct (slice_step reads k ss ri) as [ss1 d] eqn:Es.
  destruct (slice_run reads k ss1 rest) as [ss2 ds2] eqn:Er.
  injection Hr as <- <-.
  destruct (Hord ri (or_introl eq_refl)) as (Hu & Hni & Hnv).
  destruct (slice_step_inv x ss ri ss1 d G ND Hu Hni Hnv Es) as (G1 & M1 & M2 & M3 & M4).
  assert (Hd : d <> Skipped).
  { unfold slice_step in Es. destruct (k <=? _); [injection Es as _ <-; congruence|].
    rewrite Hc in Es. rewrite covers_new_nil in Es; [injection Es as _ <-; congruence|].
    pose proof (wf_reads_get n reads ri Hwf (HD ri Dri)) as W. apply wf_read_spec in W.
    destruct (get_read reads ri); simpl in W; [lia | congruence]. }
  inversion NDo as [|a l Hnotin NDrest]; subst.
  assert (Hord' : forall y, In y rest -> In y ud0 /\ ~ In y (s_in ss1) /\ ~ In y (s_viol ss1)).
  { intros y Hy. destruct (Hord y (or_intror Hy)) as (H1 & H2 & H3).
    split; [exact H1|].
    assert (Hne : y <> ri) by (intros ->; apply Hnotin; exact Hy).
    split; intro H; destruct (M3 y) as [E | [E | E]]; auto. }
  destruct (slice_run_inv x rest ss1 ss2 ds2 G1 ND NDrest Hord' Er) as (_ & N1 & N2 & _).
  destruct (M4 Hd) as [H | H]; auto.
Qed.

End Invariant.

(* ---------------------------------------------------------------------------------------------- *)
(* 5. the component finder never fails on well-formed reads                                        *)

Section CF.
Variables (reads : list read) (n : nat).
Hypothesis Hwf : wf_reads n reads = true.

Definition CFok (cf : uf) : Prop := (exists ms, Inv ms cf) /\ dom cf = seq 0 n.

Lemma CFok_init : CFok (uf_init (seq 0 n)).
Proof. split; [exists []; apply Inv_init | reflexivity]. Qed.

Lemma CFok_in_dom cf v : CFok cf -> v < n -> in_dom cf v = true.
Proof. intros [_ Hd] H. apply in_dom_iff. rewrite Hd. apply in_seq. lia. Qed.

Lemma fold_merge_ok x : forall tl cf, CFok cf -> x < n -> (forall y, In y tl -> x < y /\ y < n) ->
  exists cf', fold_left (fun acc y => match acc with inl s => merge s x y | inr e => inr e end) tl (inl cf)
              = inl cf' /\ CFok cf'.
Proof.
  induction tl as [|y tl IH]; intros cf C Hx Hy; simpl.
  - exists cf. split; [reflexivity | exact C].
  - destruct (Hy y (or_introl eq_refl)) as [Hxy Hyn].
    destruct C as [[ms I] Hd].
    assert (Dx : in_dom cf x = true) by (apply CFok_in_dom; [split; [exists ms; exact I | exact Hd] | exact Hx]).
    assert (Dy : in_dom cf y = true) by (apply CFok_in_dom; [split; [exists ms; exact I | exact Hd] | exact Hyn]).
    destruct (merge_ok ms cf x y I ltac:(lia) Dx Dy) as (s' & Hm & Hd' & I').
    rewrite Hm. apply IH.
    + split; [exists (ms ++ [(x, y)]); exact I' | congruence].
    + exact Hx.
    + intros z Hz. apply Hy. right. exact Hz.
Qed.

Lemma merge_read_ok cf r : CFok cf -> wf_read n r = true -> exists cf', merge_read cf r = inl cf' /\ CFok cf'.
Proof.
  intros C W. apply wf_read_spec in W. destruct W as (_ & Hinc & Hlt).
  destruct r as [|x tl]; simpl.
  - exists cf. split; [reflexivity | exact C].
  - apply fold_merge_ok; [exact C | apply Hlt; left; reflexivity |].
    intros y Hy. split; [apply (increasing_lt _ x y tl eq_refl Hinc Hy) | apply Hlt; right; exact Hy].
Qed.

Lemma merge_reads_ok : forall ris cf, CFok cf -> (forall ri, In ri ris -> ri < length reads) ->
  exists cf', merge_reads reads cf ris = inl cf' /\ CFok cf'.
Proof.
  unfold merge_reads. induction ris as [|ri ris IH]; intros cf C Hb; simpl.
  - exists cf. split; [reflexivity | exact C].
  - destruct (merge_read_ok cf (get_read reads ri) C) as (cf1 & E & C1).
    { apply wf_reads_get; [exact Hwf | apply Hb; left; reflexivity]. }
    rewrite E. apply IH; [exact C1|]. intros r Hr. apply Hb. right. exact Hr.
Qed.

Lemma find_blocks_ok : forall r cf blocks, CFok cf -> (forall v, In v r -> v < n) ->
  exists cf' bl, find_blocks cf r blocks = inl (cf', bl) /\ CFok cf'.
Proof.
  induction r as [|x r IH]; intros cf blocks C Hlt; simpl.
  - exists cf, blocks. split; [reflexivity | exact C].
  - assert (Hx : x < n) by (apply Hlt; left; reflexivity).
    destruct C as [[ms [W Hr]] Hd].
    rewrite find_in_dom by (rewrite Hd; apply in_seq; lia).
    destruct (find_node_ok cf x W) as (_ & D1 & W1 & R1).
    destruct (find_node cf x) as [b cf1] eqn:E. cbn [fst snd] in *.
    apply IH.
    + split; [|congruence]. exists ms. split; [exact W1|]. intros a c. rewrite !R1. apply Hr.
    + intros v Hv. apply Hlt. right. exact Hv.
Qed.

End CF.

(* ---------------------------------------------------------------------------------------------- *)
(* 6. bridging loop, one outer iteration, the helper loop                                          *)

Section Loops.
Variables (reads : list read) (n k : nat).
Hypothesis Hwf : wf_reads n reads = true.
Variable D : nat -> Prop.
Hypothesis HD : forall r, D r -> r < length reads.

Notation GI := (GInv reads n k D).

Lemma bridge_step_ok x bs ri :
  GI x (cov (b_st bs)) (sel (b_st bs)) (und (b_st bs)) -> CFok n (b_cf bs) -> In ri (und (b_st bs)) ->
  exists bs' d, bridge_step reads k bs ri = inl (bs', d) /\
    GI x (cov (b_st bs')) (sel (b_st bs')) (und (b_st bs')) /\ CFok n (b_cf bs') /\
    (forall y, In y (und (b_st bs')) -> In y (und (b_st bs))) /\
    (forall y, y <> ri -> In y (und (b_st bs)) -> In y (und (b_st bs'))) /\
    length (und (b_st bs')) <= length (und (b_st bs)).
Proof.
  intros G C Hin. unfold bridge_step.
  assert (Dri : D ri) by (apply (gi_dom _ _ _ _ _ _ _ _ G); right; exact Hin).
  pose proof (wf_reads_get n reads ri Hwf (HD ri Dri)) as W.
  destruct (find_blocks_ok n (get_read reads ri) (b_cf bs) [] C) as (cf1 & bl & E & C1).
  { apply wf_read_spec in W. apply W. }
  rewrite E. fold (span_b reads ri) (span_e reads ri).
  destruct (k <=? max_coverage_in_range (cov (b_st bs)) (span_b reads ri) (span_e reads ri)) eqn:Ek.
  - apply Nat.leb_le in Ek. eexists. eexists. split; [reflexivity|]. cbn [b_st b_cf cov sel und].
    split; [|split; [exact C1|split; [|split]]].
    + apply (dec_violates reads n k D x _ _ (und (b_st bs)) _ ri G Ek).
      * apply set_remove_NoDup. apply (gi_nd_und _ _ _ _ _ _ _ _ G).
      * intro y. apply set_remove_In.
    + intros y Hy. apply set_remove_In in Hy. tauto.
    + intros y Hne Hy. apply set_remove_In. tauto.
    + apply filter_length_le.
  - apply Nat.leb_gt in Ek. destruct (length bl <? 2).
    + eexists. eexists. split; [reflexivity|]. cbn [b_st b_cf].
      split; [exact G|]. split; [exact C1|]. split; [auto|]. split; [auto|lia].
    + destruct (merge_read_ok n cf1 (get_read reads ri) C1 W) as (cf2 & E2 & C2).
      rewrite E2. eexists. eexists. split; [reflexivity|]. cbn [b_st b_cf cov sel und].
      split; [|split; [exact C2|split; [|split]]].
      * apply (dec_selected reads n k Hwf D HD x _ _ (und (b_st bs)) _ ri G Hin Ek).
        -- apply set_remove_NoDup. apply (gi_nd_und _ _ _ _ _ _ _ _ G).
        -- intro y. apply set_remove_In.
      * intros y Hy. apply set_remove_In in Hy. tauto.
      * intros y Hne Hy. apply set_remove_In. tauto.
      * apply filter_length_le.
Qed.

Lemma bridge_run_ok x : forall order bs,
  GI x (cov (b_st bs)) (sel (b_st bs)) (und (b_st bs)) -> CFok n (b_cf bs) -> NoDup order ->
  (forall y, In y order -> In y (und (b_st bs))) ->
  exists bs' ds, bridge_run reads k bs order = inl (bs', ds) /\
    GI x (cov (b_st bs')) (sel (b_st bs')) (und (b_st bs')) /\
    length (und (b_st bs')) <= length (und (b_st bs)).
Proof.
  induction order as [|ri rest IH]; intros bs G C ND Hord; simpl.
  - exists bs, []. split; [reflexivity|]. split; [exact G | lia].
  - destruct (bridge_step_ok x bs ri G C (Hord ri (or_introl eq_refl)))
      as (bs1 & d & E & G1 & C1 & _ & Hkeep & Hlen).
    rewrite E. inversion ND as [|a l Hnotin NDrest]; subst.
    destruct (IH bs1 G1 C1 NDrest) as (bs2 & ds & E2 & G2 & Hlen2).
    { intros y Hy. apply Hkeep; [intros ->; apply Hnotin; exact Hy | apply Hord; right; exact Hy]. }
    rewrite E2. eexists. eexists. split; [reflexivity|]. split; [exact G2 | lia].
Qed.

Lemma set_diff2_length_lt (l a b : list nat) z :
  In z l -> In z a \/ In z b -> length (set_diff (set_diff l a) b) < length l.
Proof.
  intros Hl Hab. unfold set_diff.
  destruct (in_dec Nat.eq_dec z a) as [Ha | Ha].
  - pose proof (filter_length_lt (fun y => negb (mem y a)) l z Hl) as H1.
    assert (E : negb (mem z a) = false) by (apply negb_false_iff, mem_In; exact Ha).
    specialize (H1 E). pose proof (filter_length_le (fun y => negb (mem y b)) (filter (fun y => negb (mem y a)) l)). lia.
  - destruct Hab as [Ha' | Hb]; [contradiction|].
    assert (Hin : In z (filter (fun y => negb (mem y a)) l)).
    { apply filter_In. split; [exact Hl|]. apply negb_true_iff, mem_false. exact Ha. }
    pose proof (filter_length_lt (fun y => negb (mem y b)) _ z Hin) as H1.
    assert (E : negb (mem z b) = false) by (apply negb_false_iff, mem_In; exact Hb).
    specialize (H1 E). pose proof (filter_length_le (fun y => negb (mem y a)) l). lia.
Qed.

(* One outer iteration: either the oracle is not a legal pop order, or the iteration succeeds (no
   exception out of the component finder), keeps the invariant and decides at least one read. *)
Lemma iteration_ok x bridging s so bo :
  GI x (cov s) (sel s) (und s) ->
  iteration reads n k bridging s so bo = inr IllegalOrder \/
  exists s1 item, iteration reads n k bridging s so bo = inl (s1, item) /\
    GI x (cov s1) (sel s1) (und s1) /\ (und s <> [] -> length (und s1) < length (und s)) /\
    length (und s1) <= length (und s).
Proof.
  intro G. unfold iteration.
  destruct (is_perm so (und s)) eqn:Ep; cbn [negb]; [|left; reflexivity].
  apply is_perm_spec in Ep. destruct Ep as [NDso Hso].
  pose proof (gi_nd_und _ _ _ _ _ _ _ _ G) as NDu.
  set (ss0 := SliceSt (cov s) [] [] []).
  assert (G0 : SInv reads n k D (sel s) (und s) x ss0).
  { unfold SInv, eff_sel, eff_und, ss0. cbn [s_cov s_in s_viol]. rewrite !set_diff_nil. exact G. }
  assert (Hord : forall y, In y so -> In y (und s) /\ ~ In y (s_in ss0) /\ ~ In y (s_viol ss0)).
  { intros y Hy. split; [apply Hso; exact Hy|]. split; intros []. }
  destruct (slice_run reads k ss0 so) as [ss sdec] eqn:Es.
  destruct (slice_run_inv reads n k Hwf D HD (sel s) (und s) x so ss0 ss sdec G0 NDu NDso Hord Es)
    as (G1 & _ & _ & Hsub).
  assert (Hin_b : forall ri, In ri (s_in ss) -> ri < length reads).
  { intros ri Hri. apply HD. apply (gi_dom _ _ _ _ _ _ _ _ G). right.
    destruct (Hsub ri (or_introl Hri)) as [H | [[] | []]]. apply Hso. exact H. }
  destruct (merge_reads_ok reads n Hwf (s_in ss) (uf_init (seq 0 n)) (CFok_init n) Hin_b) as (cf & Ecf & Ccf).
  rewrite Ecf.
  set (s1 := St (s_cov ss) (set_union (sel s) (s_in ss)) (set_diff (set_diff (und s) (s_in ss)) (s_viol ss))).
  assert (Hlt : und s <> [] -> length (und s1) < length (und s)).
  { intro Hne. destruct so as [|r0 rest].
    - destruct (und s) as [|u us]; [congruence|]. exfalso. apply (Hso u). left. reflexivity.
    - assert (Hr0 : In r0 (und s)) by (apply Hso; left; reflexivity).
      assert (Dr0 : D r0) by (apply (gi_dom _ _ _ _ _ _ _ _ G); right; exact Hr0).
      pose proof (slice_run_first reads n k Hwf D HD (sel s) (und s) x r0 rest ss0 ss sdec
                    G0 NDu NDso Hord eq_refl Dr0 Es) as Hdec.
      unfold s1. cbn [und]. apply (set_diff2_length_lt _ _ _ r0 Hr0 Hdec). }
  assert (Hle : length (und s1) <= length (und s)).
  { unfold s1, set_diff. cbn [und].
    pose proof (filter_length_le (fun y => negb (mem y (s_viol ss))) (filter (fun y => negb (mem y (s_in ss))) (und s))).
    pose proof (filter_length_le (fun y => negb (mem y (s_in ss))) (und s)). lia. }
  destruct bridging.
  - destruct (is_perm bo (und s1)) eqn:Epb; cbn [negb]; [|left; reflexivity].
    apply is_perm_spec in Epb. destruct Epb as [NDbo Hbo].
    destruct (bridge_run_ok x bo (BridgeSt s1 cf) G1 Ccf NDbo) as (bs & bdec & Eb & Gb & Hlb).
    { intros y Hy. apply Hbo. exact Hy. }
    rewrite Eb. right. eexists. eexists. split; [reflexivity|].
    cbn [b_st] in Hlb. split; [exact Gb|]. split; [intro Hne; specialize (Hlt Hne); lia | lia].
  - destruct bo; [|left; reflexivity].
    right. eexists. eexists. split; [reflexivity|]. split; [exact G1|]. split; assumption.
Qed.

(* The helper loop: never an exception; keeps the invariant; an oracle with at least as many
   iterations as there are undecided reads drives it to completion. *)
Lemma helper_ok x bridging : forall o s,
  GI x (cov s) (sel s) (und s) ->
  helper reads n k bridging o s = inr IllegalOrder \/
  exists s2 items rest, helper reads n k bridging o s = inl (s2, items, rest) /\
    GI x (cov s2) (sel s2) (und s2) /\
    (length (und s) <= length o -> und s2 = [] /\ length o <= length rest + length (und s)).
Proof.
  induction o as [|[so bo] o' IH]; intros s G; cbn [helper].
  - right. exists s, [], []. split; [destruct (und s); reflexivity|]. split; [exact G|].
    intro H. simpl in H. destruct (und s); simpl in *; [split; [reflexivity | lia] | lia].
  - destruct (und s) as [|u us] eqn:Eu; rewrite <- Eu in G.
    + right. exists s, [], ((so, bo) :: o'). split; [reflexivity|]. split; [exact G|].
      intros _. split; [exact Eu | lia].
    + destruct (iteration_ok x bridging s so bo G) as [E | (s1 & item & E & G1 & Hlt & _)].
      * left. rewrite E. reflexivity.
      * rewrite E. destruct (IH s1 G1) as [E2 | (s2 & items & rest & E2 & G2 & Hdone)].
        -- left. rewrite E2. reflexivity.
        -- right. rewrite E2. exists s2, (item :: items), rest. split; [reflexivity|]. split; [exact G2|].
           intro Hlen. assert (Hne : und s <> []) by (rewrite Eu; congruence).
           specialize (Hlt Hne). rewrite Eu in Hlt. simpl in Hlt, Hlen.
           destruct Hdone as [H1 H2]; [lia|]. split; [exact H1 | simpl; lia].
Qed.

End Loops.

(* ---------------------------------------------------------------------------------------------- *)
(* 7. readselection                                                                                *)

Lemma GInv_weaken reads n k D x c sl ud : GInv reads n k D x c sl ud -> GInv reads n k D false c sl ud.
Proof. intro G. destruct G. constructor; try assumption. discriminate. Qed.

Definition preferred_of (reads : list read) (pref : list bool) : list nat :=
  filter (fun ri => nth ri pref false) (seq 0 (length reads)).

(* is the monitor exact (coverage = number of selected spanning reads)? always for the repaired rule,
   for the current rule only when no read is preferred *)
Definition xflag (rule : pref_rule) (reads : list read) (pref : list bool) : bool :=
  match rule with PrefRepaired => true | PrefCurrent => is_nil (preferred_of reads pref) end.

Lemma preferred_NoDup reads pref : NoDup (preferred_of reads pref).
Proof. apply NoDup_filter_nat, seq_NoDup. Qed.

Lemma preferred_bound reads pref r : In r (preferred_of reads pref) -> r < length reads.
Proof. unfold preferred_of. rewrite filter_In, in_seq. lia. Qed.

Lemma preferred_length reads pref : length (preferred_of reads pref) <= length reads.
Proof.
  unfold preferred_of. pose proof (filter_length_le (fun ri => nth ri pref false) (seq 0 (length reads))) as H.
  rewrite seq_length in H. exact H.
Qed.

Lemma GInv_start reads n k (D : nat -> Prop) ud :
  NoDup ud -> (forall r, In r ud <-> D r) -> GInv reads n k D true (cov_init n) [] ud.
Proof.
  intros ND HD. constructor.
  - unfold cov_init. apply repeat_length.
  - intro i. rewrite cov_init_cv. lia.
  - intro i. rewrite cov_init_cv. rewrite sc_nil. lia.
  - constructor.
  - exact ND.
  - intros r [[] | H]. apply HD. exact H.
  - intros r Hr. right. left. apply HD. exact Hr.
  - intros _. split; [intro i; rewrite cov_init_cv; reflexivity | intros r []].
Qed.

Lemma second_phase_length rule reads pref :
  length (second_phase_undecided rule (seq 0 (length reads)) (preferred_of reads pref)) <= length reads.
Proof.
  destruct rule; simpl.
  - rewrite seq_length. lia.
  - unfold set_diff. pose proof (filter_length_le (fun y => negb (mem y (preferred_of reads pref))) (seq 0 (length reads))) as H.
    rewrite seq_length in H. exact H.
Qed.

(* hand-over from the preferred phase (finished: nothing undecided) to the main phase *)
Lemma GInv_second_phase rule reads n k pref c sl :
  GInv reads n k (fun r => In r (preferred_of reads pref)) true c sl [] ->
  GInv reads n k (fun r => r < length reads) (match rule with PrefRepaired => true | PrefCurrent => false end)
       c sl (second_phase_undecided rule (seq 0 (length reads)) (preferred_of reads pref)).
Proof.
  intro G. destruct G. constructor; try assumption.
  - destruct rule; simpl; [apply seq_NoDup | apply set_diff_NoDup, seq_NoDup].
  - intros r [H | H].
    + apply preferred_bound with pref. apply gi_dom0. left. exact H.
    + destruct rule; simpl in H; [|apply set_diff_In in H; destruct H as [H _]]; apply in_seq in H; lia.
  - intros r Hr. destruct rule; simpl.
    + right. left. apply in_seq. lia.
    + destruct (in_dec Nat.eq_dec r (preferred_of reads pref)) as [Hp | Hp].
      * destruct (gi_dec0 r Hp) as [H | [[] | H]]; auto.
      * right. left. apply set_diff_In. split; [apply in_seq; lia | exact Hp].
  - destruct rule; [discriminate|]. intros _. destruct (gi_exact0 eq_refl) as [H1 _]. split; [exact H1|].
    intros r Hr Hu. simpl in Hu. apply set_diff_In in Hu. destruct Hu as [_ Hu]. apply Hu.
    apply gi_dom0. left. exact Hr.
Qed.

Lemma wf_reads_len2 n reads : wf_reads n reads = true -> forallb (fun r => 2 <=? length r) reads = true.
Proof.
  unfold wf_reads. rewrite !forallb_forall. intros H r Hr. specialize (H r Hr).
  apply wf_read_spec in H. apply Nat.leb_le. apply H.
Qed.

Lemma is_nil_true {A} (l : list A) : is_nil l = true <-> l = [].
Proof. destruct l; simpl; split; congruence. Qed.

(* The central statement about the model: for well-formed reads and ANY oracle, readselection either
   reports that the oracle was not a legal pop order, or returns a state that satisfies the invariant. *)
Lemma readselection_spec rule reads pref n k bridging o :
  wf_reads n reads = true ->
  readselection rule reads pref n k bridging o = inr IllegalOrder \/
  exists r, readselection rule reads pref n k bridging o = inl r /\
    (exists D : nat -> Prop, (forall q, D q -> q < length reads) /\
        GInv reads n k D (xflag rule reads pref) (cov (r_state r)) (sel (r_state r)) (und (r_state r)) /\
        (r_complete r = true -> forall q, q < length reads -> D q)) /\
    (r_complete r = true -> und (r_state r) = []) /\
    (2 * length reads <= length o -> r_complete r = true).
Proof.
  intro Hwf. unfold readselection. rewrite (wf_reads_len2 n reads Hwf). cbn [negb].
  fold (preferred_of reads pref).
  set (D1 := fun r => In r (preferred_of reads pref)).
  set (D2 := fun r => r < length reads).
  assert (HD1 : forall q, D1 q -> q < length reads) by (intros q Hq; apply preferred_bound with pref; exact Hq).
  assert (HD2 : forall q, D2 q -> q < length reads) by (intros q Hq; exact Hq).
  destruct (is_nil (preferred_of reads pref)) eqn:Enil.
  - (* no preferred read: one phase over all reads *)
    assert (G0 : GInv reads n k D2 true (cov_init n) [] (seq 0 (length reads))).
    { apply GInv_start; [apply seq_NoDup|]. intro r. unfold D2. rewrite in_seq. lia. }
    destruct (helper_ok reads n k Hwf D2 HD2 true bridging o (St (cov_init n) [] (seq 0 (length reads))) G0)
      as [E | (s2 & t2 & rest & E & G2 & Hdone)].
    + left. rewrite E. reflexivity.
    + right. rewrite E. eexists. split; [reflexivity|]. cbn [r_state r_complete].
      split; [|split].
      * exists D2. split; [exact HD2|]. split.
        -- unfold xflag. rewrite Enil. destruct rule; exact G2.
        -- intros _ q Hq. exact Hq.
      * apply is_nil_true.
      * intro Hlen. apply is_nil_true. apply Hdone. cbn [und]. rewrite seq_length. lia.
  - (* preferred phase, then the main phase *)
    assert (G0 : GInv reads n k D1 true (cov_init n) [] (preferred_of reads pref)).
    { apply GInv_start; [apply preferred_NoDup|]. intro r. reflexivity. }
    destruct (helper_ok reads n k Hwf D1 HD1 true bridging o (St (cov_init n) [] (preferred_of reads pref)) G0)
      as [E | (s1 & t1 & o2 & E & G1 & Hdone1)].
    + left. rewrite E. reflexivity.
    + rewrite E. destruct (is_nil (und s1)) eqn:En1; cbn [negb].
      * apply is_nil_true in En1.
        set (x2 := match rule with PrefRepaired => true | PrefCurrent => false end).
        assert (G1' : GInv reads n k D2 x2 (cov s1) (sel s1)
                         (second_phase_undecided rule (seq 0 (length reads)) (preferred_of reads pref))).
        { apply GInv_second_phase. rewrite <- En1. exact G1. }
        destruct (helper_ok reads n k Hwf D2 HD2 x2 bridging o2
                    (St (cov s1) (sel s1) (second_phase_undecided rule (seq 0 (length reads)) (preferred_of reads pref))) G1')
          as [E2 | (s2 & t2 & rest & E2 & G2 & Hdone2)].
        -- left. rewrite E2. reflexivity.
        -- right. rewrite E2. eexists. split; [reflexivity|]. cbn [r_state r_complete].
           split; [|split].
           ++ exists D2. split; [exact HD2|]. split.
              ** unfold xflag. rewrite Enil. destruct rule; exact G2.
              ** intros _ q Hq. exact Hq.
           ++ apply is_nil_true.
           ++ intro Hlen. apply is_nil_true. apply Hdone2. cbn [und].
              pose proof (second_phase_length rule reads pref).
              pose proof (preferred_length reads pref).
              destruct Hdone1 as [_ H1]; [cbn [und]; lia|]. cbn [und] in H1. lia.
      * right. eexists. split; [reflexivity|]. cbn [r_state r_complete].
        split; [|split].
        -- exists D1. split; [exact HD1|]. split.
           ++ unfold xflag. rewrite Enil. destruct rule; [apply GInv_weaken with true|]; exact G1.
           ++ discriminate.
        -- discriminate.
        -- intro Hlen. exfalso. pose proof (preferred_length reads pref).
           destruct Hdone1 as [H1 _]; [cbn [und]; lia|]. rewrite H1 in En1. discriminate.
Qed.

(* ---------------------------------------------------------------------------------------------- *)
(* 8. the C07 statements about the model                                                           *)

Definition no_preferred (reads : list read) (pref : list bool) : Prop :=
  forall ri, ri < length reads -> nth ri pref false = false.

Lemma no_preferred_nil reads pref : no_preferred reads pref -> preferred_of reads pref = [].
Proof.
  intro H. unfold preferred_of.
  assert (F : forall l, (forall ri, In ri l -> ri < length reads) -> filter (fun ri => nth ri pref false) l = []).
  { induction l as [|a l IH]; intro Hl; simpl; [reflexivity|].
    rewrite (H a) by (apply Hl; left; reflexivity). apply IH. intros ri Hri. apply Hl. right. exact Hri. }
  apply F. intros ri Hri. apply in_seq in Hri. lia.
Qed.

Lemma xflag_true rule reads pref : rule = PrefRepaired \/ no_preferred reads pref -> xflag rule reads pref = true.
Proof.
  intros [-> | H]; [reflexivity|]. unfold xflag. rewrite (no_preferred_nil _ _ H). destruct rule; reflexivity.
Qed.

Lemma readselection_inl rule reads pref n k bridging o r :
  wf_reads n reads = true -> readselection rule reads pref n k bridging o = inl r ->
  (exists D : nat -> Prop, (forall q, D q -> q < length reads) /\
      GInv reads n k D (xflag rule reads pref) (cov (r_state r)) (sel (r_state r)) (und (r_state r)) /\
      (r_complete r = true -> forall q, q < length reads -> D q)) /\
  (r_complete r = true -> und (r_state r) = []) /\
  (2 * length reads <= length o -> r_complete r = true).
Proof.
  intros Hwf E. destruct (readselection_spec rule reads pref n k bridging o Hwf) as [E' | (r' & E' & H)].
  - congruence.
  - rewrite E in E'. injection E' as <-. exact H.
Qed.

Theorem cap_invariant : forall rule reads pref n k bridging o r,
  wf_reads n reads = true -> readselection rule reads pref n k bridging o = inl r ->
  length (cov (r_state r)) = n /\
  (forall i, span_count reads (sel (r_state r)) i <= nth i (cov (r_state r)) 0 /\
             nth i (cov (r_state r)) 0 <= k) /\
  cap_ok reads n k (sel (r_state r)) = true.
Proof.
  intros rule reads pref n k bridging o r Hwf E.
  destruct (readselection_inl _ _ _ _ _ _ _ _ Hwf E) as [(D & HD & G & _) _]. destruct G.
  split; [exact gi_len0|]. split.
  - intro i. split; [apply gi_cnt0 | apply gi_cap0].
  - unfold cap_ok. apply forallb_forall. intros i _. apply Nat.leb_le.
    pose proof (gi_cnt0 i). pose proof (gi_cap0 i). unfold sc, cv in *. lia.
Qed.

Theorem cap_exact : forall rule reads pref n k bridging o r,
  wf_reads n reads = true -> rule = PrefRepaired \/ no_preferred reads pref ->
  readselection rule reads pref n k bridging o = inl r ->
  forall i, nth i (cov (r_state r)) 0 = span_count reads (sel (r_state r)) i.
Proof.
  intros rule reads pref n k bridging o r Hwf Hx E.
  destruct (readselection_inl _ _ _ _ _ _ _ _ Hwf E) as [(D & HD & G & _) _]. destruct G.
  rewrite (xflag_true _ _ _ Hx) in gi_exact0. destruct (gi_exact0 eq_refl) as [H _].
  intro i. symmetry. apply H.
Qed.

Theorem selected_subset : forall rule reads pref n k bridging o r,
  wf_reads n reads = true -> readselection rule reads pref n k bridging o = inl r ->
  NoDup (sel (r_state r)) /\ (forall ri, In ri (sel (r_state r)) -> ri < length reads) /\
  subset_ok reads (sel (r_state r)) = true.
Proof.
  intros rule reads pref n k bridging o r Hwf E.
  destruct (readselection_inl _ _ _ _ _ _ _ _ Hwf E) as [(D & HD & G & _) _]. destruct G.
  assert (Hb : forall ri, In ri (sel (r_state r)) -> ri < length reads).
  { intros ri Hri. apply HD, gi_dom0. left. exact Hri. }
  split; [exact gi_nd_sel0|]. split; [exact Hb|].
  unfold subset_ok. apply andb_true_iff. split; [apply nodupb_NoDup; exact gi_nd_sel0|].
  apply forallb_forall. intros ri Hri. apply Nat.ltb_lt. apply Hb. exact Hri.
Qed.

Theorem undecided_partition : forall rule reads pref n k bridging o r,
  wf_reads n reads = true -> readselection rule reads pref n k bridging o = inl r ->
  NoDup (und (r_state r)) /\ (forall ri, In ri (und (r_state r)) -> ri < length reads) /\
  (rule = PrefRepaired \/ no_preferred reads pref ->
   forall ri, In ri (sel (r_state r)) -> ~ In ri (und (r_state r))).
Proof.
  intros rule reads pref n k bridging o r Hwf E.
  destruct (readselection_inl _ _ _ _ _ _ _ _ Hwf E) as [(D & HD & G & _) _]. destruct G.
  split; [exact gi_nd_und0|]. split.
  - intros ri Hri. apply HD, gi_dom0. right. exact Hri.
  - intro Hx. rewrite (xflag_true _ _ _ Hx) in gi_exact0. apply (gi_exact0 eq_refl).
Qed.

(* every outer iteration started in a state reached by any run decides at least one read *)
Theorem progress : forall rule reads pref n k bridging o r so bo s1 item,
  wf_reads n reads = true -> readselection rule reads pref n k bridging o = inl r ->
  und (r_state r) <> [] ->
  iteration reads n k bridging (r_state r) so bo = inl (s1, item) ->
  length (und s1) < length (und (r_state r)).
Proof.
  intros rule reads pref n k bridging o r so bo s1 item Hwf E Hne Hit.
  destruct (readselection_inl _ _ _ _ _ _ _ _ Hwf E) as [(D & HD & G & _) _].
  destruct (iteration_ok reads n k Hwf D HD _ bridging (r_state r) so bo G) as [E' | (s1' & item' & E' & _ & Hlt & _)].
  - congruence.
  - rewrite Hit in E'. injection E' as <- <-. apply Hlt. exact Hne.
Qed.

(* the loops terminate: 2 * |reads| outer iterations always suffice, and no exception is possible *)
Theorem terminates : forall rule reads pref n k bridging o,
  wf_reads n reads = true ->
  (forall e, readselection rule reads pref n k bridging o = inr e -> e = IllegalOrder) /\
  (forall r, readselection rule reads pref n k bridging o = inl r ->
     (2 * length reads <= length o -> r_complete r = true) /\
     (r_complete r = true -> und (r_state r) = [])).
Proof.
  intros rule reads pref n k bridging o Hwf. split.
  - intros e E. destruct (readselection_spec rule reads pref n k bridging o Hwf) as [E' | (r' & E' & _)]; congruence.
  - intros r E. destruct (readselection_inl _ _ _ _ _ _ _ _ Hwf E) as (_ & H1 & H2). split; assumption.
Qed.

Theorem maximal : forall rule reads pref n k bridging o r,
  wf_reads n reads = true -> 1 <= k -> rule = PrefRepaired \/ no_preferred reads pref ->
  readselection rule reads pref n k bridging o = inl r -> r_complete r = true ->
  maximal_ok reads n k (sel (r_state r)) = true /\
  forall ri, ri < length reads -> ~ In ri (sel (r_state r)) ->
    exists i, i < n /\ spans (get_read reads ri) i = true /\ k <= span_count reads (sel (r_state r)) i.
Proof.
  intros rule reads pref n k bridging o r Hwf Hk Hx E Hc.
  destruct (readselection_inl _ _ _ _ _ _ _ _ Hwf E) as [(D & HD & G & HDall) [Hund _]].
  specialize (HDall Hc). specialize (Hund Hc). destruct G.
  rewrite (xflag_true _ _ _ Hx) in gi_exact0. destruct (gi_exact0 eq_refl) as [Hex _].
  assert (W : forall ri, ri < length reads -> ~ In ri (sel (r_state r)) ->
     exists i, i < n /\ spans (get_read reads ri) i = true /\ k <= span_count reads (sel (r_state r)) i).
  { intros ri Hri Hns. destruct (gi_dec0 ri (HDall ri Hri)) as [H | [H | H]]; [contradiction | rewrite Hund in H; destruct H |].
    destruct (max_range_witness _ _ _ k Hk H) as [i (H1 & H2 & H3 & H4)].
    exists i. split; [lia|]. split.
    - apply spans_range. unfold span_b, span_e in *. lia.
    - rewrite <- Hex in H4. exact H4. }
  split; [|exact W].
  unfold maximal_ok. apply forallb_forall. intros ri Hri. apply in_seq in Hri.
  destruct (mem ri (sel (r_state r))) eqn:Em; [reflexivity|]. apply mem_false in Em.
  destruct (W ri ltac:(lia) Em) as [i (H1 & H2 & H3)].
  cbn [orb]. unfold blocked. apply existsb_exists. exists i. split; [apply in_seq; lia|].
  rewrite H2. apply Nat.leb_le in H3. rewrite H3. reflexivity.
Qed.

(* the current code (PrefCurrent) with a preferred read: the result is complete but not maximal *)
Theorem maximal_current_refuted :
  exists reads pref n k bridging o r,
    wf_reads n reads = true /\ 1 <= k /\
    readselection PrefCurrent reads pref n k bridging o = inl r /\ r_complete r = true /\
    maximal_ok reads n k (sel (r_state r)) = false /\
    (* and the repaired rule on the same input with the same kind of order is maximal *)
    exists o' r', readselection PrefRepaired reads pref n k bridging o' = inl r' /\ r_complete r' = true /\
                  maximal_ok reads n k (sel (r_state r')) = true.
Proof.
  exists [[0; 1]; [0; 1]; [0; 1]], [true; false; false], 2, 2, true,
         [([0], []); ([0; 2; 1], [])].
  eexists. split; [reflexivity|]. split; [lia|]. split; [vm_compute; reflexivity|].
  split; [reflexivity|]. split; [vm_compute; reflexivity|].
  exists [([0], []); ([2; 1], [])]. eexists. split; [vm_compute; reflexivity|]. split; reflexivity.
Qed.

(* ---------------------------------------------------------------------------------------------- *)
(* 9. family level: the per-sample caps add up                                                     *)

Lemma filter_length_mono_gen {A} (P Q : A -> bool) (l : list A) :
  (forall z, In z l -> P z = true -> Q z = true) -> length (filter P l) <= length (filter Q l).
Proof.
  induction l as [|a l IH]; intro H; simpl; [lia|].
  assert (IH' : length (filter P l) <= length (filter Q l)).
  { apply IH. intros z Hz. apply H. right. exact Hz. }
  destruct (P a) eqn:E.
  - rewrite (H a (or_introl eq_refl) E). simpl. lia.
  - destruct (Q a); simpl; lia.
Qed.

(* among the reads spanning q there is one whose first position is maximal *)
Lemma max_first_exists (rs : list zread) (q : Z) :
  (exists r, In r rs /\ zspans r q = true) ->
  exists r0, In r0 rs /\ zspans r0 q = true /\
             forall r, In r rs -> zspans r q = true -> (zfirst r <= zfirst r0)%Z.
Proof.
  induction rs as [|a rs IH]; intros [r [Hin Hs]]; [destruct Hin|].
  destruct (zspans a q) eqn:Ea.
  - destruct (existsb (fun r => zspans r q) rs) eqn:Ex.
    + apply existsb_exists in Ex. destruct (IH Ex) as [r0 (H1 & H2 & H3)].
      destruct (Z_le_gt_dec (zfirst a) (zfirst r0)) as [Hle | Hgt].
      * exists r0. split; [right; exact H1|]. split; [exact H2|].
        intros r' [<- | Hr'] Hs'; [exact Hle | apply H3; assumption].
      * exists a. split; [left; reflexivity|]. split; [exact Ea|].
        intros r' [<- | Hr'] Hs'; [lia|]. specialize (H3 r' Hr' Hs'). lia.
    + exists a. split; [left; reflexivity|]. split; [exact Ea|].
      intros r' [<- | Hr'] Hs'; [lia|].
      assert (Hc : existsb (fun r => zspans r q) rs = true) by (apply existsb_exists; exists r'; auto).
      congruence.
  - destruct Hin as [<- | Hin]; [congruence|].
    destruct (IH (ex_intro _ r (conj Hin Hs))) as [r0 (H1 & H2 & H3)].
    exists r0. split; [right; exact H1|]. split; [exact H2|].
    intros r' [<- | Hr'] Hs'; [congruence | apply H3; assumption].
Qed.

(* A column q that need not be one of the member's own positions is spanned by no more of the
   member's reads than some own position (the largest first position of a read spanning q). *)
Lemma member_cap_everywhere (rs : list zread) (own : list Z) (c : nat) :
  (forall r, In r rs -> In (zfirst r) own) ->
  (forall p, In p own -> zspan_count rs p <= c) ->
  forall q, zspan_count rs q <= c.
Proof.
  intros Hown Hcap q.
  destruct (existsb (fun r => zspans r q) rs) eqn:Ex.
  - apply existsb_exists in Ex. destruct (max_first_exists rs q Ex) as [r0 (H1 & H2 & H3)].
    specialize (Hcap (zfirst r0) (Hown r0 H1)).
    assert (Hle : zspan_count rs q <= zspan_count rs (zfirst r0)); [|lia].
    unfold zspan_count. apply filter_length_mono_gen. intros r Hr Hs.
    specialize (H3 r Hr Hs). unfold zspans in *.
    apply andb_true_iff in Hs. destruct Hs as [Ha Hb]. apply Z.leb_le in Ha, Hb.
    apply andb_true_iff in H2. destruct H2 as [Hc Hd]. apply Z.leb_le in Hc, Hd.
    apply andb_true_iff. split; apply Z.leb_le; lia.
  - assert (E : zspan_count rs q = 0); [|lia].
    unfold zspan_count.
    assert (F : forall l, existsb (fun r => zspans r q) l = false -> filter (fun r => zspans r q) l = []).
    { induction l as [|a l IH]; simpl; [reflexivity|]. intro H. apply orb_false_iff in H.
      destruct H as [Ha Hl]. rewrite Ha. apply IH. exact Hl. }
    rewrite (F rs Ex). reflexivity.
Qed.

Lemma per_sample_cap_total k f : 1 <= f -> f <= k -> f * per_sample_cap k f <= k.
Proof.
  intros H1 H2. unfold per_sample_cap.
  assert (Hd : 1 <= k / f) by (apply Nat.div_le_lower_bound; lia).
  rewrite Nat.max_r by lia. apply Nat.mul_div_le. lia.
Qed.

Theorem family_total : forall (k : nat) (members : list (list zread * list Z)),
  length members <= k ->
  (forall rs own, In (rs, own) members ->
     (forall r, In r rs -> In (zfirst r) own) /\
     (forall p, In p own -> zspan_count rs p <= per_sample_cap k (length members))) ->
  forall q : Z, family_span_count (map fst members) q <= k.
Proof.
  intros k members Hf Hm q.
  set (c := per_sample_cap k (length members)) in *.
  assert (Hsum : forall ms : list (list zread * list Z), (forall m, In m ms -> In m members) ->
            family_span_count (map fst ms) q <= length ms * c).
  { induction ms as [|[rs own] ms IH]; intro Hin; simpl; [lia|].
    destruct (Hm rs own (Hin _ (or_introl eq_refl))) as [Ho Hc].
    pose proof (member_cap_everywhere rs own c Ho Hc q).
    assert (family_span_count (map fst ms) q <= length ms * c) by (apply IH; intros m Hm'; apply Hin; right; exact Hm').
    lia. }
  specialize (Hsum members (fun m H => H)).
  destruct members as [|m ms]; [simpl in *; lia|].
  pose proof (per_sample_cap_total k (length (m :: ms)) ltac:(simpl; lia) Hf). fold c in H. lia.
Qed.

(* ---------------------------------------------------------------------------------------------- *)
(* 10. a legal oracle exists for every input: pop the undecided reads in index order               *)

Definition canon_bo (reads : list read) (k : nat) (bridging : bool) (s : st) : list nat :=
  let (ss, _) := slice_run reads k (SliceSt (cov s) [] [] []) (und s) in
  if bridging then set_diff (set_diff (und s) (s_in ss)) (s_viol ss) else [].

Lemma bridge_step_not_illegal reads k bs ri : bridge_step reads k bs ri <> inr IllegalOrder.
Proof.
  unfold bridge_step. destruct (find_blocks (b_cf bs) (get_read reads ri) []) as [[cf1 bl] | e]; [|discriminate].
  destruct (k <=? _); [discriminate|]. destruct (length bl <? 2); [discriminate|].
  destruct (merge_read cf1 (get_read reads ri)); discriminate.
Qed.

Lemma bridge_run_not_illegal reads k : forall order bs, bridge_run reads k bs order <> inr IllegalOrder.
Proof.
  induction order as [|ri rest IH]; intro bs; simpl; [discriminate|].
  pose proof (bridge_step_not_illegal reads k bs ri) as Hs.
  destruct (bridge_step reads k bs ri) as [[bs1 d] | e]; [|intro H; apply Hs; congruence].
  pose proof (IH bs1) as Hr. destruct (bridge_run reads k bs1 rest) as [[bs2 ds] | e]; [discriminate | exact Hr].
Qed.

Lemma iteration_canon_legal reads n k bridging s : NoDup (und s) ->
  iteration reads n k bridging s (und s) (canon_bo reads k bridging s) <> inr IllegalOrder.
Proof.
  intro ND. unfold iteration, canon_bo. rewrite (is_perm_refl _ ND). cbn [negb].
  destruct (slice_run reads k (SliceSt (cov s) [] [] []) (und s)) as [ss sdec].
  destruct (merge_reads reads (uf_init (seq 0 n)) (s_in ss)) as [cf | e]; [|discriminate].
  destruct bridging.
  - cbn [und]. rewrite is_perm_refl by (apply set_diff_NoDup, set_diff_NoDup; exact ND). cbn [negb].
    pose proof (bridge_run_not_illegal reads k
      (set_diff (set_diff (und s) (s_in ss)) (s_viol ss))
      (BridgeSt (St (s_cov ss) (set_union (sel s) (s_in ss)) (set_diff (set_diff (und s) (s_in ss)) (s_viol ss))) cf)) as Hb.
    destruct (bridge_run _ _ _ _) as [[bs bdec] | e]; [discriminate | intro H; apply Hb; congruence].
  - discriminate.
Qed.

Section Exists.
Variables (reads : list read) (n k : nat).
Hypothesis Hwf : wf_reads n reads = true.
Variable D : nat -> Prop.
Hypothesis HD : forall r, D r -> r < length reads.

Lemma helper_exists x bridging : forall fuel s,
  GInv reads n k D x (cov s) (sel s) (und s) -> length (und s) <= fuel ->
  exists o s2 items, helper reads n k bridging o s = inl (s2, items, []) /\ und s2 = [] /\
    GInv reads n k D x (cov s2) (sel s2) (und s2).
Proof.
  induction fuel as [|fuel IH]; intros s G Hlen.
  - destruct (und s) eqn:Eu; simpl in Hlen; [|lia]. rewrite <- Eu in G.
    exists [], s, []. split; [simpl; rewrite Eu; reflexivity|]. split; [exact Eu | exact G].
  - destruct (und s) as [|u us] eqn:Eu; rewrite <- Eu in G.
    + exists [], s, []. split; [simpl; rewrite Eu; reflexivity|]. split; [exact Eu | exact G].
    + 
      pose proof (gi_nd_und _ _ _ _ _ _ _ _ G) as ND.
      destruct (iteration_ok reads n k Hwf D HD x bridging s (und s) (canon_bo reads k bridging s) G)
        as [E | (s1 & item & E & G1 & Hlt & _)].
      * exfalso. exact (iteration_canon_legal reads n k bridging s ND E).
      * assert (Hne : und s <> []) by (rewrite Eu; congruence).
        specialize (Hlt Hne). rewrite Eu in Hlt. simpl in Hlen, Hlt.
        destruct (IH s1 G1 ltac:(lia)) as (o' & s2 & items & E2 & Hu2 & G2).
        exists ((und s, canon_bo reads k bridging s) :: o'), s2, (item :: items).
        split; [|split; assumption].
        cbn [helper]. rewrite Eu. rewrite <- Eu. rewrite E, E2. reflexivity.
Qed.

Lemma helper_app bridging : forall o1 o2 s s1 t1,
  helper reads n k bridging o1 s = inl (s1, t1, []) -> und s1 = [] ->
  helper reads n k bridging (o1 ++ o2) s = inl (s1, t1, o2).
Proof.
  induction o1 as [|[so bo] o1 IH]; intros o2 s s1 t1 H Hu.
  - simpl in H. assert (Es : s1 = s /\ t1 = []) by (destruct (und s); injection H as <- <-; split; reflexivity).
    destruct Es as [-> ->]. simpl. destruct o2 as [|[so bo] o2]; cbn [helper]; rewrite Hu; reflexivity.
  - cbn [helper app] in *. destruct (und s) as [|u us].
    + injection H as <- <- H. discriminate.
    + destruct (iteration reads n k bridging s so bo) as [[s' item] | e]; [|discriminate].
      destruct (helper reads n k bridging o1 s') as [[[s2 items] rest] | e] eqn:E2; [|discriminate].
      injection H as <- <- ->. rewrite (IH o2 s' s2 items E2 Hu). reflexivity.
Qed.

End Exists.

Theorem legal_oracle_exists : forall rule reads pref n k bridging,
  wf_reads n reads = true ->
  exists o r, readselection rule reads pref n k bridging o = inl r /\ r_complete r = true.
Proof.
  intros rule reads pref n k bridging Hwf. unfold readselection.
  rewrite (wf_reads_len2 n reads Hwf). cbn [negb]. fold (preferred_of reads pref).
  set (D1 := fun r => In r (preferred_of reads pref)).
  set (D2 := fun r => r < length reads).
  assert (HD1 : forall q, D1 q -> q < length reads) by (intros q Hq; apply preferred_bound with pref; exact Hq).
  assert (HD2 : forall q, D2 q -> q < length reads) by (intros q Hq; exact Hq).
  destruct (is_nil (preferred_of reads pref)) eqn:Enil.
  - assert (G0 : GInv reads n k D2 true (cov_init n) [] (seq 0 (length reads))).
    { apply GInv_start; [apply seq_NoDup|]. intro r. unfold D2. rewrite in_seq. lia. }
    destruct (helper_exists reads n k Hwf D2 HD2 true bridging _ (St (cov_init n) [] (seq 0 (length reads))) G0 (le_n _))
      as (o & s2 & t2 & E & Hu & _).
    exists o. rewrite E. eexists. split; [reflexivity|]. cbn [r_complete]. rewrite Hu. reflexivity.
  - assert (G0 : GInv reads n k D1 true (cov_init n) [] (preferred_of reads pref)).
    { apply GInv_start; [apply preferred_NoDup|]. intro r. reflexivity. }
    destruct (helper_exists reads n k Hwf D1 HD1 true bridging _ (St (cov_init n) [] (preferred_of reads pref)) G0 (le_n _))
      as (o1 & s1 & t1 & E1 & Hu1 & G1).
    set (x2 := match rule with PrefRepaired => true | PrefCurrent => false end).
    assert (G1' : GInv reads n k D2 x2 (cov s1) (sel s1)
                     (second_phase_undecided rule (seq 0 (length reads)) (preferred_of reads pref))).
    { apply GInv_second_phase. rewrite <- Hu1. exact G1. }
    destruct (helper_exists reads n k Hwf D2 HD2 x2 bridging _
                (St (cov s1) (sel s1) (second_phase_undecided rule (seq 0 (length reads)) (preferred_of reads pref))) G1' (le_n _))
      as (o2 & s2 & t2 & E2 & Hu2 & _).
    exists (o1 ++ o2). rewrite (helper_app reads n k bridging o1 o2 _ s1 t1 E1 Hu1).
    rewrite Hu1. cbn [is_nil negb]. rewrite E2. eexists. split; [reflexivity|]. cbn [r_complete]. rewrite Hu2. reflexivity.
Qed.

(* ---------------------------------------------------------------------------------------------- *)
(* 11. the tabulated evaluators used on large read sets are the specification predicates           *)

Lemma forallb_map {A B} (f : B -> bool) (g : A -> B) l : forallb f (map g l) = forallb (fun x => f (g x)) l.
Proof. induction l as [|a l IH]; simpl; [reflexivity | rewrite IH; reflexivity]. Qed.

Lemma existsb_map {A B} (f : B -> bool) (g : A -> B) l : existsb f (map g l) = existsb (fun x => f (g x)) l.
Proof. induction l as [|a l IH]; simpl; [reflexivity | rewrite IH; reflexivity]. Qed.

Lemma forallb_ext_in {A} (f g : A -> bool) l : (forall x, In x l -> f x = g x) -> forallb f l = forallb g l.
Proof.
  induction l as [|a l IH]; intro H; simpl; [reflexivity|].
  rewrite (H a (or_introl eq_refl)), IH; [reflexivity|]. intros x Hx. apply H. right. exact Hx.
Qed.

Theorem fast_evaluators_agree : forall reads n k selected,
  cap_ok_fast reads n k selected = cap_ok reads n k selected /\
  maximal_ok_fast reads n k selected = maximal_ok reads n k selected.
Proof.
  intros reads n k selected. split.
  - unfold cap_ok_fast, cap_ok, count_table. rewrite forallb_map. reflexivity.
  - unfold maximal_ok_fast, maximal_ok, blocked, count_table.
    apply forallb_ext_in. intros ri _. rewrite existsb_map. reflexivity.
Qed.
