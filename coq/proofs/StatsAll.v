(* C12 — PhasingStats.__iadd__ and the ALL row: the detailed statistics of the aggregated object are
   the field-wise sum (minimum / maximum over the chromosomes that have blocks) of the per-chromosome
   rows; the aggregated object never makes get_detailed_stats or the print assertion fail. *)
From Coq Require Import ZArith List Bool Arith Lia Sorted Permutation.
From WH.Model Require Import Stats.
From WH.Proofs Require Import StatsSort StatsPieces StatsCounts StatsRows.
Import ListNotations.
Open Scope Z_scope.

Definition int_part (d : dstats) : dstats :=
  mkD (d_variants d) (d_phased d) (d_unphased d) (d_singletons d) (d_blocks d) (d_vmin d) (d_vmax d)
      (d_vsum d) (d_bmin d) (d_bmax d) (d_bsum d) (d_het d) (d_hetsnv d) (d_phsnv d) None.

Definition good_st (st : pstats) : Prop := st_sizes st = [] <-> st_lens st = [].

Lemma st_sizes_iadd : forall a b, st_sizes (ps_iadd a b) = st_sizes a ++ st_sizes b.
Proof. intros a b. unfold st_sizes, ps_iadd. cbn [ps_blocks]. rewrite filter_app, map_app. reflexivity. Qed.
Lemma st_lens_iadd : forall a b, st_lens (ps_iadd a b) = st_lens a ++ st_lens b.
Proof. intros a b. unfold st_lens, ps_iadd. cbn [ps_split]. rewrite filter_app, map_app. reflexivity. Qed.
Lemma st_singles_iadd : forall a b, st_singles (ps_iadd a b) = st_singles a + st_singles b.
Proof. intros a b. unfold st_singles, ps_iadd. cbn [ps_blocks]. rewrite filter_app, app_length. lia. Qed.
Lemma st_phsnv_iadd : forall a b, st_phsnv (ps_iadd a b) = st_phsnv a + st_phsnv b.
Proof. intros a b. unfold st_phsnv, ps_iadd. cbn [ps_blocks]. rewrite filter_app, map_app, zsum_app. reflexivity. Qed.

Lemma good_iadd : forall a b, good_st a -> good_st b -> good_st (ps_iadd a b).
Proof.
  intros a b Ha Hb. unfold good_st in *. rewrite st_sizes_iadd, st_lens_iadd. split; intro H.
  - apply app_eq_nil in H. destruct H as [H1 H2]. apply Ha in H1. apply Hb in H2. rewrite H1, H2. reflexivity.
  - apply app_eq_nil in H. destruct H as [H1 H2]. apply Ha in H1. apply Hb in H2. rewrite H1, H2. reflexivity.
Qed.
Lemma good_empty : good_st ps_empty.
Proof. unfold good_st. cbn. tauto. Qed.

Lemma of_nat_succ_eqb : forall n, (Z.of_nat (S n) =? 0) = false.
Proof. intros n. apply Z.eqb_neq. lia. Qed.

Lemma phsnv_nil : forall st, st_sizes st = [] -> st_phsnv st = 0.
Proof. intros st E. unfold st_sizes in E. apply map_eq_nil in E. unfold st_phsnv. rewrite E. reflexivity. Qed.

Lemma rowfun_iadd : forall chrlen a b, good_st a -> good_st b ->
  int_part (rowfun chrlen (ps_iadd a b)) = int_part (row_add (rowfun chrlen a) (rowfun chrlen b)).
Proof.
  intros chrlen a b Ha Hb. unfold rowfun.
  rewrite st_sizes_iadd, st_lens_iadd, st_singles_iadd, st_phsnv_iadd.
  unfold good_st in Ha, Hb.
  destruct (st_sizes a) as [|x xs] eqn:Ea; destruct (st_sizes b) as [|y ys] eqn:Eb.
  - cbn [app]. unfold int_part, row_add, ps_iadd. cbn. reflexivity.
  - rewrite (proj1 Ha eq_refl), (phsnv_nil a Ea). cbn [app]. unfold int_part, row_add, ps_iadd.
    cbn [d_variants d_phased d_unphased d_singletons d_blocks d_vmin d_vmax d_vsum d_bmin d_bmax d_bsum d_het d_hetsnv d_phsnv
         ps_variants ps_unphased ps_het ps_hetsnv]. rewrite Z.eqb_refl. f_equal; lia.
  - rewrite (proj1 Hb eq_refl), (phsnv_nil b Eb). rewrite !app_nil_r. unfold int_part, row_add, ps_iadd.
    cbn [d_variants d_phased d_unphased d_singletons d_blocks d_vmin d_vmax d_vsum d_bmin d_bmax d_bsum d_het d_hetsnv d_phsnv
         ps_variants ps_unphased ps_het ps_hetsnv length]. rewrite of_nat_succ_eqb, Z.eqb_refl. f_equal; lia.
  - assert (Hla : st_lens a <> []). { intro E. apply Ha in E. discriminate. }
    assert (Hlb : st_lens b <> []). { intro E. apply Hb in E. discriminate. }
    assert (Hsa : x :: xs <> []) by discriminate. assert (Hsb : y :: ys <> []) by discriminate.
    rewrite (zmin_list_app _ _ Hla Hlb), (zmax_list_app _ _ Hla Hlb), (zmin_list_app _ _ Hsa Hsb), (zmax_list_app _ _ Hsa Hsb).
    rewrite !zsum_app, app_length.
    destruct ((x :: xs) ++ y :: ys) eqn:Eapp. discriminate.
    unfold int_part, row_add, ps_iadd.
    cbn [d_variants d_phased d_unphased d_singletons d_blocks d_vmin d_vmax d_vsum d_bmin d_bmax d_bsum d_het d_hetsnv d_phsnv
         ps_variants ps_unphased ps_het ps_hetsnv length]. rewrite !of_nat_succ_eqb. f_equal; lia.
Qed.

Lemma row_add_int_part_l : forall x x' y, int_part x = int_part x' -> int_part (row_add x y) = int_part (row_add x' y).
Proof.
  intros x x' y H. destruct x, x'. unfold int_part in H. cbn in H. injection H. intros. subst. reflexivity.
Qed.
Lemma fold_row_add_int_part : forall rows x x', int_part x = int_part x' ->
  int_part (fold_left row_add rows x) = int_part (fold_left row_add rows x').
Proof.
  induction rows as [|r rows IH]; intros x x' H; cbn [fold_left]. exact H.
  apply IH. apply row_add_int_part_l. exact H.
Qed.

Lemma rowfun_fold : forall chrlen sts acc, good_st acc -> Forall good_st sts ->
  good_st (fold_left ps_iadd sts acc) /\
  int_part (rowfun chrlen (fold_left ps_iadd sts acc)) =
  int_part (fold_left row_add (map (rowfun chrlen) sts) (rowfun chrlen acc)).
Proof.
  intros chrlen sts. induction sts as [|s sts IH]; intros acc Hacc Hall; cbn [fold_left map].
  - split. exact Hacc. reflexivity.
  - inversion Hall as [|? ? Hs Hall']; subst.
    destruct (IH (ps_iadd acc s) (good_iadd _ _ Hacc Hs) Hall') as [H1 H2]. split. exact H1.
    rewrite H2. apply fold_row_add_int_part. apply rowfun_iadd; assumption.
Qed.

Lemma dstats_eqb_refl : forall d, dstats_eqb d d = true.
Proof.
  intros d. unfold dstats_eqb. rewrite !Z.eqb_refl. cbn [andb]. unfold oz_eqb. destruct (d_n50 d); cbn [key_eqb].
  apply Z.eqb_refl. reflexivity.
Qed.
Lemma int_part_eqb : forall a b, int_part a = int_part b -> dstats_int_eqb a b = true.
Proof.
  intros a b H. unfold dstats_int_eqb. fold (int_part a). fold (int_part b). rewrite H. apply dstats_eqb_refl.
Qed.
Lemma print_ok_int_part : forall a b, int_part a = int_part b -> print_ok a = print_ok b.
Proof.
  intros a b H. destruct a, b. unfold int_part in H. cbn in H. injection H. intros. subst. reflexivity.
Qed.
Lemma print_ok_row_add : forall a b, print_ok a = true -> print_ok b = true -> print_ok (row_add a b) = true.
Proof.
  intros a b Ha Hb. unfold print_ok in *. apply Z.eqb_eq in Ha, Hb. apply Z.eqb_eq. unfold row_add.
  cbn [d_phased d_unphased d_singletons d_het]. lia.
Qed.
Lemma print_ok_fold : forall rows x, print_ok x = true -> Forall (fun r => print_ok r = true) rows ->
  print_ok (fold_left row_add rows x) = true.
Proof.
  induction rows as [|r rows IH]; intros x Hx Hall; cbn [fold_left]. exact Hx.
  inversion Hall; subst. apply IH. apply print_ok_row_add; assumption. assumption.
Qed.

Lemma rowfun_empty_zero : forall chrlen, rowfun chrlen ps_empty = row_zero.
Proof. intros. reflexivity. Qed.

(* the aggregate of per-chromosome statistics objects *)
Theorem all_row_spec : forall chrlen sts,
  Forall good_st sts -> Forall (fun st => print_ok (rowfun chrlen st) = true) sts ->
  let total := fold_left ps_iadd sts ps_empty in
  get_detailed_stats chrlen total = Some (rowfun chrlen total) /\
  print_ok (rowfun chrlen total) = true /\
  dstats_int_eqb (rowfun chrlen total) (row_sum (map (rowfun chrlen) sts)) = true.
Proof.
  intros chrlen sts Hgood Hprint total.
  destruct (rowfun_fold chrlen sts ps_empty good_empty Hgood) as [Hg Hint]. fold total in Hg, Hint.
  rewrite rowfun_empty_zero in Hint. fold (row_sum (map (rowfun chrlen) sts)) in Hint.
  split; [|split].
  - apply detailed_rowfun. unfold good_st in Hg. destruct (st_sizes total) eqn:E. left; reflexivity.
    right. intro El. apply Hg in El. discriminate.
  - rewrite (print_ok_int_part _ _ Hint). unfold row_sum. apply print_ok_fold. reflexivity.
    rewrite Forall_forall in Hprint |- *. intros r Hr. apply in_map_iff in Hr. destruct Hr as (st & <- & Hst).
    apply Hprint. exact Hst.
  - apply int_part_eqb. exact Hint.
Qed.

(* per-chromosome objects produced by process_rows satisfy the premises *)
Lemma process_rows_good : forall R chrlen cid rows cr, process_rows R chrlen cid rows = Some cr ->
  good_st (cr_stats cr) /\ cr_row cr = rowfun chrlen (cr_stats cr) /\ print_ok (cr_row cr) = true.
Proof.
  intros R chrlen cid rows cr H.
  destruct (mixed_keys (dict_build (entries R rows) [])) eqn:Hmix.
  { exfalso. unfold process_rows in H.
    destruct (gpb_fold R rows g_init) as (_ & _ & _ & _ & E5). cbn zeta in E5. cbn [g_init g_blocks] in E5.
    unfold get_phase_blocks in H at 1. rewrite E5 in H. unfold write_to_block_list in H. rewrite Hmix in H. discriminate. }
  destruct (process_rows_spec R chrlen cid rows Hmix) as (pieces & _ & _ & _ & _ & Hsz & Hlens & E).
  rewrite E in H. injection H as <-. cbn [cr_stats cr_row]. split; [|split].
  - unfold good_st. rewrite Hlens. rewrite Hsz. split; intro E'. subst. reflexivity. apply map_eq_nil in E'. exact E'.
  - reflexivity.
  - apply chrom_identity.
Qed.
