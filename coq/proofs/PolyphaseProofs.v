(* C15 — proofs, part 1: multisets, sequential writes, force_genotypes envelope, assignments, permute_blocks. *)
From Coq Require Import ZArith List Bool Arith Lia Permutation.
From WH.Model Require Import Polyphase.
Import ListNotations.
Open Scope Z_scope.

(* ------------------------------------------------------------------------------------------ basics *)
Lemma memZ_In : forall a l, memZ a l = true <-> In a l.
Proof.
  intros a l. unfold memZ. rewrite existsb_exists. split.
  - intros [x [Hin Heq]]. apply Z.eqb_eq in Heq. subst. exact Hin.
  - intros Hin. exists a. split; [exact Hin | apply Z.eqb_refl].
Qed.

Lemma memZ_false : forall a l, memZ a l = false <-> ~ In a l.
Proof.
  intros a l. rewrite <- memZ_In. destruct (memZ a l); split; intros H.
  - discriminate.
  - exfalso. apply H. reflexivity.
  - intros H'. discriminate.
  - reflexivity.
Qed.

Lemma memN_In : forall a l, memN a l = true <-> In a l.
Proof.
  intros a l. unfold memN. rewrite existsb_exists. split.
  - intros [x [Hin Heq]]. apply Nat.eqb_eq in Heq. subst. exact Hin.
  - intros Hin. exists a. split; [exact Hin | apply Nat.eqb_refl].
Qed.

Lemma memN_false : forall a l, memN a l = false <-> ~ In a l.
Proof.
  intros a l. rewrite <- memN_In. destruct (memN a l); split; intros H.
  - discriminate.
  - exfalso. apply H. reflexivity.
  - intros H'. discriminate.
  - reflexivity.
Qed.

Lemma count_In : forall a l, (0 < count a l)%nat <-> In a l.
Proof. intros a l. unfold count. symmetry. apply count_occ_In. Qed.

Lemma count_notin : forall a l, ~ In a l -> count a l = 0%nat.
Proof. intros a l H. unfold count. apply count_occ_not_In. exact H. Qed.

Lemma count_app : forall a l1 l2, count a (l1 ++ l2) = (count a l1 + count a l2)%nat.
Proof. intros. unfold count. apply count_occ_app. Qed.

Lemma count_perm : forall l1 l2, Permutation l1 l2 <-> forall a, count a l1 = count a l2.
Proof. intros. unfold count. apply Permutation_count_occ. Qed.

Lemma same_mset_perm : forall a b, same_mset a b = true <-> Permutation a b.
Proof.
  intros a b. unfold same_mset. rewrite forallb_forall. rewrite count_perm. split.
  - intros H x. destruct (in_dec Z.eq_dec x (a ++ b)) as [Hin | Hnin].
    + apply Nat.eqb_eq. apply H. exact Hin.
    + rewrite !count_notin; [reflexivity | |]; intros Hc; apply Hnin; apply in_or_app; auto.
  - intros H x _. apply Nat.eqb_eq. apply H.
Qed.

Lemma conforms_spec : forall g c, conforms g c = true <-> In undet c \/ Permutation c g.
Proof.
  intros g c. unfold conforms. rewrite orb_true_iff, memZ_In, same_mset_perm. reflexivity.
Qed.

Lemma insertZ_perm : forall x l, Permutation (insertZ x l) (x :: l).
Proof.
  intros x l. induction l as [| y t IH]; cbn [insertZ].
  - apply Permutation_refl.
  - destruct (x <=? y) eqn:E.
    + apply Permutation_refl.
    + eapply perm_trans; [apply perm_skip; exact IH | apply perm_swap].
Qed.

Lemma sortZ_perm : forall l, Permutation (sortZ l) l.
Proof.
  induction l as [| x t IH]; cbn [sortZ fold_right].
  - apply Permutation_refl.
  - eapply perm_trans; [apply insertZ_perm | apply perm_skip; exact IH].
Qed.

Lemma insertN_perm : forall x l, Permutation (insertN x l) (x :: l).
Proof.
  intros x l. induction l as [| y t IH]; cbn [insertN].
  - apply Permutation_refl.
  - destruct (x <=? y)%nat eqn:E.
    + apply Permutation_refl.
    + eapply perm_trans; [apply perm_skip; exact IH | apply perm_swap].
Qed.

Lemma sortN_perm : forall l, Permutation (sortN l) l.
Proof.
  induction l as [| x t IH]; cbn [sortN fold_right].
  - apply Permutation_refl.
  - eapply perm_trans; [apply insertN_perm | apply perm_skip; exact IH].
Qed.

Lemma nodupZ_In : forall a l, In a (nodupZ l) <-> In a l.
Proof.
  intros a l. induction l as [| x t IH]; cbn [nodupZ]; [reflexivity |].
  destruct (memZ x t) eqn:E.
  - rewrite IH. split; [intros H; right; exact H |]. intros [H | H]; [| exact H].
    subst. apply memZ_In. exact E.
  - cbn [In]. rewrite IH. reflexivity.
Qed.

Lemma nodupZ_NoDup : forall l, NoDup (nodupZ l).
Proof.
  induction l as [| x t IH]; cbn [nodupZ]; [constructor |].
  destruct (memZ x t) eqn:E; [exact IH |].
  constructor; [| exact IH]. rewrite nodupZ_In. apply memZ_false. exact E.
Qed.

Lemma map_fst_combine_eq : forall A B (a : list A) (b : list B), length a = length b -> map fst (combine a b) = a.
Proof.
  intros A B a. induction a as [| x t IH]; intros [| y u] H; cbn [length] in H; try lia; [reflexivity |].
  cbn [combine map fst]. f_equal. apply IH. lia.
Qed.

Lemma map_snd_combine_eq : forall A B (a : list A) (b : list B), length a = length b -> map snd (combine a b) = b.
Proof.
  intros A B a. induction a as [| x t IH]; intros [| y u] H; cbn [length] in H; try lia; [reflexivity |].
  cbn [combine map snd]. f_equal. apply IH. lia.
Qed.

Lemma filter_all_true : forall A (f : A -> bool) l, (forall x, In x l -> f x = true) -> filter f l = l.
Proof.
  intros A f l. induction l as [| x t IH]; intros H; cbn [filter]; [reflexivity |].
  rewrite (H x (or_introl eq_refl)). f_equal. apply IH. intros y Hy. apply H. right. exact Hy.
Qed.

(* ------------------------------------------------------------------- set_nth and sequential writes *)
Lemma set_nth_length : forall A (l : list A) i v, length (set_nth i v l) = length l.
Proof.
  intros A l. induction l as [| y t IH]; intros i v; [destruct i; reflexivity |].
  destruct i; cbn [set_nth length]; [reflexivity | rewrite IH; reflexivity].
Qed.

Lemma set_nth_nth_same : forall A (l : list A) i v d, (i < length l)%nat -> nth i (set_nth i v l) d = v.
Proof.
  intros A l. induction l as [| y t IH]; intros i v d H; cbn [length] in H; [lia |].
  destruct i; cbn [set_nth nth]; [reflexivity | apply IH; lia].
Qed.

Lemma set_nth_nth_other : forall A (l : list A) i j v d, i <> j -> nth j (set_nth i v l) d = nth j l d.
Proof.
  intros A l. induction l as [| y t IH]; intros i j v d H; [destruct i; reflexivity |].
  destruct i; destruct j; cbn [set_nth nth]; try reflexivity; try congruence.
  apply IH. congruence.
Qed.

Lemma set_nth_nth_error_other : forall A (l : list A) i j v, i <> j -> nth_error (set_nth i v l) j = nth_error l j.
Proof.
  intros A l. induction l as [| y t IH]; intros i j v H; [destruct i; reflexivity |].
  destruct i; destruct j; cbn [set_nth nth_error]; try reflexivity; try congruence.
  apply IH. congruence.
Qed.

Lemma set_nth_nth_error_same : forall A (l : list A) i v, (i < length l)%nat -> nth_error (set_nth i v l) i = Some v.
Proof.
  intros A l. induction l as [| y t IH]; intros i v H; cbn [length] in H; [lia |].
  destruct i; cbn [set_nth nth_error]; [reflexivity | apply IH; lia].
Qed.

Lemma set_nth_perm : forall A (l : list A) i v d, (i < length l)%nat ->
  Permutation (nth i l d :: set_nth i v l) (v :: l).
Proof.
  intros A l. induction l as [| y t IH]; intros i v d H; cbn [length] in H; [lia |].
  destruct i; cbn [set_nth nth].
  - apply perm_swap.
  - eapply perm_trans; [apply perm_swap |].
    eapply perm_trans; [apply perm_skip; apply IH; lia |]. apply perm_swap.
Qed.

(* writes at pairwise distinct indices *)
Fixpoint write_seq {A} (l : list A) (ivs : list (nat * A)) : list A :=
  match ivs with
  | [] => l
  | iv :: t => write_seq (set_nth (fst iv) (snd iv) l) t
  end.

Lemma write_seq_length : forall A (ivs : list (nat * A)) l, length (write_seq l ivs) = length l.
Proof.
  intros A ivs. induction ivs as [| iv t IH]; intros l; cbn [write_seq]; [reflexivity |].
  rewrite IH. apply set_nth_length.
Qed.

Lemma write_seq_other : forall A (ivs : list (nat * A)) l j d, ~ In j (map fst ivs) ->
  nth j (write_seq l ivs) d = nth j l d.
Proof.
  intros A ivs. induction ivs as [| iv t IH]; intros l j d H; cbn [write_seq]; [reflexivity |].
  cbn [map In] in H. rewrite IH by tauto. apply set_nth_nth_other. tauto.
Qed.

Lemma write_seq_perm : forall A (ivs : list (nat * A)) l d,
  NoDup (map fst ivs) -> Forall (fun i => (i < length l)%nat) (map fst ivs) ->
  Permutation (write_seq l ivs ++ map (fun iv => nth (fst iv) l d) ivs) (l ++ map snd ivs).
Proof.
  intros A ivs. induction ivs as [| iv t IH]; intros l d Hnd Hlt; cbn [write_seq map].
  - apply Permutation_refl.
  - cbn [map] in Hnd, Hlt. inversion Hnd as [| x xs Hnin Hnd']; subst. inversion Hlt as [| x xs Hi Hlt']; subst.
    specialize (IH (set_nth (fst iv) (snd iv) l) d Hnd').
    assert (Hlt2 : Forall (fun i => (i < length (set_nth (fst iv) (snd iv) l))%nat) (map fst t)).
    { rewrite set_nth_length. exact Hlt'. }
    specialize (IH Hlt2).
    assert (Hmap : map (fun iv0 => nth (fst iv0) (set_nth (fst iv) (snd iv) l) d) t
                   = map (fun iv0 => nth (fst iv0) l d) t).
    { apply map_ext_in. intros a Ha. apply set_nth_nth_other. intros Heq. apply Hnin. rewrite Heq.
      apply in_map. exact Ha. }
    rewrite Hmap in IH.
    (* W ++ old_iv :: olds  ~  old_iv :: W ++ olds ~ old_iv :: l' ++ news ~ (old_iv :: l') ++ news ~ (v :: l) ++ news *)
    eapply perm_trans; [apply Permutation_sym; apply Permutation_middle |].
    eapply perm_trans; [apply perm_skip; exact IH |].
    change (Permutation ((nth (fst iv) l d :: set_nth (fst iv) (snd iv) l) ++ map snd t) (l ++ snd iv :: map snd t)).
    eapply perm_trans; [apply Permutation_app_tail; apply set_nth_perm; exact Hi |].
    cbn [app]. apply Permutation_middle.
Qed.

Lemma write_seq_In_new : forall A (ivs : list (nat * A)) l v,
  NoDup (map fst ivs) -> Forall (fun i => (i < length l)%nat) (map fst ivs) ->
  In v (map snd ivs) -> In v (write_seq l ivs).
Proof.
  intros A ivs. induction ivs as [| iv t IH]; intros l v Hnd Hlt Hin; cbn [map] in *; [contradiction |].
  inversion Hnd as [| x xs Hnin Hnd']; subst. inversion Hlt as [| x xs Hi Hlt']; subst.
  cbn [write_seq]. destruct Hin as [Heq | Hin].
  - subst v. assert (H : nth (fst iv) (write_seq (set_nth (fst iv) (snd iv) l) t) (snd iv) = snd iv).
    { rewrite write_seq_other by exact Hnin. apply set_nth_nth_same. exact Hi. }
    assert (Hin : In (nth (fst iv) (write_seq (set_nth (fst iv) (snd iv) l) t) (snd iv))
                     (write_seq (set_nth (fst iv) (snd iv) l) t)).
    { apply nth_In. rewrite write_seq_length, set_nth_length. exact Hi. }
    rewrite H in Hin. exact Hin.
  - apply IH; [exact Hnd' | rewrite set_nth_length; exact Hlt' | exact Hin].
Qed.

(* filter on values = values at the filtered indices *)
Lemma map_nth_filter_seq : forall (P : Z -> bool) (l : list Z) (off : nat),
  map (fun p => nth (p - off) l 0) (filter (fun p => P (nth (p - off) l 0)) (seq off (length l))) = filter P l.
Proof.
  intros P l. induction l as [| x t IH]; intros off; [reflexivity |].
  change (length (x :: t)) with (S (length t)). change (seq off (S (length t))) with (off :: seq (S off) (length t)).
  assert (Hf : filter (fun p => P (nth (p - off) (x :: t) 0)) (seq (S off) (length t))
               = filter (fun p => P (nth (p - S off) t 0)) (seq (S off) (length t))).
  { apply filter_ext_in. intros a Ha. apply in_seq in Ha.
    replace (a - off)%nat with (S (a - S off)) by lia. reflexivity. }
  assert (Hm : forall l', (forall a, In a l' -> (S off <= a)%nat) ->
               map (fun p => nth (p - off) (x :: t) 0) l' = map (fun p => nth (p - S off) t 0) l').
  { intros l' Hl'. apply map_ext_in. intros a Ha. specialize (Hl' a Ha).
    replace (a - off)%nat with (S (a - S off)) by lia. reflexivity. }
  assert (Hge : forall a, In a (filter (fun p => P (nth (p - S off) t 0)) (seq (S off) (length t))) -> (S off <= a)%nat).
  { intros a Ha. apply filter_In in Ha. destruct Ha as [Ha _]. apply in_seq in Ha. lia. }
  assert (H0 : nth (off - off) (x :: t) 0 = x) by (rewrite Nat.sub_diag; reflexivity).
  cbn [filter]. rewrite H0. destruct (P x) eqn:E.
  - cbn [map]. rewrite H0. f_equal. rewrite Hf, (Hm _ Hge). apply IH.
  - rewrite Hf, (Hm _ Hge). apply IH.
Qed.

Lemma filter_partition_perm : forall (P : Z -> bool) l,
  Permutation l (filter P l ++ filter (fun x => negb (P x)) l).
Proof.
  intros P l. induction l as [| x t IH]; cbn [filter]; [apply Permutation_refl |].
  destruct (P x); cbn [negb app].
  - apply perm_skip. exact IH.
  - eapply perm_trans; [apply perm_skip; exact IH | apply Permutation_middle].
Qed.

Lemma count_filter : forall (P : Z -> bool) l a, count a (filter P l) = if P a then count a l else 0%nat.
Proof.
  intros P l a. induction l as [| x t IH]; cbn [filter].
  - destruct (P a); reflexivity.
  - unfold count in *. destruct (P x) eqn:E; cbn [count_occ].
    + destruct (Z.eq_dec x a) as [Heq | Hne].
      * subst. rewrite E in *. rewrite IH. reflexivity.
      * exact IH.
    + destruct (Z.eq_dec x a) as [Heq | Hne].
      * subst. rewrite E in *. exact IH.
      * exact IH.
Qed.

Lemma count_repeat : forall a b n, count a (repeat b n) = if Z.eq_dec b a then n else 0%nat.
Proof.
  intros a b n. induction n as [| n IH]; cbn [repeat].
  - destruct (Z.eq_dec b a); reflexivity.
  - unfold count in *. cbn [count_occ]. destruct (Z.eq_dec b a); [rewrite IH; reflexivity | exact IH].
Qed.

(* count in a flat_map of repeats over a duplicate-free list *)
Lemma count_flat_map_repeat : forall (f : Z -> list Z) (n : Z -> nat) l a,
  (forall b, f b = repeat b (n b)) -> NoDup l ->
  count a (flat_map f l) = if in_dec Z.eq_dec a l then n a else 0%nat.
Proof.
  intros f n l a Hf. induction l as [| x t IH]; intros Hnd; cbn [flat_map].
  - destruct (in_dec Z.eq_dec a []); [contradiction | reflexivity].
  - inversion Hnd as [| y ys Hnin Hnd']; subst. rewrite count_app, Hf, count_repeat, (IH Hnd').
    destruct (Z.eq_dec x a) as [Heq | Hne].
    + subst. destruct (in_dec Z.eq_dec a t); [contradiction |].
      destruct (in_dec Z.eq_dec a (a :: t)) as [_ | Hc]; [lia | exfalso; apply Hc; left; reflexivity].
    + destruct (in_dec Z.eq_dec a t) as [Hin | Hnin'];
        destruct (in_dec Z.eq_dec a (x :: t)) as [Hin2 | Hnin2]; try reflexivity.
      * exfalso. apply Hnin2. right. exact Hin.
      * exfalso. destruct Hin2; [congruence | contradiction].
Qed.

(* ------------------------------------------------------------------------------------ permutations *)
Lemma insert_all_perm : forall x l p, In p (insert_all x l) -> Permutation p (x :: l).
Proof.
  intros x l. induction l as [| y t IH]; intros p Hin; cbn [insert_all In] in Hin.
  - destruct Hin as [Heq | []]. subst. apply Permutation_refl.
  - destruct Hin as [Heq | Hin]; [subst; apply Permutation_refl |].
    apply in_map_iff in Hin. destruct Hin as [q [Heq Hq]]. subst p.
    eapply perm_trans; [apply perm_skip; apply IH; exact Hq | apply perm_swap].
Qed.

Lemma perms_perm : forall l p, In p (perms l) -> Permutation p l.
Proof.
  induction l as [| x t IH]; intros p Hin; cbn [perms In] in Hin.
  - destruct Hin as [Heq | []]. subst. apply Permutation_refl.
  - apply in_flat_map in Hin. destruct Hin as [q [Hq Hp]].
    eapply perm_trans; [apply insert_all_perm; exact Hp | apply perm_skip; apply IH; exact Hq].
Qed.

Lemma insert_all_nonempty : forall x l, insert_all x l <> [].
Proof. intros x l. destruct l; cbn [insert_all]; discriminate. Qed.

Lemma perms_self : forall l, In l (perms l).
Proof.
  induction l as [| x t IH]; cbn [perms]; [left; reflexivity |].
  apply in_flat_map. exists t. split; [exact IH |]. destruct t; cbn [insert_all]; left; reflexivity.
Qed.

(* ---------------------------------------------------------------------------------- force_genotypes *)
Lemma write_slots_write_seq : forall vals slots cfg,
  length vals = length slots -> write_slots cfg slots vals = Some (write_seq cfg (combine slots vals)).
Proof.
  induction vals as [| v vs IH]; intros slots cfg Hlen; destruct slots as [| s ss]; cbn [length] in Hlen; try lia.
  - reflexivity.
  - cbn [write_slots combine write_seq fst snd]. apply IH. lia.
Qed.

Lemma affected_values : forall g cfg,
  map (fun p => nth p cfg 0) (affected_slots g cfg) = filter (abundant g cfg) cfg.
Proof.
  intros g cfg. unfold affected_slots.
  pose proof (map_nth_filter_seq (abundant g cfg) cfg 0) as H.
  rewrite <- H.
  transitivity (map (fun p => nth (p - 0) cfg 0)
                    (filter (fun p => abundant g cfg (nth p cfg 0)) (seq 0 (length cfg)))).
  - apply map_ext. intros a. rewrite Nat.sub_0_r. reflexivity.
  - f_equal. apply filter_ext. intros a. rewrite Nat.sub_0_r. reflexivity.
Qed.

Lemma affected_slots_NoDup : forall g cfg, NoDup (affected_slots g cfg).
Proof. intros. unfold affected_slots. apply NoDup_filter. apply seq_NoDup. Qed.

Lemma affected_slots_lt : forall g cfg, Forall (fun i => (i < length cfg)%nat) (affected_slots g cfg).
Proof.
  intros. unfold affected_slots. apply Forall_forall. intros x Hx. apply filter_In in Hx.
  destruct Hx as [Hx _]. apply in_seq in Hx. lia.
Qed.

Lemma affected_slots_length : forall g cfg, length (affected_slots g cfg) = length (filter (abundant g cfg) cfg).
Proof. intros. rewrite <- affected_values. rewrite map_length. reflexivity. Qed.

(* the genotype = the alleles that stay (slots without an abundant allele) + the alleles to insert *)
Lemma genotype_split : forall g cfg,
  Permutation g (filter (fun x => negb (abundant g cfg x)) cfg ++ to_insert g cfg).
Proof.
  intros g cfg. apply count_perm. intros a. rewrite count_app, count_filter.
  unfold to_insert. rewrite (proj1 (count_perm _ _) (sortZ_perm _) a).
  rewrite (count_flat_map_repeat _ (fun b => if abundant g cfg b then count b g
                                             else if lacking g cfg b then (count b g - count b cfg)%nat else 0%nat)).
  - destruct (in_dec Z.eq_dec a (alleles_of g cfg)) as [Hin | Hnin].
    + unfold abundant, lacking. destruct (count a g <? count a cfg)%nat eqn:E1; cbn [negb].
      * lia.
      * destruct (count a cfg <? count a g)%nat eqn:E2.
        -- apply Nat.ltb_lt in E2. lia.
        -- apply Nat.ltb_ge in E1. apply Nat.ltb_ge in E2. lia.
    + unfold alleles_of in Hnin. rewrite nodupZ_In in Hnin.
      assert (Hg : count a g = 0%nat) by (apply count_notin; intros H; apply Hnin; apply in_or_app; auto).
      assert (Hc : count a cfg = 0%nat) by (apply count_notin; intros H; apply Hnin; apply in_or_app; auto).
      rewrite Hg, Hc. destruct (negb (abundant g cfg a)); reflexivity.
  - intros b. destruct (abundant g cfg b); [reflexivity |]. destruct (lacking g cfg b); reflexivity.
  - apply nodupZ_NoDup.
Qed.

Lemma to_insert_length : forall g cfg, length g = length cfg ->
  length (to_insert g cfg) = length (affected_slots g cfg).
Proof.
  intros g cfg Hlen. rewrite affected_slots_length.
  pose proof (Permutation_length (genotype_split g cfg)) as H1.
  pose proof (Permutation_length (filter_partition_perm (abundant g cfg) cfg)) as H2.
  rewrite app_length in H1, H2. lia.
Qed.

Lemma candidate_conforms : forall g cfg perm, length g = length cfg -> In perm (perms (to_insert g cfg)) ->
  exists out, write_slots cfg (affected_slots g cfg) perm = Some out /\ Permutation out g /\ length out = length cfg.
Proof.
  intros g cfg perm Hlen Hin.
  pose proof (perms_perm _ _ Hin) as Hperm.
  assert (Hl : length perm = length (affected_slots g cfg)).
  { rewrite (Permutation_length Hperm). apply to_insert_length. exact Hlen. }
  rewrite (write_slots_write_seq _ _ _ Hl).
  eexists. split; [reflexivity |]. split; [| apply write_seq_length].
  set (ivs := combine (affected_slots g cfg) perm).
  assert (Hfst : map fst ivs = affected_slots g cfg) by (unfold ivs; apply map_fst_combine_eq; lia).
  assert (Hsnd : map snd ivs = perm) by (unfold ivs; apply map_snd_combine_eq; lia).
  pose proof (write_seq_perm Z ivs cfg 0) as Hw. rewrite Hfst in Hw.
  specialize (Hw (affected_slots_NoDup g cfg) (affected_slots_lt g cfg)).
  rewrite Hsnd in Hw.
  assert (Hold : map (fun iv : nat * Z => nth (fst iv) cfg 0) ivs = filter (abundant g cfg) cfg).
  { rewrite <- affected_values, <- Hfst. rewrite map_map. reflexivity. }
  rewrite Hold in Hw.
  (* W ++ A ~ cfg ++ perm ~ (A ++ U) ++ perm  =>  W ~ U ++ perm ~ U ++ to_insert ~ g *)
  assert (H2 : Permutation (write_seq cfg ivs ++ filter (abundant g cfg) cfg)
                           ((filter (fun x => negb (abundant g cfg x)) cfg ++ perm) ++ filter (abundant g cfg) cfg)).
  { eapply perm_trans; [exact Hw |].
    eapply perm_trans; [apply Permutation_app_tail; apply (filter_partition_perm (abundant g cfg)) |].
    rewrite <- app_assoc. apply Permutation_app_comm. }
  apply Permutation_app_inv_r in H2.
  eapply perm_trans; [exact H2 |].
  eapply perm_trans; [apply Permutation_app_head; exact Hperm |].
  apply Permutation_sym. apply genotype_split.
Qed.

Lemma no_abundant_conforms : forall g cfg, length g = length cfg ->
  existsb (abundant g cfg) (alleles_of g cfg) = false -> Permutation cfg g.
Proof.
  intros g cfg Hlen Hno.
  assert (Hall : forall a, abundant g cfg a = false).
  { intros a. destruct (in_dec Z.eq_dec a (alleles_of g cfg)) as [Hin | Hnin].
    - destruct (abundant g cfg a) eqn:E; [| reflexivity].
      assert (Hex : existsb (abundant g cfg) (alleles_of g cfg) = true) by (apply existsb_exists; exists a; auto).
      congruence.
    - unfold alleles_of in Hnin. rewrite nodupZ_In in Hnin. unfold abundant.
      rewrite (count_notin a cfg) by (intros H; apply Hnin; apply in_or_app; auto). apply Nat.ltb_ge. lia. }
  assert (Hf : filter (fun x => negb (abundant g cfg x)) cfg = cfg).
  { apply filter_all_true. intros x _. rewrite Hall. reflexivity. }
  pose proof (genotype_split g cfg) as Hs. rewrite Hf in Hs.
  assert (Hti : to_insert g cfg = []).
  { apply length_zero_iff_nil. pose proof (Permutation_length Hs) as Hl. rewrite app_length in Hl. lia. }
  rewrite Hti, app_nil_r in Hs. apply Permutation_sym. exact Hs.
Qed.

(* every member of the envelope of the repaired rule (= of the current code whenever some candidate has a
   likelihood > -inf) obeys the genotype; no candidate is a python error *)
Theorem force_pos_conforms : forall g cfg o, length g = length cfg ->
  In o (force_pos_envelope AlwaysCandidate g cfg) ->
  exists out, o = Some out /\ length out = length cfg /\ (In undet out \/ Permutation out g).
Proof.
  intros g cfg o Hlen Hin. unfold force_pos_envelope in Hin. destruct (needs_forcing g cfg) eqn:E.
  - cbn [fallback_extra] in Hin. rewrite app_nil_r in Hin. unfold candidates in Hin.
    apply in_map_iff in Hin. destruct Hin as [perm [Hw Hp]].
    destruct (candidate_conforms g cfg perm Hlen Hp) as [out [Hout [Hperm Hl]]].
    exists out. split; [congruence |]. split; [exact Hl | right; exact Hperm].
  - destruct Hin as [Heq | []]. exists cfg. split; [auto |]. split; [reflexivity |].
    unfold needs_forcing in E. apply andb_false_iff in E. destruct E as [E | E].
    + left. apply memZ_In. destruct (memZ undet cfg); [reflexivity | discriminate].
    + right. apply no_abundant_conforms; assumption.
Qed.

(* the code as it is: either as above, or the given configuration survives at a position that needed forcing *)
Theorem force_pos_keepgiven : forall g cfg o, length g = length cfg ->
  In o (force_pos_envelope KeepGiven g cfg) ->
  exists out, o = Some out /\ length out = length cfg /\
    (In undet out \/ Permutation out g \/ (out = cfg /\ needs_forcing g cfg = true)).
Proof.
  intros g cfg o Hlen Hin. unfold force_pos_envelope in Hin. destruct (needs_forcing g cfg) eqn:E.
  - apply in_app_or in Hin. destruct Hin as [Hin | Hin].
    + destruct (force_pos_conforms g cfg o Hlen) as [out [H1 [H2 H3]]].
      { unfold force_pos_envelope. rewrite E. cbn [fallback_extra]. rewrite app_nil_r. exact Hin. }
      exists out. split; [exact H1 |]. split; [exact H2 | tauto].
    + cbn [fallback_extra In] in Hin. destruct Hin as [Heq | []]. exists cfg. split; [auto |]. split; [reflexivity |].
      right. right. split; reflexivity.
  - destruct (force_pos_conforms g cfg o Hlen) as [out [H1 [H2 H3]]].
    { unfold force_pos_envelope. rewrite E. exact Hin. }
    exists out. split; [exact H1 |]. split; [exact H2 | tauto].
Qed.

Theorem force_pos_keepgiven_refuted : exists g cfg out,
  length g = length cfg /\ In (Some out) (force_pos_envelope KeepGiven g cfg) /\ conforms g out = false.
Proof.
  exists [0; 0; 1; 1], [0; 0; 0; 0], [0; 0; 0; 0]. split; [reflexivity |]. split; [| reflexivity].
  vm_compute. repeat (try (left; reflexivity); right).
Qed.

Lemma force_envelope_nonempty : forall fb g cfg, force_pos_envelope fb g cfg <> [].
Proof.
  intros fb g cfg. unfold force_pos_envelope. destruct (needs_forcing g cfg); [| discriminate].
  unfold candidates. pose proof (perms_self (to_insert g cfg)) as H.
  destruct (perms (to_insert g cfg)) as [| p ps]; [contradiction | cbn [map app]; discriminate].
Qed.

Lemma ocol_eqb_eq : forall a b, ocol_eqb a b = true -> a = b.
Proof.
  intros [a |] [b |] H; cbn [ocol_eqb] in H; try discriminate; [| reflexivity].
  f_equal. revert b H. induction a as [| x t IH]; intros [| y u] H; cbn [col_eqb list_eqb] in H; try discriminate.
  - reflexivity.
  - unfold col_eqb in *. cbn [list_eqb] in H. apply andb_true_iff in H. destruct H as [H1 H2].
    apply Z.eqb_eq in H1. subst. f_equal. apply IH. exact H2.
Qed.

(* matrix level, as evaluated by the harness *)
Theorem force_genotypes_conforms : forall gs cols outs,
  Forall2 (fun g c => length g = length c) gs cols ->
  in_force_envelope AlwaysCandidate gs cols outs = true ->
  all_conform gs outs = true /\ Forall2 (fun c o => length o = length c) cols outs.
Proof.
  intros gs cols outs Hlen. revert outs. induction Hlen as [| g c gs' cols' Hl Hrest IH]; intros outs H.
  - destruct outs; cbn [in_force_envelope] in H; [| discriminate]. split; [reflexivity | constructor].
  - destruct outs as [| o outs']; cbn [in_force_envelope] in H; [discriminate |].
    apply andb_true_iff in H. destruct H as [H1 H2]. destruct (IH _ H2) as [IH1 IH2].
    unfold in_force_pos in H1. apply existsb_exists in H1. destruct H1 as [x [Hx Heq]].
    apply ocol_eqb_eq in Heq. subst x.
    destruct (force_pos_conforms g c (Some o) Hl Hx) as [out [Ho [Hlo Hc]]]. inversion Ho; subst out.
    split.
    + unfold all_conform in *. cbn [all2]. rewrite IH1, andb_true_r. apply conforms_spec. exact Hc.
    + constructor; assumption.
Qed.

(* ------------------------------------------------------------------------------------- assignments *)
Local Open Scope nat_scope.

Lemma index_of_Some : forall x l i, index_of x l = Some i -> i < length l /\ nth i l 0 = x.
Proof.
  intros x l. induction l as [| y t IH]; intros i H; cbn [index_of] in H; [discriminate |].
  destruct (Nat.eqb x y) eqn:E.
  - inversion H; subst. apply Nat.eqb_eq in E. subst. cbn [length nth]. split; [lia | reflexivity].
  - destruct (index_of x t) as [j |] eqn:Ej; cbn [option_map] in H; [| discriminate].
    inversion H; subst. destruct (IH j eq_refl) as [H1 H2]. cbn [length nth]. split; [lia | exact H2].
Qed.

Lemma index_of_In : forall x l, In x l -> exists i, index_of x l = Some i.
Proof.
  intros x l. induction l as [| y t IH]; intros H; [contradiction |]. cbn [index_of].
  destruct (Nat.eqb x y) eqn:E; [exists 0; reflexivity |].
  destruct H as [H | H]; [subst; rewrite Nat.eqb_refl in E; discriminate |].
  destruct (IH H) as [i Hi]. rewrite Hi. exists (S i). reflexivity.
Qed.

Definition idx_in (cur : list nat) (x : nat) : nat := match index_of x cur with Some i => i | None => 0 end.

Lemma idx_in_spec : forall cur x, In x cur -> idx_in cur x < length cur /\ nth (idx_in cur x) cur 0 = x.
Proof.
  intros cur x H. unfold idx_in. destruct (index_of_In x cur H) as [i Hi]. rewrite Hi. apply index_of_Some. exact Hi.
Qed.

Lemma assign_fold : forall cur pairs nx,
  (forall lr, In lr pairs -> In (fst lr) cur) ->
  fold_left (fun (acc : option (list nat)) (lr : nat * nat) =>
               match acc, index_of (fst lr) cur with
               | Some nx, Some i => Some (set_nth i (snd lr) nx)
               | _, _ => None
               end) pairs (Some nx)
  = Some (write_seq nx (map (fun lr => (idx_in cur (fst lr), snd lr)) pairs)).
Proof.
  intros cur pairs. induction pairs as [| lr t IH]; intros nx Hin; cbn [fold_left map write_seq]; [reflexivity |].
  destruct (index_of_In (fst lr) cur (Hin lr (or_introl eq_refl))) as [i Hi].
  rewrite Hi. cbn [fst snd]. unfold idx_in at 1. rewrite Hi. apply IH. intros lr' H'. apply Hin. right. exact H'.
Qed.

Lemma assign_step_perm : forall k cur perm,
  Permutation cur (seq 0 k) -> NoDup perm -> Forall (fun i => i < k) perm ->
  exists nx, assign_step cur perm = Some nx /\ Permutation nx (seq 0 k).
Proof.
  intros k cur perm Hcur Hnd Hlt.
  assert (Hincur : forall x, In x perm -> In x cur).
  { intros x Hx. eapply Permutation_in; [apply Permutation_sym; exact Hcur |]. apply in_seq.
    rewrite Forall_forall in Hlt. specialize (Hlt x Hx). lia. }
  pose proof (sortN_perm perm) as Hsort.
  assert (Hlen : length (sortN perm) = length perm) by (apply Permutation_length; exact Hsort).
  set (pairs := combine (sortN perm) perm).
  assert (Hpairs : forall lr, In lr pairs -> In (fst lr) cur).
  { intros [l r] Hlr. unfold pairs in Hlr. apply in_combine_l in Hlr. cbn [fst]. apply Hincur.
    eapply Permutation_in; [exact Hsort | exact Hlr]. }
  unfold assign_step. fold pairs. rewrite (assign_fold cur pairs cur Hpairs).
  eexists. split; [reflexivity |].
  set (ivs := map (fun lr : nat * nat => (idx_in cur (fst lr), snd lr)) pairs).
  assert (Hfst : map fst ivs = map (idx_in cur) (sortN perm)).
  { unfold ivs. rewrite map_map. cbn [fst].
    transitivity (map (idx_in cur) (map fst pairs)); [rewrite map_map; reflexivity |].
    unfold pairs. rewrite map_fst_combine_eq by exact Hlen. reflexivity. }
  assert (Hsnd : map snd ivs = perm).
  { unfold ivs. rewrite map_map. cbn [snd]. apply map_snd_combine_eq. exact Hlen. }
  assert (Hsnd_in : forall x, In x (sortN perm) -> In x cur).
  { intros x Hx. apply Hincur. eapply Permutation_in; [exact Hsort | exact Hx]. }
  assert (Hndl : NoDup (sortN perm)).
  { eapply Permutation_NoDup; [apply Permutation_sym; exact Hsort | exact Hnd]. }
  assert (Hnd2 : NoDup (map fst ivs)).
  { rewrite Hfst. clear - Hndl Hsnd_in. induction (sortN perm) as [| x t IH]; cbn [map]; [constructor |].
    inversion Hndl as [| y ys Hnin Hnd']; subst. constructor.
    - intros Hc. apply in_map_iff in Hc. destruct Hc as [z [Hz Hzin]].
      destruct (idx_in_spec cur x (Hsnd_in x (or_introl eq_refl))) as [_ Hx].
      destruct (idx_in_spec cur z (Hsnd_in z (or_intror Hzin))) as [_ Hz'].
      rewrite Hz in Hz'. rewrite Hx in Hz'. subst. contradiction.
    - apply IH; [| exact Hnd']. intros z Hz. apply Hsnd_in. right. exact Hz. }
  assert (Hlt2 : Forall (fun i => i < length cur) (map fst ivs)).
  { rewrite Hfst. apply Forall_forall. intros i Hi. apply in_map_iff in Hi. destruct Hi as [x [Hx Hxin]]. subst i.
    apply idx_in_spec. apply Hsnd_in. exact Hxin. }
  pose proof (write_seq_perm nat ivs cur 0 Hnd2 Hlt2) as Hw. rewrite Hsnd in Hw.
  assert (Hold : map (fun iv : nat * nat => nth (fst iv) cur 0) ivs = sortN perm).
  { transitivity (map (fun i => nth i cur 0) (map fst ivs)); [rewrite map_map; reflexivity |].
    rewrite Hfst, map_map. rewrite <- (map_id (sortN perm)) at 2. apply map_ext_in. intros x Hx.
    apply idx_in_spec. apply Hsnd_in. exact Hx. }
  rewrite Hold in Hw.
  assert (H2 : Permutation (write_seq cur ivs ++ sortN perm) (cur ++ sortN perm)).
  { eapply perm_trans; [exact Hw |]. apply Permutation_app_head. apply Permutation_sym. exact Hsort. }
  apply Permutation_app_inv_r in H2. eapply perm_trans; [exact H2 | exact Hcur].
Qed.

(* every assignment produced by the greedy branch is a permutation of the haplotype indices, one per block,
   and the code does not fail - for ANY choice of the arg-max keys *)
Theorem assignments_are_permutations : forall k bests,
  Forall (fun p => NoDup p /\ Forall (fun i => i < k) p) bests ->
  exists asg, assignments k bests = Some asg /\ length asg = S (length bests) /\
              Forall (fun a => Permutation a (seq 0 k)) asg.
Proof.
  intros k bests. unfold assignments.
  assert (Hgen : forall cur, Permutation cur (seq 0 k) ->
    Forall (fun p => NoDup p /\ Forall (fun i => i < k) p) bests ->
    exists asg, assignments_from cur bests = Some asg /\ length asg = S (length bests) /\
                Forall (fun a => Permutation a (seq 0 k)) asg).
  { induction bests as [| p rest IH]; intros cur Hcur Hb; cbn [assignments_from].
    - exists [cur]. split; [reflexivity |]. split; [reflexivity |]. constructor; [exact Hcur | constructor].
    - inversion Hb as [| x xs [Hnd Hlt] Hb']; subst.
      destruct (assign_step_perm k cur p Hcur Hnd Hlt) as [nx [Hstep Hnx]]. rewrite Hstep.
      destruct (IH nx Hnx Hb') as [asg [H1 [H2 H3]]]. rewrite H1. cbn [option_map].
      exists (cur :: asg). split; [reflexivity |]. split; [cbn [length]; lia |]. constructor; assumption. }
  intros Hb. apply Hgen; [apply Permutation_refl | exact Hb].
Qed.

Lemma is_permb_spec : forall k p, is_permb k p = true <-> Permutation p (seq 0 k).
Proof.
  intros k p. unfold is_permb. rewrite andb_true_iff, Nat.eqb_eq, forallb_forall. split.
  - intros [Hlen Hall]. apply Permutation_sym. apply NoDup_Permutation_bis.
    + apply seq_NoDup.
    + rewrite seq_length. lia.
    + intros x Hx. apply memN_In. apply Hall. exact Hx.
  - intros H. split.
    + rewrite (Permutation_length H). apply seq_length.
    + intros x Hx. apply memN_In. eapply Permutation_in; [apply Permutation_sym; exact H | exact Hx].
Qed.

(* -------------------------------------------------------------------------------- permute_blocks *)
Lemma mapM_Some : forall A B (f : A -> option B) (g : A -> B) l,
  (forall x, In x l -> f x = Some (g x)) -> mapM f l = Some (map g l).
Proof.
  intros A B f g l. induction l as [| x t IH]; intros H; cbn [mapM map]; [reflexivity |].
  rewrite (H x (or_introl eq_refl)). rewrite IH; [reflexivity |]. intros y Hy. apply H. right. exact Hy.
Qed.

Lemma map_nth_seq : forall (l : list Z) d, map (fun j => nth j l d) (seq 0 (length l)) = l.
Proof.
  intros l d. induction l as [| x t IH]; cbn [length seq map nth]; [reflexivity |].
  f_equal. rewrite <- seq_shift, map_map. exact IH.
Qed.

Lemma permute_col_perm : forall k pm (col : list Z),
  Permutation pm (seq 0 k) -> length col = k ->
  exists out, permute_col k pm col = Some out /\ Permutation out col.
Proof.
  intros k pm col Hpm Hlen. unfold permute_col.
  assert (Hl : length pm = k) by (rewrite (Permutation_length Hpm); apply seq_length).
  replace (length pm <? k) with false by (symmetry; apply Nat.ltb_ge; lia).
  replace (firstn k pm) with pm by (rewrite <- Hl; symmetry; apply firstn_all).
  rewrite (mapM_Some _ _ (fun j => nth_error col j) (fun j => nth j col 0%Z)).
  - eexists. split; [reflexivity |].
    eapply perm_trans; [apply Permutation_map; exact Hpm |]. rewrite <- Hlen. rewrite map_nth_seq. apply Permutation_refl.
  - intros j Hj. apply nth_error_nth'. rewrite Hlen.
    assert (Hj' : In j (seq 0 k)) by (eapply Permutation_in; [exact Hpm | exact Hj]). apply in_seq in Hj'. lia.
Qed.

Lemma block_of_from_range : forall ext i p j, block_of_from i ext p = Some j -> i <= j /\ S j < i + length ext.
Proof.
  induction ext as [| s rest IH]; intros i p j H; cbn [block_of_from] in H; [discriminate |].
  destruct rest as [| e rest']; [discriminate |].
  destruct (block_of_from (S i) (e :: rest') p) as [j' |] eqn:E.
  - inversion H; subst. apply IH in E. cbn [length] in *. lia.
  - destruct ((s <=? p) && (p <? e)); [| discriminate]. inversion H; subst. cbn [length]. lia.
Qed.

Lemma mapM_id_Forall2 : forall (A B : Type) (R : A -> B -> Prop) (f : nat -> A -> option B) (l : list A) (i : nat),
  (forall j x, In x l -> exists y, f j x = Some y /\ R x y) ->
  exists out, mapM (fun x => x) (mapi_from i f l) = Some out /\ Forall2 R l out.
Proof.
  intros A B R f l. induction l as [| x t IH]; intros i H; cbn [mapi_from mapM].
  - exists []. split; [reflexivity | constructor].
  - destruct (H i x (or_introl eq_refl)) as [y [Hy Hr]]. rewrite Hy.
    destruct (IH (S i)) as [out [Ho Hf]]. { intros j z Hz. apply H. right. exact Hz. }
    rewrite Ho. exists (y :: out). split; [reflexivity | constructor; assumption].
Qed.

(* reordering only permutes the alleles among the haplotypes of one position, for ANY list of assignments that
   are permutations (greedy branch: assignments_are_permutations; ILP branch: the x-constraints), and does not fail *)
Theorem permute_preserves_columns : forall k (cols : list (list Z)) bps pms,
  Forall (fun c => length c = k) cols -> Forall (fun b => b <= length cols) bps ->
  length pms = S (length bps) -> Forall (fun p => Permutation p (seq 0 k)) pms ->
  exists outs, permute_blocks_cols k cols bps pms = Some outs /\ Forall2 (@Permutation Z) cols outs.
Proof.
  intros k cols bps pms Hk Hb Hlen Hp. unfold permute_blocks_cols.
  assert (Hf : forallb (fun b => b <=? length cols) bps = true).
  { apply forallb_forall. intros b Hbin. apply Nat.leb_le. rewrite Forall_forall in Hb. apply Hb. exact Hbin. }
  rewrite Hf. cbn [negb].
  apply mapM_id_Forall2. intros j x Hx.
  destruct (block_of_from 0 (ext_bp (length cols) bps) j) as [i |] eqn:E.
  - apply block_of_from_range in E. unfold ext_bp in E. cbn [length] in E. rewrite app_length in E. cbn [length] in E.
    destruct (nth_error pms i) as [pm |] eqn:Ep.
    + assert (Hpm : Permutation pm (seq 0 k)).
      { rewrite Forall_forall in Hp. apply Hp. eapply nth_error_In. exact Ep. }
      rewrite Forall_forall in Hk. destruct (permute_col_perm k pm x Hpm (Hk x Hx)) as [out [Ho Hperm]].
      exists out. split; [exact Ho | apply Permutation_sym; exact Hperm].
    + apply nth_error_None in Ep. lia.
  - exists x. split; [reflexivity | apply Permutation_refl].
Qed.
