(* Proofs for the component finder (C18, union-find part).
   Route: WF invariant (parent strictly smaller than child) gives termination of `root` with fuel
   S x; `rep p x := root (S x) p x`; path compression leaves `rep` unchanged pointwise; linking the
   larger root under the smaller changes `rep` in the obvious way; the semantic invariant is
   "rep x = rep y <-> conn ms x y" for ALL naturals x y.  No pmap equalities are ever stated. *)
From Coq Require Import Arith List Bool Relations Lia.
From WH.Model Require Import UnionFind UFSpec.
Import ListNotations.

(* ---------------------------------------------------------------------------------------------- *)
(* 1. parent maps                                                                                  *)

Definition WF (p : pmap) : Prop := forall x q, p x = Some q -> q < x.
Definition rep (p : pmap) (x : nat) : nat := root (S x) p x.

Lemma root_fuel p : WF p -> forall x f1 f2, x < f1 -> x < f2 -> root f1 p x = root f2 p x.
Proof.
  intros W x; induction x as [x IH] using lt_wf_ind; intros [|f1] [|f2] H1 H2; try lia.
  simpl. destruct (p x) as [q|] eqn:E; [|reflexivity].
  pose proof (W _ _ E) as Hq. apply IH; lia.
Qed.

Lemma rep_unfold p : WF p -> forall x,
  rep p x = match p x with None => x | Some q => rep p q end.
Proof.
  intros W x. unfold rep at 1. simpl. destruct (p x) as [q|] eqn:E; [|reflexivity].
  pose proof (W _ _ E) as Hq. unfold rep. apply root_fuel; auto; lia.
Qed.

Lemma rep_root p : WF p -> forall x, p (rep p x) = None /\ rep p x <= x.
Proof.
  intros W x; induction x as [x IH] using lt_wf_ind.
  rewrite (rep_unfold p W x). destruct (p x) as [q|] eqn:E.
  - pose proof (W _ _ E) as Hq. destruct (IH q Hq) as [H1 H2]. split; auto; lia.
  - split; auto.
Qed.

Lemma rep_idem p : WF p -> forall x, rep p (rep p x) = rep p x.
Proof.
  intros W x. destruct (rep_root p W x) as [H _].
  rewrite (rep_unfold p W (rep p x)), H. reflexivity.
Qed.

(* linking one root below a smaller root *)
Lemma link_WF p a b : WF p -> a < b -> WF (upd p b (Some a)).
Proof.
  intros W L x q; unfold upd. destruct (Nat.eqb x b) eqn:E.
  - apply Nat.eqb_eq in E; subst. intro H; injection H as <-; exact L.
  - apply W.
Qed.

Lemma link_rep p a b : WF p -> a < b -> p a = None -> p b = None ->
  forall z, rep (upd p b (Some a)) z = if Nat.eqb (rep p z) b then a else rep p z.
Proof.
  intros W L Ra Rb z.
  pose proof (link_WF p a b W L) as W'.
  induction z as [z IH] using lt_wf_ind.
  rewrite (rep_unfold _ W' z), (rep_unfold _ W z). unfold upd at 1.
  destruct (Nat.eqb z b) eqn:E.
  - apply Nat.eqb_eq in E; subst z. rewrite Rb, Nat.eqb_refl.
    rewrite (rep_unfold _ W' a). unfold upd.
    replace (Nat.eqb a b) with false by (symmetry; apply Nat.eqb_neq; lia).
    rewrite Ra. reflexivity.
  - destruct (p z) as [q|] eqn:Ez.
    + apply IH. apply (W _ _ Ez).
    + rewrite E. reflexivity.
Qed.

(* path compression: redirect x to the root of its tree *)
Lemma redirect_WF p x : WF p -> p x <> None -> WF (upd p x (Some (rep p x))).
Proof.
  intros W N y q; unfold upd. destruct (Nat.eqb y x) eqn:E.
  - apply Nat.eqb_eq in E; subst y. intro H; injection H as <-.
    destruct (p x) as [q|] eqn:Ex; [|congruence].
    rewrite (rep_unfold _ W x), Ex. pose proof (W _ _ Ex) as Hq.
    destruct (rep_root p W q) as [_ Hle]. lia.
  - apply W.
Qed.

Lemma redirect_rep p x : WF p -> p x <> None ->
  forall z, rep (upd p x (Some (rep p x))) z = rep p z.
Proof.
  intros W N z. pose proof (redirect_WF p x W N) as W'.
  induction z as [z IH] using lt_wf_ind.
  rewrite (rep_unfold _ W' z), (rep_unfold _ W z). unfold upd at 1.
  destruct (Nat.eqb z x) eqn:E.
  - apply Nat.eqb_eq in E; subst z.
    destruct (p x) as [q|] eqn:Ex; [|congruence].
    rewrite IH.
    + rewrite rep_idem by assumption. rewrite (rep_unfold _ W x), Ex. reflexivity.
    + rewrite (rep_unfold _ W x), Ex. pose proof (W _ _ Ex) as Hq.
      destruct (rep_root p W q) as [_ Hle]. lia.
  - destruct (p z) as [q|] eqn:Ez; [|reflexivity].
    apply IH. apply (W _ _ Ez).
Qed.

(* the whole compression loop *)
Lemma compress_ok : forall f p node r, WF p -> r = rep p node ->
  WF (compress f p node r) /\ forall z, rep (compress f p node r) z = rep p z.
Proof.
  induction f as [|f IH]; intros p node r W Hr; simpl.
  - split; auto.
  - destruct (p node) as [q|] eqn:E.
    + assert (N : p node <> None) by congruence.
      pose proof (redirect_WF p node W N) as W'.
      pose proof (redirect_rep p node W N) as R'.
      rewrite <- Hr in W', R'.
      assert (Hq : r = rep (upd p node (Some r)) q).
      { rewrite R'. rewrite Hr at 1. rewrite (rep_unfold p W node), E. reflexivity. }
      destruct (IH (upd p node (Some r)) q r W' Hq) as [W2 R2].
      split; auto. intro z. rewrite R2. apply R'.
    + split; auto.
Qed.

(* ---------------------------------------------------------------------------------------------- *)
(* 2. connectivity                                                                                 *)

Lemma conn_sound (A : Type) (f : nat -> A) ms :
  (forall a b, In (a, b) ms -> f a = f b) -> forall u v, conn ms u v -> f u = f v.
Proof.
  intros He u v H. induction H as [u v H | u | u v _ IH | u w v _ IH1 _ IH2].
  - apply He. exact H.
  - reflexivity.
  - symmetry. exact IH.
  - congruence.
Qed.

Lemma conn_mono ms ms' : (forall a b, In (a, b) ms -> In (a, b) ms') ->
  forall u v, conn ms u v -> conn ms' u v.
Proof.
  intros Hi u v H. induction H as [u v H | u | u v _ IH | u w v _ IH1 _ IH2].
  - apply rst_step. apply Hi. exact H.
  - apply rst_refl.
  - apply rst_sym. exact IH.
  - eapply rst_trans; eassumption.
Qed.

Lemma conn_refl ms x : conn ms x x.
Proof. apply rst_refl. Qed.
Lemma conn_sym ms x y : conn ms x y -> conn ms y x.
Proof. apply rst_sym. Qed.
Lemma conn_trans ms x y z : conn ms x y -> conn ms y z -> conn ms x z.
Proof. apply rst_trans. Qed.

(* abstract effect of adding an edge between x and y: the class of y is renamed to that of x *)
Lemma link_inv ms ms' (r r' : nat -> nat) x y :
  (forall a b, r a = r b <-> conn ms a b) ->
  (forall z, r (r z) = r z) ->
  (forall a b, conn ms a b -> conn ms' a b) ->
  conn ms' x y ->
  (forall a b, In (a, b) ms' -> In (a, b) ms \/ (a = x /\ b = y) \/ (a = y /\ b = x)) ->
  (forall z, r' z = if Nat.eqb (r z) (r y) then r x else r z) ->
  forall a b, r' a = r' b <-> conn ms' a b.
Proof.
  intros Hr Hid Hmono Hxy Hedges Hr' a b.
  assert (Hself : forall z, conn ms z (r z)).
  { intro z. apply Hr. symmetry. apply Hid. }
  assert (Hlab : forall z, conn ms' z (r' z)).
  { intro z. rewrite Hr'. destruct (Nat.eqb (r z) (r y)) eqn:E.
    - apply Nat.eqb_eq in E. apply Hr in E.
      apply conn_trans with y; [apply Hmono; exact E|].
      apply conn_trans with x; [apply conn_sym; exact Hxy|].
      apply Hmono. apply Hself.
    - apply Hmono. apply Hself. }
  split.
  - intro Heq. apply conn_trans with (r' a); [apply Hlab|].
    rewrite Heq. apply conn_sym. apply Hlab.
  - apply conn_sound. intros u v Huv.
    assert (Hx : r' x = r x).
    { rewrite Hr'. destruct (Nat.eqb (r x) (r y)); reflexivity. }
    assert (Hy : r' y = r x).
    { rewrite Hr'. rewrite Nat.eqb_refl. reflexivity. }
    destruct (Hedges u v Huv) as [Hin | [[-> ->] | [-> ->]]].
    + assert (E : r u = r v). { apply Hr. apply rst_step. exact Hin. }
      rewrite (Hr' u), (Hr' v), E. reflexivity.
    + congruence.
    + congruence.
Qed.

(* ---------------------------------------------------------------------------------------------- *)
(* 3. state invariant                                                                              *)

Definition Inv (ms : list (nat * nat)) (s : uf) : Prop :=
  WF (par s) /\ forall x y, rep (par s) x = rep (par s) y <-> conn ms x y.

Lemma find_node_ok s x : WF (par s) ->
  fst (find_node s x) = rep (par s) x /\
  dom (snd (find_node s x)) = dom s /\
  WF (par (snd (find_node s x))) /\
  forall z, rep (par (snd (find_node s x))) z = rep (par s) z.
Proof.
  intro W. unfold find_node. simpl.
  destruct (compress_ok (S x) (par s) x (root (S x) (par s) x) W eq_refl) as [W' R'].
  split; [reflexivity|]. split; [reflexivity|]. split; assumption.
Qed.

Lemma Inv_init values : Inv [] (uf_init values).
Proof.
  split.
  - intros x q H. simpl in H. discriminate.
  - intros x y. unfold rep. simpl. split.
    + intros ->. apply conn_refl.
    + apply (conn_sound nat (fun z => z)). intros a b [].
Qed.

Lemma merge_ok ms s x y : Inv ms s -> x <> y -> in_dom s x = true -> in_dom s y = true ->
  exists s', merge s x y = inl s' /\ dom s' = dom s /\ Inv (ms ++ [(x, y)]) s'.
Proof.
  intros [W Hr] Hne Dx Dy. unfold merge.
  replace (Nat.eqb x y) with false by (symmetry; apply Nat.eqb_neq; exact Hne).
  rewrite Dx. simpl negb. cbv iota.
  pose proof (find_node_ok s x W) as F1.
  destruct (find_node s x) as [xr s1] eqn:E1. simpl in F1.
  destruct F1 as (Hxr & D1 & W1 & R1).
  assert (Dy1 : in_dom s1 y = true). { unfold in_dom. rewrite D1. exact Dy. }
  rewrite Dy1. simpl negb. cbv iota.
  pose proof (find_node_ok s1 y W1) as F2.
  destruct (find_node s1 y) as [yr s2] eqn:E2. simpl in F2.
  destruct F2 as (Hyr & D2 & W2 & R2).
  assert (R : forall z, rep (par s2) z = rep (par s) z).
  { intro z. rewrite R2. apply R1. }
  assert (Hyr' : yr = rep (par s) y). { rewrite Hyr. apply R1. }
  assert (Hr2 : forall a b, rep (par s2) a = rep (par s2) b <-> conn ms a b).
  { intros a b. rewrite !R. apply Hr. }
  assert (Hid2 : forall z, rep (par s2) (rep (par s2) z) = rep (par s2) z).
  { intro z. apply rep_idem. exact W2. }
  assert (Hmono : forall a b, conn ms a b -> conn (ms ++ [(x, y)]) a b).
  { apply conn_mono. intros a b Hin. apply in_or_app. left. exact Hin. }
  assert (Hxy : conn (ms ++ [(x, y)]) x y).
  { apply rst_step. apply in_or_app. right. left. reflexivity. }
  assert (Hed : forall a b, In (a, b) (ms ++ [(x, y)]) ->
                            In (a, b) ms \/ (a = x /\ b = y) \/ (a = y /\ b = x)).
  { intros a b Hin. apply in_app_or in Hin. destruct Hin as [Hin | [Hin | []]].
    - left. exact Hin.
    - injection Hin as <- <-. right. left. split; reflexivity. }
  assert (Hed' : forall a b, In (a, b) (ms ++ [(x, y)]) ->
                            In (a, b) ms \/ (a = y /\ b = x) \/ (a = x /\ b = y)).
  { intros a b Hin. destruct (Hed a b Hin) as [H | [H | H]]; auto. }
  assert (Px : par s2 xr = None).
  { rewrite Hxr. rewrite <- R. apply (rep_root _ W2). }
  assert (Py : par s2 yr = None).
  { rewrite Hyr'. rewrite <- R. apply (rep_root _ W2). }
  assert (Hxr2 : xr = rep (par s2) x). { rewrite R. exact Hxr. }
  assert (Hyr2 : yr = rep (par s2) y). { rewrite R. exact Hyr'. }
  destruct (Nat.eqb xr yr) eqn:Exy.
  - (* already in the same class *)
    apply Nat.eqb_eq in Exy.
    exists s2. split; [reflexivity|]. split; [congruence|].
    split; [exact W2|].
    apply (link_inv ms (ms ++ [(x, y)]) (rep (par s2)) (rep (par s2)) x y Hr2 Hid2 Hmono Hxy Hed).
    intro z. destruct (Nat.eqb (rep (par s2) z) (rep (par s2) y)) eqn:Ez; [|reflexivity].
    apply Nat.eqb_eq in Ez. congruence.
  - apply Nat.eqb_neq in Exy.
    destruct (Nat.ltb xr yr) eqn:Elt.
    + apply Nat.ltb_lt in Elt.
      eexists. split; [reflexivity|]. simpl. split; [congruence|].
      split; [apply link_WF; assumption|].
      cbn [par].
      apply (link_inv ms (ms ++ [(x, y)]) (rep (par s2)) _ x y Hr2 Hid2 Hmono Hxy Hed).
      intro z. rewrite (link_rep (par s2) xr yr W2 Elt Px Py z).
      rewrite <- Hxr2, <- Hyr2. reflexivity.
    + apply Nat.ltb_ge in Elt. assert (Elt' : yr < xr) by lia.
      eexists. split; [reflexivity|]. simpl. split; [congruence|].
      split; [apply link_WF; assumption|].
      cbn [par].
      apply (link_inv ms (ms ++ [(x, y)]) (rep (par s2)) _ y x Hr2 Hid2 Hmono
                      (conn_sym _ _ _ Hxy) Hed').
      intro z. rewrite (link_rep (par s2) yr xr W2 Elt' Py Px z).
      rewrite <- Hxr2, <- Hyr2. reflexivity.
Qed.

Lemma in_dom_iff s x : in_dom s x = true <-> In x (dom s).
Proof.
  unfold in_dom. rewrite existsb_exists. split.
  - intros [z [Hz E]]. apply Nat.eqb_eq in E. subst. exact Hz.
  - intro H. exists x. split; [exact H|apply Nat.eqb_refl].
Qed.

Lemma run_inv values : forall ops ms s,
  Inv ms s -> dom s = values -> forallb (well_formed values) ops = true ->
  Inv (ms ++ merges_of ops) (urun_state s ops) /\ dom (urun_state s ops) = values.
Proof.
  induction ops as [|o ops IH]; intros ms s HI HD Hwf; cbn [urun_state merges_of].
  - rewrite app_nil_r. split; assumption.
  - simpl in Hwf. apply andb_prop in Hwf. destruct Hwf as [Ho Hops].
    destruct o as [x y | x]; simpl in Ho; cbn [ustep merges_of].
    + apply andb_prop in Ho. destruct Ho as [Ho Hy].
      apply andb_prop in Ho. destruct Ho as [Hne Hx].
      apply negb_true_iff in Hne. apply Nat.eqb_neq in Hne.
      assert (Dx : in_dom s x = true). { unfold in_dom. rewrite HD. exact Hx. }
      assert (Dy : in_dom s y = true). { unfold in_dom. rewrite HD. exact Hy. }
      destruct (merge_ok ms s x y HI Hne Dx Dy) as (s' & Hm & HD' & HI').
      rewrite Hm. cbn [fst].
      replace (ms ++ (x, y) :: merges_of ops) with ((ms ++ [(x, y)]) ++ merges_of ops)
        by (rewrite <- app_assoc; reflexivity).
      apply IH; [exact HI'|congruence|exact Hops].
    + assert (Dx : in_dom s x = true). { unfold in_dom. rewrite HD. exact Ho. }
      unfold find. rewrite Dx.
      destruct HI as [W Hr].
      pose proof (find_node_ok s x W) as F.
      destruct (find_node s x) as [v s'] eqn:E. simpl in F. simpl.
      destruct F as (_ & D1 & W1 & R1).
      apply IH; [|congruence|exact Hops].
      split; [exact W1|]. intros a b. rewrite !R1. apply Hr.
Qed.

Lemma final_inv values ops : forallb (well_formed values) ops = true ->
  Inv (merges_of ops) (urun_state (uf_init values) ops) /\
  dom (urun_state (uf_init values) ops) = values.
Proof.
  intro Hwf.
  apply (run_inv values ops [] (uf_init values) (Inv_init values) eq_refl Hwf).
Qed.

Lemma find_in_dom s x : In x (dom s) -> find s x = inl (find_node s x).
Proof.
  intro H. unfold find. apply in_dom_iff in H. rewrite H. reflexivity.
Qed.

(* ---------------------------------------------------------------------------------------------- *)
(* 4. the three C18 statements about the implementation model                                      *)

Lemma find_is_component_min : forall (values : list nat) (ops : list uop) (x : nat),
  forallb (well_formed values) ops = true -> In x values ->
  exists r s', find (urun_state (uf_init values) ops) x = inl (r, s') /\
    conn (merges_of ops) x r /\ forall y, conn (merges_of ops) x y -> r <= y.
Proof.
  intros values ops x Hwf Hx.
  destruct (final_inv values ops Hwf) as [[W Hr] HD].
  set (s := urun_state (uf_init values) ops) in *.
  exists (rep (par s) x), (snd (find_node s x)).
  split; [|split].
  - rewrite find_in_dom by (rewrite HD; exact Hx).
    destruct (find_node_ok s x W) as [H1 _].
    rewrite <- H1. destruct (find_node s x); reflexivity.
  - apply Hr. symmetry. apply rep_idem. exact W.
  - intros y Hc. apply Hr in Hc. rewrite Hc. apply (rep_root _ W).
Qed.

Lemma same_representative_iff_connected :
  forall (values : list nat) (ops : list uop) (x y : nat),
  forallb (well_formed values) ops = true -> In x values -> In y values ->
  let s := urun_state (uf_init values) ops in
  (exists r sx sy, find s x = inl (r, sx) /\ find s y = inl (r, sy)) <-> conn (merges_of ops) x y.
Proof.
  intros values ops x y Hwf Hx Hy s.
  destruct (final_inv values ops Hwf) as [[W Hr] HD].
  fold s in W, Hr, HD.
  assert (Fx : find s x = inl (rep (par s) x, snd (find_node s x))).
  { rewrite find_in_dom by (rewrite HD; exact Hx).
    destruct (find_node_ok s x W) as [H1 _].
    rewrite <- H1. destruct (find_node s x); reflexivity. }
  assert (Fy : find s y = inl (rep (par s) y, snd (find_node s y))).
  { rewrite find_in_dom by (rewrite HD; exact Hy).
    destruct (find_node_ok s y W) as [H1 _].
    rewrite <- H1. destruct (find_node s y); reflexivity. }
  split.
  - intros (r & sx & sy & H1 & H2).
    rewrite Fx in H1. rewrite Fy in H2.
    injection H1 as H1 _. injection H2 as H2 _.
    apply Hr. congruence.
  - intro Hc. apply Hr in Hc.
    exists (rep (par s) x), (snd (find_node s x)), (snd (find_node s y)).
    split; [exact Fx|]. rewrite Hc. exact Fy.
Qed.

(* the key set never changes, whatever the operations are *)
Lemma ustep_dom s o : dom (fst (ustep s o)) = dom s.
Proof.
  destruct o as [x y | x]; simpl.
  - unfold merge.
    destruct (Nat.eqb x y); [reflexivity|].
    destruct (negb (in_dom s x)); [reflexivity|].
    unfold find_node at 1. cbv iota beta zeta.
    destruct (negb (in_dom _ y)); [reflexivity|].
    unfold find_node at 1. cbv iota beta zeta.
    destruct (Nat.eqb _ _); [reflexivity|].
    destruct (Nat.ltb _ _); reflexivity.
  - unfold find. destruct (in_dom s x); [|reflexivity].
    unfold find_node. reflexivity.
Qed.

Lemma urun_dom : forall ops s, dom (urun_state s ops) = dom s.
Proof.
  induction ops as [|o ops IH]; intro s; simpl; [reflexivity|].
  rewrite IH. apply ustep_dom.
Qed.

Lemma malformed_rejected : forall (values : list nat) (ops : list uop) (o : uop),
  well_formed values o = false ->
  exists e, ustep (urun_state (uf_init values) ops) o = (urun_state (uf_init values) ops, UErr e).
Proof.
  intros values ops o Hwf.
  pose proof (urun_dom ops (uf_init values)) as HD. simpl in HD.
  set (s := urun_state (uf_init values) ops) in *.
  destruct o as [x y | x]; simpl in Hwf; simpl.
  - unfold merge. destruct (Nat.eqb x y) eqn:Exy.
    + exists AssertionError. reflexivity.
    + simpl in Hwf. unfold in_dom at 1. rewrite HD.
      destruct (existsb (Nat.eqb x) values) eqn:Ex.
      * simpl in Hwf. simpl negb. cbv iota.
        unfold find_node at 1. cbv iota beta zeta.
        unfold in_dom at 1. simpl dom. rewrite HD, Hwf. simpl.
        exists KeyError. reflexivity.
      * simpl. exists KeyError. reflexivity.
  - unfold find. unfold in_dom. rewrite HD, Hwf. exists KeyError. reflexivity.
Qed.

(* ---------------------------------------------------------------------------------------------- *)
(* 5. the naive evaluator (label propagation) computes the component minimum                       *)

Lemma relax1_le l e z : relax1 l e z <= l z.
Proof.
  unfold relax1. destruct (Nat.eqb z (fst e)) eqn:E1; simpl.
  - apply Nat.eqb_eq in E1. subst z. lia.
  - destruct (Nat.eqb z (snd e)) eqn:E2.
    + apply Nat.eqb_eq in E2. subst z. lia.
    + lia.
Qed.

Lemma fold_relax_le : forall ms l z, fold_left relax1 ms l z <= l z.
Proof.
  induction ms as [|e ms IH]; intros l z; simpl.
  - lia.
  - pose proof (IH (relax1 l e) z) as H1. pose proof (relax1_le l e z) as H2. lia.
Qed.

Lemma relax_le ms l z : relax ms l z <= l z.
Proof. apply fold_relax_le. Qed.

Lemma relax1_fst l a b : relax1 l (a, b) a = Nat.min (l a) (l b).
Proof. unfold relax1. simpl. rewrite Nat.eqb_refl. reflexivity. Qed.

Lemma relax1_snd l a b : relax1 l (a, b) b = Nat.min (l a) (l b).
Proof. unfold relax1. simpl. rewrite Nat.eqb_refl. rewrite orb_true_r. reflexivity. Qed.

(* after a round, both ends of every edge are below both old labels *)
Lemma fold_relax_edge : forall ms l a b, In (a, b) ms ->
  fold_left relax1 ms l a <= Nat.min (l a) (l b) /\
  fold_left relax1 ms l b <= Nat.min (l a) (l b).
Proof.
  induction ms as [|e ms IH]; intros l a b Hin; simpl.
  - destruct Hin.
  - destruct Hin as [-> | Hin].
    + pose proof (fold_relax_le ms (relax1 l (a, b)) a) as H1.
      pose proof (fold_relax_le ms (relax1 l (a, b)) b) as H2.
      rewrite relax1_fst in H1. rewrite relax1_snd in H2. split; assumption.
    + destruct (IH (relax1 l e) a b Hin) as [H1 H2].
      pose proof (relax1_le l e a) as Ha. pose proof (relax1_le l e b) as Hb.
      split; lia.
Qed.

Lemma relax_edge ms l a b : In (a, b) ms ->
  relax ms l a <= l b /\ relax ms l b <= l a.
Proof.
  intro Hin. destruct (fold_relax_edge ms l a b Hin) as [H1 H2]. unfold relax. split; lia.
Qed.

(* labels stay inside the class *)
Lemma relax1_conn ms l a b : In (a, b) ms ->
  (forall z, conn ms z (l z)) -> forall z, conn ms z (relax1 l (a, b) z).
Proof.
  intros Hin Hl z. unfold relax1. simpl fst. simpl snd.
  assert (Hab : conn ms a b) by (apply rst_step; exact Hin).
  assert (Hm : forall w, conn ms w a -> conn ms w (Nat.min (l a) (l b))).
  { intros w Hw. destruct (Nat.min_spec (l a) (l b)) as [[_ ->] | [_ ->]].
    - apply conn_trans with a; [exact Hw|apply Hl].
    - apply conn_trans with a; [exact Hw|]. apply conn_trans with b; [exact Hab|apply Hl]. }
  destruct (Nat.eqb z a) eqn:E1; simpl.
  - apply Nat.eqb_eq in E1. subst z. apply Hm. apply conn_refl.
  - destruct (Nat.eqb z b) eqn:E2.
    + apply Nat.eqb_eq in E2. subst z. apply Hm. apply conn_sym. exact Hab.
    + apply Hl.
Qed.

Lemma fold_relax_conn ms : forall ms1 l, (forall a b, In (a, b) ms1 -> In (a, b) ms) ->
  (forall z, conn ms z (l z)) -> forall z, conn ms z (fold_left relax1 ms1 l z).
Proof.
  induction ms1 as [|[a b] ms1 IH]; intros l Hi Hl z; simpl.
  - apply Hl.
  - apply IH.
    + intros a' b' H. apply Hi. right. exact H.
    + apply relax1_conn; [apply Hi; left; reflexivity|exact Hl].
Qed.

Lemma relax_conn ms l : (forall z, conn ms z (l z)) -> forall z, conn ms z (relax ms l z).
Proof. intros Hl z. apply fold_relax_conn; auto. Qed.

Lemma iter_S_r : forall n (f : lbl -> lbl) l, iter (S n) f l = f (iter n f l).
Proof.
  induction n as [|n IH]; intros f l.
  - reflexivity.
  - change (iter (S (S n)) f l) with (iter (S n) f (f l)). rewrite IH. reflexivity.
Qed.

Lemma iter_conn ms : forall n z, conn ms z (iter n (relax ms) (fun w => w) z).
Proof.
  induction n as [|n IH]; intro z.
  - apply conn_refl.
  - rewrite iter_S_r. apply relax_conn. exact IH.
Qed.

Lemma iter_le_id ms : forall n z, iter n (relax ms) (fun w => w) z <= z.
Proof.
  induction n as [|n IH]; intro z.
  - simpl. lia.
  - rewrite iter_S_r. pose proof (relax_le ms (iter n (relax ms) (fun w => w)) z) as H.
    pose proof (IH z). lia.
Qed.

(* either no edge crosses the boundary of a boolean predicate, or some edge does *)
Lemma crossing_dec (P : nat -> bool) : forall ms : list (nat * nat),
  (forall a b, In (a, b) ms -> P a = P b) \/ (exists a b, In (a, b) ms /\ P a <> P b).
Proof.
  induction ms as [|[a b] ms IH].
  - left. intros a b [].
  - destruct IH as [IH | (a' & b' & Hin & Hne)].
    + destruct (bool_dec (P a) (P b)) as [E | E].
      * left. intros a' b' [H | H]; [injection H as <- <-; exact E | apply IH; exact H].
      * right. exists a, b. split; [left; reflexivity | exact E].
    + right. exists a', b'. split; [right; exact Hin | exact Hne].
Qed.

Lemma filter_length_mono (P Q : nat -> bool) : forall vs : list nat,
  (forall z, P z = true -> Q z = true) -> length (filter P vs) <= length (filter Q vs).
Proof.
  intros vs H. induction vs as [|v vs IH]; simpl; [lia|].
  destruct (P v) eqn:E.
  - rewrite (H v E). simpl. lia.
  - destruct (Q v); simpl; lia.
Qed.

Lemma filter_length_grow (P Q : nat -> bool) : forall (vs : list nat) b,
  (forall z, P z = true -> Q z = true) -> In b vs -> P b = false -> Q b = true ->
  length (filter P vs) < length (filter Q vs).
Proof.
  intros vs b H. induction vs as [|v vs IH]; intros Hin Pb Qb; simpl.
  - destruct Hin.
  - pose proof (filter_length_mono P Q vs H) as Hm.
    destruct Hin as [-> | Hin].
    + rewrite Pb, Qb. simpl. lia.
    + specialize (IH Hin Pb Qb). destruct (P v) eqn:E.
      * rewrite (H v E). simpl. lia.
      * destruct (Q v); simpl; lia.
Qed.

Lemma conn_in_values values ms : (forall a b, In (a, b) ms -> In a values /\ In b values) ->
  forall x y, conn ms x y -> (In x values <-> In y values).
Proof.
  intros Hv x y H. induction H as [u v H | u | u v _ IH | u w v _ IH1 _ IH2].
  - destruct (Hv u v H). tauto.
  - tauto.
  - tauto.
  - tauto.
Qed.

Lemma naive_min_is_component_min : forall (values : list nat) (ms : list (nat * nat)) (x : nat),
  (forall a b, In (a, b) ms -> In a values /\ In b values) -> NoDup values -> In x values ->
  conn ms x (naive_min values ms x) /\ forall y, conn ms x y -> naive_min values ms x <= y.
Proof.
  intros values ms x Hv _ Hx. unfold naive_min. split; [apply iter_conn|].
  intros y Hc.
  assert (Hy : In y values) by (apply (conn_in_values values ms Hv x y Hc); exact Hx).
  set (L := fun k => iter k (relax ms) (fun w => w)).
  set (P := fun k z => Nat.leb (L k z) y).
  assert (Hstep : forall k z, L (S k) z <= L k z).
  { intros k z. unfold L. rewrite iter_S_r. apply relax_le. }
  assert (Hk : forall k, L k x <= y \/ k + 1 <= length (filter (P k) values)).
  { induction k as [|k IH].
    - right. assert (H0 : P 0 y = true) by (unfold P, L; simpl; apply Nat.leb_refl).
      assert (Hin : In y (filter (P 0) values)) by (apply filter_In; split; assumption).
      destruct (filter (P 0) values); [destruct Hin | simpl; lia].
    - destruct IH as [IH | IH].
      + left. pose proof (Hstep k x). lia.
      + destruct (crossing_dec (P k) ms) as [Hno | (a & b & Hin & Hne)].
        * left. pose proof (Hstep k x) as Hs.
          assert (E : P k x = P k y) by (apply (conn_sound bool (P k) ms Hno x y Hc)).
          assert (Py : P k y = true).
          { unfold P. apply Nat.leb_le. unfold L. apply iter_le_id. }
          rewrite Py in E. unfold P in E. apply Nat.leb_le in E. lia.
        * right.
          assert (Hmono : forall z, P k z = true -> P (S k) z = true).
          { intros z Hz. unfold P in *. apply Nat.leb_le in Hz. apply Nat.leb_le.
            pose proof (Hstep k z). lia. }
          assert (Hedge : relax ms (L k) a <= L k b /\ relax ms (L k) b <= L k a)
            by (apply relax_edge; exact Hin).
          assert (HS : forall z, L (S k) z = relax ms (L k) z).
          { intro z. unfold L. rewrite iter_S_r. reflexivity. }
          destruct (Hv a b Hin) as [Ha Hb].
          destruct Hedge as [He1 He2]. rewrite <- HS in He1, He2.
          destruct (P k a) eqn:Pa; destruct (P k b) eqn:Pb; try congruence.
          -- assert (Qb : P (S k) b = true).
             { unfold P in *. apply Nat.leb_le in Pa. apply Nat.leb_le. lia. }
             pose proof (filter_length_grow (P k) (P (S k)) values b Hmono Hb Pb Qb). lia.
          -- assert (Qa : P (S k) a = true).
             { unfold P in *. apply Nat.leb_le in Pb. apply Nat.leb_le. lia. }
             pose proof (filter_length_grow (P k) (P (S k)) values a Hmono Ha Pa Qa). lia. }
  destruct (Hk (length values)) as [H | H].
  - exact H.
  - pose proof (filter_length_mono (P (length values)) (fun _ => true) values
                  (fun _ _ => eq_refl)) as Hm.
    assert (Ht : filter (fun _ : nat => true) values = values).
    { clear. induction values as [|v vs IH]; simpl; [reflexivity | rewrite IH; reflexivity]. }
    rewrite Ht in Hm. lia.
Qed.
