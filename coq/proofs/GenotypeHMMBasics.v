(* C08: bridging lemmas between the executable definitions of model/GenotypeHMM.v (foldr sums,
   memoised tables, bitvecs/seqs enumerations) and bigop sums over a mathcomp fieldType.
   ssreflect / bigop style. *)
From mathcomp Require Import all_ssreflect all_algebra.
From WH.Model Require Import GenotypeHMM.
From WH.Proofs Require Import SemiringDP.
Set Implicit Arguments.
Unset Strict Implicit.
Unset Printing Implicit Defensive.
Import GRing.Theory.
Local Open Scope ring_scope.

Lemma bitvecsE n : bitvecs n = bits n.
Proof. by elim: n => [|n IH]; rewrite ?bits0 ?bitsS //= IH. Qed.

Lemma size_seqs (T : eqType) (S : seq T) n p : p \in seqs S n -> size p = n.
Proof.
elim: n p => [|n IH] p /=; first by rewrite inE => /eqP->.
by case/allpairsP=> [[s q]] /= [_ /IH<- ->].
Qed.

Section FieldBridge.
Variable K : fieldType.

Local Notation fsumK := (@fsum K 0 +%R).
Local Notation fprodK := (@fprod K 1 *%R).

Lemma fsumE (s : seq K) : fsumK s = \sum_(x <- s) x.
Proof. by rewrite /fsum; elim: s => [|x s IH] /=; rewrite ?big_nil ?big_cons ?IH. Qed.

Lemma fsum_map (T : Type) (s : seq T) (f : T -> K) : fsumK [seq f x | x <- s] = \sum_(x <- s) f x.
Proof. by rewrite fsumE big_map. Qed.

Lemma fsum_mapf (T : Type) (s : seq T) (p : pred T) (f : T -> K) :
  fsumK [seq f x | x <- s & p x] = \sum_(x <- s | p x) f x.
Proof. by rewrite fsumE big_map big_filter. Qed.

Lemma eq_sum_seq_cond (T : eqType) (r : seq T) (p : pred T) (F1 F2 : T -> K) :
  (forall x, x \in r -> p x -> F1 x = F2 x) ->
  \sum_(x <- r | p x) F1 x = \sum_(x <- r | p x) F2 x.
Proof.
move=> h; rewrite big_seq_cond [RHS]big_seq_cond.
by apply: eq_bigr => x /andP[hx hp]; apply: h.
Qed.

Lemma fprodE (s : seq K) : fprodK s = \prod_(x <- s) x.
Proof. by rewrite /fprod; elim: s => [|x s IH] /=; rewrite ?big_nil ?big_cons ?IH. Qed.

Lemma fnatE n : @fnat K 0 1 +%R n = n%:R.
Proof. by rewrite /fnat /fsum; elim: n => [|n IH] //=; rewrite IH -mulrS. Qed.

(* ---------------------------------------------------------------- memo tables *)
Lemma tassoc_map (g : seq bool -> seq K) (ks : seq (seq bool)) k :
  k \in ks -> tassoc [seq (k', g k') | k' <- ks] k = g k.
Proof.
elim: ks => // k0 ks IH; rewrite inE /= eq_sym.
by case: eqP => [-> //|_] /= hk; exact: IH.
Qed.

Lemma memoE w tn (f : seq bool -> nat -> K) k j :
  size k = w -> (j < tn)%N -> memo 0 w tn f k j = f k j.
Proof.
move=> hk hj; rewrite /memo (@tassoc_map (fun k' => [seq f k' j' | j' <- iota 0 tn])).
  by rewrite (nth_map 0%N) ?size_iota // nth_iota // add0n.
by rewrite bitvecsE mem_bitsE hk.
Qed.

Lemma memo3E w tn na (f : seq bool -> nat -> nat -> K) x i a :
  size x = w -> (i < tn)%N -> (a < na)%N -> memo3 0 w tn na f x i a = f x i a.
Proof.
move=> hx hi ha; rewrite /memo3 memoE //.
  have hna : (0 < na)%N by apply: leq_ltn_trans ha.
  by rewrite divnMDl // divn_small // addn0 modnMDl modn_small.
apply: (@leq_trans (i.+1 * na)); first by rewrite mulSn [(na + _)%N]addnC ltn_add2l.
by rewrite leq_mul2r hi orbT.
Qed.

Lemma memo_nat2E n1 n2 (f : nat -> nat -> K) i j :
  (i < n1)%N -> (j < n2)%N -> memo_nat2 0 n1 n2 f i j = f i j.
Proof.
move=> hi hj; rewrite /memo_nat2 (nth_map 0%N) ?size_iota // nth_iota // add0n.
by rewrite (nth_map 0%N) ?size_iota // nth_iota // add0n.
Qed.

(* ---------------------------------------------------------------- sums over all sequences *)
Lemma sum_seqsS (T : Type) (S : seq T) n (f : seq T -> K) :
  \sum_(p <- seqs S n.+1) f p = \sum_(s <- S) \sum_(p <- seqs S n) f (s :: p).
Proof. by rewrite /= big_allpairs_dep. Qed.

Lemma sum_seqs0 (T : Type) (S : seq T) (f : seq T -> K) : \sum_(p <- seqs S 0) f p = f [::].
Proof. by rewrite /= big_seq1. Qed.

Lemma sum_seqs_rcons (T : Type) (S : seq T) n (f : seq T -> K) :
  \sum_(p <- seqs S n.+1) f p = \sum_(p <- seqs S n) \sum_(s <- S) f (rcons p s).
Proof.
elim: n f => [|n IH] f.
  by rewrite sum_seqsS sum_seqs0; apply: eq_bigr => s _; rewrite sum_seqs0.
rewrite sum_seqsS [RHS]sum_seqsS; apply: eq_bigr => s0 _.
by rewrite IH.
Qed.

Lemma sum_seqs_add (T : Type) (S : seq T) a b (f : seq T -> K) :
  \sum_(p <- seqs S (a + b)) f p = \sum_(p <- seqs S a) \sum_(q <- seqs S b) f (p ++ q).
Proof.
elim: a f => [|a IH] f; first by rewrite add0n sum_seqs0.
rewrite addSn sum_seqsS [RHS]sum_seqsS; apply: eq_bigr => s _.
by rewrite IH.
Qed.

(* ---------------------------------------------------------------- sums over bit vectors *)
Lemma sum_bits_cat a b (f : seq bool -> K) :
  \sum_(x <- bits (a + b)) f x = \sum_(s <- bits a) \sum_(v <- bits b) f (s ++ v).
Proof. exact: sum_bits_add. Qed.

Lemma sum_bits_eq k (f : seq bool -> K) (v : seq bool) :
  size v = k -> \sum_(s <- bits k | s == v) f s = f v.
Proof. exact: sum_pick1. Qed.

Lemma sum_split_take a b (sigma : seq bool) (f : seq bool -> K) :
  size sigma = a ->
  \sum_(x <- bits (a + b) | take a x == sigma) f x = \sum_(v <- bits b) f (sigma ++ v).
Proof.
move=> hs; rewrite big_mkcond sum_bits_cat /=.
rewrite -(@sum_bits_eq a (fun s => \sum_(v <- bits b) f (s ++ v))) // [RHS]big_mkcond /=.
apply: eq_big_seq => s; rewrite mem_bitsE => /eqP hsz.
rewrite -hsz; under eq_bigr do rewrite take_size_cat //.
by case: ifP => // _; rewrite big1.
Qed.

End FieldBridge.
