(* (min,+) semiring on option nat (None = infinity): the instance used by C01. *)
From mathcomp Require Import all_ssreflect.
From WH.Proofs Require Import SemiringDP.
Set Implicit Arguments.
Unset Strict Implicit.
Unset Printing Implicit Defensive.

(* tropical semiring on option nat: None = infinity *)
Definition tmin (x y : option nat) : option nat :=
  match x, y with
  | None, _ => y | _, None => x
  | Some a, Some b => Some (minn a b) end.
Definition tadd (x y : option nat) : option nat :=
  match x, y with
  | Some a, Some b => Some (a + b) | _, _ => None end.

Lemma tminA : associative tmin. Proof. by move=> [a|] [b|] [c|] //=; rewrite minnA. Qed.
Lemma tminC : commutative tmin. Proof. by move=> [a|] [b|] //=; rewrite minnC. Qed.
Lemma tmin0x : left_id None tmin. Proof. by []. Qed.
Lemma tminx0 : right_id None tmin. Proof. by case. Qed.
Lemma taddA : associative tadd. Proof. by move=> [a|] [b|] [c|] //=; rewrite addnA. Qed.
Lemma tadd0x : left_zero None tadd. Proof. by []. Qed.
Lemma taddx0 : right_zero None tadd. Proof. by case. Qed.
Lemma taddDl : left_distributive tadd tmin.
Proof. by move=> [a|] [b|] [c|] //=; rewrite addn_minl. Qed.
Lemma taddDr : right_distributive tadd tmin.
Proof. by move=> [a|] [b|] [c|] //=; rewrite addn_minr. Qed.

Canonical tmin_monoid := Monoid.Law tminA tmin0x tminx0.
Canonical tmin_comoid := Monoid.ComLaw tminC.
Canonical tadd_muloid := Monoid.MulLaw tadd0x taddx0.
Canonical tmin_addoid := Monoid.AddLaw taddDl taddDr.

Check (@dp_total_spec (option nat) None tadd_muloid tmin_addoid).

(* tadd as a commutative monoid with unit Some 0 (products over columns, used by C01) *)
Lemma taddC : commutative tadd. Proof. by move=> [a|] [b|] //=; rewrite addnC. Qed.
Lemma tadd1x : left_id (Some 0) tadd. Proof. by case. Qed.
Lemma taddx1 : right_id (Some 0) tadd. Proof. by case=> //= a; rewrite addn0. Qed.
Canonical tadd_monoid := Monoid.Law taddA tadd1x taddx1.
Canonical tadd_comoid := Monoid.ComLaw taddC.
