(* C12 — the reader's record selection, the fold of get_phase_blocks, and the block dictionary. *)
From Coq Require Import ZArith List Bool Arith Lia Sorted Permutation.
From WH.Model Require Import Stats.
From WH.Proofs Require Import StatsSort StatsPieces.
Import ListNotations.
Open Scope Z_scope.

(* ---------------------------------------------------------------------------------------------- *)
(* VcfReader: under sortedness the rows are exactly the counted records                            *)
Lemma eligible_decision : forall o prev r,
  eligible o r = false -> reader_decision o prev r = DSkip.
Proof.
  intros o prev r H. unfold eligible in H. unfold reader_decision.
  destruct (Nat.eqb (r_nalts r) 1); cbn [negb andb] in *. 2: reflexivity.
  destruct o; cbn [negb orb andb] in *. rewrite H. reflexivity. discriminate.
Qed.
Lemma eligible_decision_true : forall o prev r,
  eligible o r = true ->
  reader_decision o prev r =
  match prev with
  | None => DKeep
  | Some p => if r_pos r <? p then DError else if p =? r_pos r then DSkip else DKeep
  end.
Proof.
  intros o prev r H. unfold eligible in H. unfold reader_decision.
  apply andb_true_iff in H. destruct H as [H1 H2]. rewrite H1. cbn [negb].
  destruct o; cbn [negb orb andb] in *. rewrite H2. reflexivity. reflexivity.
Qed.

Lemma read_rows_counted_gen : forall o recs prev earlier,
  match prev with
  | None => earlier = []
  | Some p => In p earlier /\ forall q, In q earlier -> q <= p
  end ->
  StronglySorted Z.le (map r_pos (filter (eligible o) recs)) ->
  (forall p, prev = Some p -> forall r, In r (filter (eligible o) recs) -> p <= r_pos r) ->
  read_rows o prev recs = Some (map row_of (counted_from o earlier recs)).
Proof.
  intros o. induction recs as [|r rest IH]; intros prev earlier Hrel Hs Hge. reflexivity.
  cbn [read_rows counted_from filter map] in *.
  destruct (eligible o r) eqn:El.
  - rewrite (eligible_decision_true o prev r El).
    cbn [map] in Hs. inversion Hs as [|? ? Hs' Hall]; subst. rewrite Forall_forall in Hall.
    assert (Hnext : forall r', In r' (filter (eligible o) rest) -> r_pos r <= r_pos r').
    { intros r' Hr'. apply Hall. apply in_map. exact Hr'. }
    destruct prev as [p|].
    + destruct Hrel as [Hin Hmax].
      assert (Hp : p <= r_pos r) by (apply (Hge p eq_refl); left; reflexivity).
      destruct (r_pos r <? p) eqn:C1. { apply Z.ltb_lt in C1. lia. }
      destruct (p =? r_pos r) eqn:C2.
      * apply Z.eqb_eq in C2. subst p.
        assert (Hm : zmem (r_pos r) earlier = true) by (apply zmem_In; exact Hin). rewrite Hm.
        apply IH. split; assumption. exact Hs'.
        intros p' Ep' r' Hr'. injection Ep' as <-. apply Hnext; exact Hr'.
      * apply Z.eqb_neq in C2.
        assert (Hm : zmem (r_pos r) earlier = false).
        { apply zmem_false. intro Hc. specialize (Hmax _ Hc). lia. }
        rewrite Hm. cbn [map]. rewrite (IH (Some (r_pos r)) (r_pos r :: earlier)). reflexivity.
        -- split. left; reflexivity. intros q [<-|Hq]. lia. specialize (Hmax q Hq). lia.
        -- exact Hs'.
        -- intros p' Ep' r' Hr'. injection Ep' as <-. apply Hnext; exact Hr'.
    + subst earlier. cbn [zmem map]. rewrite (IH (Some (r_pos r)) [r_pos r]). reflexivity.
      * split. left; reflexivity. intros q [<-|[]]. lia.
      * exact Hs'.
      * intros p' Ep' r' Hr'. injection Ep' as <-. apply Hnext; exact Hr'.
  - rewrite (eligible_decision o prev r El). apply IH; assumption.
Qed.

Lemma read_rows_counted : forall o recs, sorted_recs o recs ->
  read_rows o None recs = Some (map row_of (counted o recs)).
Proof.
  intros o recs H. unfold counted. apply read_rows_counted_gen. reflexivity. exact H.
  intros p Ep. discriminate.
Qed.

(* ---------------------------------------------------------------------------------------------- *)
(* get_phase_blocks as separate folds                                                              *)
Definition counts_as_het (R : rules) (row : trow) : bool :=
  negb (is_homozygous (t_gt row)) && negb (skip_missing_gt R && is_none (t_gt row)).
Definition hrows (R : rules) (rows : list trow) : list trow := filter (counts_as_het R) rows.
Definition entry_of (R : rules) (row : trow) : list (key * var) :=
  match eff_phase R row with
  | Some k => [(k, mkVar (t_pos row) (t_snv row))]
  | None => []
  end.
Definition entries (R : rules) (rows : list trow) : list (key * var) := flat_map (entry_of R) (hrows R rows).
Definition dict_build (l : list (key * var)) (d : list (key * pblock)) : list (key * pblock) :=
  fold_left (fun d e => dict_add (fst e) (snd e) d) l d.
Definition phase_none (R : rules) (row : trow) : bool := match eff_phase R row with None => true | Some _ => false end.

Lemma count_cons : forall (A : Type) (p : A -> bool) x l,
  count p (x :: l) = (if p x then 1 else 0) + count p l.
Proof. intros A p x l. unfold count. cbn [filter]. destruct (p x); cbn [length]; lia. Qed.

Lemma gpb_step_skip : forall R s row, counts_as_het R row = false ->
  gpb_step R s row = mkG (g_variants s + 1) (g_het s) (g_hetsnv s) (g_unph s) (g_blocks s) (g_prev s) (g_gtf s).
Proof.
  intros R s row H. unfold counts_as_het in H. unfold gpb_step.
  destruct (is_homozygous (t_gt row)). reflexivity.
  destruct (skip_missing_gt R && is_none (t_gt row)). reflexivity. discriminate.
Qed.
Lemma gpb_step_het : forall R s row, counts_as_het R row = true ->
  gpb_step R s row =
  match eff_phase R row with
  | None => mkG (g_variants s + 1) (g_het s + 1) (if t_snv row then g_hetsnv s + 1 else g_hetsnv s)
                (g_unph s + 1) (g_blocks s) (g_prev s) (g_gtf s)
  | Some k => mkG (g_variants s + 1) (g_het s + 1) (if t_snv row then g_hetsnv s + 1 else g_hetsnv s)
                  (g_unph s) (dict_add k (mkVar (t_pos row) (t_snv row)) (g_blocks s))
                  (fst (gtf_step (t_pos row) k (g_prev s) (g_gtf s))) (snd (gtf_step (t_pos row) k (g_prev s) (g_gtf s)))
  end.
Proof.
  intros R s row H. unfold counts_as_het in H. unfold gpb_step.
  destruct (is_homozygous (t_gt row)). discriminate.
  destruct (skip_missing_gt R && is_none (t_gt row)). discriminate. reflexivity.
Qed.

Lemma gpb_fold : forall R rows s,
  let s' := fold_left (gpb_step R) rows s in
  g_variants s' = g_variants s + Z.of_nat (length rows) /\
  g_het s' = g_het s + Z.of_nat (length (hrows R rows)) /\
  g_hetsnv s' = g_hetsnv s + count t_snv (hrows R rows) /\
  g_unph s' = g_unph s + count (phase_none R) (hrows R rows) /\
  g_blocks s' = dict_build (entries R rows) (g_blocks s).
Proof.
  intros R. induction rows as [|row rows IH]; intros s; cbn zeta.
  - cbn [fold_left length hrows filter entries flat_map dict_build]. unfold count. cbn [filter length].
    repeat split; try lia; reflexivity.
  - cbn [fold_left]. specialize (IH (gpb_step R s row)). cbn zeta in IH.
    destruct IH as (E1 & E2 & E3 & E4 & E5). rewrite E1, E2, E3, E4, E5. clear E1 E2 E3 E4 E5.
    unfold entries, hrows. cbn [filter]. fold (hrows R rows).
    destruct (counts_as_het R row) eqn:Ec.
    + rewrite (gpb_step_het R s row Ec). cbn [flat_map length]. rewrite !count_cons.
      destruct (eff_phase R row) as [k|] eqn:Ep.
      * assert (Hpn : phase_none R row = false) by (unfold phase_none; rewrite Ep; reflexivity).
        assert (Hen : entry_of R row = [(k, mkVar (t_pos row) (t_snv row))]) by (unfold entry_of; rewrite Ep; reflexivity).
        rewrite Hpn, Hen. cbn [g_variants g_het g_hetsnv g_unph g_blocks app].
        unfold dict_build. cbn [fold_left fst snd].
        destruct (t_snv row); repeat split; try lia; reflexivity.
      * assert (Hpn : phase_none R row = true) by (unfold phase_none; rewrite Ep; reflexivity).
        assert (Hen : entry_of R row = []) by (unfold entry_of; rewrite Ep; reflexivity).
        rewrite Hpn, Hen. cbn [g_variants g_het g_hetsnv g_unph g_blocks app].
        destruct (t_snv row); repeat split; try lia; reflexivity.
    + rewrite (gpb_step_skip R s row Ec). cbn [g_variants g_het g_hetsnv g_unph g_blocks length].
      repeat split; try lia; reflexivity.
Qed.

(* ---------------------------------------------------------------------------------------------- *)
(* the dictionary                                                                                  *)
Lemma key_eqb_eq : forall a b, key_eqb a b = true <-> a = b.
Proof.
  intros [a|] [b|]; cbn [key_eqb]; split; intro H; try discriminate; try reflexivity.
  apply Z.eqb_eq in H. subst; reflexivity. injection H as ->. apply Z.eqb_refl.
Qed.
Lemma key_eqb_refl : forall a, key_eqb a a = true.
Proof. intros a. apply key_eqb_eq. reflexivity. Qed.
Lemma key_eqb_neq : forall a b, key_eqb a b = false <-> a <> b.
Proof.
  intros a b. rewrite <- key_eqb_eq. destruct (key_eqb a b); split; intro H; try reflexivity; try discriminate.
  exfalso; apply H; reflexivity.
Qed.

Fixpoint dget (d : list (key * pblock)) (k : key) : option pblock :=
  match d with
  | [] => None
  | (k', b) :: d' => if key_eqb k' k then Some b else dget d' k
  end.

Definition sel (k : key) (l : list (key * var)) : list var :=
  map snd (filter (fun e => key_eqb (fst e) k) l).

Lemma dget_dict_add : forall k v d k',
  dget (dict_add k v d) k' =
  if key_eqb k k' then Some (pb_add (match dget d k with Some b => b | None => pb_empty end) v)
  else dget d k'.
Proof.
  intros k v d k'. induction d as [|[k0 b0] d IH]; cbn [dict_add dget].
  - destruct (key_eqb k k'); reflexivity.
  - destruct (key_eqb k0 k) eqn:E0.
    + apply key_eqb_eq in E0. subst k0. cbn [dget]. destruct (key_eqb k k'); reflexivity.
    + cbn [dget]. rewrite IH. destruct (key_eqb k k') eqn:E1.
      * apply key_eqb_eq in E1. subst k'. rewrite E0. reflexivity.
      * reflexivity.
Qed.

Lemma keys_dict_add : forall k v d,
  map fst (dict_add k v d) = if existsb (key_eqb k) (map fst d) then map fst d else map fst d ++ [k].
Proof.
  intros k v d. induction d as [|[k0 b0] d IH]; cbn [dict_add map fst existsb app].
  - reflexivity.
  - destruct (key_eqb k0 k) eqn:E0.
    + apply key_eqb_eq in E0. subst k0. rewrite key_eqb_refl. reflexivity.
    + assert (E1 : key_eqb k k0 = false).
      { apply key_eqb_neq. apply key_eqb_neq in E0. congruence. }
      rewrite E1. cbn [orb map fst]. rewrite IH. destruct (existsb (key_eqb k) (map fst d)); reflexivity.
Qed.

Lemma existsb_key_In : forall k ks, existsb (key_eqb k) ks = true <-> In k ks.
Proof.
  intros k ks. rewrite existsb_exists. split.
  - intros (x & Hx & E). apply key_eqb_eq in E. subst. exact Hx.
  - intros H. exists k. split. exact H. apply key_eqb_refl.
Qed.

Lemma dget_None_keys : forall d k, dget d k = None <-> ~ In k (map fst d).
Proof.
  intros d k. induction d as [|[k0 b0] d IH]; cbn [dget map fst In]. tauto.
  destruct (key_eqb k0 k) eqn:E.
  - apply key_eqb_eq in E. subst. split. discriminate. intros H. exfalso. apply H. left; reflexivity.
  - apply key_eqb_neq in E. rewrite IH. tauto.
Qed.

Lemma dget_In : forall d k b, NoDup (map fst d) -> In (k, b) d -> dget d k = Some b.
Proof.
  intros d k b. induction d as [|[k0 b0] d IH]; intros Hn Hin. destruct Hin.
  cbn [map fst] in Hn. inversion Hn as [|? ? Hnin Hn']; subst. cbn [dget]. destruct Hin as [E|Hin].
  - injection E as -> ->. rewrite key_eqb_refl. reflexivity.
  - destruct (key_eqb k0 k) eqn:E.
    + apply key_eqb_eq in E. subst k0. exfalso. apply Hnin. apply in_map_iff. exists (k, b). auto.
    + apply IH; assumption.
Qed.
Lemma In_dget : forall d k b, dget d k = Some b -> In (k, b) d.
Proof.
  intros d k b. induction d as [|[k0 b0] d IH]; cbn [dget]; intros H. discriminate.
  destruct (key_eqb k0 k) eqn:E.
  - apply key_eqb_eq in E. subst. injection H as ->. left; reflexivity.
  - right. apply IH. exact H.
Qed.

Lemma sel_app : forall k a b, sel k (a ++ b) = sel k a ++ sel k b.
Proof. intros k a b. unfold sel. rewrite filter_app, map_app. reflexivity. Qed.

Lemma pb_of_vars_snoc : forall l v, pb_of_vars (l ++ [v]) = pb_add (pb_of_vars l) v.
Proof. intros l v. unfold pb_of_vars. rewrite fold_left_app. reflexivity. Qed.

Lemma NoDup_app_single : forall (A : Type) (l : list A) x, NoDup l -> ~ In x l -> NoDup (l ++ [x]).
Proof.
  intros A l x Hn. induction Hn as [|a l Hnin Hn IH]; intros Hx; cbn [app].
  - constructor. intros []. constructor.
  - constructor.
    + intro Hc. apply in_app_or in Hc. destruct Hc as [Hc|[Hc|[]]]. contradiction. subst. apply Hx. left; reflexivity.
    + apply IH. intro Hc. apply Hx. right; exact Hc.
Qed.

Record dinv (d : list (key * pblock)) (l : list (key * var)) : Prop := mkDinv {
  dinv_nodup : NoDup (map fst d);
  dinv_get : forall k, dget d k = match sel k l with [] => None | _ => Some (pb_of_vars (sel k l)) end }.

Lemma dinv_step : forall d l k v, dinv d l -> dinv (dict_add k v d) (l ++ [(k, v)]).
Proof.
  intros d l k v [Hn Hg]. constructor.
  - rewrite keys_dict_add. destruct (existsb (key_eqb k) (map fst d)) eqn:E. exact Hn.
    apply NoDup_app_single. exact Hn.
    intro Hc. apply existsb_key_In in Hc. congruence.
  - intros k'. rewrite dget_dict_add, sel_app. unfold sel at 2 4. cbn [filter fst].
    destruct (key_eqb k k') eqn:E.
    + apply key_eqb_eq in E. subst k'. cbn [map snd]. rewrite Hg.
      destruct (sel k l) as [|x xs] eqn:Es; cbn [app].
      * reflexivity.
      * rewrite <- pb_of_vars_snoc. cbn [app]. reflexivity.
    + cbn [map]. rewrite app_nil_r. apply Hg.
Qed.
