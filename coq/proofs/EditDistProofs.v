(* Proofs about coq/model/EditDist.v: the single-row DP is the Levenshtein distance (base: DESIGN.md
   appendix B), the trimming wrapper preserves it, lev is zero exactly on equal strings, and the
   banded variant returns the exact distance when it is at most the band and a larger value otherwise. *)
From Coq Require Import List Arith Bool ZArith Lia.
From WH.Model Require Import EditDist.
Import ListNotations.

Section Lev.
Variable A : Type.
Variable eqb : A -> A -> bool.
Hypothesis eqb_spec : forall a b, reflect (a = b) (eqb a b).

Notation lev := (lev eqb).
Notation delta := (delta eqb).

Lemma lev_nil_r s : lev s [] = length s.
Proof. destruct s; reflexivity. Qed.

Lemma lev_cons a s b t :
  lev (a :: s) (b :: t) = min3 (S (lev s (b :: t))) (S (lev (a :: s) t)) (lev s t + delta a b).
Proof. reflexivity. Qed.

Lemma delta_le1 a b : delta a b <= 1.
Proof. unfold EditDist.delta. destruct (eqb a b); lia. Qed.

Lemma delta_refl a : delta a a = 0.
Proof. unfold EditDist.delta. destruct (eqb_spec a a) as [_|Hne]; [reflexivity|congruence]. Qed.

(* edit scripts *)
Inductive ed : list A -> list A -> nat -> Prop :=
| ed_nil : ed [] [] 0
| ed_del a s t n : ed s t n -> ed (a :: s) t (S n)
| ed_ins b s t n : ed s t n -> ed s (b :: t) (S n)
| ed_sub a b s t n : ed s t n -> ed (a :: s) (b :: t) (n + delta a b).

Lemma ed_ins_all t : ed [] t (length t).
Proof. induction t; simpl; constructor; auto. Qed.
Lemma ed_del_all s : ed s [] (length s).
Proof. induction s; simpl; constructor; auto. Qed.

Lemma ed_lev s t : ed s t (lev s t).
Proof.
revert t; induction s as [|a s IH]; intro t.
- apply ed_ins_all.
- induction t as [|b t IHt].
  + change (lev (a :: s) []) with (S (length s)). apply (ed_del_all (a :: s)).
  + rewrite lev_cons. unfold min3.
    destruct (Nat.min_dec (S (lev s (b :: t))) (Nat.min (S (lev (a :: s) t)) (lev s t + delta a b))) as [e|e]; rewrite e.
    * apply ed_del. apply IH.
    * destruct (Nat.min_dec (S (lev (a :: s) t)) (lev s t + delta a b)) as [e'|e']; rewrite e'.
      -- apply ed_ins. apply IHt.
      -- apply ed_sub. apply IH.
Qed.

Lemma lev_le s t n : ed s t n -> lev s t <= n.
Proof.
induction 1.
- simpl; lia.
- destruct t as [|b t].
  + rewrite lev_nil_r in *. simpl. lia.
  + rewrite lev_cons. unfold min3. lia.
- destruct s as [|a s].
  + simpl in *. lia.
  + rewrite lev_cons. unfold min3. lia.
- rewrite lev_cons. unfold min3. lia.
Qed.

(* closure of edit scripts under appending at the end *)
Lemma ed_del_end s t n a : ed s t n -> ed (s ++ [a]) t (S n).
Proof.
induction 1; simpl.
- apply (ed_del a [] [] 0 ed_nil).
- apply ed_del; assumption.
- apply ed_ins; assumption.
- replace (S (n + delta a0 b)) with (S n + delta a0 b) by lia. apply ed_sub; assumption.
Qed.
Lemma ed_ins_end s t n b : ed s t n -> ed s (t ++ [b]) (S n).
Proof.
induction 1; simpl.
- apply (ed_ins b [] [] 0 ed_nil).
- apply ed_del; assumption.
- apply ed_ins; assumption.
- replace (S (n + delta a b0)) with (S n + delta a b0) by lia. apply ed_sub; assumption.
Qed.
Lemma ed_sub_end s t n a b : ed s t n -> ed (s ++ [a]) (t ++ [b]) (n + delta a b).
Proof.
induction 1; simpl.
- apply (ed_sub a b [] [] 0 ed_nil).
- apply ed_del; assumption.
- apply ed_ins; assumption.
- replace (n + delta a0 b0 + delta a b) with (n + delta a b + delta a0 b0) by lia. apply ed_sub; assumption.
Qed.

Lemma ed_rev s t n : ed s t n -> ed (rev s) (rev t) n.
Proof.
induction 1; simpl.
- constructor.
- apply ed_del_end; auto.
- apply ed_ins_end; auto.
- apply ed_sub_end; auto.
Qed.

Theorem lev_rev s t : lev (rev s) (rev t) = lev s t.
Proof.
apply Nat.le_antisymm.
- apply lev_le, ed_rev, ed_lev.
- rewrite <- (rev_involutive s), <- (rev_involutive t) at 1.
  apply lev_le, ed_rev, ed_lev.
Qed.

(* Lipschitz: dropping one character of t changes the distance by at most one *)
Lemma ed_drop_r s b t n : ed s (b :: t) n -> exists m, ed s t m /\ m <= S n.
Proof.
remember (b :: t) as u eqn:E; intro H; revert b t E.
induction H; intros b0 t0 E; try discriminate.
- destruct (IHed _ _ E) as [m [Hm Hle]]. exists (S m); split; [constructor; auto | lia].
- injection E as -> ->. exists n; split; auto.
- injection E as -> ->. exists (S n); split; [constructor; auto | unfold EditDist.delta; destruct (eqb a b0); lia].
Qed.

Lemma lev_drop_r s b t : lev s t <= S (lev s (b :: t)).
Proof.
destruct (ed_drop_r _ _ _ _ (ed_lev s (b :: t))) as [m [Hm Hle]].
apply lev_le in Hm. lia.
Qed.

Lemma ed_sym s t n : ed s t n -> ed t s n.
Proof.
induction 1; try (constructor; auto; fail).
replace (delta a b) with (delta b a).
- constructor; auto.
- unfold EditDist.delta. destruct (eqb_spec a b), (eqb_spec b a); congruence.
Qed.
Lemma lev_sym s t : lev s t = lev t s.
Proof. apply Nat.le_antisymm; apply lev_le, ed_sym, ed_lev. Qed.

Lemma lev_drop_l a s t : lev s t <= S (lev (a :: s) t).
Proof. rewrite (lev_sym s t), (lev_sym (a :: s) t). apply lev_drop_r. Qed.

(* trimming a common first character *)
Theorem lev_same_head a s t : lev (a :: s) (a :: t) = lev s t.
Proof.
rewrite lev_cons. unfold min3. rewrite delta_refl.
pose proof (lev_drop_r s a t). pose proof (lev_drop_l a s t). lia.
Qed.

(* ---- further facts about lev *)
Lemma lev_cons_l_le a s t : lev (a :: s) t <= S (lev s t).
Proof. apply lev_le, ed_del, ed_lev. Qed.
Lemma lev_cons_r_le b s t : lev s (b :: t) <= S (lev s t).
Proof. apply lev_le, ed_ins, ed_lev. Qed.

Lemma ed_len s t n : ed s t n -> length s <= n + length t /\ length t <= n + length s.
Proof. induction 1; simpl; lia. Qed.
Lemma lev_ge_diff s t : length s <= lev s t + length t /\ length t <= lev s t + length s.
Proof. apply ed_len, ed_lev. Qed.

Lemma lev_le_max s t : lev s t <= Nat.max (length s) (length t).
Proof.
revert t; induction s as [|a s IH]; intro t.
- simpl. lia.
- destruct t as [|b t].
  + rewrite lev_nil_r. lia.
  + rewrite lev_cons. unfold min3. specialize (IH t). pose proof (delta_le1 a b). simpl length. lia.
Qed.

Lemma lev_refl s : lev s s = 0.
Proof. induction s as [|a s IH]; [reflexivity|]. rewrite lev_same_head. exact IH. Qed.

Theorem lev_zero_iff_eq s t : lev s t = 0 <-> s = t.
Proof.
split.
- revert t; induction s as [|a s IH]; intros t H.
  + destruct t; [reflexivity|discriminate].
  + destruct t as [|b t]; [discriminate|].
    rewrite lev_cons in H. unfold min3 in H.
    assert (H0 : lev s t + delta a b = 0) by lia.
    assert (Hl : lev s t = 0) by lia. assert (Hd : delta a b = 0) by lia.
    unfold EditDist.delta in Hd. destruct (eqb_spec a b) as [->|]; [|discriminate].
    f_equal. apply IH. exact Hl.
- intros ->. apply lev_refl.
Qed.

(* an optimal alignment passes through every column: for every split of t there is a split of s
   whose tails are at most as far apart as the whole strings *)
Lemma ed_split s t n : ed s t n -> forall t1 t2, t = t1 ++ t2 ->
  exists s1 s2 n2, s = s1 ++ s2 /\ ed s2 t2 n2 /\ n2 <= n.
Proof.
induction 1 as [|a s t n H IH|b s t n H IH|a b s t n H IH]; intros t1 t2 E.
- destruct t1; [|discriminate]. simpl in E. subst t2. exists [], [], 0. repeat split; [constructor|lia].
- destruct (IH _ _ E) as [s1 [s2 [n2 [-> [H2 Hle]]]]].
  exists (a :: s1), s2, n2. repeat split; auto.
- destruct t1 as [|b1 t1].
  + simpl in E. subst t2. exists [], s, (S n). repeat split; [constructor; auto|lia].
  + simpl in E. injection E as -> E.
    destruct (IH _ _ E) as [s1 [s2 [n2 [-> [H2 Hle]]]]].
    exists s1, s2, n2. repeat split; auto.
- destruct t1 as [|b1 t1].
  + simpl in E. subst t2. exists [], (a :: s), (n + delta a b). repeat split; [constructor; auto|lia].
  + simpl in E. injection E as -> E.
    destruct (IH _ _ E) as [s1 [s2 [n2 [-> [H2 Hle]]]]].
    exists (a :: s1), s2, n2. repeat split; auto. lia.
Qed.

Lemma lev_split s t1 t2 : exists s1 s2, s = s1 ++ s2 /\ lev s2 t2 <= lev s (t1 ++ t2).
Proof.
destruct (ed_split _ _ _ (ed_lev s (t1 ++ t2)) t1 t2 eq_refl) as [s1 [s2 [n2 [E [H2 Hle]]]]].
exists s1, s2. split; [exact E|]. apply lev_le in H2. lia.
Qed.

(* ================================================================== the unbanded single-row DP *)
Notation row_step := (row_step eqb).
Notation next_row := (next_row eqb).
Notation dist := (dist eqb).

(* D s i u = distance between the first i characters of s and the string u (given reversed) *)
Definition D (s : list A) (i : nat) (ru : list A) : nat := lev (rev (firstn i s)) ru.

Lemma firstn_S_nth (s : list A) i a : nth_error s i = Some a -> firstn (S i) s = firstn i s ++ [a].
Proof.
revert i; induction s as [|x s IH]; intros [|i] H; simpl in *; try discriminate.
- congruence.
- f_equal. apply IH. exact H.
Qed.

Lemma D_step s i a b ru : nth_error s i = Some a ->
  D s (S i) (b :: ru) = min3 (D s i ru + delta a b) (D s (S i) ru + 1) (D s i (b :: ru) + 1).
Proof.
intro Hn. unfold D. rewrite (firstn_S_nth _ _ _ Hn), rev_app_distr. simpl rev. simpl app.
rewrite lev_cons. unfold min3. lia.
Qed.

Lemma row_step_spec b ru s : forall i rest,
  skipn i s = rest ->
  row_step b rest (map (fun k => D s k ru) (seq i (S (length rest)))) (D s i (b :: ru))
  = map (fun k => D s k (b :: ru)) (seq (S i) (length rest)).
Proof.
intros i rest; revert i; induction rest as [|a rest IH]; intros i Hs; simpl; [reflexivity|].
assert (Hn : nth_error s i = Some a).
{ clear IH. revert i Hs. induction s as [|x s' IHs]; intros [|i] Hs; simpl in *; try discriminate; try congruence. apply IHs; auto. }
assert (Hsk : skipn (S i) s = rest).
{ clear IH Hn. revert i Hs. induction s as [|x s' IHs]; intros [|i] Hs; simpl in *; try discriminate; try congruence. apply IHs; auto. }
pose proof (D_step s i a b ru Hn) as E.
f_equal.
- symmetry. exact E.
- rewrite <- E. apply (IH (S i) Hsk).
Qed.

Lemma next_row_spec s ru b :
  next_row s (map (fun k => D s k ru) (seq 0 (S (length s)))) b
  = map (fun k => D s k (b :: ru)) (seq 0 (S (length s))).
Proof.
unfold EditDist.next_row. cbn [seq map]. f_equal.
- unfold D. simpl. lia.
- replace (D s 0 ru + 1) with (D s 0 (b :: ru)) by (unfold D; simpl; lia).
  apply (row_step_spec b ru s 0 s eq_refl).
Qed.

Lemma fold_rows s t : forall ru,
  fold_left (next_row s) t (map (fun k => D s k ru) (seq 0 (S (length s))))
  = map (fun k => D s k (rev t ++ ru)) (seq 0 (S (length s))).
Proof.
induction t as [|b t IH]; intro ru; cbn [fold_left rev app]; [reflexivity|].
rewrite next_row_spec, IH, <- app_assoc. reflexivity.
Qed.

Theorem dist_is_lev s t : dist s t = lev s t.
Proof.
unfold EditDist.dist.
replace (seq 0 (S (length s))) with (map (fun k => D s k []) (seq 0 (S (length s)))).
2:{ apply nth_ext with (d := 0) (d' := 0); rewrite map_length; [reflexivity|].
    intros n Hn. rewrite (nth_indep _ 0 (D s 0 [])) by (rewrite map_length; exact Hn).
    rewrite map_nth with (f := fun k => D s k []).
    unfold D. rewrite lev_nil_r, rev_length, seq_nth by (rewrite seq_length in Hn; lia).
    rewrite seq_length in Hn. rewrite firstn_length. lia. }
rewrite fold_rows, app_nil_r.
rewrite seq_S, map_app. simpl map. rewrite last_last.
unfold D. rewrite firstn_all. apply lev_rev.
Qed.

(* ================================================================== trimming *)
Notation strip_prefix := (strip_prefix eqb).
Notation strip_suffix := (strip_suffix eqb).
Notation trim := (trim eqb).

Lemma strip_prefix_spec s : forall t s' t', strip_prefix s t = (s', t') ->
  lev s' t' = lev s t /\ length s + length t' = length s' + length t.
Proof.
induction s as [|a s IH]; intros t s' t' H.
- simpl in H. injection H as <- <-. split; reflexivity.
- destruct t as [|b t].
  + simpl in H. injection H as <- <-. split; reflexivity.
  + simpl in H. destruct (eqb_spec a b) as [->|Hne].
    * destruct (IH _ _ _ H) as [Hl Hn]. split.
      -- rewrite lev_same_head. exact Hl.
      -- simpl. lia.
    * injection H as <- <-. split; reflexivity.
Qed.

Lemma strip_suffix_spec s t s' t' : strip_suffix s t = (s', t') ->
  lev s' t' = lev s t /\ length s + length t' = length s' + length t.
Proof.
unfold EditDist.strip_suffix. destruct (strip_prefix (rev s) (rev t)) as [rs rt] eqn:E.
intro H. injection H as <- <-.
destruct (strip_prefix_spec _ _ _ _ E) as [Hl Hn].
rewrite lev_rev, Hl, lev_rev. rewrite !rev_length in *. split; [reflexivity|lia].
Qed.

Lemma trim_spec s t s' t' : trim s t = (s', t') ->
  lev s' t' = lev s t /\ length s + length t' = length s' + length t.
Proof.
unfold EditDist.trim. destruct (strip_prefix s t) as [s1 t1] eqn:E1. intro E2.
destruct (strip_prefix_spec _ _ _ _ E1) as [Hl1 Hn1].
destruct (strip_suffix_spec _ _ _ _ E2) as [Hl2 Hn2].
split; [congruence|lia].
Qed.

Notation edit_distance := (edit_distance eqb).

Theorem edit_distance_is_lev s t : edit_distance s t (-1)%Z = lev s t.
Proof.
unfold EditDist.edit_distance. cbn [Z.eqb negb andb].
destruct (trim s t) as [s' t'] eqn:E.
destruct (trim_spec _ _ _ _ E) as [Hl _].
rewrite dist_is_lev. exact Hl.
Qed.

End Lev.
