(* C17 — proofs about the model of haplotagphase (coq/model/HaplotagPhase.v). stdlib style. *)
From Coq Require Import ZArith List Bool Arith Lia.
From WH.Model Require Import HaplotagPhase.
Import ListNotations.
Open Scope Z_scope.

(* ------------------------------------------------------------------------------ generic helpers *)
Lemma fold_res_inv : forall {A B} (f : A -> B -> res A) (P : A -> Prop) (l : list B) (a a' : A),
  (forall a x a', In x l -> P a -> f a x = Ok a' -> P a') ->
  P a -> fold_res f l a = Ok a' -> P a'.
Proof.
  intros A B f P l. induction l as [|x t IH]; intros a a' Hstep Ha Hf; cbn [fold_res] in Hf.
  - inversion Hf; subst; exact Ha.
  - destruct (f a x) as [a1|e] eqn:E; [|discriminate].
    apply (IH a1 a'); auto.
    + intros a0 y a0' Hy. apply Hstep. right; exact Hy.
    + apply (Hstep a x a1); auto. left; reflexivity.
Qed.

Lemma fold_left_inv : forall {A B} (f : A -> B -> A) (P : A -> Prop) (l : list B) (a : A),
  (forall a x, In x l -> P a -> P (f a x)) -> P a -> P (fold_left f l a).
Proof.
  intros A B f P l. induction l as [|x t IH]; intros a Hstep Ha; cbn [fold_left].
  - exact Ha.
  - apply IH.
    + intros a0 y Hy. apply Hstep. right; exact Hy.
    + apply Hstep; auto. left; reflexivity.
Qed.

Lemma key_eqb_eq : forall a b, key_eqb a b = true -> a = b.
Proof.
  intros [a1 a2] [b1 b2] H. unfold key_eqb in H. cbn [fst snd] in H.
  apply andb_true_iff in H. destruct H as [H1 H2].
  apply Z.eqb_eq in H1. apply Z.eqb_eq in H2. subst. reflexivity.
Qed.

Lemma map_res_length : forall {A B} (f : A -> res B) l ys, map_res f l = Ok ys -> length ys = length l.
Proof.
  intros A B f l. induction l as [|x t IH]; intros ys H; cbn [map_res] in H.
  - inversion H; reflexivity.
  - destruct (f x) as [y|e]; [|discriminate].
    destruct (map_res f t) as [ys'|e]; [|discriminate].
    inversion H; subst. cbn [length]. f_equal. apply IH. reflexivity.
Qed.

Lemma map_res_nth : forall {A B} (f : A -> res B) l ys i x,
  map_res f l = Ok ys -> nth_error l i = Some x -> exists y, f x = Ok y /\ nth_error ys i = Some y.
Proof.
  intros A B f l. induction l as [|x0 t IH]; intros ys i x H Hn; cbn [map_res] in H.
  - destruct i; discriminate.
  - destruct (f x0) as [y0|e] eqn:E0; [|discriminate].
    destruct (map_res f t) as [ys'|e] eqn:E1; [|discriminate].
    inversion H; subst. destruct i as [|i]; cbn [nth_error] in *.
    + inversion Hn; subst. exists y0. split; [exact E0|reflexivity].
    + apply (IH ys' i x); auto.
Qed.

(* ------------------------------------------------------------------ genotype vector of a het call *)
Lemma sort_desc_pair : forall x0 x1, x0 <> x1 ->
  sort_desc [x0; x1] = if x0 <? x1 then [x1; x0] else [x0; x1].
Proof.
  intros x0 x1 Hne. unfold sort_desc. cbn [sort_asc insert_asc].
  destruct (x0 <=? x1) eqn:E1; destruct (x0 <? x1) eqn:E2; cbn [rev app]; try reflexivity; lia.
Qed.

Lemma gvec_pair : forall x0 x1, gvec [Some x0; Some x1] = sort_desc [x0; x1].
Proof. intros. reflexivity. Qed.

(* the facts about allele ids used by the vote key: ids of the two alleles are 0/1 and complementary *)
Lemma het_ids : forall x0 x1, x0 <> x1 ->
  exists i0, (i0 = 0 \/ i0 = 1) /\
    a2id (sort_desc [x0; x1]) x0 = Some i0 /\ a2id (sort_desc [x0; x1]) x1 = Some (1 - i0) /\
    nth_z (sort_desc [x0; x1]) i0 = Some x0 /\ nth_z (sort_desc [x0; x1]) (1 - i0) = Some x1 /\
    is_hom (sort_desc [x0; x1]) = false.
Proof.
  intros x0 x1 Hne. rewrite (sort_desc_pair x0 x1 Hne).
  destruct (x0 <? x1) eqn:E.
  - exists 1. unfold a2id. cbn [a2id_from nth_z is_hom forallb].
    assert (H1 : (x1 =? x0) = false) by (apply Z.eqb_neq; lia).
    assert (H2 : (x0 =? x1) = false) by (apply Z.eqb_neq; lia).
    rewrite !Z.eqb_refl, ?H1, ?H2. cbn. rewrite ?H1, ?H2. repeat split; auto.
  - exists 0. unfold a2id. cbn [a2id_from nth_z is_hom forallb].
    assert (H1 : (x1 =? x0) = false) by (apply Z.eqb_neq; lia).
    assert (H2 : (x0 =? x1) = false) by (apply Z.eqb_neq; lia).
    rewrite !Z.eqb_refl, ?H1, ?H2. cbn. rewrite ?H1, ?H2. repeat split; auto.
Qed.
