(* C17 — proofs about the model of haplotagphase (coq/model/HaplotagPhase.v). stdlib style. *)
From Coq Require Import ZArith List Bool Arith Lia.
From WH.Model Require Import HaplotagPhase.
Import ListNotations.
Open Scope Z_scope.

(* ------------------------------------------------------------------------------ generic helpers *)
Lemma fold_res_inv : forall {A B} (f : A -> B -> res A) (P : A -> Prop) (l : list B) (a a' : A),
  (forall a x a', In x l -> P a -> f a x = Ok a' -> P a') ->
  P a -> fold_res f l a = Ok a' -> P a'.
Proof.
  intros A B f P l. induction l as [|x t IH]; intros a a' Hstep Ha Hf; cbn [fold_res] in Hf.
  - inversion Hf; subst; exact Ha.
  - destruct (f a x) as [a1|e] eqn:E; [|discriminate].
    apply (IH a1 a'); auto.
    + intros a0 y a0' Hy. apply Hstep. right; exact Hy.
    + apply (Hstep a x a1); auto. left; reflexivity.
Qed.

Lemma fold_left_inv : forall {A B} (f : A -> B -> A) (P : A -> Prop) (l : list B) (a : A),
  (forall a x, In x l -> P a -> P (f a x)) -> P a -> P (fold_left f l a).
Proof.
  intros A B f P l. induction l as [|x t IH]; intros a Hstep Ha; cbn [fold_left].
  - exact Ha.
  - apply IH.
    + intros a0 y Hy. apply Hstep. right; exact Hy.
    + apply Hstep; auto. left; reflexivity.
Qed.

Lemma key_eqb_eq : forall a b, key_eqb a b = true -> a = b.
Proof.
  intros [a1 a2] [b1 b2] H. unfold key_eqb in H. cbn [fst snd] in H.
  apply andb_true_iff in H. destruct H as [H1 H2].
  apply Z.eqb_eq in H1. apply Z.eqb_eq in H2. subst. reflexivity.
Qed.

Lemma map_res_length : forall {A B} (f : A -> res B) l ys, map_res f l = Ok ys -> length ys = length l.
Proof.
  intros A B f l. induction l as [|x t IH]; intros ys H; cbn [map_res] in H.
  - inversion H; reflexivity.
  - destruct (f x) as [y|e]; [|discriminate].
    destruct (map_res f t) as [ys'|e]; [|discriminate].
    inversion H; subst. cbn [length]. f_equal. apply IH. reflexivity.
Qed.

Lemma map_res_nth : forall {A B} (f : A -> res B) l ys i x,
  map_res f l = Ok ys -> nth_error l i = Some x -> exists y, f x = Ok y /\ nth_error ys i = Some y.
Proof.
  intros A B f l. induction l as [|x0 t IH]; intros ys i x H Hn; cbn [map_res] in H.
  - destruct i; discriminate.
  - destruct (f x0) as [y0|e] eqn:E0; [|discriminate].
    destruct (map_res f t) as [ys'|e] eqn:E1; [|discriminate].
    inversion H; subst. destruct i as [|i]; cbn [nth_error] in *.
    + inversion Hn; subst. exists y0. split; [exact E0|reflexivity].
    + apply (IH ys' i x); auto.
Qed.

(* ------------------------------------------------------------------ genotype vector of a het call *)
Lemma sort_desc_pair : forall x0 x1, x0 <> x1 ->
  sort_desc [x0; x1] = if x0 <? x1 then [x1; x0] else [x0; x1].
Proof.
  intros x0 x1 Hne. unfold sort_desc. cbn [sort_asc insert_asc].
  destruct (x0 <=? x1) eqn:E1; destruct (x0 <? x1) eqn:E2; cbn [rev app]; try reflexivity; lia.
Qed.

Lemma gvec_pair : forall x0 x1, gvec [Some x0; Some x1] = sort_desc [x0; x1].
Proof. intros. reflexivity. Qed.

(* the facts about allele ids used by the vote key: ids of the two alleles are 0/1 and complementary *)
Lemma het_ids : forall x0 x1, x0 <> x1 ->
  exists i0, (i0 = 0 \/ i0 = 1) /\
    a2id (sort_desc [x0; x1]) x0 = Some i0 /\ a2id (sort_desc [x0; x1]) x1 = Some (1 - i0) /\
    nth_z (sort_desc [x0; x1]) i0 = Some x0 /\ nth_z (sort_desc [x0; x1]) (1 - i0) = Some x1 /\
    is_hom (sort_desc [x0; x1]) = false.
Proof.
  intros x0 x1 Hne. rewrite (sort_desc_pair x0 x1 Hne).
  destruct (x0 <? x1) eqn:E.
  - exists 1. unfold a2id. cbn [a2id_from nth_z is_hom forallb].
    assert (H1 : (x1 =? x0) = false) by (apply Z.eqb_neq; lia).
    assert (H2 : (x0 =? x1) = false) by (apply Z.eqb_neq; lia).
    rewrite !Z.eqb_refl, ?H1, ?H2. cbn. rewrite ?H1, ?H2. repeat split; auto.
  - exists 0. unfold a2id. cbn [a2id_from nth_z is_hom forallb].
    assert (H1 : (x1 =? x0) = false) by (apply Z.eqb_neq; lia).
    assert (H2 : (x0 =? x1) = false) by (apply Z.eqb_neq; lia).
    rewrite !Z.eqb_refl, ?H1, ?H2. cbn. rewrite ?H1, ?H2. repeat split; auto.
Qed.

(* ------------------------------------------------------------------------------ dict lemmas *)
Lemma vget_In : forall p V m, vget p V = Some m -> In (p, m) V.
Proof.
  intros p V. induction V as [|[p' m'] t IH]; intros m H; cbn [vget] in H; [discriminate|].
  destruct (p =? p') eqn:E.
  - apply Z.eqb_eq in E. inversion H; subst. left; reflexivity.
  - right. apply IH. exact H.
Qed.

Lemma vset_In : forall p m V p' m', In (p', m') (vset p m V) -> (p' = p /\ m' = m) \/ In (p', m') V.
Proof.
  intros p m V. induction V as [|[q mq] t IH]; intros p' m' H; cbn [vset] in H.
  - destruct H as [H|[]]. inversion H; subst. left; split; reflexivity.
  - destruct (p =? q) eqn:E.
    + apply Z.eqb_eq in E. subst q. destruct H as [H|H].
      * inversion H; subst. left; split; reflexivity.
      * right. right. exact H.
    + destruct H as [H|H].
      * right. left. exact H.
      * destruct (IH _ _ H) as [H1|H1]; [left; exact H1|right; right; exact H1].
Qed.

Lemma inner_set_In : forall k v m k' w', In (k', w') (inner_set k v m) -> In (k', w') m \/ w' = v.
Proof.
  intros k v m. induction m as [|[q w] t IH]; intros k' w' H; cbn [inner_set] in H.
  - destruct H as [H|[]]. inversion H; subst. right; reflexivity.
  - destruct (key_eqb k q) eqn:E.
    + destruct H as [H|H].
      * inversion H; subst. right; reflexivity.
      * left. right. exact H.
    + destruct H as [H|H].
      * left. left. exact H.
      * destruct (IH _ _ H) as [H1|H1]; [left; right; exact H1|right; exact H1].
Qed.

Lemma inner_init_In : forall ps m k w, In (k, w) (inner_init ps m) -> In (k, w) m \/ w = 0.
Proof.
  intros ps m k w H. unfold inner_init in H.
  destruct (inner_get (ps, 0) m).
  - left; exact H.
  - apply inner_set_In in H. destruct H as [H|H]; [|right; exact H].
    apply inner_set_In in H. exact H.
Qed.

Lemma inner_add_In : forall k q m m2 k' w',
  inner_add k q m = Some m2 -> In (k', w') m2 ->
  In (k', w') m \/ (k' = k /\ exists w0, In (k', w0) m /\ w' = w0 + q).
Proof.
  intros k q m. induction m as [|[kk w] t IH]; intros m2 k' w' H Hin; cbn [inner_add] in H; [discriminate|].
  destruct (key_eqb k kk) eqn:E.
  - inversion H; subst. apply key_eqb_eq in E. subst kk. destruct Hin as [Hin|Hin].
    + inversion Hin; subst. right. split; [reflexivity|]. exists w. split; [left; reflexivity|reflexivity].
    + left. right. exact Hin.
  - destruct (inner_add k q t) as [t'|] eqn:Et; [|discriminate]. inversion H; subst.
    destruct Hin as [Hin|Hin].
    + left. left. exact Hin.
    + destruct (IH t' k' w' eq_refl Hin) as [H1|[H1 [w0 [H2 H3]]]].
      * left. right. exact H1.
      * right. split; [exact H1|]. exists w0. split; [right; exact H2|exact H3].
Qed.

Lemma find_iv_pos : forall p ivs iv, find_iv p ivs = Some iv -> iv_pos iv = p /\ In iv ivs.
Proof.
  intros p ivs. induction ivs as [|x t IH]; intros iv H; cbn [find_iv] in H; [discriminate|].
  destruct (iv_pos x =? p) eqn:E.
  - inversion H; subst. apply Z.eqb_eq in E. split; [exact E|left; reflexivity].
  - destruct (IH iv H) as [H1 H2]. split; [exact H1|right; exact H2].
Qed.

(* two views with the same (position, genotype) columns find records with the same genotype *)
Definition site (iv : ivar) : Z * list Z := (iv_pos iv, iv_g iv).
Lemma find_iv_sites : forall p a b iv,
  map site a = map site b -> find_iv p a = Some iv ->
  exists iv', find_iv p b = Some iv' /\ iv_g iv' = iv_g iv.
Proof.
  intros p a. induction a as [|x t IH]; intros b iv Hm Hf; cbn [find_iv] in Hf; [discriminate|].
  destruct b as [|y u]; [discriminate|]. cbn [map] in Hm. inversion Hm as [[Hp Hg Ht]].
  cbn [find_iv]. rewrite <- Hp.
  destruct (iv_pos x =? p) eqn:E.
  - inversion Hf; subst. exists y. split; [reflexivity|symmetry; exact Hg].
  - apply IH; auto.
Qed.

(* ------------------------------------------------------------- phi_of: what a phased call gives *)
Lemma phi_of_spec : forall ivs p b x0 x1, phi_of ivs p = Some (b, x0, x1) ->
  exists iv, find_iv p ivs = Some iv /\ kept_phase iv = Some (b, x0, x1) /\ is_hom (iv_g iv) = false.
Proof.
  intros ivs p b x0 x1 H. unfold phi_of in H.
  destruct (find_iv p ivs) as [iv|] eqn:E; [|discriminate].
  destruct (is_hom (iv_g iv)) eqn:Eh; [discriminate|].
  exists iv. repeat split; auto.
Qed.

Lemma kept_phase_view : forall s r b x0 x1, kept_phase (ivar_of s r) = Some (b, x0, x1) ->
  c_gt (nth s (v_calls r) dcall) = [Some x0; Some x1] /\ x0 <> x1 /\
  iv_g (ivar_of s r) = sort_desc [x0; x1].
Proof.
  intros s r b x0 x1 H. unfold kept_phase, ivar_of in H. cbn [iv_phase] in H.
  unfold extract_phase in H.
  destruct (c_phased (nth s (v_calls r) dcall) && raw_het (c_gt (nth s (v_calls r) dcall))) eqn:E; [|discriminate].
  apply andb_true_iff in E. destruct E as [_ Eh].
  destruct (if v_pskey r then c_ps (nth s (v_calls r) dcall) else Some 0) as [bb|]; [|discriminate].
  destruct (c_gt (nth s (v_calls r) dcall)) as [|[a0|] [|[a1|] [|? ?]]] eqn:Eg; try discriminate.
  inversion H; subst. split; [reflexivity|].
  assert (Hne : x0 <> x1).
  { unfold raw_het in Eh. cbn [forallb oz_eqb] in Eh. rewrite andb_true_r in Eh.
    apply negb_true_iff in Eh. apply Z.eqb_neq in Eh. exact Eh. }
  split; [exact Hne|]. unfold ivar_of. cbn [iv_g]. rewrite Eg. apply gvec_pair.
Qed.

Lemma sample_view_In : forall t s iv, In iv (sample_view t s) -> exists r, In r t /\ iv = ivar_of s r.
Proof.
  intros t s iv H. unfold sample_view in H. apply in_map_iff in H. destruct H as [r [H1 H2]].
  exists r. split; auto.
Qed.

(* a phased entry of the tagging VCF: heterozygous, and the genotype vector of the record is the
   descending pair of its two alleles *)
Lemma phi_view_spec : forall t s p b x0 x1, phi_of (sample_view t s) p = Some (b, x0, x1) ->
  x0 <> x1 /\ exists iv, find_iv p (sample_view t s) = Some iv /\ iv_g iv = sort_desc [x0; x1].
Proof.
  intros t s p b x0 x1 H. apply phi_of_spec in H. destruct H as [iv [Hf [Hk _]]].
  destruct (find_iv_pos _ _ _ Hf) as [_ Hin]. apply sample_view_In in Hin. destruct Hin as [r [_ Hr]].
  subst iv. apply kept_phase_view in Hk. destruct Hk as [_ [Hne Hg]].
  split; [exact Hne|]. exists (ivar_of s r). split; auto.
Qed.

(* ----------------------------------------------------------- haplotag: tags of an error-free read *)
Section Tagging.
  Variable phi : Z -> option (Z * Z * Z).
  Hypothesis phi_het : forall p b x0 x1, phi p = Some (b, x0, x1) -> x0 <> x1.

  Lemma read_sets_nil : forall vars,
    flat_map (fun v => match phi (rv_pos v) with Some (ps, _, _) => [ps] | None => [] end) vars = [] ->
    forall v, In v vars -> phi (rv_pos v) = None.
  Proof.
    induction vars as [|x t IH]; intros H v Hin; [destruct Hin|].
    cbn [flat_map] in H. apply app_eq_nil in H. destruct H as [H1 H2].
    destruct Hin as [Hin|Hin].
    - subst x. destruct (phi (rv_pos v)) as [[[ps a] b]|]; [discriminate|reflexivity].
    - apply IH; auto.
  Qed.

  Lemma costs_nil : forall vars, (forall v, In v vars -> phi (rv_pos v) = None) ->
    fold_left (hc_step phi) vars [] = [].
  Proof.
    intros vars H. apply (fold_left_inv (hc_step phi) (fun m => m = [])); [|reflexivity].
    intros a x Hin Ha. subst a. unfold hc_step. rewrite (H x Hin). reflexivity.
  Qed.

  (* cost table of an error-free read of haplotype h in set st: one entry, all weight on haplotype h *)
  Definition cost_shape (h st : Z) (m : hcosts) : Prop :=
    m = [] \/ exists c0 c1, m = [(st, (c0, c1))] /\ 0 <= c0 /\ 0 <= c1 /\ (if h =? 0 then c1 else c0) = 0.

  Lemma costs_error_free : forall h st r, (h = 0 \/ h = 1) -> error_free_on phi h st r = true ->
    cost_shape h st (fold_left (hc_step phi) (r_vars r) []).
  Proof.
    intros h st r Hh Hef. unfold error_free_on in Hef. rewrite forallb_forall in Hef.
    apply (fold_left_inv (hc_step phi) (cost_shape h st)); [|left; reflexivity].
    intros m v Hin Hm. specialize (Hef v Hin). apply andb_true_iff in Hef. destruct Hef as [Hq Hv].
    apply Z.leb_le in Hq. unfold hc_step.
    destruct (phi (rv_pos v)) as [[[ps x0] x1]|] eqn:Ep; [|exact Hm].
    apply andb_true_iff in Hv. destruct Hv as [Hps Ha]. apply Z.eqb_eq in Hps. apply Z.eqb_eq in Ha. subst ps.
    pose proof (phi_het _ _ _ _ Ep) as Hne.
    right. destruct Hh as [Hh|Hh]; subst h; cbn [Z.eqb] in Ha |- *.
    + (* haplotype 0: allele = x0 *)
      rewrite Ha. rewrite Z.eqb_refl. assert (E1 : (x0 =? x1) = false) by (apply Z.eqb_neq; exact Hne). rewrite E1.
      destruct Hm as [Hm|[c0 [c1 [Hm [H0 [H1 H2]]]]]]; subst m; cbn [hc_add].
      * exists (rv_qual v), 0. split; [reflexivity|lia].
      * rewrite Z.eqb_refl. cbn [Z.eqb] in H2. exists (c0 + rv_qual v), (c1 + 0). split; [reflexivity|lia].
    + rewrite Ha. rewrite Z.eqb_refl. assert (E1 : (x1 =? x0) = false) by (apply Z.eqb_neq; auto). rewrite E1.
      destruct Hm as [Hm|[c0 [c1 [Hm [H0 [H1 H2]]]]]]; subst m; cbn [hc_add].
      * exists 0, (rv_qual v). split; [reflexivity|lia].
      * rewrite Z.eqb_refl. cbn [Z.eqb] in H2. exists (c0 + 0), (c1 + rv_qual v). split; [reflexivity|lia].
  Qed.

  (* the haplotag decision for such a read: untagged, or haplotype h and set st *)
  Lemma decide_error_free : forall h st r, (h = 0 \/ h = 1) -> error_free_on phi h st r = true ->
    haplotag_decide phi r = None \/ exists q, haplotag_decide phi r = Some (h, q, st) /\ 0 < q.
  Proof.
    intros h st r Hh Hef. pose proof (costs_error_free h st r Hh Hef) as Hs.
    unfold haplotag_decide. destruct Hs as [Hs|[c0 [c1 [Hs [H0 [H1 H2]]]]]]; rewrite Hs; cbn [hc_best].
    - left; reflexivity.
    - destruct (Z.abs (c0 - c1) =? 0) eqn:Eq; [left; reflexivity|].
      apply Z.eqb_neq in Eq. right. exists (Z.abs (c0 - c1)).
      destruct Hh as [Hh|Hh]; subst h; cbn [Z.eqb] in H2; subst.
      + assert (E : (c0 <? 0) = false) by (apply Z.ltb_ge; lia). rewrite E. split; [reflexivity|lia].
      + assert (E : (0 <? c1) = true) by (apply Z.ltb_lt; lia). rewrite E. split; [reflexivity|lia].
  Qed.

  (* What compute_votes uses of a tagged read (after its guards ht in {0,1}): the PS tag is the set
     of every phased variant the read shows, and the read shows the allele of haplotype ht there. *)
  Lemma tagged_read_spec : forall r,
    tagged_by phi r = true -> error_free phi r = true ->
    0 <= r_hp r - 1 ->
    forall v, In v (r_vars r) ->
      0 <= rv_qual v /\
      forall b x0 x1, phi (rv_pos v) = Some (b, x0, x1) ->
        r_ps r = b /\ rv_allele v = (if r_hp r - 1 =? 0 then x0 else x1).
  Proof.
    intros r Ht Hef Hht v Hin. unfold tagged_by in Ht. apply andb_true_iff in Ht. destruct Ht as [Thp Tps].
    apply Z.eqb_eq in Thp. apply Z.eqb_eq in Tps.
    unfold error_free in Hef. unfold read_sets in Hef.
    destruct (flat_map _ (r_vars r)) as [|st rest] eqn:Ers.
    - (* no phased variant: the read is untagged *)
      pose proof (read_sets_nil _ Ers) as Hn. unfold haplotag_decide in Thp.
      rewrite (costs_nil _ Hn) in Thp. cbn in Thp. lia.
    - assert (Hcase : exists h, (h = 0 \/ h = 1) /\ error_free_on phi h st r = true).
      { apply orb_true_iff in Hef. destruct Hef as [H|H]; [exists 0|exists 1]; split; auto. }
      destruct Hcase as [h [Hh Hon]].
      destruct (decide_error_free h st r Hh Hon) as [Hd|[q [Hd Hq]]]; rewrite Hd in Thp, Tps; cbn [tags_of fst snd] in Thp, Tps.
      + lia.
      + unfold error_free_on in Hon. rewrite forallb_forall in Hon. specialize (Hon v Hin).
        apply andb_true_iff in Hon. destruct Hon as [Hq0 Hv]. apply Z.leb_le in Hq0. split; [exact Hq0|].
        intros b x0 x1 Ep. rewrite Ep in Hv. apply andb_true_iff in Hv. destruct Hv as [Hps Ha].
        apply Z.eqb_eq in Hps. apply Z.eqb_eq in Ha. split; [lia|].
        replace (r_hp r - 1) with h by lia. exact Ha.
  Qed.
End Tagging.

(* ------------------------------------------------------------------- votes_concentrate (generic) *)
Section Votes.
  Variable phi : Z -> option (Z * Z * Z).      (* the phasing that tagged the reads *)
  Variable ivs : list ivar.                    (* haplotagphase's view of its input VCF *)
  Hypothesis phi_het : forall p b x0 x1, phi p = Some (b, x0, x1) -> x0 <> x1.
  Hypothesis phi_site : forall p b x0 x1, phi p = Some (b, x0, x1) ->
    exists iv, find_iv p ivs = Some iv /\ iv_g iv = sort_desc [x0; x1].

  (* the key (phase set index, haplotype xor allele id) that is the orientation of phi at p *)
  Definition on_target (p : Z) (k : vkey) : Prop :=
    forall b x0 x1, phi p = Some (b, x0, x1) ->
      exists iv i, find_iv p ivs = Some iv /\ a2id (iv_g iv) x0 = Some i /\ k = (b - 1, i).

  Definition vinv (V : votes) : Prop :=
    forall p m, In (p, m) V -> forall k w, In (k, w) m -> 0 <= w /\ (w <> 0 -> on_target p k).

  Lemma vote_variant_inv : forall ps ht V v V',
    (ht = 0 \/ ht = 1) -> 0 <= rv_qual v ->
    (forall b x0 x1, phi (rv_pos v) = Some (b, x0, x1) ->
       ps = b - 1 /\ rv_allele v = (if ht =? 0 then x0 else x1)) ->
    vinv V -> vote_variant ivs ps ht V v = Ok V' -> vinv V'.
  Proof.
    intros ps ht V v V' Hht Hq Hv HV Hstep. unfold vote_variant in Hstep.
    destruct (find_iv (rv_pos v) ivs) as [iv|] eqn:Ef; [|discriminate].
    destruct (is_hom (iv_g iv)) eqn:Eh; [inversion Hstep; subst; exact HV|].
    destruct (a2id (iv_g iv) (rv_allele v)) as [i|] eqn:Ei; [|discriminate].
    set (m0 := match vget (rv_pos v) V with Some m => m | None => [] end) in *.
    destruct (inner_add (ps, Z.lxor ht i) (rv_qual v) (inner_init ps m0)) as [m2|] eqn:Ea; [|discriminate].
    inversion Hstep; subst V'. clear Hstep.
    assert (Hm0 : forall k w, In (k, w) m0 -> 0 <= w /\ (w <> 0 -> on_target (rv_pos v) k)).
    { intros k w Hin. unfold m0 in Hin. destruct (vget (rv_pos v) V) as [m|] eqn:Eg; [|destruct Hin].
      apply vget_In in Eg. exact (HV _ _ Eg _ _ Hin). }
    assert (Hm1 : forall k w, In (k, w) (inner_init ps m0) -> 0 <= w /\ (w <> 0 -> on_target (rv_pos v) k)).
    { intros k w Hin. apply inner_init_In in Hin. destruct Hin as [Hin|Hin]; [exact (Hm0 _ _ Hin)|].
      subst w. split; [lia|intros Hc; exfalso; apply Hc; reflexivity]. }
    intros p m Hin. apply vset_In in Hin. destruct Hin as [[Hp Hm]|Hin]; [|exact (HV _ _ Hin)].
    subst p m. intros k w Hkw.
    destruct (inner_add_In _ _ _ _ _ _ Ea Hkw) as [Hold|[Hk [w0 [Hw0 Hw]]]]; [exact (Hm1 _ _ Hold)|].
    destruct (Hm1 _ _ Hw0) as [Hw0n _]. split; [lia|]. intros _.
    intros b x0 x1 Ep. destruct (Hv _ _ _ Ep) as [Hps Hal].
    destruct (phi_site _ _ _ _ Ep) as [iv' [Ef' Hg]]. rewrite Ef in Ef'. inversion Ef'; subst iv'.
    pose proof (phi_het _ _ _ _ Ep) as Hne.
    destruct (het_ids x0 x1 Hne) as [i0 [Hi0 [Ha0 [Ha1 _]]]]. rewrite <- Hg in Ha0, Ha1.
    exists iv, i0. split; [exact Ef|]. split; [exact Ha0|].
    subst k. f_equal; [exact Hps|].
    destruct Hht as [Hht|Hht]; subst ht; cbn [Z.eqb] in Hal; rewrite Hal in Ei.
    - rewrite Ha0 in Ei. inversion Ei; subst i. apply Z.lxor_0_l.
    - rewrite Ha1 in Ei. inversion Ei; subst i. destruct Hi0 as [Hi0|Hi0]; subst i0; reflexivity.
  Qed.

  Lemma vote_read_inv : forall V r V',
    tagged_by phi r = true -> error_free phi r = true ->
    vinv V -> vote_read ivs V r = Ok V' -> vinv V'.
  Proof.
    intros V r V' Ht Hef HV Hstep. unfold vote_read in Hstep.
    destruct ((r_hp r - 1 <? 0) || (r_ps r - 1 <? 0)) eqn:Eg; [inversion Hstep; subst; exact HV|].
    destruct (1 <? r_hp r - 1) eqn:Eg2; [inversion Hstep; subst; exact HV|].
    apply orb_false_iff in Eg. destruct Eg as [Eg1 _]. apply Z.ltb_ge in Eg1. apply Z.ltb_ge in Eg2.
    pose proof (tagged_read_spec phi phi_het r Ht Hef Eg1) as Hspec.
    apply (fold_res_inv (vote_variant ivs (r_ps r - 1) (r_hp r - 1)) vinv (r_vars r) V V'); auto.
    intros a v a' Hin Ha Hs. destruct (Hspec v Hin) as [Hq Hv].
    apply (vote_variant_inv (r_ps r - 1) (r_hp r - 1) a v a'); auto; [lia|].
    intros b x0 x1 Ep. destruct (Hv _ _ _ Ep) as [H1 H2]. split; [lia|exact H2].
  Qed.

  Lemma compute_votes_inv : forall reads V,
    (forall r, In r reads -> tagged_by phi r = true /\ error_free phi r = true) ->
    compute_votes ivs reads = Ok V -> vinv V.
  Proof.
    intros reads V Hr Hc. unfold compute_votes in Hc.
    apply (fold_res_inv (vote_read ivs) vinv reads [] V); auto.
    - intros a r a' Hin Ha Hs. destruct (Hr r Hin) as [H1 H2]. apply (vote_read_inv a r a'); auto.
    - intros p m [].
  Qed.
End Votes.

(* ------------------------------------------------------------------------------- best_candidate *)
Lemma first_max_spec : forall m e, first_max m = Some e ->
  In e m /\ forall e', In e' m -> snd e' <= snd e.
Proof.
  induction m as [|x t IH]; intros e H; cbn [first_max] in H; [discriminate|].
  destruct (first_max t) as [e1|] eqn:E1.
  - destruct (IH e1 eq_refl) as [Hin Hmax].
    destruct (snd x <? snd e1) eqn:El; inversion H; subst e.
    + apply Z.ltb_lt in El. split; [right; exact Hin|].
      intros e' [He|He]; [subst e'; lia|apply Hmax; exact He].
    + apply Z.ltb_ge in El. split; [left; reflexivity|].
      intros e' [He|He]; [subst e'; lia|]. specialize (Hmax e' He). lia.
  - inversion H; subst e. destruct t as [|y u].
    + split; [left; reflexivity|]. intros e' [He|[]]. subst; lia.
    + cbn [first_max] in E1. destruct (first_max u) as [e2|]; [destruct (snd y <? snd e2)|]; discriminate.
Qed.

Lemma total_pos_witness : forall m, (forall k w, In (k, w) m -> 0 <= w) -> total m <> 0 ->
  exists k w, In (k, w) m /\ 0 < w.
Proof.
  induction m as [|[k w] t IH]; intros Hnn Ht; unfold total in Ht; cbn [fold_right snd] in Ht.
  - exfalso. apply Ht. reflexivity.
  - destruct (Z.eq_dec w 0) as [Hw|Hw].
    + subst w. destruct IH as [k' [w' [Hin Hp]]].
      * intros k' w' Hin. apply (Hnn k' w'). right. exact Hin.
      * unfold total. lia.
      * exists k', w'. split; [right; exact Hin|exact Hp].
    + exists k, w. split; [left; reflexivity|]. specialize (Hnn k w (or_introl eq_refl)). lia.
Qed.

(* if all non-zero weight lies on keys satisfying P, the best candidate satisfies P *)
Lemma best_candidate_on : forall (P : vkey -> Prop) m a ps score tot,
  (forall k w, In (k, w) m -> 0 <= w /\ (w <> 0 -> P k)) ->
  best_candidate m = Ok (a, ps, score, tot) -> P (ps, a) /\ 0 < score.
Proof.
  intros P m a ps score tot Hm Hb. unfold best_candidate in Hb.
  destruct (first_max m) as [[[ps' a'] sc']|] eqn:Ef; [|discriminate].
  destruct (total m =? 0) eqn:Et; [discriminate|]. inversion Hb; subst. clear Hb.
  apply Z.eqb_neq in Et.
  destruct (first_max_spec _ _ Ef) as [Hin Hmax].
  destruct (total_pos_witness m (fun k w H => proj1 (Hm k w H)) Et) as [k [w [Hkw Hw]]].
  specialize (Hmax _ Hkw). cbn [snd] in Hmax.
  destruct (Hm _ _ Hin) as [_ HP]. split; [apply HP; lia|lia].
Qed.

(* ------------------------------------------------------------------------------ comps / supers *)
Lemma cget_cset_same : forall p k c, cget p (cset p k c) = Some k.
Proof.
  intros p k c. induction c as [|[q kq] t IH]; cbn [cset cget].
  - rewrite Z.eqb_refl. reflexivity.
  - destruct (p =? q) eqn:E; cbn [cget]; rewrite E; [reflexivity|exact IH].
Qed.

Lemma cget_cset_other : forall p p' k c, p <> p' -> cget p (cset p' k c) = cget p c.
Proof.
  intros p p' k c Hne. induction c as [|[q kq] t IH]; cbn [cset cget].
  - assert (E : (p =? p') = false) by (apply Z.eqb_neq; exact Hne). rewrite E. reflexivity.
  - destruct (p' =? q) eqn:E; cbn [cget].
    + apply Z.eqb_eq in E. subst q.
      assert (E2 : (p =? p') = false) by (apply Z.eqb_neq; exact Hne). rewrite E2. reflexivity.
    + destruct (p =? q); [reflexivity|exact IH].
Qed.

Lemma cget_cset_some : forall p p' k c, is_some (cget p c) = true -> is_some (cget p (cset p' k c)) = true.
Proof.
  intros p p' k c H. destruct (Z.eq_dec p p') as [He|Hne].
  - subst. rewrite cget_cset_same. reflexivity.
  - rewrite cget_cset_other; auto.
Qed.

Lemma sv_insert_In : forall x y l, In y (sv_insert x l) <-> y = x \/ In y l.
Proof.
  intros x y l. induction l as [|z t IH]; cbn [sv_insert].
  - cbn [In]. intuition.
  - destruct (sv_pos x <=? sv_pos z); cbn [In].
    + intuition.
    + rewrite IH. intuition.
Qed.

Lemma sv_sort_In : forall y l, In y (sv_sort l) <-> In y l.
Proof.
  intros y l. induction l as [|x t IH]; cbn [sv_sort]; [tauto|].
  rewrite sv_insert_In. rewrite IH. cbn [In]. intuition.
Qed.

Lemma plookup_In : forall p l a0 a1, plookup p l = Some (a0, a1) ->
  exists x, In x l /\ sv_pos x = p /\ sv_a0 x = a0 /\ sv_a1 x = a1.
Proof.
  intros p l. induction l as [|x t IH]; intros a0 a1 H; cbn [plookup] in H; [discriminate|].
  destruct (plookup p t) as [[b0 b1]|] eqn:E.
  - inversion H; subst. destruct (IH _ _ eq_refl) as [y [H1 H2]]. exists y. split; [right; exact H1|exact H2].
  - destruct (sv_pos x =? p) eqn:Ep; [|discriminate]. apply Z.eqb_eq in Ep. inversion H; subst.
    exists x. split; [left; reflexivity|]. repeat split; reflexivity.
Qed.

Lemma In_plookup : forall p l x, In x l -> sv_pos x = p -> is_some (plookup p l) = true.
Proof.
  intros p l. induction l as [|y t IH]; intros x Hin Hp; [destruct Hin|]. cbn [plookup].
  destruct (plookup p t) as [[b0 b1]|] eqn:E; [reflexivity|].
  destruct Hin as [Hin|Hin].
  - subst y. rewrite Hp, Z.eqb_refl. reflexivity.
  - pose proof (IH x Hin Hp) as Hs. discriminate Hs.
Qed.

(* --------------------------------------------- consensus at one position whose votes concentrate *)
Definition init_state (rl : rule) (ivs : list ivar) : cstate :=
  match rl with Fixed => fold_left keep_step ivs ([], []) | Cur => ([], []) end.
Lemma consensus_unfold : forall rl pr ref ivs V,
  consensus rl pr ref ivs V =
  match fold_res (cons_step rl pr ref ivs) V (init_state rl ivs) with
  | Ok st => Ok (sv_sort (fst st), snd st)
  | Err e => Err e
  end.
Proof. reflexivity. Qed.

Section ConsAt.
  Variables (rl : rule) (pr : params) (ref : list Z) (ivs : list ivar).
  Variables (p b x0 x1 : Z) (iv : ivar).
  Hypothesis Hne : x0 <> x1.
  Hypothesis Hf : find_iv p ivs = Some iv.
  Hypothesis Hg : iv_g iv = sort_desc [x0; x1].
  (* no record at p is put back by the Fixed rule (the input call at p is not phased) *)
  Hypothesis Hnokeep : forall iv', In iv' ivs -> iv_pos iv' = p -> kept_phase iv' = None.

  Definition target_key (k : vkey) : Prop := exists i, a2id (iv_g iv) x0 = Some i /\ k = (b - 1, i).
  Definition vat (V : votes) : Prop :=
    forall m, In (p, m) V -> forall k w, In (k, w) m -> 0 <= w /\ (w <> 0 -> target_key k).
  Definition cinv (st : cstate) : Prop :=
    (forall x, In x (fst st) -> sv_pos x = p -> sv_a0 x = x0 /\ sv_a1 x = x1) /\
    (forall k, cget p (snd st) = Some k -> k = b - 1).

  Lemma cons_step_cinv : forall (st : cstate) (pv : Z * inner) (st' : cstate),
    (fst pv = p -> forall k w, In (k, w) (snd pv) -> 0 <= w /\ (w <> 0 -> target_key k)) ->
    cinv st -> cons_step rl pr ref ivs st pv = Ok st' -> cinv st'.
  Proof.
    intros st pv st' Hpv [Hs Hc] Hstep. unfold cons_step in Hstep.
    assert (Hsk : (match rl with Fixed => is_some (cget (fst pv) (snd st)) | Cur => false end) = true -> cinv st')
      by (intros Esk; rewrite Esk in Hstep; inversion Hstep; subst; split; assumption).
    destruct (match rl with Fixed => is_some (cget (fst pv) (snd st)) | Cur => false end) eqn:Esk;
      [apply Hsk; reflexivity|]. clear Hsk.
    destruct (best_candidate (snd pv)) as [[[[bi ps] score] tot]|e] eqn:Eb; [|discriminate].
    destruct (find_iv (fst pv) ivs) as [iv1|] eqn:Ef1; [|discriminate].
    destruct (Z.eq_dec (fst pv) p) as [Hp|Hp].
    - (* the position under consideration *)
      rewrite Hp in *. rewrite Hf in Ef1. inversion Ef1; subst iv1. clear Ef1.
      destruct (best_candidate_on target_key _ _ _ _ _ (Hpv eq_refl) Eb) as [[i [Hi Hk]] _].
      inversion Hk; subst ps bi. clear Hk.
      destruct (het_ids x0 x1 Hne) as [i0 [_ [Ha0 [_ [Hn0 [Hn1 _]]]]]]. rewrite <- Hg in Ha0, Hn0, Hn1.
      rewrite Ha0 in Hi. inversion Hi; subst i. clear Hi.
      assert (Hc' : forall k, cget p (cset p (b - 1) (snd st)) = Some k -> k = b - 1).
      { intros k Hk. rewrite cget_cset_same in Hk. inversion Hk; reflexivity. }
      destruct (negb (is_some (iv_phase iv)) && _) eqn:Efl.
      + inversion Hstep; subst st'. split; [exact Hs|exact Hc'].
      + rewrite Hn0, Hn1 in Hstep. inversion Hstep; subst st'. cbn [fst snd]. split; [|exact Hc'].
        intros x Hin Hx. apply in_app_iff in Hin. destruct Hin as [Hin|[Hin|[]]]; [exact (Hs x Hin Hx)|].
        subst x. cbn [sv_a0 sv_a1]. split; reflexivity.
    - (* another position *)
      assert (Hc' : forall k, cget p (cset (fst pv) ps (snd st)) = Some k -> k = b - 1).
      { intros k Hk. rewrite cget_cset_other in Hk; [exact (Hc k Hk)|]. intro Hq. apply Hp. symmetry. exact Hq. }
      destruct (negb (is_some (iv_phase iv1)) && _) eqn:Efl.
      + inversion Hstep; subst st'. split; [exact Hs|exact Hc'].
      + destruct (nth_z (iv_g iv1) bi) as [a0|]; [|discriminate].
        destruct (nth_z (iv_g iv1) (1 - bi)) as [a1|]; [|discriminate].
        inversion Hstep; subst st'. cbn [fst snd]. split; [|exact Hc'].
        intros x Hin Hx. apply in_app_iff in Hin. destruct Hin as [Hin|[Hin|[]]]; [exact (Hs x Hin Hx)|].
        subst x. cbn [sv_pos] in Hx. exfalso. apply Hp. exact Hx.
  Qed.

  Lemma keep_cinv : forall l st, (forall x, In x l -> In x ivs) -> cinv st -> cinv (fold_left keep_step l st).
  Proof.
    intros l st Hsub Hst. apply (fold_left_inv keep_step cinv); [|exact Hst].
    intros [sup cs] iv' Hin [Hs Hc]. unfold keep_step.
    destruct (kept_phase iv') as [[[b' y0] y1]|] eqn:Ek; [|split; assumption].
    assert (Hp : iv_pos iv' <> p).
    { intro Hq. rewrite (Hnokeep iv' (Hsub _ Hin) Hq) in Ek. discriminate. }
    cbn [fst snd] in *. split.
    - intros x Hx Hxp. apply in_app_iff in Hx. destruct Hx as [Hx|[Hx|[]]]; [exact (Hs x Hx Hxp)|].
      subst x. cbn [sv_pos] in Hxp. exfalso. apply Hp. exact Hxp.
    - intros k Hk. cbn [fst snd] in Hk. rewrite cget_cset_other in Hk; [exact (Hc k Hk)|]. intro Hq. apply Hp. symmetry. exact Hq.
  Qed.

  Lemma consensus_cinv : forall V st, vat V -> consensus rl pr ref ivs V = Ok st -> cinv st.
  Proof.
    intros V st HV Hc. rewrite consensus_unfold in Hc.
    set (st0 := init_state rl ivs) in *.
    assert (H0 : cinv st0).
    { assert (Hnil : cinv ([], [])) by (split; [intros x Hx; destruct Hx|intros k Hk; cbn in Hk; discriminate Hk]).
      unfold st0, init_state. destruct rl; [exact Hnil|]. apply keep_cinv; auto. }
    destruct (fold_res (cons_step rl pr ref ivs) V st0) as [st1|e] eqn:Ef; [|discriminate].
    inversion Hc; subst st. clear Hc.
    assert (H1 : cinv st1).
    { apply (fold_res_inv (cons_step rl pr ref ivs) cinv V st0 st1); auto.
      intros a pv a' Hin Ha Hs. apply (cons_step_cinv a pv a'); auto.
      intros Hp k w Hkw. destruct pv as [pp m]. cbn [fst snd] in *. subst pp. exact (HV m Hin k w Hkw). }
    destruct H1 as [Hs Hcc]. split; [|exact Hcc]. cbn [fst].
    intros x Hx Hxp. apply (proj1 (sv_sort_In _ _)) in Hx. exact (Hs x Hx Hxp).
  Qed.
End ConsAt.

(* ------------------------------------------------------------------------------------ the writer *)
Lemma remove_phasing_unphased : forall c, c_phased (remove_phasing c) = false.
Proof. reflexivity. Qed.

Lemma write_call_phased : forall p st c, c_phased (write_call p st c) = true ->
  exists a0 a1 k, plookup p (fst st) = Some (a0, a1) /\ cget p (snd st) = Some k /\
                  write_call p st c = mkCall [Some a0; Some a1] true (Some (k + 1)).
Proof.
  intros p st c H. unfold write_call in *.
  destruct (plookup p (fst st)) as [[a0 a1]|]; [|cbn in H; discriminate].
  destruct (cget p (snd st)) as [k|]; [|cbn in H; discriminate].
  destruct (negb (is_hom _)); [|cbn in H; discriminate].
  exists a0, a1, k. repeat split; reflexivity.
Qed.

Lemma nth_error_combine : forall {A B} (a : list A) (b : list B) i x y,
  nth_error (combine a b) i = Some (x, y) -> nth_error a i = Some x /\ nth_error b i = Some y.
Proof.
  intros A B a. induction a as [|a0 ta IH]; intros b i x y H; [destruct i; discriminate|].
  destruct b as [|b0 tb]; [destruct i; discriminate|].
  destruct i as [|i]; cbn [combine nth_error] in *.
  - inversion H; subst. split; reflexivity.
  - apply IH. exact H.
Qed.

Lemma combine_nth_error : forall {A B} (a : list A) (b : list B) i x y,
  nth_error a i = Some x -> nth_error b i = Some y -> nth_error (combine a b) i = Some (x, y).
Proof.
  intros A B a. induction a as [|a0 ta IH]; intros b i x y Ha Hb; [destruct i; discriminate|].
  destruct b as [|b0 tb]; [destruct i; discriminate|].
  destruct i as [|i]; cbn [combine nth_error] in *.
  - inversion Ha; inversion Hb; subst. reflexivity.
  - apply IH; assumption.
Qed.

Lemma seq_combine_nth : forall {B} (l : list B) a i x,
  nth_error l i = Some x -> nth_error (combine (seq a (length l)) l) i = Some (a + i, x)%nat.
Proof.
  intros B l. induction l as [|y t IH]; intros a i x H; [destruct i; discriminate|].
  cbn [length seq combine]. destruct i as [|i]; cbn [nth_error] in *.
  - inversion H; subst. rewrite Nat.add_0_r. reflexivity.
  - rewrite (IH (S a) i x H). f_equal. f_equal. lia.
Qed.

Lemma write_record_phased_call : forall sts r s c',
  nth_error (v_calls (write_record sts r)) s = Some c' -> c_phased c' = true ->
  exists st c, nth_error sts s = Some st /\ nth_error (v_calls r) s = Some c /\
               c' = write_call (v_pos r) st (remove_phasing c).
Proof.
  intros sts r s c' Hn Hp. unfold write_record in Hn.
  destruct (existsb (phased_here (v_pos r)) sts); cbn [v_calls] in Hn.
  - rewrite nth_error_map in Hn.
    destruct (nth_error (combine sts (map remove_phasing (v_calls r))) s) as [[st c1]|] eqn:E; [|discriminate].
    cbn [option_map fst snd] in Hn. inversion Hn; subst c'. clear Hn.
    apply nth_error_combine in E. destruct E as [E1 E2]. rewrite nth_error_map in E2.
    destruct (nth_error (v_calls r) s) as [c|] eqn:Ec; [|discriminate]. cbn [option_map] in E2.
    inversion E2; subst c1. exists st, c. repeat split; auto.
  - rewrite nth_error_map in Hn. destruct (nth_error (v_calls r) s) as [c|]; [|discriminate].
    cbn [option_map] in Hn. inversion Hn; subst c'. rewrite remove_phasing_unphased in Hp. discriminate.
Qed.

(* ---------------------------------------------------------------- views of a table with unique positions *)
Lemma NoDup_map_inj : forall {A B} (f : A -> B) l a b,
  NoDup (map f l) -> In a l -> In b l -> f a = f b -> a = b.
Proof.
  intros A B f l. induction l as [|x t IH]; intros a b Hnd Ha Hb Hf; [destruct Ha|].
  cbn [map] in Hnd. inversion Hnd as [|? ? Hnot Hnd']; subst.
  destruct Ha as [Ha|Ha]; destruct Hb as [Hb|Hb]; subst.
  - reflexivity.
  - exfalso. apply Hnot. rewrite Hf. apply in_map. exact Hb.
  - exfalso. apply Hnot. rewrite <- Hf. apply in_map. exact Ha.
  - apply IH; auto.
Qed.

Lemma find_iv_view : forall t s r, NoDup (map v_pos t) -> In r t ->
  find_iv (v_pos r) (sample_view t s) = Some (ivar_of s r).
Proof.
  intros t s r. induction t as [|x u IH]; intros Hnd Hin; [destruct Hin|].
  cbn [sample_view map find_iv]. unfold ivar_of at 1. cbn [iv_pos].
  cbn [map] in Hnd. inversion Hnd as [|? ? Hnot Hnd']; subst.
  destruct Hin as [Hin|Hin].
  - subst x. rewrite Z.eqb_refl. reflexivity.
  - destruct (v_pos x =? v_pos r) eqn:E.
    + apply Z.eqb_eq in E. exfalso. apply Hnot. rewrite E. apply in_map. exact Hin.
    + apply IH; auto.
Qed.

Lemma view_unique : forall t s r iv', NoDup (map v_pos t) -> In r t ->
  In iv' (sample_view t s) -> iv_pos iv' = v_pos r -> iv' = ivar_of s r.
Proof.
  intros t s r iv' Hnd Hin Hiv Hp. apply sample_view_In in Hiv. destruct Hiv as [r' [Hr' He]]. subst iv'.
  unfold ivar_of in Hp. cbn [iv_pos] in Hp.
  rewrite (NoDup_map_inj v_pos t r' r Hnd Hr' Hin Hp). reflexivity.
Qed.

(* the per-sample states of a successful run *)
Lemma haplotagphase_states : forall rl pr ref t readss out,
  haplotagphase rl pr ref t readss = Ok out ->
  exists sts, out = map (write_record sts) t /\ length sts = length readss /\
    forall s reads, nth_error readss s = Some reads ->
      exists st, nth_error sts s = Some st /\ run_sample rl pr ref (sample_view t s) reads = Ok st.
Proof.
  intros rl pr ref t readss out H. unfold haplotagphase in H.
  destruct (map_res _ (combine (seq 0 (length readss)) readss)) as [sts|e] eqn:E; [|discriminate].
  inversion H; subst out. exists sts. split; [reflexivity|]. split.
  - rewrite (map_res_length _ _ _ E). rewrite combine_length, seq_length. apply Nat.min_id.
  - intros s reads Hn. pose proof (seq_combine_nth readss 0%nat s reads Hn) as Hc. cbn [Nat.add] in Hc.
    destruct (map_res_nth _ _ _ _ _ E Hc) as [st [H1 H2]]. cbn [fst snd] in H1. exists st. split; assumption.
Qed.

(* ================================================================== the theorems of C17 (tables) *)
Section Pipeline.
  Variables (orig inp : table) (s : nat).
  Let phi := phi_of (sample_view orig s).
  Hypothesis Hsites : map site (sample_view orig s) = map site (sample_view inp s).

  Lemma phi_het_view : forall p b x0 x1, phi p = Some (b, x0, x1) -> x0 <> x1.
  Proof. intros p b x0 x1 H. exact (proj1 (phi_view_spec _ _ _ _ _ _ H)). Qed.

  Lemma phi_site_view : forall p b x0 x1, phi p = Some (b, x0, x1) ->
    exists iv, find_iv p (sample_view inp s) = Some iv /\ iv_g iv = sort_desc [x0; x1].
  Proof.
    intros p b x0 x1 H. destruct (phi_view_spec _ _ _ _ _ _ H) as [_ [iv [Hf Hg]]].
    destruct (find_iv_sites p _ _ iv Hsites Hf) as [iv' [Hf' Hg']].
    exists iv'. split; [exact Hf'|]. rewrite Hg'. exact Hg.
  Qed.

  Theorem votes_concentrate : forall (reads : list read) (V : votes),
    (forall r, In r reads -> tagged_by phi r = true /\ error_free phi r = true) ->
    compute_votes (sample_view inp s) reads = Ok V ->
    forall p b x0 x1 m k w,
      phi p = Some (b, x0, x1) -> In (p, m) V -> In (k, w) m -> w <> 0 ->
      0 < w /\ exists iv i, find_iv p (sample_view inp s) = Some iv /\ a2id (iv_g iv) x0 = Some i /\ k = (b - 1, i).
  Proof.
    intros reads V Hr Hc p b x0 x1 m k w Hp Hm Hkw Hw.
    pose proof (compute_votes_inv phi (sample_view inp s) phi_het_view phi_site_view reads V Hr Hc) as HV.
    destruct (HV p m Hm k w Hkw) as [H0 Ht]. split; [lia|]. exact (Ht Hw b x0 x1 Hp).
  Qed.

  Theorem consensus_reproduces : forall rl pr ref readss out reads,
    NoDup (map v_pos inp) ->
    nth_error readss s = Some reads ->
    (forall r, In r reads -> tagged_by phi r = true /\ error_free phi r = true) ->
    haplotagphase rl pr ref inp readss = Ok out ->
    forall i r r' c c' b x0 x1,
      nth_error inp i = Some r -> nth_error out i = Some r' ->
      nth_error (v_calls r) s = Some c -> nth_error (v_calls r') s = Some c' ->
      phi (v_pos r) = Some (b, x0, x1) ->
      c_phased c = false -> c_phased c' = true ->
      c' = mkCall [Some x0; Some x1] true (Some b).
  Proof.
    intros rl pr ref readss out reads Hnd Hreads Hr Hrun i r r' c c' b x0 x1 Hi Ho Hc Hc' Hphi Hun Hph.
    destruct (haplotagphase_states _ _ _ _ _ _ Hrun) as [sts [Hout [_ Hsts]]].
    destruct (Hsts s reads Hreads) as [st [Hst Hrs]].
    subst out. rewrite nth_error_map in Ho. rewrite Hi in Ho. cbn [option_map] in Ho. inversion Ho; subst r'. clear Ho.
    destruct (write_record_phased_call _ _ _ _ Hc' Hph) as [st' [c0 [Hst' [Hc0 Hw]]]].
    rewrite Hst in Hst'. inversion Hst'; subst st'. rewrite Hc in Hc0. inversion Hc0; subst c0. clear Hst' Hc0.
    assert (Hpw : c_phased (write_call (v_pos r) st (remove_phasing c)) = true) by (rewrite <- Hw; exact Hph).
    destruct (write_call_phased _ _ _ Hpw) as [a0 [a1 [k [Hpl [Hcg Heq]]]]].
    (* the record in haplotagphase's view *)
    assert (Hin : In r inp) by (eapply nth_error_In; eauto).
    pose proof (find_iv_view inp s r Hnd Hin) as Hfv.
    destruct (phi_site_view _ _ _ _ Hphi) as [iv [Hf Hg]]. rewrite Hfv in Hf. inversion Hf; subst iv. clear Hf.
    pose proof (phi_het_view _ _ _ _ Hphi) as Hne.
    assert (Hcn : nth s (v_calls r) dcall = c) by (apply nth_error_nth; exact Hc).
    assert (Hnokeep : forall iv', In iv' (sample_view inp s) -> iv_pos iv' = v_pos r -> kept_phase iv' = None).
    { intros iv' Hiv Hp. rewrite (view_unique inp s r iv' Hnd Hin Hiv Hp).
      unfold kept_phase, ivar_of. cbn [iv_phase]. unfold extract_phase. rewrite Hcn, Hun. reflexivity. }
    unfold run_sample in Hrs. destruct (compute_votes (sample_view inp s) reads) as [V|e] eqn:EV; [|discriminate].
    pose proof (compute_votes_inv phi (sample_view inp s) phi_het_view phi_site_view reads V Hr EV) as HV.
    assert (Hvat : vat (v_pos r) b x0 (ivar_of s r) V).
    { intros m Hm k0 w Hkw. destruct (HV _ m Hm k0 w Hkw) as [H0 Ht]. split; [exact H0|].
      intros Hw0. destruct (Ht Hw0 b x0 x1 Hphi) as [iv2 [i2 [Hf2 [Ha2 Hk2]]]].
      rewrite Hfv in Hf2. inversion Hf2; subst iv2. exists i2. split; assumption. }
    destruct (consensus_cinv rl pr ref (sample_view inp s) (v_pos r) b x0 x1 (ivar_of s r) Hne Hfv Hg Hnokeep V st Hvat Hrs)
      as [Hsv Hcc].
    destruct (plookup_In _ _ _ _ Hpl) as [x [Hx [Hxp [Hx0 Hx1]]]].
    destruct (Hsv x Hx Hxp) as [E0 E1]. rewrite (Hcc k Hcg) in Heq.
    rewrite Hw, Heq. subst a0 a1. rewrite E0, E1. f_equal. f_equal. lia.
  Qed.
End Pipeline.

(* ------------------------------------------- Fixed rule: a variant already phased in the input *)
Section KeptAt.
  Variables (pr : params) (ref : list Z) (ivs : list ivar).
  Variables (p b x0 x1 : Z).
  Hypothesis Hall : forall iv', In iv' ivs -> iv_pos iv' = p -> kept_phase iv' = Some (b, x0, x1).

  Definition kinv (st : cstate) : Prop :=
    (exists x, In x (fst st) /\ sv_pos x = p) /\
    (forall x, In x (fst st) -> sv_pos x = p -> sv_a0 x = x0 /\ sv_a1 x = x1) /\
    cget p (snd st) = Some (b - 1).

  (* while the kept variants are put back: entries at p are the kept phase *)
  Definition kpre (st : cstate) : Prop :=
    (forall x, In x (fst st) -> sv_pos x = p -> sv_a0 x = x0 /\ sv_a1 x = x1) /\
    (forall k, cget p (snd st) = Some k -> k = b - 1).

  Lemma keep_step_kpre : forall st iv', In iv' ivs -> kpre st -> kpre (keep_step st iv').
  Proof.
    intros [sup cs] iv' Hin [Hs Hc]. unfold keep_step.
    destruct (kept_phase iv') as [[[b' y0] y1]|] eqn:Ek; [|split; assumption].
    cbn [fst snd] in *. destruct (Z.eq_dec (iv_pos iv') p) as [Hp|Hp].
    - rewrite (Hall iv' Hin Hp) in Ek. inversion Ek; subst b' y0 y1. split.
      + intros x Hx Hxp. apply in_app_iff in Hx. destruct Hx as [Hx|[Hx|[]]]; [exact (Hs x Hx Hxp)|].
        subst x. split; reflexivity.
      + intros k Hk. cbn [fst snd] in Hk. rewrite Hp in Hk. rewrite cget_cset_same in Hk. inversion Hk; reflexivity.
    - split.
      + intros x Hx Hxp. apply in_app_iff in Hx. destruct Hx as [Hx|[Hx|[]]]; [exact (Hs x Hx Hxp)|].
        subst x. cbn [sv_pos] in Hxp. exfalso. apply Hp. exact Hxp.
      + intros k Hk. cbn [fst snd] in Hk. rewrite cget_cset_other in Hk; [exact (Hc k Hk)|]. intro Hq. apply Hp. symmetry. exact Hq.
  Qed.

  Definition khas (st : cstate) : Prop :=
    (exists x, In x (fst st) /\ sv_pos x = p) /\ is_some (cget p (snd st)) = true.

  Lemma keep_step_khas : forall st iv', khas st -> khas (keep_step st iv').
  Proof.
    intros [sup cs] iv' [[x [Hx Hxp]] Hc]. unfold keep_step.
    destruct (kept_phase iv') as [[[b' y0] y1]|]; [|split; [exists x; split; assumption|exact Hc]].
    cbn [fst snd] in *. split.
    - exists x. split; [apply in_app_iff; left; exact Hx|exact Hxp].
    - apply cget_cset_some. exact Hc.
  Qed.

  Lemma keep_fold_khas : forall l st iv, In iv l -> In iv ivs -> iv_pos iv = p ->
    khas (fold_left keep_step l st).
  Proof.
    induction l as [|y t IH]; intros st iv Hin Hivs Hp; [destruct Hin|]. cbn [fold_left].
    destruct Hin as [Hin|Hin].
    - subst y. apply (fold_left_inv keep_step khas); [intros a x _ Ha; apply keep_step_khas; exact Ha|].
      destruct st as [sup cs]. unfold keep_step. rewrite (Hall iv Hivs Hp). unfold khas. cbn [fst snd]. split.
      + exists (mkSV (iv_pos iv) x0 x1 0). split; [apply in_app_iff; right; left; reflexivity|exact Hp].
      + rewrite Hp. rewrite cget_cset_same. reflexivity.
    - apply (IH _ iv); assumption.
  Qed.

  Lemma init_kinv : (exists iv, In iv ivs /\ iv_pos iv = p) -> kinv (init_state Fixed ivs).
  Proof.
    intros [iv [Hin Hp]]. unfold init_state.
    assert (H1 : kpre (fold_left keep_step ivs ([], []))).
    { apply (fold_left_inv keep_step kpre).
      - intros a x Hx Ha. apply keep_step_kpre; assumption.
      - split; [intros x Hx; destruct Hx|intros k Hk; cbn in Hk; discriminate Hk]. }
    destruct (keep_fold_khas ivs ([], []) iv Hin Hin Hp) as [Hex Hsome].
    destruct H1 as [Hs Hc]. split; [exact Hex|]. split; [exact Hs|].
    destruct (cget p (snd (fold_left keep_step ivs ([], [])))) as [k|] eqn:E; [|discriminate].
    rewrite (Hc k eq_refl). reflexivity.
  Qed.

  Lemma cons_step_kinv : forall (st : cstate) (pv : Z * inner) (st' : cstate),
    kinv st -> cons_step Fixed pr ref ivs st pv = Ok st' -> kinv st'.
  Proof.
    intros st pv st' [[x [Hx Hxp]] [Hs Hc]] Hstep. unfold cons_step in Hstep.
    destruct (is_some (cget (fst pv) (snd st))) eqn:Esk.
    - inversion Hstep; subst st'. split; [exists x; split; assumption|split; assumption].
    - assert (Hp : fst pv <> p).
      { intro Hq. rewrite Hq in Esk. rewrite Hc in Esk. discriminate. }
      destruct (best_candidate (snd pv)) as [[[[bi ps] score] tot]|e]; [|discriminate].
      destruct (find_iv (fst pv) ivs) as [iv1|]; [|discriminate].
      assert (Hc' : cget p (cset (fst pv) ps (snd st)) = Some (b - 1)).
      { rewrite cget_cset_other; [exact Hc|]. intro Hq. apply Hp. symmetry. exact Hq. }
      destruct (negb (is_some (iv_phase iv1)) && _) eqn:Efl.
      + inversion Hstep; subst st'. split; [exists x; split; assumption|split; assumption].
      + destruct (nth_z (iv_g iv1) bi) as [a0|]; [|discriminate].
        destruct (nth_z (iv_g iv1) (1 - bi)) as [a1|]; [|discriminate].
        inversion Hstep; subst st'. cbn [fst snd]. split; [|split; [|exact Hc']].
        * exists x. split; [apply in_app_iff; left; exact Hx|exact Hxp].
        * intros y Hy Hyp. apply in_app_iff in Hy. destruct Hy as [Hy|[Hy|[]]]; [exact (Hs y Hy Hyp)|].
          subst y. cbn [sv_pos] in Hyp. exfalso. apply Hp. exact Hyp.
  Qed.

  Lemma consensus_kept : forall V st, (exists iv, In iv ivs /\ iv_pos iv = p) ->
    consensus Fixed pr ref ivs V = Ok st ->
    plookup p (fst st) = Some (x0, x1) /\ cget p (snd st) = Some (b - 1).
  Proof.
    intros V st Hex Hc. rewrite consensus_unfold in Hc.
    destruct (fold_res (cons_step Fixed pr ref ivs) V (init_state Fixed ivs)) as [st1|e] eqn:Ef; [|discriminate].
    inversion Hc; subst st. clear Hc. cbn [fst snd].
    assert (H1 : kinv st1).
    { apply (fold_res_inv (cons_step Fixed pr ref ivs) kinv V (init_state Fixed ivs) st1); auto.
      - intros a pv a' _ Ha Hs. apply (cons_step_kinv a pv a'); assumption.
      - apply init_kinv. exact Hex. }
    destruct H1 as [[x [Hx Hxp]] [Hs Hcc]]. split; [|exact Hcc].
    assert (Hx' : In x (sv_sort (fst st1))) by (apply sv_sort_In; exact Hx).
    pose proof (In_plookup p _ x Hx' Hxp) as Hsome.
    destruct (plookup p (sv_sort (fst st1))) as [[a0 a1]|] eqn:Epl; [|discriminate].
    destruct (plookup_In _ _ _ _ Epl) as [y [Hy [Hyp [Hy0 Hy1]]]].
    apply (proj1 (sv_sort_In _ _)) in Hy. destruct (Hs y Hy Hyp) as [E0 E1]. subst a0 a1. rewrite E0, E1. reflexivity.
  Qed.
End KeptAt.

Lemma list_eqb_refl : forall l, list_eqb l l = true.
Proof. induction l as [|x t IH]; [reflexivity|]. cbn [list_eqb]. rewrite Z.eqb_refl. exact IH. Qed.

(* the writer puts the kept phase back exactly *)
Lemma write_call_kept : forall p st b x0 x1, x0 <> x1 ->
  plookup p (fst st) = Some (x0, x1) -> cget p (snd st) = Some (b - 1) ->
  write_call p st (remove_phasing (mkCall [Some x0; Some x1] true (Some b))) = mkCall [Some x0; Some x1] true (Some b).
Proof.
  intros p st b x0 x1 Hne Hpl Hcg. unfold write_call. rewrite Hpl, Hcg.
  assert (Hg : gvec (c_gt (remove_phasing (mkCall [Some x0; Some x1] true (Some b)))) = sort_desc [x0; x1]).
  { unfold remove_phasing. cbn [c_gt all_called sort_asc insert_asc].
    destruct (x0 <=? x1) eqn:E; cbn [map]; rewrite gvec_pair.
    - reflexivity.
    - unfold sort_desc. cbn [sort_asc insert_asc].
      assert (E2 : (x1 <=? x0) = true) by (apply Z.leb_le; apply Z.leb_gt in E; lia). rewrite E2, E. reflexivity. }
  rewrite Hg. rewrite list_eqb_refl.
  destruct (het_ids x0 x1 Hne) as [i0 [_ [_ [_ [_ [_ Hh]]]]]]. rewrite Hh. cbn [negb].
  f_equal. f_equal. lia.
Qed.

Theorem prephased_untouched_fixed : forall pr ref inp readss out,
  NoDup (map v_pos inp) ->
  haplotagphase Fixed pr ref inp readss = Ok out ->
  forall i r r' s reads c b x0 x1,
    nth_error inp i = Some r -> nth_error out i = Some r' ->
    nth_error readss s = Some reads ->
    nth_error (v_calls r) s = Some c ->
    v_pskey r = true -> c = mkCall [Some x0; Some x1] true (Some b) -> x0 <> x1 ->
    nth_error (v_calls r') s = Some c.
Proof.
  intros pr ref inp readss out Hnd Hrun i r r' s reads c b x0 x1 Hi Ho Hreads Hc Hkey Hceq Hne.
  destruct (haplotagphase_states _ _ _ _ _ _ Hrun) as [sts [Hout [_ Hsts]]].
  destruct (Hsts s reads Hreads) as [st [Hst Hrs]].
  subst out. rewrite nth_error_map in Ho. rewrite Hi in Ho. cbn [option_map] in Ho. inversion Ho; subst r'. clear Ho.
  assert (Hin : In r inp) by (eapply nth_error_In; eauto).
  assert (Hcn : nth s (v_calls r) dcall = c) by (apply nth_error_nth; exact Hc).
  assert (Hk : kept_phase (ivar_of s r) = Some (b, x0, x1)).
  { unfold kept_phase, ivar_of. cbn [iv_phase]. unfold extract_phase. rewrite Hcn, Hkey, Hceq.
    cbn [c_phased c_gt c_ps raw_het forallb oz_eqb andb].
    assert (E : (x0 =? x1) = false) by (apply Z.eqb_neq; exact Hne). rewrite E. reflexivity. }
  assert (Hall : forall iv', In iv' (sample_view inp s) -> iv_pos iv' = v_pos r -> kept_phase iv' = Some (b, x0, x1)).
  { intros iv' Hiv Hp. rewrite (view_unique inp s r iv' Hnd Hin Hiv Hp). exact Hk. }
  assert (Hex : exists iv, In iv (sample_view inp s) /\ iv_pos iv = v_pos r).
  { exists (ivar_of s r). split; [unfold sample_view; apply in_map; exact Hin|reflexivity]. }
  unfold run_sample in Hrs. destruct (compute_votes (sample_view inp s) reads) as [V|e]; [|discriminate].
  destruct (consensus_kept pr ref (sample_view inp s) (v_pos r) b x0 x1 Hall V st Hex Hrs) as [Hpl Hcg].
  unfold write_record.
  assert (Hany : existsb (phased_here (v_pos r)) sts = true).
  { apply existsb_exists. exists st. split; [eapply nth_error_In; eauto|].
    unfold phased_here. rewrite Hpl, Hcg. reflexivity. }
  rewrite Hany. cbn [v_calls]. rewrite nth_error_map.
  rewrite (combine_nth_error sts (map remove_phasing (v_calls r)) s st (remove_phasing c)); auto.
  - cbn [option_map fst snd]. f_equal. rewrite Hceq. apply write_call_kept; assumption.
  - rewrite nth_error_map. rewrite Hc. reflexivity.
Qed.

(* the code as it is alters them: an already phased variant that no tagged read covers is unphased,
   one whose covering reads were tagged from the opposite orientation is flipped and renamed *)
Theorem prephased_untouched_refuted :
  exists pr ref inp readss out i r r' s c,
    NoDup (map v_pos inp) /\
    haplotagphase Cur pr ref inp readss = Ok out /\
    nth_error inp i = Some r /\ nth_error out i = Some r' /\
    nth_error (v_calls r) s = Some c /\ c_phased c = true /\ v_pskey r = true /\
    (exists b x0 x1, c = mkCall [Some x0; Some x1] true (Some b) /\ x0 <> x1) /\
    nth_error (v_calls r') s <> Some c.
Proof.
  exists default_params, [0; 1; 2; 3; 0; 1; 2; 3],
    [mkRec 2 true true [mkCall [Some 0; Some 1] true (Some 3)];
     mkRec 5 true true [mkCall [Some 1; Some 0] true (Some 3)]],
    [[mkRead 3 1 [mkRV 2 0 30]]],
    [mkRec 2 true true [mkCall [Some 0; Some 1] true (Some 3)];
     mkRec 5 true true [mkCall [Some 0; Some 1] false None]],
    1%nat, (mkRec 5 true true [mkCall [Some 1; Some 0] true (Some 3)]),
    (mkRec 5 true true [mkCall [Some 0; Some 1] false None]), 0%nat, (mkCall [Some 1; Some 0] true (Some 3)).
  split; [repeat constructor; cbn; intuition; try discriminate|].
  split; [vm_compute; reflexivity|].
  repeat (split; [reflexivity|]).
  split; [exists 3, 1, 0; split; [reflexivity|discriminate]|].
  cbn. intro H. inversion H.
Qed.

Theorem prephased_flipped_refuted :
  exists pr ref inp readss out,
    haplotagphase Cur pr ref inp readss = Ok out /\
    inp = [mkRec 2 true true [mkCall [Some 1; Some 0] true (Some 99)]; mkRec 5 true true [mkCall [Some 0; Some 1] false None]] /\
    out = [mkRec 2 true true [mkCall [Some 0; Some 1] true (Some 3)]; mkRec 5 true true [mkCall [Some 0; Some 1] true (Some 3)]].
Proof.
  exists default_params, [0; 1; 2; 3; 0; 1; 2; 3],
    [mkRec 2 true true [mkCall [Some 1; Some 0] true (Some 99)]; mkRec 5 true true [mkCall [Some 0; Some 1] false None]],
    [[mkRead 3 1 [mkRV 2 0 30; mkRV 5 0 30]; mkRead 3 2 [mkRV 2 1 30; mkRV 5 1 30]]],
    [mkRec 2 true true [mkCall [Some 0; Some 1] true (Some 3)]; mkRec 5 true true [mkCall [Some 0; Some 1] true (Some 3)]].
  split; [vm_compute; reflexivity|]. split; reflexivity.
Qed.

(* ------------------------------------------------------------------ the homopolymer filter is dead *)
Lemma hp_loop_bound : forall ref start step t fuel i res,
  res <= Z.max 0 t -> hp_loop ref start step t fuel i res <= Z.max 0 t.
Proof.
  intros ref start step t fuel. induction fuel as [|f IH]; intros i res H; cbn [hp_loop]; [exact H|].
  destruct ((res <? t) && (0 <=? i) && (i <? Z.of_nat (length ref)) && (ref_at ref i =? ref_at ref start)) eqn:E;
    [|exact H].
  apply IH. apply andb_true_iff in E. destruct E as [E _]. apply andb_true_iff in E. destruct E as [E _].
  apply andb_true_iff in E. destruct E as [E _]. apply Z.ltb_lt in E. lia.
Qed.

Lemma length_of_homopolymer_le : forall ref start step t, length_of_homopolymer ref start step t <= Z.max 0 t.
Proof. intros. unfold length_of_homopolymer. apply hp_loop_bound. lia. Qed.

(* each run length is capped at the threshold, so `max_length > cut_homopolymers` never holds *)
Theorem homopolymer_filter_never_fires : forall ref pos cut, in_long_homopolymer ref pos cut = false.
Proof.
  intros ref pos cut. unfold in_long_homopolymer.
  destruct (0 <? cut) eqn:E; [|reflexivity]. apply Z.ltb_lt in E. cbn [andb].
  apply Z.ltb_ge.
  pose proof (length_of_homopolymer_le ref (pos + 1) 1 cut).
  pose proof (length_of_homopolymer_le ref pos (-1) cut). lia.
Qed.

(* ----------------------------- the repaired rule changes nothing on inputs without phased calls *)
Lemma vset_key_In : forall p m V q, In q (map fst (vset p m V)) -> q = p \/ In q (map fst V).
Proof.
  intros p m V. induction V as [|[q0 m0] t IH]; intros q H; cbn [vset map fst In] in *.
  - destruct H as [H|[]]. left; symmetry; exact H.
  - destruct (p =? q0) eqn:E; cbn [map fst In] in H.
    + right. exact H.
    + destruct H as [H|H]; [right; left; exact H|]. destruct (IH q H) as [H1|H1]; [left; exact H1|right; right; exact H1].
Qed.

Lemma vset_keys_NoDup : forall p m V, NoDup (map fst V) -> NoDup (map fst (vset p m V)).
Proof.
  intros p m V. induction V as [|[q0 m0] t IH]; intros H; cbn [vset map fst].
  - constructor; [intros []|constructor].
  - cbn [map fst] in H. inversion H as [|? ? Hnot Hnd]; subst.
    destruct (p =? q0) eqn:E; cbn [map fst].
    + constructor; assumption.
    + constructor; [|apply IH; exact Hnd].
      intro Hin. apply vset_key_In in Hin. destruct Hin as [Hin|Hin]; [|exact (Hnot Hin)].
      apply Z.eqb_neq in E. apply E. symmetry. exact Hin.
Qed.

Lemma compute_votes_keys_NoDup : forall ivs reads V, compute_votes ivs reads = Ok V -> NoDup (map fst V).
Proof.
  intros ivs reads V H. unfold compute_votes in H.
  apply (fold_res_inv (vote_read ivs) (fun V => NoDup (map fst V)) reads [] V); [|constructor|exact H].
  intros a r a' _ Ha Hs. unfold vote_read in Hs.
  destruct ((r_hp r - 1 <? 0) || (r_ps r - 1 <? 0)); [inversion Hs; subst; exact Ha|].
  destruct (1 <? r_hp r - 1); [inversion Hs; subst; exact Ha|].
  apply (fold_res_inv (vote_variant ivs (r_ps r - 1) (r_hp r - 1)) (fun V => NoDup (map fst V)) (r_vars r) a a'); auto.
  intros b v b' _ Hb Hv. unfold vote_variant in Hv.
  destruct (find_iv (rv_pos v) ivs) as [iv|]; [|discriminate].
  destruct (is_hom (iv_g iv)); [inversion Hv; subst; exact Hb|].
  destruct (a2id (iv_g iv) (rv_allele v)) as [i|]; [|discriminate].
  destruct (inner_add _ _ _) as [m2|]; [|discriminate].
  inversion Hv; subst. apply vset_keys_NoDup. exact Hb.
Qed.

Lemma cons_fold_rules_agree : forall pr ref ivs (V : votes) (st : cstate),
  NoDup (map fst V) -> (forall p, In p (map fst V) -> cget p (snd st) = None) ->
  fold_res (cons_step Fixed pr ref ivs) V st = fold_res (cons_step Cur pr ref ivs) V st.
Proof.
  intros pr ref ivs V. induction V as [|[p m] t IH]; intros st Hnd Hnone; [reflexivity|].
  cbn [fold_res]. cbn [map fst] in Hnd. inversion Hnd as [|? ? Hnot Hnd']; subst.
  assert (Hstep : cons_step Fixed pr ref ivs st (p, m) = cons_step Cur pr ref ivs st (p, m)).
  { unfold cons_step. cbn [fst snd]. rewrite (Hnone p (or_introl eq_refl)). reflexivity. }
  rewrite Hstep. destruct (cons_step Cur pr ref ivs st (p, m)) as [st'|e] eqn:E; [|reflexivity].
  apply IH; [exact Hnd'|].
  intros q Hq. assert (Hqp : q <> p) by (intro Heq; subst q; exact (Hnot Hq)).
  assert (Hq0 : cget q (snd st) = None) by (apply Hnone; right; exact Hq).
  unfold cons_step in E. cbn [fst snd] in E.
  destruct (best_candidate m) as [[[[bi ps] score] tot]|e]; [|discriminate].
  destruct (find_iv p ivs) as [iv1|]; [|discriminate].
  destruct (negb (is_some (iv_phase iv1)) && _).
  - inversion E; subst st'. cbn [snd]. rewrite cget_cset_other; assumption.
  - destruct (nth_z (iv_g iv1) bi); [|discriminate]. destruct (nth_z (iv_g iv1) (1 - bi)); [|discriminate].
    inversion E; subst st'. cbn [snd]. rewrite cget_cset_other; assumption.
Qed.

Lemma keep_fold_none : forall l st, (forall iv, In iv l -> kept_phase iv = None) -> fold_left keep_step l st = st.
Proof.
  induction l as [|x t IH]; intros st H; [reflexivity|]. cbn [fold_left].
  unfold keep_step at 2. rewrite (H x (or_introl eq_refl)). apply IH. intros iv Hin. apply H. right. exact Hin.
Qed.

Lemma map_res_ext : forall {A B} (f g : A -> res B) l, (forall x, In x l -> f x = g x) -> map_res f l = map_res g l.
Proof.
  intros A B f g l. induction l as [|x t IH]; intros H; [reflexivity|]. cbn [map_res].
  rewrite (H x (or_introl eq_refl)). rewrite IH; [reflexivity|]. intros y Hy. apply H. right. exact Hy.
Qed.

Theorem rules_agree_on_unphased : forall pr ref inp readss,
  (forall r c, In r inp -> In c (v_calls r) -> c_phased c = false) ->
  haplotagphase Fixed pr ref inp readss = haplotagphase Cur pr ref inp readss.
Proof.
  intros pr ref inp readss Hun. unfold haplotagphase.
  rewrite (map_res_ext (fun sr => run_sample Fixed pr ref (sample_view inp (fst sr)) (snd sr))
                       (fun sr => run_sample Cur pr ref (sample_view inp (fst sr)) (snd sr))); [reflexivity|].
  intros [s reads] _. cbn [fst snd]. unfold run_sample.
  destruct (compute_votes (sample_view inp s) reads) as [V|e] eqn:EV; [|reflexivity].
  rewrite !consensus_unfold. unfold init_state.
  rewrite keep_fold_none.
  - rewrite (cons_fold_rules_agree pr ref (sample_view inp s) V ([], [])); [reflexivity| |].
    + apply (compute_votes_keys_NoDup _ _ _ EV).
    + intros p _. reflexivity.
  - intros iv Hin. apply sample_view_In in Hin. destruct Hin as [r [Hr He]]. subst iv.
    unfold kept_phase, ivar_of. cbn [iv_phase]. unfold extract_phase.
    assert (Hc : c_phased (nth s (v_calls r) dcall) = false).
    { destruct (nth_in_or_default s (v_calls r) dcall) as [H|H]; [exact (Hun r _ Hr H)|rewrite H; reflexivity]. }
    rewrite Hc. reflexivity.
Qed.

(* -------------------- calls written with `|` that the repaired rule still alters (current /repo) *)
(* homozygous 1|1:5 is unphased by the shared writer (and loses its PS value); 0|1 without a PS key comes back as 0|1 with
   PS = 0; a phased call on a record without ALT is unphased *)
Theorem prephased_unrecognised_refuted :
  (exists out, haplotagphase Fixed default_params [0;1;2;3] [mkRec 2 true true [mkCall [Some 1; Some 1] true (Some 5)]] [[]]
               = Ok out /\ out = [mkRec 2 true true [mkCall [Some 1; Some 1] false None]]) /\
  (exists out, haplotagphase Fixed default_params [0;1;2;3] [mkRec 2 true false [mkCall [Some 0; Some 1] true None]] [[]]
               = Ok out /\ out = [mkRec 2 true true [mkCall [Some 0; Some 1] true (Some 0)]]) /\
  (exists out, haplotagphase_file Fixed default_params [0;1;2;3] true
                 [mkRec 2 true true [mkCall [Some 0; Some 0] true (Some 5)]] [0] [[]]
               = Ok out /\ out = [mkRec 2 true true [mkCall [Some 0; Some 0] false None]]).
Proof.
  split; [|split]; eexists; (split; [vm_compute; reflexivity|reflexivity]).
Qed.
