(* Stage 2 of C01: the back-pointer tables and the backtrace of the model (dp_path / dp_witness in
   model/PedMEC.v) reconstruct a bipartition and a transmission vector whose PedMEC objective is
   exactly the reported optimal cost. ssreflect style. *)
From mathcomp Require Import all_ssreflect.
From WH.Model Require Import PedMEC.
From WH.Proofs Require Import SemiringDP Tropical PedMECProofs.
Set Implicit Arguments.
Unset Strict Implicit.
Unset Printing Implicit Defensive.
Import Monoid.Theory.

(* ------------------------------------------------------------------ first strict minimum *)
Lemma ominl_rcons s y : ominl (rcons s y) = omin (ominl s) y.
Proof. by rewrite !ominlE -cats1 big_cat big_seq1. Qed.

Lemma argmin_rcons (A : Type) (d : A) s av :
  argmin d (rcons s av) = if olt av.2 (argmin d s).1 then (av.2, av.1) else argmin d s.
Proof. by rewrite /argmin -cats1 foldl_cat. Qed.

Lemma omin_olt x y : omin x y = if olt y x then y else x.
Proof.
rewrite /olt; case: x y => [a|] [b|] //=; rewrite -ltnNge.
by rewrite minnC /minn; case: ifP.
Qed.

Lemma argmin_val (A : Type) (d : A) s : (argmin d s).1 = ominl [seq av.2 | av <- s].
Proof.
elim/last_ind: s => [|s av IH] //; rewrite argmin_rcons map_rcons ominl_rcons omin_olt -IH.
by case: ifP.
Qed.

Lemma argmin_mem (A : eqType) (d : A) (s : seq (A * option nat)) v :
  (argmin d s).1 = Some v -> ((argmin d s).2, Some v) \in s.
Proof.
elim/last_ind: s => [|s [a w] IH] //; rewrite argmin_rcons mem_rcons inE /=.
case: ifP => _ /=; first by move=> ->; rewrite eqxx.
by move/IH->; rewrite orbT.
Qed.

(* ------------------------------------------------------------------ Gray code = all bit vectors *)
Lemma mem_gray m x : (x \in gray m) = (size x == m).
Proof.
elim: m x => [|m IH] x /=; first by rewrite inE; case: x.
rewrite mem_cat; case/lastP: x => [|v b].
  by apply/negbTE; rewrite negb_or; apply/andP; split; apply/mapP => -[w _]; case: w.
rewrite size_rcons eqSS -IH.
apply/orP/idP => [[/mapP[w hw /rcons_inj[-> _]] //|/mapP[w]]|hv].
- by rewrite mem_rev => hw /rcons_inj[-> _].
- by case: b; [right; apply/mapP; exists v; rewrite ?mem_rev | left; apply/mapP; exists v].
Qed.

Lemma gray_uniq m : uniq (gray m).
Proof.
elim: m => [|m IH] //=; rewrite cat_uniq !map_inj_uniq ?rev_uniq ?IH /=; try by move=> a b /rcons_inj[].
rewrite andbT; apply/hasPn => x /mapP[w _ ->]; apply/negP => /mapP[w' _] /rcons_inj[_].
by [].
Qed.

Lemma gray_perm m : perm_eq (gray m) (bvs m).
Proof.
apply: uniq_perm; [exact: gray_uniq | by rewrite bvsE bits_uniq |].
by move=> x; rewrite mem_gray mem_bvs.
Qed.

Lemma tadd_distr_min (A : Type) (lc : option nat) (f : A -> option nat) (s : seq A) :
  ominl [seq oadd lc (f j) | j <- s] = oadd lc (ominl [seq f j | j <- s]).
Proof. by rewrite !ominl_map oaddE big_distrr. Qed.

(* ------------------------------------------------------------------ the tables of the forward pass *)
Section Trace.
Variable I : inst.
Hypothesis Hs : sorted_reads I.
Hypothesis Hl : forall i, i < nreads I -> r_last (rd I i) < i_ncols I.
Hypothesis Hnc : no_conflict I.
Let n := i_ncols I.
Let m c := size (active I c).
Let d0 : seq bool * nat := ([::], 0).

Fixpoint PrevT c : table :=
  if c is c'.+1 then project I c' (dp_column I c' (local_rows I c') (PrevT c')) else prev0 I.
Definition ColT c : table := dp_column I c (local_rows I c) (PrevT c).
Definition Rec c : colrec := ColRec (local_rows I c) (PrevT c) (ColT c).
Definition W c s t : option nat := tlook (PrevT c) s t.
Definition Vg c x t : option nat :=
  oadd (local_cost I c x t)
       (ominl [seq oadd (W c (take (bw I c) x) j) (Some (trans_cost I c j t)) | j <- ts I]).

Lemma ColTE c : ColT c = mktab I (bvs (m c)) (Vg c).
Proof.
rewrite /ColT local_rowsE /dp_column /mktab -map_comp.
apply/eq_in_map => x _ /=; congr pair; apply/eq_in_map => t; rewrite mem_iota add0n /= => ht.
by rewrite nth_ts.
Qed.

Lemma V_look c x t : size x = m c -> t < nT I -> tlook (ColT c) x t = Vg c x t.
Proof. by move=> hx ht; rewrite ColTE tlook_mktab // mem_bvs hx. Qed.

Lemma L_look c x t : size x = m c -> t < nT I -> tlook (local_rows I c) x t = local_cost I c x t.
Proof. by move=> hx ht; rewrite local_rowsE tlook_mktab // mem_bvs hx. Qed.

Lemma W0 t : t < nT I -> W 0 [::] t = Some 0.
Proof. by move=> ht; rewrite /W /tlook /= nth_nseq ht. Qed.

Lemma WS c s t : size s = size (kept I c.+1) -> t < nT I ->
  W c.+1 s t = ominl [seq Vg c x t | x <- bvs (m c) & mask (fmask I c) x == s].
Proof.
move=> hs ht; rewrite /W /= -/(ColT c) ColTE projectE // tlook_mktab ?mem_bvs ?hs //.
by rewrite ominl_map_filter bvsE /m size_active.
Qed.

Lemma dp_forward_cons c c' cs prev :
  dp_forward I (c :: c' :: cs) prev =
  if conflict_in (local_rows I c) then None
  else omap (cons (ColRec (local_rows I c) prev (dp_column I c (local_rows I c) prev)))
            (dp_forward I (c' :: cs) (project I c (dp_column I c (local_rows I c) prev))).
Proof. by []. Qed.

Lemma dp_loop_cons c c' cs prev :
  dp_loop I (c :: c' :: cs) prev =
  if conflict_in (local_rows I c) then Conflict
  else dp_loop I (c' :: cs) (project I c (dp_column I c (local_rows I c) prev)).
Proof. by []. Qed.

Lemma dp_forward_ok k c : c + k = n ->
  dp_forward I (iota c k) (PrevT c) = Some [seq Rec c' | c' <- iota c k].
Proof.
elim: k c => [|k IH] c hck //.
have hc : c < n by rewrite -hck -addSnnS ltn_addr.
case: k IH hck => [|k] IH hck; first by rewrite /= (no_conflict_in Hnc hc).
rewrite -[iota c k.+2]/(c :: c.+1 :: iota c.+2 k) dp_forward_cons (no_conflict_in Hnc hc).
rewrite -[c.+1 :: _]/(iota c.+1 k.+1) -[project _ _ _]/(PrevT c.+1) IH ?addSnnS //.
Qed.

Lemma dp_loop_tab k c : c + k.+1 = n ->
  dp_loop I (iota c k.+1) (PrevT c) = Cost (ominl [seq ominl e.2 | e <- ColT (c + k)]).
Proof.
elim: k c => [|k IH] c hck.
  have hc : c < n by rewrite -hck addn1.
  by rewrite /= (no_conflict_in Hnc hc) addn0.
have hc : c < n by rewrite -hck -addSnnS ltn_addr.
rewrite -[iota c k.+2]/(c :: c.+1 :: iota c.+2 k) dp_loop_cons (no_conflict_in Hnc hc).
by rewrite -[c.+1 :: _]/(iota c.+1 k.+1) -[project _ _ _]/(PrevT c.+1) IH ?addSnnS.
Qed.

(* ------------------------------------------------------------------ the backtrace as a recursion on columns *)
Definition recsdown c := rev (zip (iota 0 c) [seq Rec c' | c' <- iota 0 c]).

Lemma recsdownS c : recsdown c.+1 = (c, Rec c) :: recsdown c.
Proof.
by rewrite /recsdown -addn1 iotaD map_cat zip_cat ?size_map // rev_cat /= add0n.
Qed.

Definition bt c x p := rev (backtrace I (recsdown c) c x p).
Definition fp c x t := rcons (bt c x (recomb_arg I c (Rec c) x t)) (x, t).

Lemma fp0 x t : fp 0 x t = [:: (x, t)].
Proof. by []. Qed.

Lemma fpS c x t :
  let p := recomb_arg I c.+1 (Rec c.+1) x t in
  fp c.+1 x t = rcons (fp c (back_index I c (Rec c) (take (bw I c.+1) x) p) p) (x, t).
Proof. by rewrite /fp /bt recsdownS [backtrace _ _ _ _ _]/= rev_cons. Qed.

Lemma dp_pathE k : n = k.+1 ->
  dp_path I = Some (fp k (final_arg I k (Rec k)).2.1 (final_arg I k (Rec k)).2.2).
Proof.
move=> hn; rewrite /dp_path -/n (@dp_forward_ok n 0) ?add0n // -/(recsdown n) hn recsdownS.
by rewrite rev_cons.
Qed.

(* ------------------------------------------------------------------ cost and shape of a path *)
Definition pterm (pth : seq (seq bool * nat)) c : option nat :=
  oadd (Some (if c is c'.+1 then trans_cost I c (nth d0 pth c').2 (nth d0 pth c).2 else 0))
       (local_cost I c (nth d0 pth c).1 (nth d0 pth c).2).
Definition pcost pth : option nat := oaddl [seq pterm pth c | c <- iota 0 (size pth)].
Definition pwf (pth : seq (seq bool * nat)) : Prop :=
  (forall c, c < size pth -> size (nth d0 pth c).1 = m c /\ (nth d0 pth c).2 < nT I) /\
  (forall c, c.+1 < size pth -> mask (fmask I c) (nth d0 pth c).1 = take (bw I c.+1) (nth d0 pth c.+1).1).

Lemma pterm_rcons pth e c : c < size pth -> pterm (rcons pth e) c = pterm pth c.
Proof.
move=> hc; rewrite /pterm nth_rcons hc; case: c hc => [|c] hc //.
by rewrite nth_rcons (ltnW hc).
Qed.

Lemma pcost_rcons pth e : pcost (rcons pth e) = oadd (pcost pth) (pterm (rcons pth e) (size pth)).
Proof.
rewrite /pcost size_rcons -addn1 iotaD !oaddl_map big_cat /= big_seq1 add0n oaddE; congr tadd.
by apply: eq_big_seq => c; rewrite mem_iota add0n /= => hc; exact: pterm_rcons.
Qed.

Lemma size_take_bw c (x : seq bool) : size x = m c.+1 -> size (take (bw I c.+1) x) = size (kept I c.+1).
Proof.
move=> hx; rewrite size_take bw_kept hx /m size_active //.
by case: ltnP => // h; apply/eqP; rewrite eqn_leq h leq_addr.
Qed.

Lemma fp_ok c x t v : c < n -> size x = m c -> t < nT I -> Vg c x t = Some v ->
  [/\ size (fp c x t) = c.+1, pcost (fp c x t) = Some v, pwf (fp c x t) & nth d0 (fp c x t) c = (x, t)].
Proof.
elim: c x t v => [|c IH] x t v hc hx ht hv.
  rewrite fp0; split=> //; last first.
    by split=> [[|c] // _|[|c]] //.
  move: hv; rewrite /Vg /pcost /= /pterm /= take0.
  have -> : ominl [seq oadd (W 0 [::] j) (Some (trans_cost I 0 j t)) | j <- ts I] = Some 0.
    rewrite ominl_map (@eq_big_seq _ _ _ _ _ _ (fun j => Some (trans_cost I 0 j t))).
      by apply: (@big_tmin_zero _ (fun j => trans_cost I 0 j t) t); rewrite ?mem_iota ?add0n // /trans_cost hamming_refl.
    by move=> j; rewrite mem_iota add0n /= => hj; rewrite W0.
  by case: (local_cost I 0 x t) => [l|] //=; rewrite addn0 add0n addn0.
rewrite fpS; set p := recomb_arg _ _ _ _ _; set s := take _ x; set x' := back_index _ _ _ _ _.
have hc' : c < n := ltnW hc.
have hbw : size s = size (kept I c.+1) by exact: size_take_bw.
move: hv; rewrite /Vg -/s => hv.
pose cand := [seq (j, oadd (oadd (local_cost I c.+1 x t) (W c.+1 s j)) (Some (trans_cost I c.+1 j t))) | j <- ts I].
have hp1 : (argmin 0 cand).1 = Some v.
  rewrite argmin_val -map_comp -hv -tadd_distr_min.
  by congr ominl; apply: eq_map => j /=; rewrite !oaddE taddA.
have hpE : p = (argmin 0 cand).2 by rewrite /p /recomb_arg /= L_look.
have := argmin_mem hp1; rewrite -hpE => /mapP[j]; rewrite mem_iota add0n /= => hj [hpj hval].
rewrite -hpj in hj hval => {j hpj}.
case hl: (local_cost I c.+1 x t) hval => [l|] //; case hw: (W c.+1 s p) => [w|] //= [hvE].
have hw' := hw; rewrite WS // in hw'.
pose candx := [seq (y, tlook (ColT c) y p) | y <- gray (m c) & mask (fmask I c) y == s].
have hx1 : (argmin [::] candx).1 = Some w.
  rewrite argmin_val -map_comp /= -hw'.
  transitivity (ominl [seq Vg c y p | y <- gray (m c) & mask (fmask I c) y == s]).
    congr ominl; apply/eq_in_map => y; rewrite mem_filter mem_gray => /andP[_ /eqP hy] /=.
    exact: V_look.
  by rewrite !ominl_map_filter; apply: perm_big; exact: gray_perm.
have hx'E : x' = (argmin [::] candx).2 by [].
have := argmin_mem hx1; rewrite -hx'E => /mapP[y]; rewrite mem_filter mem_gray => /andP[/eqP hmask /eqP hy] [hyx hyv].
rewrite -hyx in hmask hy hyv => {y hyx}.
have hVg : Vg c x' p = Some w by rewrite -V_look.
case: (IH x' p w hc' hy hj hVg) => hsz hcost [hwf1 hwf2] hlast.
move: (fp c x' p) hsz hcost hwf1 hwf2 hlast => pth hsz hcost hwf1 hwf2 hlast.
split.
- by rewrite size_rcons hsz.
  rewrite pcost_rcons hcost hsz /pterm !nth_rcons hsz ltnSn ltnn eqxx hlast /= hl /= hvE.
  by rewrite [_ + l]addnC addnA [w + l]addnC.
- split=> [k|k]; rewrite size_rcons hsz ltnS.
    rewrite leq_eqVlt => /orP[/eqP->|hk]; first by rewrite nth_rcons hsz ltnn eqxx.
    by rewrite nth_rcons hsz hk; apply: hwf1; rewrite hsz.
  rewrite leq_eqVlt => /orP[/eqP[->]|hk].
    by rewrite !nth_rcons hsz ltnSn ltnn eqxx hlast.
  by rewrite !nth_rcons hsz hk (ltnW hk); apply: hwf2; rewrite hsz.
- by rewrite nth_rcons hsz ltnn eqxx.
Qed.

(* ------------------------------------------------------------------ the optimum of the last column *)
Lemma final_ok k : n = k.+1 ->
  exists v, [/\ dp_cost I = Cost (Some v), size (final_arg I k (Rec k)).2.1 = m k,
                (final_arg I k (Rec k)).2.2 < nT I
              & Vg k (final_arg I k (Rec k)).2.1 (final_arg I k (Rec k)).2.2 = Some v].
Proof.
move=> hn.
have hcost : dp_cost I = Cost (ominl [seq ominl e.2 | e <- ColT k]).
  by rewrite /dp_cost -/n hn; have := @dp_loop_tab k 0; rewrite !add0n; apply.
pose cand := [seq ((x, t), tlook (ColT k) x t) | x <- gray (m k), t <- ts I].
have h1 : (argmin ([::], 0) cand).1 = ominl [seq ominl e.2 | e <- ColT k].
  rewrite argmin_val ominl_map big_allpairs_dep /= (perm_big _ (gray_perm (m k))) /=.
  rewrite ColTE ominl_mktab -ColTE; apply: eq_big_seq => x; rewrite mem_bvs => /eqP hx.
  by apply: eq_big_seq => t; rewrite mem_iota add0n /= => ht; exact: V_look.
have [v hv] := opt_finite Hnc.
move: hcost; rewrite (dp_cost_optimal_gen Hs Hl Hnc) hv => -[hmin].
rewrite -hmin in h1; have := argmin_mem h1.
have -> : (argmin ([::], 0) cand) = final_arg I k (Rec k) by [].
case/allpairsP => -[x t] /= [hx ht [e1 e2]]; exists v; rewrite e1 /=.
move: hx ht; rewrite mem_gray mem_iota add0n /= => /eqP hx ht.
by split=> //; rewrite -V_look.
Qed.

(* ------------------------------------------------------------------ consistency of the reconstructed bipartition *)
Lemma mask_nth_index (s : seq nat) (msk x : seq bool) r :
  uniq s -> size msk = size s -> size x = size s -> r \in mask msk s ->
  nth false (mask msk x) (index r (mask msk s)) = nth false x (index r s).
Proof.
elim: s msk x => [|a s IH] [|b msk] [|y x] //= /andP[ha hu] [hm] [hx].
case: b => /=.
  rewrite inE; case: (a =P r) => [_ _|/eqP ne] //=.
  by rewrite eq_sym (negbTE ne) /= => hr; apply: IH.
move=> hr; have hrs : r \in s by apply: mem_mask hr.
have -> : (a == r) = false by apply/negbTE/negP => /eqP e; rewrite e hrs in ha.
exact: IH.
Qed.

Lemma active_uniq c : uniq (active I c).
Proof. by rewrite filter_uniq // iota_uniq. Qed.

Section Consistent.
Variable pth : seq (seq bool * nat).
Hypothesis Hsz : size pth = n.
Hypothesis Hwf : pwf pth.
Let xs c := (nth d0 pth c).1.

Lemma bit_step c r : c.+1 < n -> r \in active I c -> r \in active I c.+1 ->
  nth false (xs c) (index r (active I c)) = nth false (xs c.+1) (index r (active I c.+1)).
Proof.
move=> hc h1 h2; case: Hwf => hw1 hw2.
have hk : r \in kept I c.+1.
  move: h1 h2; rewrite !mem_active /kept mem_filter mem_iota add0n /= ltnS.
  by move=> /and3P[-> -> _] /and3P[_ _ ->].
have hlink : mask (fmask I c) (xs c) = take (bw I c.+1) (xs c.+1) by apply: hw2; rewrite Hsz.
have [hx1 _] : size (xs c) = m c /\ (nth d0 pth c).2 < nT I by apply: hw1; rewrite Hsz ltnW.
rewrite (active_split Hs c.+1) index_cat hk.
have hq : index r (kept I c.+1) < bw I c.+1 by rewrite bw_kept index_mem.
rewrite -(nth_take false hq) -/(xs c.+1) -[take _ _]hlink -kept_mask.
apply/esym/mask_nth_index; rewrite ?active_uniq ?size_map ?kept_mask //.
Qed.

Lemma bit_steps k c r : c + k < n -> r \in active I c -> r \in active I (c + k) ->
  nth false (xs c) (index r (active I c)) = nth false (xs (c + k)) (index r (active I (c + k))).
Proof.
elim: k => [|k IH] hck h1 h2; first by rewrite addn0.
have hmid : r \in active I (c + k).
  move: h1 h2; rewrite !mem_active => /and3P[-> hf hl1] /and3P[_ _ hl2] /=.
  by rewrite (leq_trans hf (leq_addr _ _)) /= (leq_trans _ hl2) // leq_add2l.
rewrite IH //; last by apply: leq_ltn_trans hck; rewrite leq_add2l.
by rewrite addnS; apply: bit_step => //; rewrite -addnS.
Qed.

Lemma restrict_witness c : c < n -> restrict (active I c) (witness_of I pth).1 = xs c.
Proof.
move=> hc; case: Hwf => hw1 _.
have [hx _] : size (xs c) = m c /\ (nth d0 pth c).2 < nT I by apply: hw1; rewrite Hsz.
apply: (@eq_from_nth _ false); first by rewrite size_map.
move=> j; rewrite size_map => hj; rewrite (nth_map 0) //.
set r := nth 0 (active I c) j.
have hr : r \in active I c by apply: mem_nth.
have /and3P[hrN hf hl] : [&& r < nreads I, r_first (rd I r) <= c & c <= r_last (rd I r)] by rewrite -mem_active.
rewrite /witness_of /= (nth_map 0) ?size_iota // nth_iota // add0n.
have hln := Hl hrN; set lr := r_last (rd I r) in hl hln *.
have hlr : r \in active I lr by rewrite mem_active hrN leqnn (leq_trans hf hl).
have := @bit_steps (lr - c) c r; rewrite subnKC // => /(_ hln hr hlr) <-.
by rewrite /r index_uniq // active_uniq.
Qed.

Lemma cost_of_witness : cost_of I (witness_of I pth).1 (witness_of I pth).2 = pcost pth.
Proof.
rewrite /cost_of /pcost Hsz -/n; congr oaddl; apply/eq_in_map => c; rewrite mem_iota add0n /= => hc.
rewrite /term /pterm restrict_witness // /witness_of /= (nth_map d0) ?Hsz //.
by case: c hc => [|c] hc //; rewrite (nth_map d0) // Hsz ltnW.
Qed.
End Consistent.

Theorem dp_witness_ok : 0 < n ->
  exists beta tau v,
    [/\ dp_witness I = Some (beta, tau), size beta = nreads I, size tau = n,
        all (fun t => t < nT I) tau & cost_of I beta tau = Some v /\ dp_cost I = Cost (Some v)].
Proof.
case hn: n => [|k] // _.
have [v [hcost hx ht hv]] := final_ok hn.
have hk : k < n by rewrite hn.
have [hsz hpc hwf _] := fp_ok hk hx ht hv.
rewrite -hn in hsz.
exists (witness_of I (fp k (final_arg I k (Rec k)).2.1 (final_arg I k (Rec k)).2.2)).1,
       (witness_of I (fp k (final_arg I k (Rec k)).2.1 (final_arg I k (Rec k)).2.2)).2, v.
split=> //.
- by rewrite /dp_witness (dp_pathE hn).
- by rewrite /witness_of /= size_map size_iota.
- by rewrite /witness_of /= size_map hsz hn.
- rewrite /witness_of /= all_map; apply/(all_nthP d0) => c; rewrite hsz => hc /=.
  by case: hwf => hw1 _; case: (hw1 c); rewrite ?hsz.
- by rewrite cost_of_witness.
Qed.
End Trace.

Theorem dp_witness_achieves I : wf I -> no_conflict I ->
  exists beta tau v,
    [/\ dp_witness I = Some (beta, tau), size beta = nreads I, size tau = i_ncols I,
        all (fun t => t < nT I) tau & cost_of I beta tau = Some v /\ dp_cost I = Cost (Some v)].
Proof.
move=> hwf hnc; case: (posnP (i_ncols I)) => [h0|hpos]; last first.
  exact: (dp_witness_ok (wf_sorted hwf) (wf_last hwf) hnc hpos).
exists [seq nth false (nth ([::], 0) [::] (r_last (rd I i))).1 (index i (active I (r_last (rd I i)))) | i <- iota 0 (nreads I)], [::], 0.
by rewrite /dp_witness /dp_path /dp_cost /cost_of h0 /= size_map size_iota.
Qed.

(* the witness is optimal *)
Theorem dp_witness_optimal I : wf I -> no_conflict I ->
  exists beta tau v,
    [/\ dp_witness I = Some (beta, tau), size beta = nreads I, size tau = i_ncols I,
        all (fun t => t < nT I) tau
      & [/\ cost_of I beta tau = Some v, dp_cost I = Cost (Some v) & opt_spec I = Some v]].
Proof.
move=> hwf hnc; have [beta [tau [v [h1 h2 h3 h4 [h5 h6]]]]] := dp_witness_achieves hwf hnc.
exists beta, tau, v; split=> //; split=> //.
by move: h6; rewrite (dp_cost_optimal hwf hnc) => -[].
Qed.

(* ------------------------------------------------------------------ Mendelian conflicts *)
Lemma oaddl_none (s : seq (option nat)) : None \in s -> oaddl s = None.
Proof.
elim: s => [|[a|] s IH] //=; rewrite inE //= => /IH->.
by [].
Qed.

Lemma ominl_all_none (s : seq (option nat)) : all (fun v => v == None) s -> ominl s = None.
Proof. by elim: s => [|[a|] s IH] //= /IH->. Qed.

Section Conflict.
Variable I : inst.

Lemma conflict_inP c : conflict_in (local_rows I c) = all (fun t => allowed I c t == [::]) (ts I).
Proof.
rewrite local_rowsE conflict_mktab.
have hne : nseq (size (active I c)) false \in bvs (size (active I c)) by rewrite mem_bvs size_nseq.
apply/hasP/allP => [[x _ /allP h] t ht|h].
  move/(_ t ht): h; case e: (allowed I c t) => [|ag l] //.
  by have := @local_cost_some I c x t; rewrite e => /(_ isT) ->.
exists (nseq (size (active I c)) false) => //; apply/allP => t /h /eqP e.
by rewrite /local_cost /lcost /assignment_costs -/(allowed I c t) e.
Qed.

Lemma dp_loop_conflict k c prev :
  has (fun c' => conflict_in (local_rows I c')) (iota c k) -> dp_loop I (iota c k) prev = Conflict.
Proof.
elim: k c prev => [|k IH] c prev //=.
case hc: (conflict_in (local_rows I c)) => //= hrest.
by case: k IH hrest => [|k] IH hrest //; apply: IH.
Qed.

Theorem conflict_reported : ~~ no_conflict I -> dp_cost I = Conflict /\ opt_spec I = None.
Proof.
rewrite /no_conflict -has_predC => /hasP[c hc /= hnone]; move: (hc); rewrite mem_iota add0n /= => hcn.
have hall : all (fun t => allowed I c t == [::]) (ts I).
  by apply/allP => t ht; apply: contraR hnone => h; apply/hasP; exists t.
split.
  by apply: dp_loop_conflict; apply/hasP; exists c => //; rewrite conflict_inP.
rewrite /opt_spec; apply: ominl_all_none; rewrite all_map; apply/allP => beta _ /=.
apply/eqP/ominl_all_none; rewrite all_map; apply/allP => tau; rewrite mem_tuples => /andP[/eqP hsz /all_nthP htau] /=.
apply/eqP/oaddl_none; apply/mapP; exists c => //.
have ht : nth 0 tau c \in ts I by rewrite mem_iota add0n /=; apply: htau; rewrite hsz.
move/allP: hall => /(_ _ ht) /eqP e.
by rewrite /term /local_cost /lcost /assignment_costs -/(allowed I c _) e.
Qed.
End Conflict.
