(* Stage 2 of C01: the back-pointer tables and the backtrace of the model (dp_path / dp_witness in
   model/PedMEC.v) reconstruct a bipartition and a transmission vector whose PedMEC objective is
   exactly the reported optimal cost. ssreflect style. *)
From mathcomp Require Import all_ssreflect.
From WH.Model Require Import PedMEC.
From WH.Proofs Require Import SemiringDP Tropical PedMECProofs.
Set Implicit Arguments.
Unset Strict Implicit.
Unset Printing Implicit Defensive.
Import Monoid.Theory.

(* ------------------------------------------------------------------ first strict minimum *)
Lemma ominl_rcons s y : ominl (rcons s y) = omin (ominl s) y.
Proof. by rewrite !ominlE -cats1 big_cat big_seq1. Qed.

Lemma argmin_rcons (A : Type) (d : A) s av :
  argmin d (rcons s av) = if olt av.2 (argmin d s).1 then (av.2, av.1) else argmin d s.
Proof. by rewrite /argmin -cats1 foldl_cat. Qed.

Lemma omin_olt x y : omin x y = if olt y x then y else x.
Proof.
rewrite /olt; case: x y => [a|] [b|] //=; rewrite -ltnNge.
by case: ltngtP.
Qed.

Lemma argmin_val (A : Type) (d : A) s : (argmin d s).1 = ominl [seq av.2 | av <- s].
Proof.
elim/last_ind: s => [|s av IH] //; rewrite argmin_rcons map_rcons ominl_rcons omin_olt -IH.
by case: ifP.
Qed.

Lemma argmin_mem (A : eqType) (d : A) (s : seq (A * option nat)) v :
  (argmin d s).1 = Some v -> ((argmin d s).2, Some v) \in s.
Proof.
elim/last_ind: s => [|s [a w] IH] //; rewrite argmin_rcons mem_rcons inE /=.
case: ifP => _ /=; first by move=> ->; rewrite eqxx.
by move/IH->; rewrite orbT.
Qed.

(* ------------------------------------------------------------------ Gray code = all bit vectors *)
Lemma mem_gray m x : (x \in gray m) = (size x == m).
Proof.
elim: m x => [|m IH] x /=; first by rewrite inE; case: x.
rewrite mem_cat; case/lastP: x => [|v b].
  by apply/negbTE; rewrite negb_or; apply/andP; split; apply/mapP => -[w _] /eqP; rewrite -size_eq0 size_rcons.
rewrite size_rcons eqSS -IH.
apply/orP/idP => [[/mapP[w hw /rcons_inj[-> _]] //|/mapP[w]]|hv].
- by rewrite mem_rev => hw /rcons_inj[-> _].
- by case: b; [right; apply/mapP; exists v; rewrite ?mem_rev | left; apply/mapP; exists v].
Qed.

Lemma gray_uniq m : uniq (gray m).
Proof.
elim: m => [|m IH] //=; rewrite cat_uniq !map_inj_uniq ?rev_uniq ?IH /=; try by move=> a b /rcons_inj[].
rewrite andbT; apply/hasPn => x /mapP[w _ ->]; apply/negP => /mapP[w' _] /rcons_inj[_].
by [].
Qed.

Lemma gray_perm m : perm_eq (gray m) (bvs m).
Proof.
apply: uniq_perm; [exact: gray_uniq | by rewrite bvsE bits_uniq |].
by move=> x; rewrite mem_gray mem_bvs.
Qed.
