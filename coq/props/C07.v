(* C07 — read selection never exceeds the coverage cap and leaves no admissible read out.
   Only the property theorems (closed by `exact`), their assumption printouts and non-vacuity examples.

   Objects (coq/model/ReadSelect.v): a read is the strictly increasing list of its variant indices
   (>= 2 entries, < n); `readselection rule reads pref n k bridging o` is the model of
   whatshap.readselect.readselection with cap k; `o` is the ORDER ORACLE: for every outer iteration
   the order in which the slice loop and the bridging loop pop the reads.  The theorems hold for EVERY
   oracle: an oracle that is not a permutation of the undecided reads makes the model answer
   `inr IllegalOrder`; an oracle that is too short yields the intermediate state reached so far
   (r_complete = false), so every statement about `inl r` also speaks about all intermediate states
   at iteration boundaries.  `rule` selects the behaviour after the preferred-source phase:
   PrefRepaired = the code after fix d6f31a2, PrefCurrent = the code before it. *)
From Coq Require Import ZArith List Bool Arith.
From WH.Model Require Import UnionFind ReadSelect.
From WH.Proofs Require Import ReadSelectProofs.
Import ListNotations.

(* The cap: the monitor has one counter per variant, every counter is <= k and is an upper bound of
   the number of selected reads whose span [first index, last index] contains the variant; so no
   variant is spanned by more than k selected reads (cap_ok is the boolean form evaluated on the
   implementation's output).  Holds for both rules, with and without preferred reads and bridging. *)
Theorem C07_cap_invariant : forall rule reads pref n k bridging o r,
  wf_reads n reads = true -> readselection rule reads pref n k bridging o = inl r ->
  length (cov (r_state r)) = n /\
  (forall i, span_count reads (sel (r_state r)) i <= nth i (cov (r_state r)) 0 /\
             nth i (cov (r_state r)) 0 <= k) /\
  cap_ok reads n k (sel (r_state r)) = true.
Proof. exact cap_invariant. Qed.
Print Assumptions C07_cap_invariant.

(* For the repaired rule (and for the old rule when no read is preferred) the monitor is exact:
   coverage[i] = number of selected reads spanning i. *)
Theorem C07_cap_exact : forall rule reads pref n k bridging o r,
  wf_reads n reads = true ->
  rule = PrefRepaired \/ (forall ri, ri < length reads -> nth ri pref false = false) ->
  readselection rule reads pref n k bridging o = inl r ->
  forall i, nth i (cov (r_state r)) 0 = span_count reads (sel (r_state r)) i.
Proof. exact cap_exact. Qed.
Print Assumptions C07_cap_exact.

Theorem C07_selected_subset : forall rule reads pref n k bridging o r,
  wf_reads n reads = true -> readselection rule reads pref n k bridging o = inl r ->
  NoDup (sel (r_state r)) /\ (forall ri, In ri (sel (r_state r)) -> ri < length reads) /\
  subset_ok reads (sel (r_state r)) = true.
Proof. exact selected_subset. Qed.
Print Assumptions C07_selected_subset.

(* selected / undecided are duplicate-free sets of input reads and disjoint; the rejected reads are the
   remaining ones (characterised by C07_maximal) *)
Theorem C07_undecided_partition : forall rule reads pref n k bridging o r,
  wf_reads n reads = true -> readselection rule reads pref n k bridging o = inl r ->
  NoDup (und (r_state r)) /\ (forall ri, In ri (und (r_state r)) -> ri < length reads) /\
  (rule = PrefRepaired \/ (forall ri, ri < length reads -> nth ri pref false = false) ->
   forall ri, In ri (sel (r_state r)) -> ~ In ri (und (r_state r))).
Proof. exact undecided_partition. Qed.
Print Assumptions C07_undecided_partition.

(* Progress: an outer iteration started in any state reached by any run, with any pop orders,
   decides at least one read. *)
Theorem C07_progress : forall rule reads pref n k bridging o r so bo s1 item,
  wf_reads n reads = true -> readselection rule reads pref n k bridging o = inl r ->
  und (r_state r) <> [] ->
  iteration reads n k bridging (r_state r) so bo = inl (s1, item) ->
  length (und s1) < length (und (r_state r)).
Proof. exact progress. Qed.
Print Assumptions C07_progress.

(* Termination and absence of exceptions: the only error the model can report is an illegal oracle
   (never ValueError / KeyError / AssertionError on well-formed reads), and 2 * |reads| outer
   iterations always suffice to leave no read undecided. *)
Theorem C07_terminates : forall rule reads pref n k bridging o,
  wf_reads n reads = true ->
  (forall e, readselection rule reads pref n k bridging o = inr e -> e = IllegalOrder) /\
  (forall r, readselection rule reads pref n k bridging o = inl r ->
     (2 * length reads <= length o -> r_complete r = true) /\
     (r_complete r = true -> und (r_state r) = [])).
Proof. exact terminates. Qed.
Print Assumptions C07_terminates.

(* The theorems are not vacuous for any input: for all well-formed reads a legal oracle exists (pop the
   undecided reads in index order) and the run is complete. *)
Theorem C07_legal_oracle_exists : forall rule reads pref n k bridging,
  wf_reads n reads = true ->
  exists o r, readselection rule reads pref n k bridging o = inl r /\ r_complete r = true.
Proof. exact legal_oracle_exists. Qed.
Print Assumptions C07_legal_oracle_exists.

(* Maximality (repaired rule, or no preferred reads): when the loops have finished, every read left
   out spans a variant that is already spanned by >= k selected reads, i.e. adding it would push that
   variant above k. *)
Theorem C07_maximal : forall rule reads pref n k bridging o r,
  wf_reads n reads = true -> 1 <= k ->
  rule = PrefRepaired \/ (forall ri, ri < length reads -> nth ri pref false = false) ->
  readselection rule reads pref n k bridging o = inl r -> r_complete r = true ->
  maximal_ok reads n k (sel (r_state r)) = true /\
  forall ri, ri < length reads -> ~ In ri (sel (r_state r)) ->
    exists i, i < n /\ spans (get_read reads ri) i = true /\ k <= span_count reads (sel (r_state r)) i.
Proof. exact maximal. Qed.
Print Assumptions C07_maximal.

(* The code before fix d6f31a2 (PrefCurrent) with a preferred read is NOT maximal: three identical
   reads over two variants, the first one preferred, k = 2: only read 0 is selected (its span is added
   to the monitor twice).  Replayed on the old implementation this was finding
   "readselect:maximal-preferred-recount"; the repaired rule selects two reads. *)
Theorem C07_maximal_current_refuted :
  exists reads pref n k bridging o r,
    wf_reads n reads = true /\ 1 <= k /\
    readselection PrefCurrent reads pref n k bridging o = inl r /\ r_complete r = true /\
    maximal_ok reads n k (sel (r_state r)) = false /\
    exists o' r', readselection PrefRepaired reads pref n k bridging o' = inl r' /\ r_complete r' = true /\
                  maximal_ok reads n k (sel (r_state r')) = true.
Proof. exact maximal_current_refuted. Qed.
Print Assumptions C07_maximal_current_refuted.

(* Family level (cli/phase.py: max_coverage_per_sample = max(1, k // |family|)): if every member's
   selected reads obey the per-sample cap at the member's OWN positions (what C07_cap_invariant gives
   for the member's read set; every selected read starts at an own position), then at EVERY position q
   — own or not, e.g. a position covered only by another member or a homozygous position added for
   genetic haplotyping — the reads of all members together span q at most k times, provided the family
   has at most k members. *)
Theorem C07_family_total : forall (k : nat) (members : list (list zread * list Z)),
  length members <= k ->
  (forall rs own, In (rs, own) members ->
     (forall r, In r rs -> In (zfirst r) own) /\
     (forall p, In p own -> zspan_count rs p <= per_sample_cap k (length members))) ->
  forall q : Z, family_span_count (map fst members) q <= k.
Proof. exact family_total. Qed.
Print Assumptions C07_family_total.

(* The harness evaluates cap and maximality on large read sets with the span counts tabulated once per
   case; these evaluators are the specification predicates of the theorems above. *)
Theorem C07_fast_evaluators_agree : forall reads n k selected,
  cap_ok_fast reads n k selected = cap_ok reads n k selected /\
  maximal_ok_fast reads n k selected = maximal_ok reads n k selected.
Proof. exact fast_evaluators_agree. Qed.
Print Assumptions C07_fast_evaluators_agree.

(* ---- non-vacuity ---------------------------------------------------------------------------- *)

(* tests/test_readselect.py::test_selection (8 reads over 6 variants), k = 2 without bridging: a legal
   oracle, a complete run, selected = {1, 3, 5} as asserted by the test *)
Example C07_example_run :
  let reads := [[0;3]; [0;1]; [0;4]; [0;1;4]; [0;4]; [2;3]; [0;4]; [0;5]] in
  let o := [([5;1;3;0;6;4;2;7], [])] in   (* the implementation's pop order *)
  wf_reads 6 reads = true /\
  match readselection PrefRepaired reads [] 6 2 false o with
  | inl r => r_complete r = true /\ same_set (sel (r_state r)) [1;3;5] = true /\
             maximal_ok reads 6 2 (sel (r_state r)) = true /\ cap_ok reads 6 2 (sel (r_state r)) = true
  | inr _ => False
  end.
Proof. vm_compute. repeat split; reflexivity. Qed.

(* preferred reads and bridging: read 0 preferred; k = 3; read 3 is skipped by the slice loop (covers
   nothing new) and selected by the bridging loop (it connects the blocks {0,1} and {2,3}) *)
Example C07_example_preferred_bridging :
  let reads := [[0;1]; [0;1]; [2;3]; [1;2]] in
  let pref := [true; false; false; false] in
  let o := [([0], []); ([1;2;3], [3])] in
  wf_reads 4 reads = true /\
  match readselection PrefRepaired reads pref 4 3 true o with
  | inl r => r_complete r = true /\ same_set (sel (r_state r)) [0;1;2;3] = true /\
             r_trace2 r = [([1;2;3], [(1, Selected); (2, Selected); (3, Skipped)], [(3, Selected)])] /\
             maximal_ok reads 4 3 (sel (r_state r)) = true
  | inr _ => False
  end.
Proof. vm_compute. repeat split; reflexivity. Qed.

(* an illegal oracle is reported, not silently accepted *)
Example C07_example_illegal :
  readselection PrefRepaired [[0;1]; [0;1]] [] 2 1 false [([0], [])] = inr IllegalOrder.
Proof. reflexivity. Qed.

(* family of three with k = 6: cap 2 per member; a position (15) that is nobody's own position *)
Example C07_example_family :
  let m1 := ([[10;20]; [10;30]]%Z, [10;20;30]%Z) in
  let m2 := ([[10;30]; [20;30]]%Z, [10;20;30]%Z) in
  let m3 := ([[12;18]; [12;40]]%Z, [12;18;40]%Z) in
  per_sample_cap 6 3 = 2 /\
  forallb (fun m => forallb (fun p => zspan_count (fst m) p <=? 2) (snd m)) [m1; m2; m3] = true /\
  family_span_count (map fst [m1; m2; m3]) 15%Z = 5.
Proof. vm_compute. repeat split; reflexivity. Qed.
