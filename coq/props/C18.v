(* C18 — priority queue and component finder match their abstract models on all histories.
   This file contains only the property theorems (each closed by `exact`), their assumption
   printouts, and non-vacuity examples. *)
From Coq Require Import ZArith List Bool Arith Relations.
From WH.Model Require Import Heap HeapSpec UnionFind UFSpec.
From WH.Proofs Require Import HeapProofs UFProofs UFOrder.
Import ListNotations.

(* --- priority queue ------------------------------------------------------------------------- *)

(* The comparison the queue orders by is a strict total order on score vectors. *)
Theorem C18_lower_strict_total :
  (forall a, lower a a = false) /\
  (forall a b c, lower a b = true -> lower b c = true -> lower a c = true) /\
  (forall a b, lower a b = false -> lower b a = false -> a = b).
Proof. exact lower_strict_total. Qed.
Print Assumptions C18_lower_strict_total.

(* Trace refinement, unbounded in the number of operations, items and score length: along every
   history (constrained up to its first precondition violation) each pop returns an item whose score
   is the one last assigned to it and is not lower than any queued score, lookups and len agree
   with the abstract map, and pop on the empty queue is the error. *)
Theorem C18_pq_refines_map : forall ops : list op,
  check_trace [] ops (run empty_pq ops) = true.
Proof. exact pq_refines_map. Qed.
Print Assumptions C18_pq_refines_map.

(* Draining: two consecutive pops come out in non-increasing order. *)
Theorem C18_drain_sorted : forall (ops : list op) e1 e2 pre,
  all_valid [] ops (run empty_pq ops) = true ->
  run empty_pq (ops ++ [OPop; OPop]) = pre ++ [RPop (Some e1); RPop (Some e2)] ->
  lower (fst e1) (fst e2) = false.
Proof. exact drain_sorted. Qed.
Print Assumptions C18_drain_sorted.

(* non-vacuity: a valid history with ties, a root decrease and an inner increase *)
Example C18_pq_example :
  let ops := [OPush [3] 1; OPush [5] 2; OPush [5] 3; OPush [1;2] 4; OChange 2 [0]; OChange 4 [9;9];
              OGet 2; OLen; OPop; OPop; OPop; OPop; OPop]%Z in
  all_valid [] ops (run empty_pq ops) = true /\
  run empty_pq ops = [RUnit; RUnit; RUnit; RUnit; RUnit; RUnit; RGet (Some [0]); RLen 4;
                      RPop (Some ([9;9], 4)); RPop (Some ([5], 3)); RPop (Some ([3], 1));
                      RPop (Some ([0], 2)); RPop None]%Z.
Proof. vm_compute. split; reflexivity. Qed.

(* --- component finder ----------------------------------------------------------------------- *)
Local Open Scope nat_scope.

(* For every sequence of (well-formed) merges and finds on any initial value set, find returns a
   member of x's connected component that is <= every member: the minimum. *)
Theorem C18_find_is_component_min : forall (values : list nat) (ops : list uop) (x : nat),
  forallb (well_formed values) ops = true -> In x values ->
  exists r s', find (urun_state (uf_init values) ops) x = inl (r, s') /\
    conn (merges_of ops) x r /\
    forall y, conn (merges_of ops) x y -> r <= y.
Proof. exact find_is_component_min. Qed.
Print Assumptions C18_find_is_component_min.

Theorem C18_same_representative_iff_connected :
  forall (values : list nat) (ops : list uop) (x y : nat),
  forallb (well_formed values) ops = true -> In x values -> In y values ->
  let s := urun_state (uf_init values) ops in
  (exists r sx sy, find s x = inl (r, sx) /\ find s y = inl (r, sy)) <-> conn (merges_of ops) x y.
Proof. exact same_representative_iff_connected. Qed.
Print Assumptions C18_same_representative_iff_connected.

(* find depends only on the connectivity generated so far: two histories over the same value set
   whose merges generate the same connectivity -- in any order, with either orientation, repeated,
   interleaved with any finds (path compressions) -- give the same representative for every x. *)
Theorem C18_find_depends_on_connectivity_only :
  forall (values : list nat) (ops ops' : list uop) (x : nat),
  forallb (well_formed values) ops = true -> forallb (well_formed values) ops' = true -> In x values ->
  (forall a b, conn (merges_of ops) a b <-> conn (merges_of ops') a b) ->
  exists r s1 s2, find (urun_state (uf_init values) ops) x = inl (r, s1) /\
                  find (urun_state (uf_init values) ops') x = inl (r, s2).
Proof. exact find_depends_on_connectivity_only. Qed.
Print Assumptions C18_find_depends_on_connectivity_only.

Theorem C18_find_merge_order_irrelevant :
  forall (values : list nat) (ops ops' : list uop) (x : nat),
  forallb (well_formed values) ops = true -> forallb (well_formed values) ops' = true -> In x values ->
  (forall a b, In (a, b) (merges_of ops) -> In (a, b) (merges_of ops') \/ In (b, a) (merges_of ops')) ->
  (forall a b, In (a, b) (merges_of ops') -> In (a, b) (merges_of ops) \/ In (b, a) (merges_of ops)) ->
  exists r s1 s2, find (urun_state (uf_init values) ops) x = inl (r, s1) /\
                  find (urun_state (uf_init values) ops') x = inl (r, s2).
Proof. exact find_merge_order_irrelevant. Qed.
Print Assumptions C18_find_merge_order_irrelevant.

(* malformed operations are rejected without changing any later answer *)
Theorem C18_malformed_rejected : forall (values : list nat) (ops : list uop) (o : uop),
  well_formed values o = false ->
  exists e, ustep (urun_state (uf_init values) ops) o = (urun_state (uf_init values) ops, UErr e).
Proof. exact malformed_rejected. Qed.
Print Assumptions C18_malformed_rejected.

(* the executable evaluator used on the implementation's outputs is the component minimum *)
Theorem C18_naive_min_is_component_min : forall (values : list nat) (ms : list (nat * nat)) (x : nat),
  (forall a b, In (a, b) ms -> In a values /\ In b values) -> NoDup values -> In x values ->
  conn ms x (naive_min values ms x) /\ forall y, conn ms x y -> naive_min values ms x <= y.
Proof. exact naive_min_is_component_min. Qed.
Print Assumptions C18_naive_min_is_component_min.

Example C18_uf_example :
  let ops := [UMerge 5 3; UMerge 9 7; UFind 9; UMerge 3 9; UMerge 1 2; UFind 5; UFind 7; UFind 2] in
  forallb (well_formed [1;2;3;5;7;9]) ops = true /\
  urun (uf_init [1;2;3;5;7;9]) ops = [UOk; UOk; UVal 7; UOk; UOk; UVal 3; UVal 3; UVal 1].
Proof. vm_compute. split; reflexivity. Qed.
