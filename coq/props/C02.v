(* C02 — read-based phasing of error-free reads reproduces the true haplotypes.
   Theorems about the weighted MEC objective the exact solver optimises (single individual, trusted
   heterozygous genotypes), and (C02_solver_reproduces_truth) their composition with the model of the
   PedMEC dynamic programme of C01: on error-free reads the DP's own witness and the alleles read off
   its backtrace are the truth up to a swap per read-connected component.  Composition with the rest
   of the pipeline (stated, not re-proved here): the reads handed to it carry the true
   alleles — property C06 (validated per run through the trace hook); phase sets are the
   read-connected components — property C03; the writer copies the haplotypes to GT — C04/C09. *)
From Coq Require Import ZArith List Bool Arith Relations.
From WH.Model Require Import UnionFind UFSpec Mec.
From WH.Proofs Require Import MecProofs.
From WH.Model Require PedMEC.
From WH.Proofs Require PedMECtoMec.
Import ListNotations.

(* the true bipartition with the true haplotypes costs nothing *)
Theorem C02_error_free_zero_cost : forall (truth : haps) (origin : list bool) (reads : list read),
  error_free truth origin reads = true -> cost truth origin reads = 0.
Proof. exact error_free_zero_cost. Qed.
Print Assumptions C02_error_free_zero_cost.

(* every zero-cost solution is, on each read-connected component, the truth or the truth with both
   haplotypes exchanged — for any number of reads, columns, any positive weights, gaps, nesting *)
Theorem C02_zero_cost_truth_up_to_component_flip :
  forall (reads : list read) (truth h : haps) (origin beta : list bool),
  (forall r, In r reads -> positive r) ->
  error_free truth origin reads = true ->
  length beta = length reads ->
  cost h beta reads = 0 ->
  (forall c, (exists r, In r reads /\ covers r c) -> het truth c /\ het h c) ->
  forall c c', (exists r, In r reads /\ covers r c) -> (exists r, In r reads /\ covers r c') ->
    connected reads c c' ->
    (same_at h truth c /\ same_at h truth c') \/ (swapped_at h truth c /\ swapped_at h truth c').
Proof. exact zero_cost_truth_up_to_component_flip. Qed.
Print Assumptions C02_zero_cost_truth_up_to_component_flip.

(* hence so is every optimal solution (anything at least as cheap as the truth) *)
Theorem C02_optimal_is_truth_up_to_component_flip :
  forall (reads : list read) (truth h : haps) (origin beta : list bool),
  (forall r, In r reads -> positive r) ->
  error_free truth origin reads = true ->
  length beta = length reads ->
  cost h beta reads <= cost truth origin reads ->
  (forall c, (exists r, In r reads /\ covers r c) -> het truth c /\ het h c) ->
  cost h beta reads = 0 /\
  forall c c', (exists r, In r reads /\ covers r c) -> (exists r, In r reads /\ covers r c') ->
    connected reads c c' ->
    (same_at h truth c /\ same_at h truth c') \/ (swapped_at h truth c /\ swapped_at h truth c').
Proof. exact optimal_is_truth_up_to_component_flip. Qed.
Print Assumptions C02_optimal_is_truth_up_to_component_flip.

(* the solver model of C01 (PedMEC.dp_witness / get_alleles: the column-wise DP with backtrace that
   the correspondence check of C01 ties to the C++ core) on a single individual with all-heterozygous
   trusted genotypes and error-free reads: the DP finds cost 0, decides both alleles of every covered
   column (no tie code 3), and the super reads it emits equal the truth or the truth with both
   haplotypes exchanged, consistently on every read-connected component.  `single n rs` is the dense
   PedMEC instance (n columns, reads as start column + per-column option entries), `mec_reads` its
   sparse (column, allele, weight) view used by the theorems above. *)
Theorem C02_solver_reproduces_truth :
  forall (n : nat) (rs : list PedMEC.read) (truth : haps) (origin : list bool),
  let I := PedMECtoMec.single n rs in
  let reads := PedMECtoMec.mec_reads I in
  PedMEC.wf I = true ->
  (forall r, In r reads -> positive r) ->
  error_free truth origin reads = true ->
  (forall c, (exists r, In r reads /\ covers r c) -> het truth c) ->
  exists (beta : list bool) (tau : list nat),
    let h := PedMECtoMec.witness_haps I beta in
    PedMEC.dp_witness I = Some (beta, tau) /\
    PedMEC.dp_cost I = PedMEC.Cost (Some 0) /\
    cost h beta reads = 0 /\
    (forall c, (exists r, In r reads /\ covers r c) ->
       exists k0 k1 q,
         PedMEC.get_alleles I c (PedMEC.restrict (PedMEC.active I c) beta) 0 = Some [(k0, k1, q)] /\
         k0 <> 3 /\ k1 <> 3) /\
    (forall c c', (exists r, In r reads /\ covers r c) -> (exists r, In r reads /\ covers r c') ->
       connected reads c c' ->
       (same_at h truth c /\ same_at h truth c') \/ (swapped_at h truth c /\ swapped_at h truth c')).
Proof. exact PedMECtoMec.solver_reproduces_truth_std. Qed.
Print Assumptions C02_solver_reproduces_truth.

(* the evaluator applied to the output VCF (phase set id, written pair, true pair per phased call)
   accepts only outputs in which every phase set carries the truth or its swap as a whole *)
Theorem C02_sets_match_truth_sound : forall calls : list call, sets_match_truth calls = true ->
  forall c c', In c calls -> In c' calls -> fst (fst c) = fst (fst c') ->
    (snd (fst c) = snd c /\ snd (fst c') = snd c') \/
    (snd (fst c) = swap (snd c) /\ snd (fst c') = swap (snd c')).
Proof. exact sets_match_truth_sound. Qed.
Print Assumptions C02_sets_match_truth_sound.

(* non-vacuity: three error-free reads over four heterozygous columns in two components; the
   candidate that swaps the second component has zero cost and passes the executable check *)
Example C02_example :
  let truth := haps_of [(0, (false, true)); (1, (true, false)); (2, (false, true)); (3, (true, false))] in
  let h     := haps_of [(0, (false, true)); (1, (true, false)); (2, (true, false)); (3, (false, true))] in
  let reads := [[(0, false, 5); (1, true, 7)]; [(0, true, 3); (1, false, 3)]; [(2, true, 9); (3, false, 1)]] in
  error_free truth [false; true; true] reads = true /\
  cost h [false; true; false] reads = 0 /\
  truth_up_to_flip reads [0; 1; 2; 3] h truth = true /\
  comp_of reads 3 = 2 /\ comp_of reads 1 = 0.
Proof. vm_compute. repeat split; reflexivity. Qed.
