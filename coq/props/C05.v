(* C05 - pedigree phasing is Mendelian-consistent and ordered paternal|maternal (stub, being filled) *)
From Coq Require Import ZArith NArith List Bool Arith.
From WH.Model Require Import Mendel.
From WH.Proofs Require Import MendelProofs.
Import ListNotations.

Theorem C05_stub : forall (A : Type) (p : A * A) b, sel p (negb (negb b)) = sel p b.
Proof. exact sel_negb_involutive. Qed.
Print Assumptions C05_stub.
