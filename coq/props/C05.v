(* C05 - pedigree phasing is Mendelian-consistent and ordered paternal|maternal.
   Only the property theorems (each closed by `exact`), their assumption printouts and non-vacuity
   examples.  Model: WH.Model.Mendel (PedigreePartitions, the allowed-assignment filter and
   get_alleles of PedigreeColumnCostComputer, mendelian_conflict, find_mendelian_conflicts /
   find_phaseable_variants, accessible positions, PhasedVcfWriter per call).  The dynamic program's
   choice of transmission value t and bipartition (partition costs cp) per column is universally
   quantified everywhere.  wf_ped n ts rk = acyclic pedigree with topological numbering rk, every
   individual child of at most one triple; triples are (father, mother, child). *)
From Coq Require Import ZArith NArith List Bool Arith.
From WH.Model Require Import Mendel.
From WH.Proofs Require Import MendelProofs.
Import ListNotations.

(* Mechanism: the child's haplotype 0 shares its partition with the father's haplotype [!(bit 2k of t)],
   its haplotype 1 with the mother's haplotype [!(bit 2k+1)]; the recursion terminates (fuel = number of
   individuals suffices) for every acyclic pedigree, every transmission value, every individual order. *)
Theorem C05_child_shares_partition : forall n ts rk, wf_ped n ts rk ->
  forall (t : N) k tr, nth_error ts k = Some tr ->
  exists pf pm,
    h2p n ts t (tr_father tr) = Some pf /\
    h2p n ts t (tr_mother tr) = Some pm /\
    h2p n ts t (tr_child tr) = Some (sel pf (negb (tbit t (2 * k))), sel pm (negb (tbit t (2 * k + 1)))).
Proof. exact child_shares_partition. Qed.
Print Assumptions C05_child_shares_partition.

(* child_alleles_from_parents: for every transmission value t and every allele assignment a allowed by
   the trusted-genotype filter, the child's alleles (on haplotype 0, on haplotype 1) are (the father's
   allele on the haplotype selected by bit 2k, the mother's allele on the one selected by bit 2k+1);
   hence the first is among the father's genotype alleles, the second among the mother's, and together
   they reproduce the child's genotype: the written a|b is paternal|maternal. *)
Theorem C05_child_alleles_from_parents : forall n ts rk, wf_ped n ts rk ->
  forall (t : N) gs a k tr,
  In a (allowed n ts t gs) -> nth_error ts k = Some tr ->
  let al := alle (h2p n ts t) (abit a) in
  al (tr_child tr) false = al (tr_father tr) (negb (tbit t (2 * k))) /\
  al (tr_child tr) true = al (tr_mother tr) (negb (tbit t (2 * k + 1))) /\
  In (b2z (al (tr_child tr) false)) (gof gs (tr_father tr)) /\
  In (b2z (al (tr_child tr) true)) (gof gs (tr_mother tr)) /\
  geno_of (al (tr_child tr) false) (al (tr_child tr) true) = gof gs (tr_child tr).
Proof. exact child_alleles_from_parents. Qed.
Print Assumptions C05_child_alleles_from_parents.

(* transmission_consistent: whatever transmission value and partition costs the DP settles on, the
   super-read alleles returned by get_alleles (ties = 3 included) satisfy the Mendelian predicate that the
   harness evaluates on the implementation's super-reads: a non-tie child allele is 0/1, lies in the
   parent's genotype and equals the parent's non-tie allele on the haplotype selected by t; non-tie
   pairs reproduce the genotype. *)
Theorem C05_transmission_consistent : forall n ts rk, wf_ped n ts rk ->
  forall t cp gs l, get_alleles n ts t cp gs = Alleles l -> sr_column_ok n ts gs t l = true.
Proof. exact get_alleles_mendelian. Qed.
Print Assumptions C05_transmission_consistent.

(* conflict_iff_no_assignment (any acyclic pedigree, diploid bi-allelic genotypes): some transmission
   value has an allowed assignment iff no triple has a Mendelian conflict ... *)
Theorem C05_conflict_iff_no_assignment : forall n ts rk gs, wf_ped n ts rk ->
  (forall i, i < n -> g_dipbi (gof gs i) = true) ->
  ((exists t a, N.to_nat t < 4 ^ length ts /\ In a (allowed n ts t gs)) <-> col_conflict ts gs = false).
Proof. exact conflict_iff_no_assignment. Qed.
Print Assumptions C05_conflict_iff_no_assignment.

(* ... in the trio form of the statement: mendelian_conflict gm gf gc = true iff no transmission value
   has an allowed assignment (for a trio placed anywhere among n individuals) ... *)
Theorem C05_trio_conflict_iff : forall n f m c rk gs, wf_ped n [(f, m, c)] rk ->
  (forall i, i < n -> g_dipbi (gof gs i) = true) ->
  (mendelian_conflict (gof gs m) (gof gs f) (gof gs c) = true <-> forall t, allowed n [(f, m, c)] t gs = []).
Proof. exact trio_conflict_iff. Qed.
Print Assumptions C05_trio_conflict_iff.

(* ... and the executable oracle evaluated on the implementation (does the column admit no assignment
   for any transmission value?) is find_mendelian_conflicts' predicate. *)
Theorem C05_no_assignment_is_conflict : forall n ts rk gs, wf_ped n ts rk ->
  (forall i, i < n -> g_dipbi (gof gs i) = true) ->
  no_assignment n ts gs = col_conflict ts gs.
Proof. exact no_assignment_iff_conflict. Qed.
Print Assumptions C05_no_assignment_is_conflict.

(* After find_phaseable_variants the solver's "Mendelian conflict" exception is unreachable: a retained
   row admits an assignment for some transmission value, and get_alleles raises exactly when the
   transmission value it is given has none (costs below UINT_MAX). *)
Theorem C05_retained_has_assignment : forall n ts rk ih gs, wf_ped n ts rk ->
  (forall i, i < n -> g_none (gof gs i) = true \/ g_dipbi (gof gs i) = true) ->
  retained n ts ih gs = true ->
  exists t a, N.to_nat t < 4 ^ length ts /\ In a (allowed n ts t gs).
Proof. exact retained_has_assignment. Qed.
Print Assumptions C05_retained_has_assignment.

Theorem C05_exception_iff_no_assignment : forall n ts rk, wf_ped n ts rk -> forall t cp gs,
  (forall a, (0 <= acost (part_count n ts) cp a < UMAX)%Z) ->
  (get_alleles n ts t cp gs = Conflict <-> allowed n ts t gs = []).
Proof. exact get_alleles_conflict_iff. Qed.
Print Assumptions C05_exception_iff_no_assignment.

(* Conflicting / missing-genotype variants are removed before phasing: they are unphased in all members,
   for every read coverage, transmission value, costs, with or without genetic haplotyping. *)
Theorem C05_removed_rows_unphased : forall n ts ih genetic gs covered t cp,
  col_missing n gs || col_conflict ts gs = true ->
  phase_column n ts ih genetic gs covered t cp = Some (map (fun _ => None) (seq 0 n)).
Proof. exact removed_rows_unphased. Qed.
Print Assumptions C05_removed_rows_unphased.

(* forced_without_reads: child heterozygous and a parent homozygous => for every transmission value and
   ANY partition costs (column sum below 2^31 - 1), both child alleles are forced by admissibility and
   not flagged as ties (|cost - (int)UINT_MAX| = cost + 1 <> 0) ... *)
Theorem C05_forced_not_tie : forall n ts rk, wf_ped n ts rk -> forall t cp gs l k tr,
  (forall a, (0 <= acost (part_count n ts) cp a < 2147483647)%Z) ->
  get_alleles n ts t cp gs = Alleles l ->
  nth_error ts k = Some tr ->
  g_het (gof gs (tr_child tr)) = true ->
  g_hom (gof gs (tr_father tr)) = true \/ g_hom (gof gs (tr_mother tr)) = true ->
  nth_error l (tr_child tr) = Some (b2z (forced_paternal gs tr), b2z (negb (forced_paternal gs tr))).
Proof. exact forced_not_tie. Qed.
Print Assumptions C05_forced_not_tie.

(* ... in particular in a column without any read. *)
Theorem C05_forced_without_reads : forall n ts rk, wf_ped n ts rk -> forall t gs l k tr,
  get_alleles n ts t (cost_partition n ts t []) gs = Alleles l ->
  nth_error ts k = Some tr ->
  g_het (gof gs (tr_child tr)) = true ->
  g_hom (gof gs (tr_father tr)) = true \/ g_hom (gof gs (tr_mother tr)) = true ->
  nth_error l (tr_child tr) = Some (b2z (forced_paternal gs tr), b2z (negb (forced_paternal gs tr))).
Proof. exact forced_without_reads. Qed.
Print Assumptions C05_forced_without_reads.

(* The property for one variant of one family through row removal, solver column and writer: whatever
   is written (all members carry the same phase-set id ps) satisfies the predicate c05_variant_ok that
   the harness evaluates on the real input genotypes / output calls / traced transmission value:
   every phased child a|b has a in the father's and b in the mother's genotype; where a parent is phased
   too, the child's allele is the parent's allele on the haplotype selected by t; conflicting or missing
   variants are unphased in all members; with genetic haplotyping a heterozygous child with a
   homozygous parent is phased whether or not a read covers the variant. *)
Theorem C05_phase_column_ok : forall n ts rk, wf_ped n ts rk ->
  forall genetic gs covered t cp ws ps,
  (forall a, (0 <= acost (part_count n ts) cp a < 2147483647)%Z) ->
  phase_column n ts false genetic gs covered t cp = Some ws ->
  c05_variant_ok n ts genetic gs (with_ps ps ws)
                 (if accessible n ts false genetic gs covered then Some t else None) = true.
Proof. exact phase_column_ok. Qed.
Print Assumptions C05_phase_column_ok.

(* a column without reads satisfies the cost hypothesis *)
Theorem C05_no_reads_cost_zero : forall n ts t a,
  acost (part_count n ts) (cost_partition n ts t []) a = 0%Z.
Proof. exact acost_no_reads. Qed.
Print Assumptions C05_no_reads_cost_zero.

(* the executable well-formedness check implies wf_ped *)
Theorem C05_wf_check_sound : forall n ts rk, wf_pedb n ts rk = true -> wf_ped n ts rk.
Proof. exact wf_pedb_sound. Qed.
Print Assumptions C05_wf_check_sound.

(* ---------------------------------------------------------------------------------- non-vacuity *)
(* a trio given child-first (index order is NOT topological): child 0, mother 1, father 2 *)
Definition ex_rk (i : nat) : nat := match i with 0 => 2 | 1 => 0 | _ => 1 end.
Example C05_ex_trio_wf : wf_ped 3 [(2, 1, 0)] ex_rk.
Proof. apply wf_pedb_sound. vm_compute. reflexivity. Qed.

(* a quartet (two children 3 and 0 of father 1 and mother 4) plus an unrelated individual 2 *)
Definition ex_rk4 (i : nat) : nat := match i with 1 => 0 | 4 => 1 | 2 => 2 | 3 => 3 | _ => 4 end.
Example C05_ex_quartet_wf : wf_ped 5 [(1, 4, 3); (1, 4, 0)] ex_rk4.
Proof. apply wf_pedb_sound. vm_compute. reflexivity. Qed.

(* three generations: grandparents 0,1 -> parent 2; 2 and 3 -> child 4 *)
Example C05_ex_threegen_wf : wf_ped 5 [(0, 1, 2); (2, 3, 4)] (fun i => i).
Proof. apply wf_pedb_sound. vm_compute. reflexivity. Qed.

(* child 0/1, mother 0/0, father 0/1, transmission value 1, a father read (ALT, q30) and a child read
   (REF, q30) on haplotype 0: the allowed assignments, the partition costs and the super-read alleles *)
Example C05_ex_column :
  allowed 3 [(2, 1, 0)] 1%N [[1; 0]; [0; 0]; [1; 0]]%Z = [4%N] /\
  get_alleles 3 [(2, 1, 0)] 1%N (cost_partition 3 [(2, 1, 0)] 1%N [(2, false, 1%Z, 30%Z); (0, false, 0%Z, 30%Z)])
              [[1; 0]; [0; 0]; [1; 0]]%Z
  = Alleles [(1, 0); (0, 0); (1, 0)]%Z.
Proof. vm_compute. split; reflexivity. Qed.

(* forced without reads: child 0/1, mother 0/1, father 1/1, no read: the child is 1|0, the mother is
   phased relative to the transmission value, the homozygous father is not written as phased *)
Example C05_ex_forced :
  g_het (gof [[1; 0]; [1; 0]; [1; 1]]%Z 0) = true /\ g_hom (gof [[1; 0]; [1; 0]; [1; 1]]%Z 2) = true /\
  phase_column 3 [(2, 1, 0)] false true [[1; 0]; [1; 0]; [1; 1]]%Z false 1%N
               (cost_partition 3 [(2, 1, 0)] 1%N [])
  = Some [Some (1, 0); Some (1, 0); None]%Z.
Proof. vm_compute. repeat split; reflexivity. Qed.

(* both parents heterozygous, no read: nothing is forced, the child's alleles are ties and it stays unphased *)
Example C05_ex_not_forced :
  get_alleles 3 [(2, 1, 0)] 0%N (cost_partition 3 [(2, 1, 0)] 0%N []) [[1; 0]; [1; 0]; [1; 0]]%Z
  = Alleles [(3, 3); (3, 3); (3, 3)]%Z.
Proof. vm_compute. reflexivity. Qed.

(* a conflicting column (both parents 0/0, child 1/1): conflict, no assignment for any transmission
   value, the solver column raises, the pipeline leaves everybody unphased; and a consistent column *)
Example C05_ex_conflict :
  col_conflict [(2, 1, 0)] [[1; 1]; [0; 0]; [0; 0]]%Z = true /\
  no_assignment 3 [(2, 1, 0)] [[1; 1]; [0; 0]; [0; 0]]%Z = true /\
  get_alleles 3 [(2, 1, 0)] 2%N [] [[1; 1]; [0; 0]; [0; 0]]%Z = Conflict /\
  phase_column 3 [(2, 1, 0)] false true [[1; 1]; [0; 0]; [0; 0]]%Z true 2%N [] = Some [None; None; None] /\
  col_conflict [(2, 1, 0)] [[1; 0]; [0; 0]; [1; 0]]%Z = false /\
  no_assignment 3 [(2, 1, 0)] [[1; 0]; [0; 0]; [1; 0]]%Z = false.
Proof. vm_compute. repeat split; reflexivity. Qed.

(* the spec-side predicate is not trivially true: a child written maternal|paternal is rejected *)
Example C05_ex_spec_rejects :
  c05_variant_ok 3 [(2, 1, 0)] true [[1; 0]; [0; 0]; [1; 1]]%Z [Some (0, 1, 7); None; None]%Z (Some 0%N) = false /\
  c05_variant_ok 3 [(2, 1, 0)] true [[1; 0]; [0; 0]; [1; 1]]%Z [Some (1, 0, 7); None; None]%Z (Some 0%N) = true /\
  (* transmission mismatch: father phased 1|0 in the same set, bit 0 of t = 0 selects his haplotype 1 *)
  c05_variant_ok 3 [(2, 1, 0)] false [[1; 0]; [0; 0]; [1; 0]]%Z [Some (1, 0, 7); None; Some (1, 0, 7)]%Z (Some 0%N) = false /\
  c05_variant_ok 3 [(2, 1, 0)] false [[1; 0]; [0; 0]; [1; 0]]%Z [Some (1, 0, 7); None; Some (1, 0, 7)]%Z (Some 1%N) = true /\
  (* forced but unphased under genetic haplotyping *)
  c05_variant_ok 3 [(2, 1, 0)] true [[1; 0]; [0; 0]; [1; 0]]%Z [None; None; None] None = false.
Proof. vm_compute. repeat split; reflexivity. Qed.
