(* C16 -- results depend on the input only: not on hash seed, thread count or repetition.

   PARTIAL by nature.  The property quantifies over process schedules, BGZF compression threads and
   CPython's set/dict iteration orders; none of these can be exhibited by a Gallina model.  What is
   proved here is that the ordering mechanisms the implementation uses to become independent of
   such orders really do remove the dependence: each theorem says "whatever order X arrives in,
   the result is the same".  The runtime half of the property (that these mechanisms are actually
   applied on every path, and that nothing else depends on a set order, a worker schedule or a
   memory address) is covered only by the differential runs of harness/props/C16.py.

   This file contains only the property theorems (closed by `exact`), their assumption printouts
   and non-vacuity examples. *)
From Coq Require Import ZArith NArith List Bool Arith Permutation Relations.
From WH.Model Require Import UnionFind UFSpec Determinism.
From WH.Proofs Require Import UFProofs DeterminismProofs.
Import ListNotations.

(* The full property, schematically: `run` is the semantics of a whatshap subcommand as a function
   of a configuration (hash seed, worker count, output threads, repetition index) and the input
   files/options.  `run` is NOT defined anywhere in this development -- it is the real program. *)
Definition C16_full_statement (Config Input Output : Type) (run : Config -> Input -> Output) : Prop :=
  forall (i : Input) (c1 c2 : Config), run c1 i = run c2 i.

(* --- read_comparator_t / ReadSet::sort ------------------------------------------------------- *)

(* For EVERY hash function h (std::hash is not modelled), the comparator is irreflexive,
   transitive and asymmetric on all reads, and total on reads that differ in (name, source_id) --
   which ReadSet::add guarantees for the members of one ReadSet. *)
Theorem C16_comparator_strict_total : forall h : list N -> Z -> N,
  (forall r, read_lt h r r = false) /\
  (forall r1 r2 r3, read_lt h r1 r2 = true -> read_lt h r2 r3 = true -> read_lt h r1 r3 = true) /\
  (forall r1 r2, read_lt h r1 r2 = true -> read_lt h r2 r1 = false) /\
  (forall r1 r2, name_source r1 <> name_source r2 -> read_lt h r1 r2 = true \/ read_lt h r2 r1 = true).
Proof. exact comparator_strict_total. Qed.
Print Assumptions C16_comparator_strict_total.

(* The sorted read list is a function of the read SET: inserting the same reads in any other order
   (other family order, other sample iteration order) and sorting gives the same list. *)
Theorem C16_sort_perm_invariant : forall (h : list N -> Z -> N) (l l' : list read),
  NoDup (map name_source l) -> Permutation l l' -> sort_reads h l = sort_reads h l'.
Proof. exact sort_perm_invariant. Qed.
Print Assumptions C16_sort_perm_invariant.

(* ... independently of the sorting algorithm: ANY permutation of the reads that is sorted w.r.t.
   the comparator (what std::sort returns) is the model's list. *)
Theorem C16_sorted_output_unique : forall (h : list N -> Z -> N) (l s : list read),
  NoDup (map name_source l) -> Permutation l s -> sortedb (read_lt h) s = true ->
  s = sort_reads h l.
Proof. exact sorted_output_unique. Qed.
Print Assumptions C16_sorted_output_unique.

(* non-vacuity: position ties (resolved by hash, then name, then source id), reads without
   variants first, hash collision between "a"/0 and "b"/0 *)
Example C16_sort_example :
  let t := [([97%N], 0%Z, 7%N); ([98%N], 0%Z, 7%N); ([99%N], 0%Z, 3%N); ([97%N], 1%Z, 9%N)] in
  let h := hash_of_table t in
  let a0 := mkRead [97%N] 0 2 100 1 in let b0 := mkRead [98%N] 0 1 100 2 in
  let c0 := mkRead [99%N] 0 3 100 3 in let a1 := mkRead [97%N] 1 0 0 4 in
  let e0 := mkRead [101%N] 0 1 50 5 in
  let l := [a0; b0; c0; a1; e0] in
  NoDup (map name_source l) /\
  sort_reads h l = [a1; e0; c0; a0; b0] /\
  sort_reads h (rev l) = [a1; e0; c0; a0; b0] /\
  sortedb (read_lt h) [a1; e0; c0; a0; b0] = true.
Proof.
  cbv zeta. split; [|vm_compute; auto].
  repeat constructor; cbn; intuition discriminate.
Qed.

(* the hypothesis is needed: with a duplicated (name, source) -- which ReadSet::add rejects -- the
   insertion order shows through *)
Example C16_sort_needs_distinct_names :
  let h := hash_of_table [] in
  let x := mkRead [97%N] 0 1 100 1 in let y := mkRead [97%N] 0 1 100 2 in
  sort_reads h [x; y] <> sort_reads h [y; x].
Proof. vm_compute. discriminate. Qed.

(* --- ComponentFinder: setup_families / find_components -------------------------------------- *)

(* The representative of a sample's family (C18: the minimum of its connected component) is the
   same whatever the order of the samples, of the trios in the PED file, and of the two arguments
   of each merge. *)
Theorem C16_components_order_irrelevant :
  forall (values values' : list nat) (ms ms' : list (nat * nat)) (x : nat),
  (forall a b, In (a, b) ms -> a <> b /\ In a values /\ In b values) ->
  Permutation values values' ->
  (forall a b, In (a, b) ms -> In (a, b) ms' \/ In (b, a) ms') ->
  (forall a b, In (a, b) ms' -> In (a, b) ms \/ In (b, a) ms) ->
  In x values ->
  exists r, representative values ms x = Some r /\ representative values' ms' x = Some r /\
            conn ms x r /\ forall y, conn ms x y -> r <= y.
Proof. exact components_order_irrelevant. Qed.
Print Assumptions C16_components_order_irrelevant.

Example C16_components_example :
  let values := [0; 1; 2; 3; 4] in let ms := [(1, 0); (2, 0); (4, 3)] in
  let values' := [3; 1; 4; 0; 2] in let ms' := [(4, 3); (0, 2); (1, 0)] in
  (forall a b, In (a, b) ms -> a <> b /\ In a values /\ In b values) /\
  Permutation values values' /\
  map (representative values ms) values = [Some 0; Some 0; Some 0; Some 3; Some 3] /\
  map (representative values' ms') values = [Some 0; Some 0; Some 0; Some 3; Some 3] /\
  families_sorted values ms = Some [(0, [0; 1; 2]); (3, [3; 4])] /\
  families_sorted values' ms' = Some [(0, [1; 0; 2]); (3, [3; 4])].
Proof.
  cbv zeta. split; [|split; [|vm_compute; auto 10]].
  - intros a b H. cbn in H.
    destruct H as [H | [H | [H | []]]]; injection H as <- <-; cbn; intuition discriminate.
  - apply (Permutation_trans (l' := [0; 3; 1; 4; 2])).
    + change (Permutation ([0] ++ [1; 2; 3; 4]) ([0] ++ [3; 1; 4; 2])). apply Permutation_app_head.
      apply (Permutation_trans (l' := [3; 1; 2; 4])).
      * apply (Permutation_trans (l' := [1; 3; 2; 4])).
        -- apply perm_skip. apply perm_swap.
        -- apply perm_swap.
      * do 2 apply perm_skip. apply perm_swap.
    + apply (Permutation_trans (l' := [3; 0; 1; 4; 2])); [apply perm_swap|].
      apply perm_skip. apply (Permutation_trans (l' := [1; 0; 4; 2])); [apply perm_swap|].
      apply perm_skip. apply perm_swap.
Qed.

(* --- polyphase: block results re-sorted by block id ------------------------------------------ *)

(* Whatever order the worker results are collected in, sorting them by block id yields exactly the
   list the single-threaded loop builds (block ids 0..n-1 in order).  That each worker computes the
   same value f i as the sequential call is the runtime part. *)
Theorem C16_resort_equals_sequential :
  forall (V : Type) (f : nat -> V) (n : nat) (collected : list (nat * V)),
  Permutation (results_sequential f n) collected ->
  sort_by_key collected = results_sequential f n.
Proof. exact resort_equals_sequential. Qed.
Print Assumptions C16_resort_equals_sequential.

Example C16_resort_example :
  let f := fun i => (10 * i)%nat in
  results_sequential f 4 = [(0, 0); (1, 10); (2, 20); (3, 30)] /\
  Permutation (results_sequential f 4) [(2, 20); (0, 0); (3, 30); (1, 10)] /\
  sort_by_key [(2, 20); (0, 0); (3, 30); (1, 10)] = [(0, 0); (1, 10); (2, 20); (3, 30)].
Proof.
  cbv zeta. split; [reflexivity|]. split; [|reflexivity].
  change (results_sequential (fun i => 10 * i) 4) with [(0, 0); (1, 10); (2, 20); (3, 30)].
  apply (Permutation_trans (l' := [(0, 0); (2, 20); (3, 30); (1, 10)])); [|apply perm_swap].
  apply perm_skip.
  apply (Permutation_trans (l' := [(2, 20); (1, 10); (3, 30)])); [apply perm_swap|].
  apply perm_skip. apply perm_swap.
Qed.

(* --- VCF writers: per-sample updates of one record ------------------------------------------- *)

(* Each update rewrites the call of one sample as a function of that sample's old call; updates of
   distinct samples commute, so the record written does not depend on the order in which the
   samples are visited. *)
Theorem C16_sample_updates_commute :
  forall (C : Type) (us us' : list (nat * (C -> C))) (r : vrecord C),
  NoDup (map fst us) -> Permutation us us' ->
  forall s, apply_updates us r s = apply_updates us' r s.
Proof. exact sample_updates_commute. Qed.
Print Assumptions C16_sample_updates_commute.

Example C16_updates_example :
  let r : vrecord nat := fun s => s in
  let us := [(0, fun c => c + 10); (2, fun c => 2 * c); (1, fun _ => 7)] in
  let us' := [(1, fun _ : nat => 7); (0, fun c => c + 10); (2, fun c => 2 * c)] in
  NoDup (map fst us) /\
  map (apply_updates us r) [0; 1; 2; 3] = [10; 7; 4; 3] /\
  map (apply_updates us' r) [0; 1; 2; 3] = [10; 7; 4; 3].
Proof.
  cbv zeta. split; [|vm_compute; auto].
  repeat constructor; cbn; intuition discriminate.
Qed.

(* the hypothesis is needed: two updates of the SAME sample do not commute *)
Example C16_updates_need_distinct_samples :
  let r : vrecord nat := fun s => s in
  apply_updates [(0, fun c => c + 10); (0, fun c => 2 * c)] r 0 <>
  apply_updates [(0, fun c => 2 * c); (0, fun c => c + 10)] r 0.
Proof. vm_compute. discriminate. Qed.

(* --- sorted(d.items()) ------------------------------------------------------------------------ *)

(* Iterating `sorted(d.items())` visits the same (key, value) pairs in the same order whatever the
   insertion order of the dict. *)
Theorem C16_sorted_items_order_irrelevant : forall (V : Type) (d d' : list (nat * V)),
  NoDup (map fst d) -> Permutation d d' -> sort_by_key d = sort_by_key d'.
Proof. exact sorted_items_order_irrelevant. Qed.
Print Assumptions C16_sorted_items_order_irrelevant.

Example C16_sorted_items_example :
  let d := [(3, [3; 4]); (0, [0; 1; 2]); (7, [7])] in
  NoDup (map fst d) /\
  sort_by_key d = [(0, [0; 1; 2]); (3, [3; 4]); (7, [7])] /\
  sort_by_key (rev d) = [(0, [0; 1; 2]); (3, [3; 4]); (7, [7])].
Proof.
  cbv zeta. split; [|vm_compute; auto].
  repeat constructor; cbn; intuition discriminate.
Qed.

(* --- the partial statement ------------------------------------------------------------------- *)

(* C16_full_statement instantiated with what IS modelled: the configuration is the tuple of
   arrival orders (reads into the ReadSet, worker results, sample updates, dict insertion), the
   output is (sorted reads, block results, record, iteration order over the dict).
   Missing with respect to C16_full_statement for the real program: `run` itself -- i.e. that every
   order-dependent step of every subcommand goes through one of these mechanisms, the scheduler,
   the BGZF threads, and CPython's set/dict iteration.  The differential runs of the harness are
   the only evidence for that part (and they do find paths that bypass the mechanisms, see the
   findings reported by harness/props/C16.py). *)
Theorem C16_modelled_order_sources_irrelevant_partial :
  forall (h : list N -> Z -> N) (V C : Type)
         (reads reads' : list read)
         (f : nat -> V) (n : nat) (collected collected' : list (nat * V))
         (us us' : list (nat * (C -> C))) (r : vrecord C)
         (d d' : list (nat * V)),
  NoDup (map name_source reads) -> Permutation reads reads' ->
  Permutation (results_sequential f n) collected -> Permutation (results_sequential f n) collected' ->
  NoDup (map fst us) -> Permutation us us' ->
  NoDup (map fst d) -> Permutation d d' ->
  sort_reads h reads = sort_reads h reads' /\
  sort_by_key collected = sort_by_key collected' /\
  (forall s, apply_updates us r s = apply_updates us' r s) /\
  sort_by_key d = sort_by_key d'.
Proof. exact modelled_order_sources_irrelevant. Qed.
Print Assumptions C16_modelled_order_sources_irrelevant_partial.
