(* C14 -- `whatshap split` distributes every read to exactly the outputs its haplotype entry selects.
   Only the property theorems (each closed by `exact`), their assumption printouts and non-vacuity
   examples.  Model: coq/model/Split.v (run rs c l reads; rs = the switchable rules that this check
   found defective; `repaired` = the code as it is now (after cfc35a5, e3aea4e, fd3a952, 8e35f52 in
   /repo) -- the correspondence check demands exactly this rule set; `legacy` = the code before those
   fixes, kept only for the `_refuted` witnesses).  All statements are for
   arbitrary read lists (duplicate names, identical records, length 0 included), arbitrary lists
   (repeated names, names absent from the reads, `none` lines) and any ploidy / option set. *)
From Coq Require Import ZArith List Bool Arith Sorting.Sorted.
From WH.Model Require Import Split.
From WH.Proofs Require Import SplitProofs.
Import ListNotations.
Open Scope Z_scope.

(* --- what the list assigns (name -> haplotype map with default 0) ------------------------------ *)

(* a name on no line is untagged *)
Theorem C14_assign_unlisted : forall (c : cfg) (es : list entry) (n : Z),
  known es n = false -> assign c es n = 0.
Proof. exact assign_unlisted. Qed.
Print Assumptions C14_assign_unlisted.

(* without --only-largest-block: only `none` lines -> untagged; all tagged lines of the name agree
   on Hh -> h (in particular: a name listed once gets exactly its entry) *)
Theorem C14_assign_plain : forall (c : cfg) (es : list entry) (n : Z),
  only_largest c = false ->
  ((forall e, In e es -> ename e = n -> tagged e = false) -> assign c es n = 0) /\
  (forall h, (exists e, In e es /\ ename e = n /\ tagged e = true) ->
             (forall e, In e es -> ename e = n -> tagged e = true -> ehap e = h) -> assign c es n = h).
Proof. exact assign_plain_spec. Qed.
Print Assumptions C14_assign_plain.

(* in general (also with --only-largest-block, ties between blocks, repeated names) the assigned
   haplotype is one of the readings of the list that the specification check admits *)
Theorem C14_assign_in_candidates : forall (c : cfg) (es : list entry) (n : Z),
  In (assign c es n) (cands c es n).
Proof. exact assign_in_cands. Qed.
Print Assumptions C14_assign_in_candidates.

(* --only-largest-block: the block the code keeps per chromosome is the first-inserted block of
   maximal size (most tagged lines; among several of that size the one appearing first in the list) *)
Theorem C14_largest_block_is_first_maximal : forall (es : list entry) (c : Z),
  best_block es c = first_max es c.
Proof. exact best_block_first_max. Qed.
Print Assumptions C14_largest_block_is_first_maximal.

Theorem C14_assign_range : forall (c : cfg) (es : list entry) (n : Z),
  forallb (hap_ok (ploidy c)) es = true -> 0 <= assign c es n <= Z.of_nat (ploidy c).
Proof. exact assign_range. Qed.
Print Assumptions C14_assign_range.

(* --- routing ------------------------------------------------------------------------------------ *)

(* `visible c o`: a path was given for output o and it is not the null device (a file that can be
   read back).  Repaired pass (no early exit, records written as they are): every such output o holds, in
   input order and unmodified, exactly the reads that are kept (all, or the listed ones with
   --discard-unknown-reads) and whose assigned haplotype selects o (o itself, or -- for untagged
   reads with --add-untagged -- every haplotype output); nothing is observable for the others. *)
Theorem C14_routing : forall (rs : rules) (c : cfg) (l : hlist) (reads : list read) outs hist (o : nat),
  early_exit rs = false -> fastq_via_str rs = false ->
  run rs c l reads = Done outs hist ->
  (o <= ploidy c)%nat ->
  nth o outs None =
  if visible c o
  then Some (map rpayload (filter (fun r => (negb (discard c) || known (entries l) (rname r)) &&
                                            goes_to c (assign c (entries l) (rname r)) o) reads))
  else None.
Proof. exact routing. Qed.
Print Assumptions C14_routing.

(* Without --discard-unknown-reads the early exit is dead code, so this also holds for the legacy pass. *)
Theorem C14_routing_default : forall (rs : rules) (c : cfg) (l : hlist) (reads : list read) outs hist (o : nat),
  fastq_via_str rs = false ->
  add_untagged c = false -> discard c = false ->
  run rs c l reads = Done outs hist ->
  (o <= ploidy c)%nat -> visible c o = true ->
  nth o outs None =
  Some (map rpayload (filter (fun r => assign c (entries l) (rname r) =? Z.of_nat o) reads)).
Proof. exact routing_default. Qed.
Print Assumptions C14_routing_default.

Theorem C14_add_untagged_spec : forall (rs : rules) (c : cfg) (l : hlist) (reads : list read) outs hist (o : nat),
  early_exit rs = false -> fastq_via_str rs = false ->
  add_untagged c = true -> discard c = false ->
  run rs c l reads = Done outs hist ->
  (1 <= o <= ploidy c)%nat -> visible c o = true ->
  nth o outs None =
  Some (map rpayload (filter (fun r => (assign c (entries l) (rname r) =? Z.of_nat o) ||
                                       (assign c (entries l) (rname r) =? 0)) reads)).
Proof. exact add_untagged_spec. Qed.
Print Assumptions C14_add_untagged_spec.

Theorem C14_discard_spec : forall (rs : rules) (c : cfg) (l : hlist) (reads : list read) outs hist (o : nat),
  early_exit rs = false -> fastq_via_str rs = false ->
  discard c = true ->
  run rs c l reads = Done outs hist ->
  (o <= ploidy c)%nat -> visible c o = true ->
  nth o outs None =
  Some (map rpayload (filter (fun r => known (entries l) (rname r) &&
                                       goes_to c (assign c (entries l) (rname r)) o) reads)).
Proof. exact discard_spec. Qed.
Print Assumptions C14_discard_spec.

(* The legacy early exit is exact when no read name occurs twice ... *)
Theorem C14_early_exit_exact_for_unique_names : forall (e d h f : bool) (c : cfg) (l : hlist) (reads : list read),
  NoDup (map rname reads) ->
  run (mkRules e d h f) c l reads = run (mkRules false d h f) c l reads.
Proof. exact early_exit_exact_unique_names. Qed.
Print Assumptions C14_early_exit_exact_for_unique_names.

(* ... and wrong otherwise: FASTQ a,a,b,c with list a H1, b H2, c none and --discard-unknown-reads:
   the untagged output stays empty although read c (payload 104) belongs there. *)
Theorem C14_discard_spec_refuted :
  valid_input w_cfg w_list = true /\
  exists outs hist, run legacy w_cfg w_list w_reads = Done outs hist /\
    nth 0 outs None = Some [] /\
    exp_out w_cfg (entries w_list) (assign w_cfg (entries w_list)) w_reads 0 = [104] /\
    l1 w_cfg w_list w_reads (run (rules_of 1) w_cfg w_list w_reads) = false.
Proof. exact early_exit_refutes_discard_spec. Qed.
Print Assumptions C14_discard_spec_refuted.

(* A valid list that names a read twice (what haplotag writes for paired reads) makes the legacy
   code fail an assertion under --discard-unknown-reads; the repaired rule accepts it. *)
Theorem C14_list_duplicate_names_refuted :
  valid_input w_cfg w_list2 = true /\
  run legacy w_cfg w_list2 w_reads = Fail EAssertDup /\
  l1 w_cfg w_list2 w_reads (run (rules_of 2) w_cfg w_list2 w_reads) = false /\
  l1 w_cfg w_list2 w_reads (run repaired w_cfg w_list2 w_reads) = true.
Proof. exact dup_assert_refutes_totality. Qed.
Print Assumptions C14_list_duplicate_names_refuted.

(* "unmodified" fails for the legacy FASTQ path whenever str(FastxRecord) differs from the record
   (pysam prints a record with empty quality string as FASTA) *)
Theorem C14_unmodified_refuted : forall (c : cfg) (l : hlist) (r : read),
  rlibstr r <> rpayload r -> check_list legacy c l = None ->
  visible c 1 = true -> kept c (entries l) r = true -> assign c (entries l) (rname r) = 1 ->
  exists outs hist, run legacy c l [r] = Done outs hist /\ nth 1 outs None = Some [rlibstr r] /\
    exp_out c (entries l) (assign c (entries l)) [r] 1 = [rpayload r].
Proof. exact str_refutes_unmodified. Qed.
Print Assumptions C14_unmodified_refuted.

(* --- partition ----------------------------------------------------------------------------------- *)

(* All outputs requested, no --add-untagged, no --discard-unknown-reads (any rule set, legacy
   included): label every input position with the haplotype of its name; every label is one of the
   ploidy+1 outputs and output o is exactly the subsequence of positions labelled o.  Hence the
   outputs are disjoint order-preserving subsequences whose interleaving is the input. *)
Theorem C14_outputs_partition : forall (rs : rules) (c : cfg) (l : hlist) (reads : list read) outs hist,
  all_requested c = true -> add_untagged c = false -> discard c = false ->
  run rs c l reads = Done outs hist ->
  let lab := map (fun r => Z.to_nat (assign c (entries l) (rname r))) reads in
  length outs = S (ploidy c) /\
  Forall (fun k => (k <= ploidy c)%nat) lab /\
  forall o, (o <= ploidy c)%nat ->
    nth o outs None =
    Some (map (written rs) (map snd (filter (fun p => Nat.eqb (fst p) o) (combine lab reads)))).
Proof. exact outputs_partition. Qed.
Print Assumptions C14_outputs_partition.

(* --- histogram ----------------------------------------------------------------------------------- *)

(* Repaired row rule: one row per length in strictly increasing order, ploidy+2 columns, and the
   entry for (length, class k) is the number of write events of class k with that length ... *)
Theorem C14_histogram_counts : forall (rs : rules) (c : cfg) (l : hlist) (reads : list read) outs rows,
  hist_dup_rows rs = false ->
  run rs c l reads = Done outs (Some rows) ->
  StronglySorted Z.lt (map (hd (-1)) rows) /\
  Forall (fun row => length row = S (S (ploidy c))) rows /\
  forall len k, (k <= ploidy c)%nat -> sumcol rows len k = hcount (events rs c l reads) (Z.of_nat k) len.
Proof. exact histogram_counts. Qed.
Print Assumptions C14_histogram_counts.

(* ... which is the number of records of that length written to output k (an H output additionally
   holds the untagged records with --add-untagged; they are counted once, in column 0) ... *)
Theorem C14_histogram_vs_written : forall (c : cfg) (evs : list (Z * read)) (o : nat) (len : Z),
  Z.of_nat (length (filter (fun r => rlen r =? len) (out_reads c evs o))) =
  hcount evs (Z.of_nat o) len + (if add_untagged c && (0 <? o)%nat then hcount evs 0 len else 0).
Proof. exact hcount_written. Qed.
Print Assumptions C14_histogram_vs_written.

(* ... and, without early exit, the number of kept input reads of that class and length. *)
Theorem C14_histogram_vs_input : forall (rs : rules) (c : cfg) (es : list entry) (reads : list read) (m h len : Z),
  discard c && early_exit rs = false ->
  hcount (pass rs c es m reads) h len = exp_count c es (assign c es) reads h len.
Proof. exact hcount_expected. Qed.
Print Assumptions C14_histogram_vs_input.

(* A class is counted iff an output path was given for it (process_haplotype); giving the null
   device as that path changes neither the error behaviour nor any histogram row. *)
Theorem C14_null_device_same_histogram : forall (rs : rules) (c : cfg) (nl : list bool) (l : hlist) (reads : list read),
  match run rs (mkCfg (req_untagged c) (req_h c) nl (add_untagged c) (only_largest c) (discard c) (want_hist c)) l reads,
        run rs c l reads with
  | Done _ h1, Done _ h2 => h1 = h2
  | Fail e1, Fail e2 => e1 = e2
  | _, _ => False
  end.
Proof. exact null_device_same_histogram. Qed.
Print Assumptions C14_null_device_same_histogram.

(* Legacy row rule: a length present in two classes is printed twice, the column sum doubles. *)
Theorem C14_histogram_counts_refuted :
  valid_input w_cfg3 w_list = true /\
  exists outs rows, run legacy w_cfg3 w_list w_reads3 = Done outs (Some rows) /\
    rows = [[4; 0; 1; 1]; [4; 0; 1; 1]; [5; 1; 0; 0]] /\
    sumcol rows 4 1 = 2 /\ hcount (events legacy w_cfg3 w_list w_reads3) 1 4 = 1 /\
    l1 w_cfg3 w_list w_reads3 (run (rules_of 4) w_cfg3 w_list w_reads3) = false.
Proof. exact hist_rows_refute_counts. Qed.
Print Assumptions C14_histogram_counts_refuted.

(* --- the executable specification used on the implementation's files ---------------------------- *)

(* It accepts the repaired model on every valid input (records with equal content have equal names,
   as the content includes the name), i.e. it demands nothing a correct implementation violates ... *)
Theorem C14_spec_check_accepts_repaired_model : forall (c : cfg) (l : hlist) (reads : list read),
  valid_input c l = true ->
  (forall r1 r2, In r1 reads -> In r2 reads -> rpayload r1 = rpayload r2 -> rname r1 = rname r2) ->
  l1 c l reads (run repaired c l reads) = true.
Proof. exact l1_sound. Qed.
Print Assumptions C14_spec_check_accepts_repaired_model.

(* ... and its routing clause means: under some admissible reading `a` of the list, every requested
   output is exactly the kept reads routed to it, in input order. *)
Theorem C14_spec_check_routing_meaning : forall (c : cfg) (l : hlist) (reads : list read) outs,
  l1_routing c l reads outs = true ->
  length outs = S (ploidy c) /\
  exists a : Z -> Z,
    (forall n, In (a n) (cands c (entries l) n)) /\
    forall o, (o <= ploidy c)%nat ->
      nth o outs None = if visible c o then Some (exp_out c (entries l) a reads o) else None.
Proof. exact l1_routing_meaning. Qed.
Print Assumptions C14_spec_check_routing_meaning.

(* histogram only: every -o is the null device; nothing is observable but every class is counted *)
Example C14_example_null_device :
  let c := mkCfg false [true; true] [false; true; true] false false false true in
  let l := mkList true false [(1, 1, 0, 0); (2, 2, 0, 0)] in
  let reads := [(1, 4, 101, 101); (2, 4, 102, 102); (3, 5, 103, 103); (2, 7, 104, 104)] in
  run repaired c l reads = Done [None; None; None] (Some [[4; 0; 1; 1]; [7; 0; 0; 1]]).
Proof. vm_compute. reflexivity. Qed.

(* --- non-vacuity --------------------------------------------------------------------------------- *)
(* duplicate names, a read without sequence, a name absent from the list, --add-untagged *)
Example C14_example_repaired :
  let c := mkCfg true [true; true; true] [false; false; false; false] true false false true in
  let l := mkList true true [(1, 1, 7, 1); (2, 3, 7, 1); (3, 0, 7, 1); (9, 2, 8, 1)] in
  let reads := [(1, 4, 101, 101); (4, 0, 102, 102); (1, 4, 103, 103); (2, 2, 104, 104); (3, 4, 105, 105)] in
  valid_input c l = true /\
  run repaired c l reads =
    Done [Some [102; 105]; Some [101; 102; 103; 105]; Some [102; 105]; Some [102; 104; 105]]
         (Some [[0; 1; 0; 0; 0]; [2; 0; 0; 0; 1]; [4; 1; 2; 0; 0]]) /\
  run legacy c l reads =
    Done [Some [102; 105]; Some [101; 102; 103; 105]; Some [102; 105]; Some [102; 104; 105]]
         (Some [[0; 1; 0; 0; 0]; [2; 0; 0; 0; 1]; [4; 1; 2; 0; 0]; [4; 1; 2; 0; 0]]).
Proof. vm_compute. repeat split; reflexivity. Qed.

(* partition hypotheses are satisfiable; labels 1,0,1,3,0 *)
Example C14_example_partition :
  let c := mkCfg true [true; true; true] [false; false; false; false] false false false false in
  let l := mkList true true [(1, 1, 7, 1); (2, 3, 7, 1); (3, 0, 7, 1); (9, 2, 8, 1)] in
  let reads := [(1, 4, 101, 101); (4, 0, 102, 102); (1, 4, 103, 103); (2, 2, 104, 104); (3, 4, 105, 105)] in
  all_requested c = true /\
  run legacy c l reads = Done [Some [102; 105]; Some [101; 103]; Some []; Some [104]] None.
Proof. vm_compute. split; reflexivity. Qed.

(* --only-largest-block: block 7 (3 lines) beats block 8 on chromosome 1; on chromosome 2 blocks 9
   and 5 tie with two lines each and 9, which comes first in the list, is kept (5 < 9: neither the
   smallest nor the last) *)
Example C14_example_largest_block :
  let c := mkCfg true [true; true] [false; false; false] false true true false in
  let es := [(1, 1, 7, 1); (10, 1, 9, 2); (2, 2, 7, 1); (11, 2, 5, 2); (3, 1, 7, 1); (5, 2, 8, 1);
             (12, 1, 5, 2); (6, 0, 0, 1); (13, 2, 9, 2)] in
  first_max es 1 = Some 7 /\ first_max es 2 = Some 9 /\
  map (assign c es) [1; 2; 3; 5; 6; 4; 10; 11; 12; 13] = [1; 2; 1; 0; 0; 0; 1; 0; 0; 2] /\
  map (cands c es) [1; 5; 6; 4; 10; 11] = [[1]; [0]; [0]; [0]; [1]; [0]].
Proof. vm_compute. repeat split; reflexivity. Qed.

(* the hypothesis of C14_early_exit_exact_for_unique_names is the dividing line: the witness of
   C14_discard_spec_refuted has a duplicate name *)
Example C14_example_unique_names :
  NoDup (map rname [(1, 4, 101, 101); (2, 1, 103, 103); (3, 5, 104, 104)]) /\
  ~ NoDup (map rname w_reads).
Proof.
  split.
  - repeat constructor; cbn; intuition discriminate.
  - intros H. inversion H as [|? ? Hn _]; subst. apply Hn. now left.
Qed.

(* A quirk pinned by the model (L2) and admitted by the specification check because the list is
   self-contradictory: name 1 is H1 in block 7, the largest of chromosome 1, and H2 in block 9,
   NOT the largest of chromosome 2.  The code keeps the name (it is in a largest block) but with the
   haplotype of its last tagged line (H2). *)
Example C14_example_stale_haplotype_quirk :
  let c := mkCfg true [true; true] [false; false; false] false true false false in
  let es := [(1, 1, 7, 1); (2, 1, 7, 1); (1, 2, 9, 2); (3, 1, 8, 2); (4, 1, 8, 2)] in
  best_block es 1 = Some 7 /\ best_block es 2 = Some 8 /\
  assign c es 1 = 2 /\ cands c es 1 = [0; 1; 2].
Proof. vm_compute. repeat split; reflexivity. Qed.
