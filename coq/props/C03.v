(* C03 — phase sets are exactly the read-connected components, named by the leftmost variant.
   Only the property theorems (closed by `exact`), their assumption printouts and non-vacuity examples.

   Objects (coq/model/Components.v): `find_components P reads mb het` is the model of
   cli/phase.py:find_components (P = phased/accessible positions, reads = (sample id, positions of the
   read's variants), mb = master block, het = heterozygous positions per sample) on top of the shared
   union-find model of graph.ComponentFinder; its result is the dict position -> component as an
   association list, or the exception class.  `linked P reads mb het x y` says: x and y are two
   positions of P that occur in one read (both heterozygous in that read's sample when `het` is given),
   or both lie in the master block. *)
From Coq Require Import ZArith List Bool Arith Relations.
From WH.Model Require Import UnionFind UFSpec Components.
From WH.Proofs Require Import ComponentsProofs.
Import ListNotations.

(* Whenever find_components returns a dict (for ANY input), its keys are exactly the phased
   positions and every position p is mapped to a position c of P with c <= p that is linked to p by a
   chain of reads, and no position of that chain-connected class is smaller: c is the leftmost
   variant of the read-connected component of p. *)
Theorem C03_components_spec : forall P reads mb het comps,
  find_components P reads mb het = inl comps ->
  map fst comps = keys_of P /\
  forall p c, In (p, c) comps ->
    In p P /\ In c P /\ c <= p /\
    clos_refl_sym_trans nat (linked P reads mb het) p c /\
    (forall q, clos_refl_sym_trans nat (linked P reads mb het) p q -> c <= q).
Proof. exact components_spec. Qed.
Print Assumptions C03_components_spec.

(* same phase set <-> linked by a chain of reads in which consecutive variants share a read *)
Theorem C03_same_component_iff_connected : forall P reads mb het comps p q cp cq,
  find_components P reads mb het = inl comps -> In (p, cp) comps -> In (q, cq) comps ->
  (cp = cq <-> clos_refl_sym_trans nat (linked P reads mb het) p q).
Proof. exact same_component_iff_connected. Qed.
Print Assumptions C03_same_component_iff_connected.

(* The identifier written to PS / HP / the read list (component + 1) is the 1-based genomic position
   (gpos maps a position's rank to its 0-based genomic coordinate) of the leftmost variant of the
   component. *)
Theorem C03_ps_is_leftmost_plus_one : forall gpos P reads mb het comps p id,
  find_components P reads mb het = inl comps -> block_id gpos comps p = Some id ->
  exists c, id = (nth c gpos 0 + 1)%Z /\ In c P /\
            clos_refl_sym_trans nat (linked P reads mb het) p c /\
            forall q, clos_refl_sym_trans nat (linked P reads mb het) p q -> c <= q.
Proof. exact ps_is_leftmost_plus_one. Qed.
Print Assumptions C03_ps_is_leftmost_plus_one.

(* pedigree mode: all components touching a position of the master block share one representative *)
Theorem C03_pedigree_merge : forall P reads m het comps p q cp cq,
  find_components P reads (Some m) het = inl comps -> In (p, cp) comps -> In (q, cq) comps ->
  (exists h, In h m /\ clos_refl_sym_trans nat (linked P reads (Some m) het) p h) ->
  (exists h, In h m /\ clos_refl_sym_trans nat (linked P reads (Some m) het) q h) ->
  cp = cq.
Proof. exact pedigree_merge. Qed.
Print Assumptions C03_pedigree_merge.

(* The master block compute_overall_components passes on: with trusted genotypes the accessible
   positions that are homozygous in some family member, only for families with genetic haplotyping. *)
Theorem C03_overall_components_trust : forall acc reads fam genetic hom sr,
  exists m, (forall p, In p m <-> In p acc /\ In p hom) /\
    compute_overall_components acc reads false fam genetic hom sr =
    find_components acc reads (if (1 <? fam) && genetic then Some m else None) None.
Proof. exact overall_components_trust. Qed.
Print Assumptions C03_overall_components_trust.

(* ... and with --distrust-genotypes: homo-/heterozygosity is re-read from the super-reads; merging is
   restricted to the positions heterozygous in the read's sample. *)
Theorem C03_overall_components_distrust : forall acc reads fam genetic hom sr,
  exists m h,
    (forall p, In p m <-> In p acc /\ exists s c, In s sr /\ In c (snd s) /\ col_pos c = p /\ is_hom c = true) /\
    (forall s ps, In (s, ps) h <-> exists cols, In (s, cols) sr /\
        ps = map col_pos (filter (fun c => pmem (col_pos c) acc && is_het c) cols)) /\
    compute_overall_components acc reads true fam genetic hom sr =
    find_components acc reads (if (1 <? fam) && genetic then Some m else None) (Some h).
Proof. exact overall_components_distrust. Qed.
Print Assumptions C03_overall_components_distrust.

(* Under what its callers guarantee, find_components does return a dict (no exception), so the
   theorems above are not vacuous for any such input. *)
Theorem C03_components_total : forall P reads mb het,
  sortedb P = true ->
  (forall r, In r reads -> exists ps, read_positions P het r = inl ps /\ head_fresh ps) ->
  (forall m, mb = Some m -> (forall x, In x m -> In x P) /\ head_fresh m) ->
  exists comps, find_components P reads mb het = inl comps.
Proof. exact components_total. Qed.
Print Assumptions C03_components_total.

(* The executable specification evaluated on the implementation's outputs (naive label propagation
   over all pairs of positions sharing a read / the master block) computes exactly that leftmost
   member of the class. *)
Theorem C03_spec_evaluator_correct : forall P reads mb het p,
  (forall m, mb = Some m -> forall x, In x m -> In x P) -> In p P ->
  let c := naive_min (keys_of P) (spec_edges P reads mb het) p in
  clos_refl_sym_trans nat (linked P reads mb het) p c /\
  forall q, clos_refl_sym_trans nat (linked P reads mb het) p q -> c <= q.
Proof. exact spec_evaluator_correct. Qed.
Print Assumptions C03_spec_evaluator_correct.

(* components_ok / ids_ok (the L1 checks run on the implementation's outputs) read the minima off a
   table computed once per case; its entries are exactly those leftmost members. *)
Theorem C03_spec_table_correct : forall P reads mb het p,
  (forall m, mb = Some m -> forall x, In x m -> In x P) -> In p P ->
  let c := tget (spec_table P reads mb het) p in
  clos_refl_sym_trans nat (linked P reads mb het) p c /\
  forall q, clos_refl_sym_trans nat (linked P reads mb het) p q -> c <= q.
Proof. exact spec_table_correct. Qed.
Print Assumptions C03_spec_table_correct.

(* ---- non-vacuity ---------------------------------------------------------------------------- *)

(* interleaved components: reads over {0,2,4} and {1,3}; a nested read {5,6} inside nothing; position 7
   uncovered.  PS = 1 + genomic position of the leftmost member. *)
Example C03_example_interleaved :
  let P := [0;1;2;3;4;5;6;7] in
  let reads := [(0, [0;2]); (0, [2;4]); (0, [1;3]); (0, [5;6])] in
  let gpos := [100; 140; 180; 220; 260; 300; 340; 380]%Z in
  find_components P reads None None = inl [(0,0); (1,1); (2,0); (3,1); (4,0); (5,5); (6,5); (7,7)] /\
  block_id gpos [(0,0); (1,1); (2,0); (3,1); (4,0); (5,5); (6,5); (7,7)] 4 = Some 101%Z /\
  block_id gpos [(0,0); (1,1); (2,0); (3,1); (4,0); (5,5); (6,5); (7,7)] 3 = Some 141%Z /\
  components_ok P reads None None [(0,0); (1,1); (2,0); (3,1); (4,0); (5,5); (6,5); (7,7)] = true.
Proof. vm_compute. repeat split; reflexivity. Qed.

(* master block {3,6}: the components {1,3} and {5,6} are merged; het restriction for sample 1 *)
Example C03_example_master_block :
  let P := [0;1;2;3;4;5;6;7] in
  let reads := [(0, [0;2]); (0, [2;4]); (0, [1;3]); (1, [5;6;7])] in
  find_components P reads (Some [3;6]) (Some [(0, [0;1;2;3;4]); (1, [5;6])]) =
    inl [(0,0); (1,1); (2,0); (3,1); (4,0); (5,1); (6,1); (7,7)] /\
  sortedb P = true.
Proof. vm_compute. split; reflexivity. Qed.

(* exception classes of the code: unsorted positions, master block outside P, unknown sample *)
Example C03_example_errors :
  find_components [2;1] [] None None = inr AssertionError /\
  find_components [1;2] [] (Some [1;5]) None = inr KeyError /\
  find_components [1;2] [(3, [1;2])] None (Some [(0, [1;2])]) = inr KeyError /\
  find_components [1;2] [(0, [1;1;2])] None None = inr AssertionError.
Proof. vm_compute. repeat split; reflexivity. Qed.

Example C03_example_overall :
  compute_overall_components [0;1;2;3] [(0, [0;1]); (1, [2;3])] false 3 true [1;2;9] [] =
    inl [(0,0); (1,0); (2,0); (3,0)] /\
  compute_overall_components [0;1;2;3] [(0, [0;1]); (1, [2;3])] false 3 false [1;2;9] [] =
    inl [(0,0); (1,0); (2,2); (3,2)].
Proof. vm_compute. split; reflexivity. Qed.
