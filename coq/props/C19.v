(* C19 — genotype indexing is a bijection; edit distance is true Levenshtein distance.
   Only the property theorems (each closed by `exact`), their assumption printouts and non-vacuity
   examples.  Models: coq/model/GenotypeIndex.v (binomial.cpp, genotype.cpp, Genotype wrapper of
   core.pyx) and coq/model/EditDist.v (align.pyx:edit_distance). *)
From Coq Require Import ZArith List Bool Arith Permutation.
From WH.Model Require Import GenotypeIndex EditDist.
From WH.Proofs Require Import GenotypeIndexProofs GenotypeIndexProofsCNS GenotypeIndexProofsCode
  GenotypeIndexProofsW GenotypeIndexProofsTop EditDistProofs EditDistProofsBand EditDistMetric.
Import ListNotations.
Close Scope Z_scope.

(* =========================================================================== edit distance *)

(* The unbanded call (maxdiff = -1), including prefix/suffix trimming, is the Levenshtein distance,
   for all strings over any alphabet with a decidable equality. *)
Theorem C19_edit_distance_is_lev :
  forall (A : Type) (eqb : A -> A -> bool), (forall a b, reflect (a = b) (eqb a b)) ->
  forall s t : list A, edit_distance eqb s t (-1)%Z = lev eqb s t.
Proof. exact edit_distance_is_lev. Qed.
Print Assumptions C19_edit_distance_is_lev.

Theorem C19_lev_zero_iff_eq :
  forall (A : Type) (eqb : A -> A -> bool), (forall a b, reflect (a = b) (eqb a b)) ->
  forall s t : list A, lev eqb s t = 0 <-> s = t.
Proof. exact lev_zero_iff_eq. Qed.
Print Assumptions C19_lev_zero_iff_eq.

(* Banded call (any maxdiff other than -1): the exact distance whenever it is at most the band,
   and a value larger than the band otherwise (both halves, full statement). *)
Theorem C19_banded_exact_or_larger :
  forall (A : Type) (eqb : A -> A -> bool), (forall a b, reflect (a = b) (eqb a b)) ->
  forall (s t : list A) (maxdiff : Z), maxdiff <> (-1)%Z ->
  ((Z.of_nat (lev eqb s t) <= maxdiff)%Z -> edit_distance eqb s t maxdiff = lev eqb s t) /\
  ((maxdiff < Z.of_nat (lev eqb s t))%Z -> (maxdiff < Z.of_nat (edit_distance eqb s t maxdiff))%Z).
Proof. exact banded_exact_or_larger. Qed.
Print Assumptions C19_banded_exact_or_larger.

(* The evaluators used by the correspondence check on the implementation's outputs mean what they
   should: the full-length DP is lev (used for long strings), and banded_contract is the contract. *)
Theorem C19_lev_fast_is_lev :
  forall (A : Type) (eqb : A -> A -> bool) (s t : list A), dist eqb s t = lev eqb s t.
Proof. exact dist_is_lev. Qed.
Print Assumptions C19_lev_fast_is_lev.

Theorem C19_banded_contract_iff : forall (l : nat) (maxdiff : Z) (r : nat),
  banded_contract l maxdiff r = true <->
  (((Z.of_nat l <= maxdiff)%Z -> r = l) /\ ((maxdiff < Z.of_nat l)%Z -> (maxdiff < Z.of_nat r)%Z)).
Proof. exact banded_contract_iff. Qed.
Print Assumptions C19_banded_contract_iff.

(* The specification itself is the Levenshtein distance and not merely a recursion that looks like it:
   it is the least cost over all edit scripts (insert / delete cost 1, substitute cost 0 or 1), and it
   is a metric (symmetric, zero exactly on equal strings, triangle inequality). *)
Theorem C19_lev_is_min_edit_script :
  forall (A : Type) (eqb : A -> A -> bool) (s t : list A),
  ed A eqb s t (lev eqb s t) /\ forall n, ed A eqb s t n -> lev eqb s t <= n.
Proof. exact lev_is_min_script. Qed.
Print Assumptions C19_lev_is_min_edit_script.

Theorem C19_lev_symmetric :
  forall (A : Type) (eqb : A -> A -> bool), (forall a b, reflect (a = b) (eqb a b)) ->
  forall s t : list A, lev eqb s t = lev eqb t s.
Proof. exact lev_sym. Qed.
Print Assumptions C19_lev_symmetric.

Theorem C19_lev_triangle :
  forall (A : Type) (eqb : A -> A -> bool), (forall a b, reflect (a = b) (eqb a b)) ->
  forall s t u : list A, lev eqb s u <= lev eqb s t + lev eqb t u.
Proof. exact lev_triangle. Qed.
Print Assumptions C19_lev_triangle.

(* bounds: at least the length difference, at most the longer length *)
Theorem C19_lev_bounds :
  forall (A : Type) (eqb : A -> A -> bool) (s t : list A),
  (length s <= lev eqb s t + length t /\ length t <= lev eqb s t + length s) /\
  lev eqb s t <= Nat.max (length s) (length t).
Proof. exact (fun A eqb s t => conj (lev_ge_diff A eqb s t) (lev_le_max A eqb s t)). Qed.
Print Assumptions C19_lev_bounds.

(* ... and the implementation's unbanded result inherits all three laws. *)
Theorem C19_edit_distance_metric :
  forall (A : Type) (eqb : A -> A -> bool), (forall a b, reflect (a = b) (eqb a b)) ->
  forall s t u : list A,
  edit_distance eqb s t (-1)%Z = edit_distance eqb t s (-1)%Z /\
  (edit_distance eqb s t (-1)%Z = 0 <-> s = t) /\
  edit_distance eqb s u (-1)%Z <= edit_distance eqb s t (-1)%Z + edit_distance eqb t u (-1)%Z.
Proof. exact edit_distance_metric. Qed.
Print Assumptions C19_edit_distance_metric.

(* non-vacuity: the hypothesis on eqb holds for the byte strings of the implementation (A := Z) *)
Example C19_eqb_hypothesis : forall a b : Z, reflect (a = b) (Z.eqb a b).
Proof. exact Z.eqb_spec. Qed.
Example C19_edit_distance_Z_is_lev : forall s t : list Z, edit_distance_Z s t (-1)%Z = lev_Z s t.
Proof. exact (C19_edit_distance_is_lev Z Z.eqb Z.eqb_spec). Qed.
Example C19_edit_example :
  lev_Z [1;2;3;1;2;3;3]%Z [3;2;1;1;1;2]%Z = 5 /\
  map (edit_distance_Z [1;2;3;1;2;3;3]%Z [3;2;1;1;1;2]%Z) [-1; 0; 1; 2; 3; 4; 5; 6; 7]%Z
    = [5; 1; 2; 3; 5; 5; 5; 5; 5] /\
  (Z.of_nat 5 <= 6)%Z /\ (4 < Z.of_nat 5)%Z /\ 4%Z <> (-1)%Z.
Proof. vm_compute. repeat split; discriminate. Qed.

(* =========================================================================== binomial coefficient *)
Open Scope Z_scope.

(* The multiply-then-divide loop, in unbounded arithmetic, returns C(n,k) (Pascal's rule; 0 outside
   0 <= k <= n) for all n, k, and every one of its divisions is exact. *)
Theorem C19_binom_loop_exact : forall n k : Z,
  binom ideal n k = chooseZ n k /\ binom_exact ideal n k = true.
Proof. exact binom_ideal_correct. Qed.
Print Assumptions C19_binom_loop_exact.

(* fast evaluators used on the implementation's outputs *)
Theorem C19_choose_fast_correct : forall n k : Z, choose_fast n k = chooseZ n k.
Proof. exact choose_fast_correct. Qed.
Print Assumptions C19_choose_fast_correct.

Theorem C19_idx_desc_fast_correct : forall d : list Z, idx_desc_fast d = idx_desc d.
Proof. exact idx_desc_fast_correct. Qed.
Print Assumptions C19_idx_desc_fast_correct.

(* =========================================================================== the index, all ploidies
   and allele counts (unbounded arithmetic).  valid_desc p n d: d lists a genotype of ploidy p over
   alleles 0..n-1 in descending order (the order of as_vector). *)

(* get_index's loop computes the combinatorial-number-system index of the stored alleles *)
Theorem C19_get_index_loop_is_cns : forall (gt p n : Z) (d : list Z),
  valid_desc p n d = true ->
  (forall j : nat, (j < length d)%nat -> get_position gt (Z.of_nat j) = nth j d 0) ->
  index_loop ideal ideal (Z.to_nat p) gt p 0 0 1 = idx_desc d.
Proof. exact get_index_loop_all. Qed.
Print Assumptions C19_get_index_loop_is_cns.

(* index -> alleles inverts it (the fuel of the inner for-loop is never exhausted) *)
Theorem C19_index_unindex : forall (p n : Z) (d : list Z) (fuel : nat),
  valid_desc p n d = true -> n < Z.of_nat fuel ->
  convert_index_to_alleles ideal ideal fuel (idx_desc d) p = Some (rev d).
Proof. exact index_unindex_all. Qed.
Print Assumptions C19_index_unindex.

(* alleles -> index inverts convert_index_to_alleles on every index below C(n+p-1,p) *)
Theorem C19_unindex_index : forall (i p n : Z) (fuel : nat),
  1 <= p -> 1 <= n -> 0 <= i < n_genotypes p n -> n < Z.of_nat fuel ->
  exists d, convert_index_to_alleles ideal ideal fuel i p = Some (rev d) /\
            valid_desc p n d = true /\ idx_desc d = i.
Proof. exact unindex_index_all. Qed.
Print Assumptions C19_unindex_index.

(* no gaps: with the previous theorem, the indices of the genotypes of ploidy p over n alleles are
   exactly 0 .. C(n+p-1,p)-1, each taken once *)
Theorem C19_index_range : forall (p n : Z) (d : list Z),
  1 <= n -> valid_desc p n d = true -> 0 <= idx_desc d < n_genotypes p n.
Proof. exact index_range_all. Qed.
Print Assumptions C19_index_range.

Theorem C19_index_injective : forall (p n : Z) (d1 d2 : list Z),
  valid_desc p n d1 = true -> valid_desc p n d2 = true -> idx_desc d1 = idx_desc d2 -> d1 = d2.
Proof. exact index_injective_all. Qed.
Print Assumptions C19_index_injective.

(* =========================================================================== the Genotype object,
   within the supported limits (ploidy <= 14: the constructor rejects 15; alleles 0..15), with the
   32-bit arithmetic of the compiled code *)

Theorem C19_constructor : forall al : list Z,
  (length al < 15)%nat -> Forall (fun a => 0 <= a < 16) al ->
  exists g, mk_genotype al = inr g /\ as_vector g = rev (isort al) /\ get_ploidy g = Z.of_nat (length al) /\
            valid_desc (Z.of_nat (length al)) 16 (as_vector g) = true.
Proof. exact constructor_spec. Qed.
Print Assumptions C19_constructor.

(* the code word is injective on allele multisets; == is equality of multisets *)
Theorem C19_code_injective : forall al : list Z,
  (length al < 15)%nat -> Forall (fun a => 0 <= a < 16) al ->
  forall bl : list Z, (length bl < 15)%nat -> Forall (fun a => 0 <= a < 16) bl ->
  forall g1 g2, mk_genotype al = inr g1 -> mk_genotype bl = inr g2 ->
  (g_eq g1 g2 = true <-> Permutation al bl) /\ g_ne g1 g2 = negb (g_eq g1 g2).
Proof. exact object_eq. Qed.
Print Assumptions C19_code_injective.

(* get_index of the object is the canonical index of its alleles, equals the unbounded computation,
   lies in 0 .. C(16+p-1,p)-1 and below 2^31 *)
Theorem C19_object_index : forall al : list Z,
  (length al < 15)%nat -> Forall (fun a => 0 <= a < 16) al ->
  forall g, mk_genotype al = inr g ->
  get_index wrap_s32 wrap_u32 g = idx_desc (as_vector g) /\
  get_index wrap_s32 wrap_u32 g = get_index ideal ideal g /\
  0 <= get_index wrap_s32 wrap_u32 g < n_genotypes (Z.of_nat (length al)) 16 /\
  get_index wrap_s32 wrap_u32 g < 2 ^ 31.
Proof. exact object_index. Qed.
Print Assumptions C19_object_index.

(* for genotypes of equal ploidy, == and < agree with the index, and < is a strict total order *)
Theorem C19_eq_lt_agree_with_index : forall al : list Z,
  (length al < 15)%nat -> Forall (fun a => 0 <= a < 16) al ->
  forall bl : list Z, (length bl < 15)%nat -> Forall (fun a => 0 <= a < 16) bl ->
  forall g1 g2, mk_genotype al = inr g1 -> mk_genotype bl = inr g2 -> length al = length bl ->
  let lt := g_lt wrap_s32 wrap_u32 in
  let ix := get_index wrap_s32 wrap_u32 in
  (g_eq g1 g2 = true <-> ix g1 = ix g2) /\
  lt g1 g2 = (ix g1 <? ix g2) /\
  ((lt g1 g2 = true /\ g_eq g1 g2 = false /\ lt g2 g1 = false) \/
   (lt g1 g2 = false /\ g_eq g1 g2 = true /\ lt g2 g1 = false) \/
   (lt g1 g2 = false /\ g_eq g1 g2 = false /\ lt g2 g1 = true)).
Proof. exact object_order. Qed.
Print Assumptions C19_eq_lt_agree_with_index.

(* __setstate__(__getstate__(g)) rebuilds g *)
Theorem C19_setstate_getstate : forall al : list Z,
  (length al < 15)%nat -> Forall (fun a => 0 <= a < 16) al ->
  forall g (fuel : nat), mk_genotype al = inr g -> (17 <= fuel)%nat ->
  setstate wrap_s32 wrap_u32 fuel (getstate wrap_s32 wrap_u32 g) = inr g.
Proof. exact object_setstate_getstate. Qed.
Print Assumptions C19_setstate_getstate.

(* index -> alleles of the object's own index gives back its (sorted) alleles, in the compiled
   arithmetic, and this equals the unbounded computation *)
Theorem C19_object_unindex_index : forall al : list Z,
  (length al < 15)%nat -> Forall (fun a => 0 <= a < 16) al ->
  forall g (fuel : nat), mk_genotype al = inr g -> (17 <= fuel)%nat ->
  convert_index_to_alleles wrap_s32 wrap_u32 fuel (get_index wrap_s32 wrap_u32 g) (get_ploidy g) = Some (isort al) /\
  convert_index_to_alleles wrap_s32 wrap_u32 fuel (get_index wrap_s32 wrap_u32 g) (get_ploidy g) =
  convert_index_to_alleles ideal ideal fuel (get_index ideal ideal g) (get_ploidy g).
Proof. exact object_unindex_index. Qed.
Print Assumptions C19_object_unindex_index.

(* every index below C(16+p-1,p) is the index of a constructible genotype (no gaps, compiled code) *)
Theorem C19_unindex_index_within_limits : forall (i p : Z) (fuel : nat),
  1 <= p <= 14 -> 0 <= i < n_genotypes p 16 -> (17 <= fuel)%nat ->
  exists al g, convert_index_to_alleles wrap_s32 wrap_u32 fuel i p = Some al /\
               (length al < 15)%nat /\ Forall (fun a => 0 <= a < 16) al /\ Z.of_nat (length al) = p /\
               mk_genotype al = inr g /\ get_index wrap_s32 wrap_u32 g = i /\ get_ploidy g = p.
Proof. exact unindex_index32_within_limits. Qed.
Print Assumptions C19_unindex_index_within_limits.

(* no overflow within the limits: every binomial_coefficient(n,k) call made for ploidy <= 14 and
   alleles <= 16 has n <= 29; for those the wrapping 32-bit loop is exact at every step *)
Theorem C19_no_overflow_within_limits : forall n k : Z, 0 <= n <= 29 ->
  binom wrap_s32 n k = chooseZ n k /\ binom_exact wrap_s32 n k = true.
Proof. exact binom32_no_overflow. Qed.
Print Assumptions C19_no_overflow_within_limits.

(* --- non-vacuity *)
Example C19_genotype_example :
  Nat.ltb (length [2;0;1;1]) 15 = true /\ forallb (fun a => (0 <=? a) && (a <? 16)) [2;0;1;1] = true /\
  mk_genotype [2;0;1;1] = inr (pack [2;1;1;0;0;0;0;0;0;0;0;0;0;0;0;4]) /\
  valid_desc 4 3 [2;1;1;0] = true /\ idx_desc [2;1;1;0] = 7 /\ n_genotypes 4 3 = 15 /\
  get_index32 (pack [2;1;1;0;0;0;0;0;0;0;0;0;0;0;0;4]) = 7 /\
  unindex32 17 7 4 = Some [0;1;1;2] /\ unindexI 17 7 4 = Some [0;1;1;2] /\
  binom32 29 14 = 77558760 /\ chooseZ 12 5 = 792 /\ binom_exact ideal 29 14 = true /\
  (* beyond the limits the compiled loop does overflow: the limits in the theorems are needed *)
  binom32 34 17 = 125390570 /\ binom ideal 34 17 = 2333606220.
Proof. vm_compute. repeat split; reflexivity. Qed.

Example C19_limits_example :
  mk_genotype (repeat 15 14) = inr 16212958658533785599 /\
  get_index32 16212958658533785599 = 77558759 /\ choose_fast 29 14 = 77558760 /\
  setstate32 17 (getstate32 16212958658533785599) = inr 16212958658533785599 /\
  (exists e, mk_genotype (repeat 0 15) = inl e) /\ (exists e, mk_genotype [16] = inl e).
Proof. vm_compute. repeat split; try reflexivity; eexists; reflexivity. Qed.

Example C19_order_example :
  let g1 := pack [2;0;0;0;0;0;0;0;0;0;0;0;0;0;0;2] in
  let g2 := pack [1;1;0;0;0;0;0;0;0;0;0;0;0;0;0;2] in
  mk_genotype [0;2] = inr g1 /\ mk_genotype [1;1] = inr g2 /\ length [0;2] = length [1;1] /\
  map (get_position g1) [0;1] = [2;0] /\ valid_desc 2 3 [2;0] = true /\
  get_index32 g1 = 3 /\ get_index32 g2 = 2 /\
  g_lt32 g2 g1 = true /\ g_lt32 g1 g2 = false /\ g_eq g1 g2 = false /\ g_ne g1 g2 = true /\
  g_eq g1 g1 = true /\ mk_genotype [2;0] = inr g1.
Proof. vm_compute. repeat split; reflexivity. Qed.
