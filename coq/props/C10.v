(* C10 — haplotag conserves every alignment and tags it with the best-agreeing haplotype.
   Only the property theorems (each closed by `exact`), their assumption printouts and non-vacuity
   examples.  Model: WH.Model.Haplotag (run_fixed / list_fixed = /repo after the repair of finding F8;
   run_current / list_current = the code before the repair, kept for the _refuted theorems).

   Vocabulary (definitions in model/Haplotag.v unless noted):
     score_spec inf g ps h   summed quality of the alleles of the reads g that agree with haplotype h
                             among the variants of phase set ps (declarative double sum)
     strict_best inf pl g ps h   h < pl and score h' < score h for every other haplotype h' < pl
     covers inf g ps         (HaplotagProofs) some variant of g lies in ps and matches a haplotype
     is_group cfg rs g       (HaplotagTags) g = a read of the read set rs, plus — only for linked reads —
                             reads of rs with the same BX tag within the cut-off of the first
     expected_ids            ids (= all fields and all tags except HP/PS/PC) of the input alignments:
                             without regions all of them in order plus the unmapped tail; with regions,
                             chromosome by chromosome in BAM order, those overlapping some region, once *)
From Coq Require Import ZArith List Bool Arith Lia Sorted Permutation.
From WH.Model Require Import Haplotag.
From WH.Proofs Require Import HaplotagProofs HaplotagTags HaplotagClouds HaplotagStream HaplotagSwap HaplotagExtra.
Import ListNotations.
Open Scope Z_scope.

(* ---- 1. the decision rule ------------------------------------------------------------------- *)

(* The table accumulated by prepare_haplotag_information (python dict of score lists, entries created
   on first match) is the table of agreement sums: for every group of reads, phase set and haplotype. *)
Theorem C10_scores_are_agreement_sums : forall (inf : info) (pl : nat) (g : list read) (ps : Z) (h : nat),
  (h < pl)%nat ->
  nth h (match lookup ps (acc_group inf pl g) with Some v => v | None => repeat 0 pl end) 0
  = score_spec inf g ps h.
Proof. exact scores_are_agreement_sums. Qed.
Print Assumptions C10_scores_are_agreement_sums.

(* best_haplotype, decision level: a decision (h, q, ps) means that within the reported phase set ps,
   which the group covers, h strictly maximises the summed quality of agreeing alleles over all
   haplotypes 0..ploidy-1, and q > 0 is exactly the margin to the runner-up. *)
Theorem C10_best_haplotype : forall (inf : info) (pl : nat) (g : list read) (h : nat) (q ps : Z),
  (2 <= pl)%nat ->
  decide inf pl g = Some (h, q, ps) ->
  strict_best inf pl g ps h = true /\ 0 < q /\ covers inf g ps /\
  (forall h', (h' < pl)%nat -> h' <> h -> score_spec inf g ps h' <= score_spec inf g ps h - q) /\
  (exists h', (h' < pl)%nat /\ h' <> h /\ score_spec inf g ps h' = score_spec inf g ps h - q).
Proof. exact decide_some. Qed.
Print Assumptions C10_best_haplotype.

(* ties and reads without phased heterozygous variants are untagged: no decision is taken only if no
   variant of the group matches a haplotype of any phase set, or the best score of the chosen phase
   set is attained by two different haplotypes *)
Theorem C10_no_decision_only_if_uncovered_or_tie : forall (inf : info) (pl : nat) (g : list read),
  (2 <= pl)%nat ->
  decide inf pl g = None ->
  (forall ps, ~ covers inf g ps) /\ acc_group inf pl g = [] \/
  exists ps h1 h2, covers inf g ps /\ (h1 < pl)%nat /\ (h2 < pl)%nat /\ h1 <> h2 /\
    score_spec inf g ps h1 = score_spec inf g ps h2 /\
    forall h, (h < pl)%nat -> score_spec inf g ps h <= score_spec inf g ps h1.
Proof. exact decide_none. Qed.
Print Assumptions C10_no_decision_only_if_uncovered_or_tie.

(* best_haplotype, whole pipeline (all samples, BX linking, both tagging paths): whenever the model
   writes HP = hp and PS = ps on an alignment, there is a sample and a group of its detected reads in
   which haplotype hp-1 is the strict best within ps; with PC = q the alignment's own read is in that
   group and q is the decision's quality; without PC (BX fall back) the alignment shares the barcode
   of the group's first read and lies within the distance cut-off of it. *)
Theorem C10_tagged_alignment_best : forall (cfg : config) (samples : list sample_in) (a : aln) (hp ps : Z) (pc : option Z),
  (2 <= ploidy cfg)%nat ->
  tag_aln cfg (prepare cfg samples) a = (Some hp, Some ps, pc) ->
  exists s g h, In s samples /\ is_group cfg (snd s) g /\ hp = Z.of_nat h + 1 /\
    strict_best (phaseinfo (fst s)) (ploidy cfg) g ps h = true /\
    covers (phaseinfo (fst s)) g ps /\
    match pc with
    | Some q => In (a_name a) (map r_name g) /\ 0 < q /\
                decide (phaseinfo (fst s)) (ploidy cfg) g = Some (h, q, ps)
    | None => linked cfg = true /\
              exists b rd others, g = rd :: others /\ a_bx a = Some b /\ r_bx rd = Some b /\
                close (cutoff cfg) (r_start rd) (a_start a) = true
    end.
Proof. exact tagged_alignment_best. Qed.
Print Assumptions C10_tagged_alignment_best.

(* groups are single reads unless reads are linked by a BX tag *)
Theorem C10_group_is_single_read_unless_linked : forall (cfg : config) (rs : list read) (rd : read) (others : list read),
  is_group cfg rs (rd :: others) -> linked cfg = false \/ r_bx rd = None -> others = [].
Proof. exact is_group_unlinked. Qed.
Print Assumptions C10_group_is_single_read_unless_linked.

(* tags are all-or-nothing: either HP, PS and PC are all removed, or HP and PS are both set *)
Theorem C10_tag_shape : forall (cfg : config) (st : pstate) (a : aln),
  tag_aln cfg st a = no_tags \/ exists hp ps pc, tag_aln cfg st a = (Some hp, Some ps, pc).
Proof. exact tag_shape. Qed.
Print Assumptions C10_tag_shape.

(* an alignment whose read was not detected in any sample (no phased heterozygous variant) and that is
   not subject to BX linking is written without HP/PS/PC, whatever stale tags it carried *)
Theorem C10_undetected_read_untagged : forall (cfg : config) (samples : list sample_in) (a : aln),
  (forall s r, In s samples -> In r (snd s) -> r_name r <> a_name a) ->
  linked cfg = false \/ a_bx a = None ->
  tag_aln cfg (prepare cfg samples) a = no_tags.
Proof. exact undetected_read_untagged. Qed.
Print Assumptions C10_undetected_read_untagged.

(* unmapped, secondary and (unless --tag-supplementary) supplementary records lose HP/PS/PC *)
Theorem C10_ignored_untagged : forall (cfg : config) (st : pstate) (a : aln),
  ignore_read cfg a = true -> out_rec cfg st a = (a_id a, no_tags).
Proof. exact ignored_untagged. Qed.
Print Assumptions C10_ignored_untagged.

(* the executable tag specification evaluated by the harness on the real output (tags_ok_chrom) holds
   for everything the model writes *)
Theorem C10_model_satisfies_tag_spec : forall (cfg : config) (c : chrom) (alns : list aln),
  (2 <= ploidy cfg)%nat -> incl alns (c_alns c) ->
  tags_ok_chrom cfg c alns (map (out_rec cfg (prepare cfg (c_samples c))) alns) = true.
Proof. exact model_satisfies_tag_spec. Qed.
Print Assumptions C10_model_satisfies_tag_spec.

(* linked reads, stated without reference to the processing order (linked_tag_ok, model/Haplotag.v): if
   exactly one detected read r (of sample s) has the alignment's name, r carries barcode b, the read names
   of s's read set are distinct and "within the cut-off of each other" is transitive among the reads of s
   with barcode b (well separated clouds), then an alignment tagged through its own read (PC present)
   carries the strict best haplotype, within the reported phase set, of the whole cloud of r = all reads of
   the barcode within the cut-off of r — wherever in the read set they are listed. *)
Theorem C10_linked_cloud_best : forall (cfg : config) (samples : list sample_in) (a : aln),
  (2 <= ploidy cfg)%nat -> 0 <= cutoff cfg ->
  linked_tag_ok cfg samples a (tag_aln cfg (prepare cfg samples) a) = true.
Proof. exact model_satisfies_linked_tag_spec. Qed.
Print Assumptions C10_linked_cloud_best.

(* the same for the predicate the harness evaluates on the written records of a chromosome *)
Theorem C10_model_satisfies_linked_tag_spec : forall (cfg : config) (c : chrom) (alns : list aln),
  (2 <= ploidy cfg)%nat -> 0 <= cutoff cfg ->
  linked_tags_ok_chrom cfg c alns (map (out_rec cfg (prepare cfg (c_samples c))) alns) = true.
Proof. exact model_satisfies_linked_tags_chrom. Qed.
Print Assumptions C10_model_satisfies_linked_tag_spec.

(* the hypothesis on the cut-off is needed: with a negative cut-off no read is within it of itself *)
Theorem C10_linked_cloud_negative_cutoff_refuted : exists cfg samples a,
  (2 <= ploidy cfg)%nat /\ cutoff cfg = -1 /\
  tag_aln cfg (prepare cfg samples) a = (Some 1, Some 100, Some 30) /\
  linked_tag_ok cfg samples a (tag_aln cfg (prepare cfg samples) a) = false.
Proof. exact linked_tag_spec_needs_cutoff. Qed.
Print Assumptions C10_linked_cloud_negative_cutoff_refuted.

(* names and barcodes are identified per sample (the ids of the model are interned (sample key, text)
   pairs; /repo keys its tables by (sample, name) since ef2ae7a).  With one id for the same-named reads of
   two samples the alignment of the first sample gets the second sample's decision (H2 in phase set 107)
   although its own read decides H1 in phase set 7: *)
Theorem C10_bare_read_name_tables_refuted :
  exists cfg samples a s0 r0,
    nth_error samples 0 = Some s0 /\ snd s0 = [r0] /\ r_name r0 = a_name a /\
    tag_aln cfg (prepare cfg samples) a = (Some 2, Some 107, Some 30) /\
    decide (phaseinfo (fst s0)) (ploidy cfg) [r0] = Some (0%nat, 30, 7).
Proof. exact bare_name_tables_refuted. Qed.
Print Assumptions C10_bare_read_name_tables_refuted.

(* ---- 2. swap symmetry ------------------------------------------------------------------------ *)

(* Permuting the haplotype columns of phase set bs in the variant table (new column j = old column
   p[j]; for ploidy 2, p = [1;0] exchanges the two haplotypes; any permutation for ploidy 3, 4, ...)
   changes a decision exactly by h |-> position of h in p when its phase set is bs, and not at all
   otherwise. *)
Theorem C10_swap_decision : forall (p : list nat) (bs : Z) (rows : list vrow) (pl : nat) (g : list read),
  Permutation p (seq 0 pl) -> (2 <= pl)%nat ->
  (forall pos hom b ph, In (pos, hom, Some (b, ph)) rows -> length ph = pl) ->
  decide (phaseinfo (swap_rows p bs rows)) pl g
  = option_map (fun d : decision => let '(h, q, ps) := d in if ps =? bs then (pos_in h p, q, ps) else d)
               (decide (phaseinfo rows) pl g).
Proof. exact swap_decide. Qed.
Print Assumptions C10_swap_decision.

(* whole output stream of the chromosome loop: every written record keeps its identity, records tagged
   with PS = bs get HP = 1 + position of the old haplotype in p (PS and PC unchanged), all other
   records are written exactly as before *)
Theorem C10_swap_symmetry : forall (p : list nat) (bs : Z) (cfg : config) (pl : plan),
  Permutation p (seq 0 (ploidy cfg)) -> (2 <= ploidy cfg)%nat ->
  (forall x s, In x pl -> In s (c_samples (snd (fst x))) ->
     forall pos hom b ph, In (pos, hom, Some (b, ph)) (fst s) -> length ph = ploidy cfg) ->
  out_of_plan cfg (map (fun x => (fst (fst x), swap_chrom p bs (snd (fst x)), snd x)) pl)
  = map (fun o => (fst o, swap_tags p bs (snd o))) (out_of_plan cfg pl).
Proof. exact swap_out_of_plan. Qed.
Print Assumptions C10_swap_symmetry.

(* the same when only some samples' columns are permuted and bs is not a phase set of the others:
   "exactly the reads of that set" *)
Theorem C10_swap_symmetry_one_sample : forall (p : list nat) (bs : Z) (cfg : config)
    (samples samples' : list sample_in) (a : aln),
  Permutation p (seq 0 (ploidy cfg)) -> (2 <= ploidy cfg)%nat ->
  (forall s, In s samples -> forall pos hom b ph, In (pos, hom, Some (b, ph)) (fst s) -> length ph = ploidy cfg) ->
  length samples' = length samples ->
  (forall i s s', nth_error samples i = Some s -> nth_error samples' i = Some s' ->
     snd s' = snd s /\
     (fst s' = swap_rows p bs (fst s) \/
      (fst s' = fst s /\ forall pos hom b ph, In (pos, hom, Some (b, ph)) (fst s) -> b <> bs))) ->
  out_rec cfg (prepare cfg samples') a
  = (fst (out_rec cfg (prepare cfg samples) a), swap_tags p bs (snd (out_rec cfg (prepare cfg samples) a))).
Proof. exact swap_one_sample_tags. Qed.
Print Assumptions C10_swap_symmetry_one_sample.

(* ---- 3. stream conservation ------------------------------------------------------------------ *)

(* the boolean the harness evaluates is the equation of id lists *)
Theorem C10_conserved_spec_iff : forall chroms user tail (out : list (Z * tags3)),
  conserved_spec chroms user tail out = true <-> map fst out = expected_ids chroms user tail.
Proof. exact conserved_spec_iff. Qed.
Print Assumptions C10_conserved_spec_iff.

(* without --regions: the written records are the input records, same number, same order (placed
   records of every chromosome, then the unplaced unmapped tail), only HP/PS/PC differ *)
Theorem C10_stream_conserved_no_regions : forall (cfg : config) (chroms : list chrom) (tail : list aln) out,
  (forall c, In c chroms -> forall a, In a (c_alns c) -> 0 <= a_start a < a_end a) ->
  run_current cfg chroms None tail = Some out ->
  map fst out = expected_ids chroms None tail.
Proof. exact stream_none_current. Qed.
Print Assumptions C10_stream_conserved_no_regions.

(* code before the repair, with --regions: conservation holds only when the chromosomes are named in ascending (BAM)
   order and the regions of each chromosome are `benign` (HaplotagStream): sorted, pairwise disjoint
   and no alignment overlaps two of them *)
Theorem C10_stream_conserved_disjoint_regions : forall (cfg : config) (chroms : list chrom)
    (l : list (Z * region)) (tail : list aln) out,
  (forall c, In c chroms -> alns_ok (c_alns c) /\ sorted_start (c_alns c)) ->
  regs_valid (map snd l) ->
  (forall x, In x l -> 0 <= fst x) ->
  StronglySorted Z.lt (map fst (group_regions l)) ->
  (forall k c, nth_error chroms k = Some c -> benign (c_alns c) (regs_of (Z.of_nat k) l)) ->
  run_current cfg chroms (Some l) tail = Some out ->
  map fst out = expected_ids chroms (Some l) tail.
Proof. exact stream_current_benign. Qed.
Print Assumptions C10_stream_conserved_disjoint_regions.

(* The unrestricted statement for the code before the repair: for coordinate-sorted input and any valid
   regions the output is the input restricted to the regions.  (DESIGN claimed it for pairwise disjoint
   regions; that is not enough: see witness (b).) *)
Definition C10_stream_conserved_full_statement : Prop :=
  forall cfg chroms user tail out,
    (forall c, In c chroms -> alns_ok (c_alns c) /\ sorted_start (c_alns c)) ->
    (forall l, user = Some l -> regs_valid (map snd l)) ->
    run_current cfg chroms user tail = Some out ->
    map fst out = expected_ids chroms user tail.

(* It is false (finding F8).  Three classes of witnesses: *)
Theorem C10_stream_conserved_refuted : ~ C10_stream_conserved_full_statement.
Proof. exact conserved_current_refuted. Qed.
Print Assumptions C10_stream_conserved_refuted.

(* (a) overlapping regions: --regions chr:1-150 --regions chr:100-300, one alignment inside the overlap
   is written twice *)
Theorem C10_stream_overlapping_regions_refuted :
  exists cfg chroms l tail out,
    run_current cfg chroms (Some l) tail = Some out /\
    map fst out <> expected_ids chroms (Some l) tail /\
    l = [(0, (0, Some 150)); (0, (99, Some 300))] /\
    map c_alns chroms = [[mkAln 1 1 100 140 false false false None no_tags]] /\ tail = [] /\
    map fst out = [1; 1] /\ expected_ids chroms (Some l) tail = [1].
Proof. exact stream_overlapping_refuted. Qed.
Print Assumptions C10_stream_overlapping_regions_refuted.

(* (b) sorted, disjoint, non-adjacent regions and one alignment spanning the gap: written twice *)
Theorem C10_stream_spanning_alignment_refuted :
  exists cfg chroms l tail out,
    run_current cfg chroms (Some l) tail = Some out /\
    map fst out <> expected_ids chroms (Some l) tail /\
    StronglySorted (fun r1 r2 => match snd r1 with Some e => e <= fst r2 | None => False end) (map snd l) /\
    l = [(0, (0, Some 120)); (0, (129, Some 400))] /\
    map c_alns chroms = [[mkAln 1 1 111 281 false false false None no_tags]] /\ tail = [] /\
    map fst out = [1; 1] /\ expected_ids chroms (Some l) tail = [1].
Proof. exact stream_spanning_refuted. Qed.
Print Assumptions C10_stream_spanning_alignment_refuted.

(* (c) disjoint regions in descending order: nothing lost or duplicated, but the order changes *)
Theorem C10_stream_unsorted_regions_refuted :
  exists cfg chroms l tail out,
    run_current cfg chroms (Some l) tail = Some out /\
    map fst out <> expected_ids chroms (Some l) tail /\
    StronglySorted (fun r1 r2 => match snd r1 with Some e => e <= fst r2 | None => False end) (rev (map snd l)) /\
    l = [(0, (200, Some 300)); (0, (0, Some 100))] /\
    map c_alns chroms = [[mkAln 1 1 10 50 false false false None no_tags; mkAln 2 2 210 250 false false false None no_tags]] /\
    tail = [] /\
    Permutation (map fst out) (expected_ids chroms (Some l) tail) /\
    map fst out = [2; 1] /\ expected_ids chroms (Some l) tail = [1; 2].
Proof. exact stream_unsorted_refuted. Qed.
Print Assumptions C10_stream_unsorted_regions_refuted.

(* The repaired region rule (chromosomes in BAM order; regions sorted by start and merged when
   overlapping or adjacent; an alignment starting before the end of the previous region is skipped):
   the unrestricted statement holds — every run, every list of valid regions. *)
Theorem C10_stream_conserved_repaired : forall cfg chroms user (tail : list aln) out,
  (forall c, In c chroms -> alns_ok (c_alns c) /\ sorted_start (c_alns c)) ->
  (forall l, user = Some l -> regs_valid (map snd l)) ->
  run_fixed cfg chroms user tail = Some out ->
  map fst out = expected_ids chroms user tail.
Proof. exact conserved_fixed. Qed.
Print Assumptions C10_stream_conserved_repaired.

(* its core: what the repaired loop writes for one chromosome is the filter of the input *)
Theorem C10_repaired_regions_write_each_alignment_once : forall (alns : list aln) (regs : list region),
  alns_ok alns -> sorted_start alns -> regs_valid regs ->
  written_fixed alns (norm_regs regs) = filter (in_regions regs) alns.
Proof. exact written_fixed_spec. Qed.
Print Assumptions C10_repaired_regions_write_each_alignment_once.

(* ---- 4. --output-haplotag-list ---------------------------------------------------------------- *)

(* code before the repair: an untagged record can be listed with a phase set (of an unrelated read cloud) *)
Theorem C10_list_agrees_with_tags_refuted :
  exists cfg samples a ps,
    snd (out_rec cfg (prepare cfg samples) a) = no_tags /\
    list_entry cfg (prepare cfg samples) a = (None, Some ps) /\
    list_entry_fixed cfg (prepare cfg samples) a = (None, None).
Proof. exact list_current_leak_refuted. Qed.
Print Assumptions C10_list_agrees_with_tags_refuted.

(* it agrees for every record listed with a haplotype *)
Theorem C10_list_agrees_when_tagged : forall (cfg : config) (st : pstate) (a : aln) (hp : Z),
  fst (list_entry cfg st a) = Some hp -> list_entry cfg st a = list_entry_fixed cfg st a.
Proof. exact list_current_tagged_agrees. Qed.
Print Assumptions C10_list_agrees_when_tagged.

(* repaired rule: the list is exactly (name, HP, PS, chromosome) of the written primary records *)
Theorem C10_list_repaired_consistent : forall (cfg : config) (st : pstate) (k : Z) (w : list aln),
  flat_map (list_rec list_entry_fixed cfg st k) w
  = map (fun t => (t, k)) (list_of_written (map (fun a => (a, snd (out_rec cfg st a))) w)).
Proof. exact list_fixed_consistent. Qed.
Print Assumptions C10_list_repaired_consistent.

(* ---- non-vacuity ------------------------------------------------------------------------------ *)
Definition x_cfg : config := mkCfg 2 true 100 true.
(* sample 0: phase sets 100 (positions 10, 20) and 200 (positions 30, 40); sample 1: phase set 300 *)
Definition x_rows0 : list vrow :=
  [(10, false, Some (100, [0; 1])); (20, false, Some (100, [1; 0])); (25, true, None);
   (30, false, Some (200, [0; 1])); (40, false, Some (200, [0; 1]))].
Definition x_reads0 : list read :=
  [mkRead 1 0 None [(10, 0, 30); (20, 1, 20); (30, 1, 10)];      (* PS 100: 50 vs 0 -> H1, margin 50 *)
   mkRead 2 5 None [(10, 0, 30); (20, 0, 30)];                   (* tie 30 : 30 -> untagged *)
   mkRead 3 8 (Some 7) [(30, 1, 25)];                            (* BX group with read 4 *)
   mkRead 4 60 (Some 7) [(40, 1, 5); (30, 0, 10)]].
Definition x_rows1 : list vrow := [(10, false, Some (300, [1; 0]))].
Definition x_reads1 : list read := [mkRead 5 2 None [(10, 1, 9)]].
Definition x_samples : list sample_in := [(x_rows0, x_reads0); (x_rows1, x_reads1)].
Definition x_alns : list aln :=
  [mkAln 101 1 0 50 false false false None (Some 2, Some 9, Some 9);      (* stale tags are replaced *)
   mkAln 102 2 5 55 false false false None (Some 1, None, None);          (* tie: stale HP removed *)
   mkAln 103 3 8 40 false false false (Some 7) no_tags;
   mkAln 104 4 60 90 false false false (Some 7) no_tags;
   mkAln 105 9 70 95 false false false (Some 7) no_tags;                  (* no variants: BX fall back *)
   mkAln 106 9 400 450 false false false (Some 7) no_tags;                (* beyond the cut-off *)
   mkAln 107 1 300 320 false false true None no_tags;                     (* supplementary of read 1 *)
   mkAln 108 1 0 50 false true false None (Some 1, Some 1, Some 1);       (* secondary *)
   mkAln 109 5 2 30 false false false None no_tags].
Definition x_chroms : list chrom := [mkChrom x_samples x_alns].
Definition x_tail : list aln := [mkAln 110 8 (-1) 0 true false false None (Some 1, Some 77, None)].

Example C10_example_run :
  run_current x_cfg x_chroms None x_tail =
  Some [(101, (Some 1, Some 100, Some 50)); (102, no_tags);
        (103, (Some 2, Some 200, Some 20)); (104, (Some 2, Some 200, Some 20));
        (105, (Some 2, Some 200, None)); (106, no_tags);
        (107, (Some 1, Some 100, Some 50)); (108, no_tags);
        (109, (Some 1, Some 300, Some 9)); (110, (Some 1, Some 77, None))].
Proof. vm_compute. reflexivity. Qed.

Example C10_example_decision :
  decide (phaseinfo x_rows0) 2 [nth 0 x_reads0 (mkRead 0 0 None [])] = Some (0%nat, 50, 100) /\
  decide (phaseinfo x_rows0) 2 [nth 1 x_reads0 (mkRead 0 0 None [])] = None /\
  score_spec (phaseinfo x_rows0) [nth 1 x_reads0 (mkRead 0 0 None [])] 100 0 = 30 /\
  score_spec (phaseinfo x_rows0) [nth 1 x_reads0 (mkRead 0 0 None [])] 100 1 = 30.
Proof. vm_compute. repeat split. Qed.

(* hypotheses of the conservation theorems hold for this input; the spec predicates evaluate to true *)
Example C10_example_hypotheses :
  input_wf x_cfg x_chroms = true /\
  (forall c, In c x_chroms -> alns_ok (c_alns c)) /\
  conserved_spec x_chroms None x_tail
    (match run_current x_cfg x_chroms None x_tail with Some o => o | None => [] end) = true /\
  tags_ok_chrom x_cfg (nth 0 x_chroms (mkChrom [] [])) x_alns
    (map (out_rec x_cfg (prepare x_cfg x_samples)) x_alns) = true.
Proof.
  split; [vm_compute; reflexivity|]. split.
  - intros c [<-|[]] a Hin. cbn in Hin.
    repeat (destruct Hin as [<-|Hin]; [cbn; lia|]). destruct Hin.
  - split; vm_compute; reflexivity.
Qed.

(* the cloud rule applies to this input (barcode 7 of sample 0: reads 3 and 4 within the cut-off) *)
Example C10_example_cloud_rule :
  linked_tags_ok_chrom x_cfg (nth 0 x_chroms (mkChrom [] [])) x_alns
    (map (out_rec x_cfg (prepare x_cfg x_samples)) x_alns) = true /\
  clouds_separated x_cfg (bx_reads 7 x_reads0) = true /\
  length (cloud_of x_cfg (bx_reads 7 x_reads0) (nth 2 x_reads0 (mkRead 0 0 None []))) = 2%nat.
Proof. vm_compute. repeat split. Qed.

(* swap symmetry on this input: exchanging the haplotypes of phase set 200 flips exactly records 103-105 *)
Example C10_example_swap :
  out_of_plan x_cfg (map (fun x => (fst (fst x), swap_chrom [1; 0]%nat 200 (snd (fst x)), snd x)) (plan_none x_chroms))
  = [(101, (Some 1, Some 100, Some 50)); (102, no_tags);
     (103, (Some 1, Some 200, Some 20)); (104, (Some 1, Some 200, Some 20));
     (105, (Some 1, Some 200, None)); (106, no_tags);
     (107, (Some 1, Some 100, Some 50)); (108, no_tags); (109, (Some 1, Some 300, Some 9))]
  /\ Permutation [1; 0]%nat (seq 0 (ploidy x_cfg)).
Proof. split; [vm_compute; reflexivity|]. cbn. apply perm_swap. Qed.

(* regions: hypotheses of the repaired-rule theorem hold for arbitrary (overlapping, unsorted, nested,
   open-ended) valid regions; here the current code duplicates, the repaired code conserves *)
Example C10_example_regions :
  let l := [(0, (50, Some 100)); (0, (0, Some 60)); (0, (55, None))] in
  regs_valid (map snd l) /\
  option_map (map fst) (run_fixed x_cfg x_chroms (Some l) []) = Some (expected_ids x_chroms (Some l) []) /\
  option_map (map fst) (run_current x_cfg x_chroms (Some l) []) <> Some (expected_ids x_chroms (Some l) []).
Proof.
  cbn zeta. split.
  - intros r Hin. cbn in Hin. destruct Hin as [<-|[<-|[<-|[]]]]; unfold reg_valid; cbn; lia.
  - split; [vm_compute; reflexivity|]. intros H. vm_compute in H. discriminate H.
Qed.
