(* C08 — genotyping reports the exact posterior of its HMM; GT, GL and GQ agree.
   This file contains only the property theorems (each closed by `exact`), their assumption printouts and
   non-vacuity examples.

   What is proved about what.  model/GenotypeHMM.v is polymorphic in the number type; the theorems below
   instantiate it with an arbitrary mathcomp fieldType K (e.g. rat: exact rational arithmetic with Leibniz
   equality).  fb_run is the faithful model of GenotypeDPTable: emission products per partition, normalised
   transmission / allele-assignment factors, scaled backward pass with sqrt check-pointing of the projection
   columns, scaled forward pass with re-computation of dropped columns, marginalisation and normalisation.
   It returns None if a scaling sum / normalisation is zero or a missing column is dereferenced.
   posterior_spec is the plain brute-force posterior: sums of path_weight over all global read bipartitions
   (bitvecs), all transmission paths and all allele-assignment paths (seqs hmm_states), normalised.
   The theorems hold for every pedigree the model accepts (single individuals, trios, quartets, ...),
   every read matrix with gaps, every prior, recombination probability and error-probability table.
   Scaling independence is part of C08_posterior_exact: the right-hand side contains no scaling. *)
From Coq Require Import ZArith QArith.
From mathcomp Require Import all_ssreflect all_algebra.
From WH.Model Require Import GenotypeHMM GenotypeCall.
From WH.Proofs Require Import GenotypeHMMInstance GenotypeHMMSpecs GenotypeCallProofs.
Set Implicit Arguments.
Unset Strict Implicit.
Unset Printing Implicit Defensive.
Close Scope Q_scope.
Local Open Scope ring_scope.

(* ---------------------------------------------------------------- the likelihoods are the posterior *)
Theorem C08_posterior_exact :
  forall (K : fieldType) (I : inst K) (out : seq (seq (seq K))),
    wf I ->
    @fb_run K 0 1 +%R (fun x y => x - y) *%R (fun x y => x / y) (fun x => x == 0) I = Some out ->
    size out = size (i_cols I) /\
    forall c ind g, (c < size (i_cols I))%N -> (ind < p_nind (i_ped I))%N -> (g < 3)%N ->
      nth 0 (nth [::] (nth [::] out c) ind) g
      = @posterior_spec K 0 1 +%R (fun x y => x - y) *%R (fun x y => x / y) I c ind g.
Proof. exact posterior_exact. Qed.
Print Assumptions C08_posterior_exact.

(* the same for every check-pointing stride k >= 1 (GenotypeDPTable uses k = floor(sqrt(#columns))) ... *)
Theorem C08_posterior_exact_any_stride :
  forall (K : fieldType) (I : inst K) (k : nat) (out : seq (seq (seq K))),
    wf I -> (0 < k)%N ->
    @fb_run_k K 0 1 +%R (fun x y => x - y) *%R (fun x y => x / y) (fun x => x == 0) k I = Some out ->
    size out = size (i_cols I) /\
    forall c ind g, (c < size (i_cols I))%N -> (ind < p_nind (i_ped I))%N -> (g < 3)%N ->
      nth 0 (nth [::] (nth [::] out c) ind) g
      = @posterior_spec K 0 1 +%R (fun x y => x - y) *%R (fun x y => x / y) I c ind g.
Proof. exact posterior_exact_k. Qed.
Print Assumptions C08_posterior_exact_any_stride.

(* ... hence the result does not depend on how (which) columns are stored *)
Theorem C08_storage_independent :
  forall (K : fieldType) (I : inst K) (k1 k2 : nat) (out1 out2 : seq (seq (seq K))) c ind g,
    wf I -> (0 < k1)%N -> (0 < k2)%N ->
    @fb_run_k K 0 1 +%R (fun x y => x - y) *%R (fun x y => x / y) (fun x => x == 0) k1 I = Some out1 ->
    @fb_run_k K 0 1 +%R (fun x y => x - y) *%R (fun x y => x / y) (fun x => x == 0) k2 I = Some out2 ->
    (c < size (i_cols I))%N -> (ind < p_nind (i_ped I))%N -> (g < 3)%N ->
    nth 0 (nth [::] (nth [::] out1 c) ind) g = nth 0 (nth [::] (nth [::] out2 c) ind) g.
Proof. exact storage_independent. Qed.
Print Assumptions C08_storage_independent.

(* the three likelihoods of an individual at a column sum to one *)
Theorem C08_gl_sums_to_one :
  forall (K : fieldType) (I : inst K) (out : seq (seq (seq K))) c ind,
    wf I ->
    @fb_run K 0 1 +%R (fun x y => x - y) *%R (fun x y => x / y) (fun x => x == 0) I = Some out ->
    (c < size (i_cols I))%N -> (ind < p_nind (i_ped I))%N ->
    \sum_(g <- iota 0 3) nth 0 (nth [::] (nth [::] out c) ind) g = 1.
Proof. exact gl_sums_to_one. Qed.
Print Assumptions C08_gl_sums_to_one.

(* the two evaluable forms of the specification that the correspondence check computes (local factors taken
   from the model's memo tables; the chain over (transmission, assignment) summed by its own recursion for
   each fixed bipartition) are the specification *)
Theorem C08_spec_variants :
  forall (K : fieldType) (I : inst K) c ind g,
    wf I -> (c < size (i_cols I))%N -> (ind < p_nind (i_ped I))%N ->
    @posterior_spec_memo K 0 1 +%R (fun x y => x - y) *%R (fun x y => x / y) I c ind g
      = @posterior_spec K 0 1 +%R (fun x y => x - y) *%R (fun x y => x / y) I c ind g /\
    @posterior_chain_memo K 0 1 +%R (fun x y => x - y) *%R (fun x y => x / y) I c ind g
      = @posterior_spec K 0 1 +%R (fun x y => x - y) *%R (fun x y => x / y) I c ind g.
Proof.
exact (fun K I c ind g hwf hc hind =>
         conj (@posterior_spec_memo_eq K I c ind g hwf hc hind) (@posterior_chain_memo_eq K I c ind g hwf hc hind)).
Qed.
Print Assumptions C08_spec_variants.

(* the chain form evaluated directly over the specification columns (no memo tables; used by the correspondence
   check for columns with 2^9..2^13 bipartitions) is the specification, for every instance *)
Theorem C08_chain_form :
  forall (K : fieldType) (I : inst K) c ind g,
    (c < size (i_cols I))%N ->
    @posterior_chain_gen K 0 1 +%R *%R (fun x y => x / y) (ntrans (i_ped I)) (nassign (i_ped I)) (geno (i_ped I))
       (@spec_cols K 0 1 +%R (fun x y => x - y) *%R (fun x y => x / y) I) c ind g
    = @posterior_spec K 0 1 +%R (fun x y => x - y) *%R (fun x y => x / y) I c ind g /\
    @posterior_chain_col K 0 1 +%R *%R (fun x y => x / y) (ntrans (i_ped I)) (nassign (i_ped I)) (geno (i_ped I))
       (@spec_cols K 0 1 +%R (fun x y => x - y) *%R (fun x y => x / y) I) c ind g
    = @posterior_spec K 0 1 +%R (fun x y => x - y) *%R (fun x y => x / y) I c ind g.
Proof.
exact (fun K I c ind g hc =>
         let hc' := eq_ind_r (fun n => (c < n)%N) hc (size_map _ (i_cols I)) in
         conj (@posterior_chain_gen_eq K (i_ped I) (geno (i_ped I)) _ c ind g hc')
              (etrans (@posterior_chain_col_eq K (i_ped I) (geno (i_ped I)) _ c ind g hc')
                      (@posterior_chain_gen_eq K (i_ped I) (geno (i_ped I)) _ c ind g hc'))).
Qed.
Print Assumptions C08_chain_form.

(* non-vacuity: a single individual (one read over two columns) and a trio (one read of the child), exact
   rational arithmetic: the instances are well-formed and the run succeeds *)
Definition C08_q (a b : nat) : rat := a%:R / b%:R.
Definition C08_ex_single : inst rat :=
  Inst (Ped 1 [::])
    [:: Column [:: Entry 0 0 (Some true) (C08_q 1 10)] [:: [:: C08_q 1 4; C08_q 1 2; C08_q 1 4]] (C08_q 1 10);
        Column [:: Entry 0 0 (Some false) (C08_q 1 10)] [:: [:: C08_q 1 4; C08_q 1 2; C08_q 1 4]] (C08_q 1 10)].
Example C08_ex_single_runs :
  wf C08_ex_single /\
  exists out, @fb_run rat 0 1 +%R (fun x y => x - y) *%R (fun x y => x / y) (fun x => x == 0) C08_ex_single
              = Some out.
Proof. by split; [vm_compute | eexists; vm_compute; reflexivity]. Qed.

(* a trio (father 0, mother 1, child 2) with one read of the child: a well-formed pedigree instance (its run
   succeeds as well: evaluated with BigQ by the correspondence check; rat is too slow for it) *)
Definition C08_ex_trio : inst rat :=
  let pri := [:: [:: C08_q 1 4; C08_q 1 2; C08_q 1 4]; [:: C08_q 1 4; C08_q 1 2; C08_q 1 4];
                 [:: C08_q 1 4; C08_q 1 2; C08_q 1 4]] in
  Inst (Ped 3 [:: (0, 1, 2)%N])
    [:: Column [:: Entry 0 2 (Some true) (C08_q 1 10)] pri (C08_q 1 10);
        Column [:: Entry 0 2 (Some false) (C08_q 1 10)] pri (C08_q 1 10)].
Example C08_ex_trio_wf : wf C08_ex_trio.
Proof. by vm_compute. Qed.

(* ---------------------------------------------------------------- GT, GQ from the likelihoods *)
Local Close Scope ring_scope.
(* (mathcomp binds the scope key %Q to rat; the stdlib rationals are written with Qlt / Qeq / Qmake here) *)

(* determine_genotype returns g exactly when g is the unique maximum and exceeds the threshold ... *)
Theorem C08_gt_is_unique_max_above_threshold :
  forall (l0 l1 l2 thr : QArith_base.Q) (g : nat),
    determine_genotype l0 l1 l2 thr = Some g <->
    ((g < 3)%coq_nat /\ Qlt thr (nthq (l0 :: l1 :: l2 :: nil) g) /\
     forall h, (h < 3)%coq_nat -> h <> g ->
       Qlt (nthq (l0 :: l1 :: l2 :: nil) h) (nthq (l0 :: l1 :: l2 :: nil) g)).
Proof.
exact (fun l0 l1 l2 thr g =>
         conj (@determine_genotype_some l0 l1 l2 thr g) (@determine_genotype_complete l0 l1 l2 thr g)).
Qed.
Print Assumptions C08_gt_is_unique_max_above_threshold.

(* ... and the "none" genotype (./.) exactly when there is no such g *)
Theorem C08_gt_none_otherwise :
  forall (l0 l1 l2 thr : QArith_base.Q),
    determine_genotype l0 l1 l2 thr = None <->
    (forall g, ~ unique_max_above (l0 :: l1 :: l2 :: nil) thr g).
Proof. exact determine_genotype_none. Qed.
Print Assumptions C08_gt_none_otherwise.

(* the mass entering GQ is the mass of the other genotypes: 1 - likelihood of the called genotype *)
Theorem C08_gq_is_other_mass :
  forall (l0 l1 l2 : QArith_base.Q) (g : nat), (g < 3)%coq_nat ->
    Qeq (sumq (l0 :: l1 :: l2 :: nil)) (Qmake 1 1) ->
    Qeq (other_mass (l0 :: l1 :: l2 :: nil) g) (Qminus (Qmake 1 1) (nthq (l0 :: l1 :: l2 :: nil) g)).
Proof. exact gq_is_other_mass. Qed.
Print Assumptions C08_gq_is_other_mass.

(* the integer accepted by the phred rounding rule is determined up to the tie between neighbours *)
Theorem C08_gq_rounding_unique :
  forall (m : QArith_base.Q) (n1 n2 : Z), Qlt (Qmake 0 1) m ->
    phred_round m n1 = true -> phred_round m n2 = true -> Z.le (Z.abs (Z.sub n1 n2)) 1.
Proof. exact phred_round_unique. Qed.
Print Assumptions C08_gq_rounding_unique.

Example C08_ex_calls :
  determine_genotype (Qmake 1 4) (Qmake 1 2) (Qmake 1 4) (Qmake 0 1) = Some 1%N /\
  determine_genotype (Qmake 3 8) (Qmake 3 8) (Qmake 1 4) (Qmake 0 1) = None /\
  determine_genotype (Qmake 1 4) (Qmake 1 2) (Qmake 1 4) (Qmake 1 2) = None /\
  gq_rule (Qmake 2747 10000) 6 = true /\ gq_rule (Qmake 2747 10000) 5 = false.
Proof. by vm_compute. Qed.
