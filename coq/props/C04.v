(* C04 — the phased VCF is the input VCF plus phase information and nothing else.
   Theorems about the executable model coq/model/VcfRecord.v of PhasedVcfWriter / VcfAugmenter
   (whatshap/vcf.py); the model is tied to the code by harness/props/C04.py.  Everything is stated for
   an arbitrary input file (list of abstract records), an arbitrary configuration and an arbitrary
   sequence of write() calls (`plan`) that follows the chromosome runs of the input, as run_whatshap
   produces it.  `fix_rules` is the model of the code as it is; `orig_rules` the code before the repairs
   9ec9805 / 3231061 (kept because the C09 refutation witnesses refer to it); the general theorems hold for both. *)
From Coq Require Import ZArith List Bool Arith.
From WH.Model Require Import VcfRecord.
From WH.Proofs Require Import VcfRecordProofs.
Import ListNotations.
Open Scope Z_scope.

(* --- write_stream_conserves ------------------------------------------------------------------ *)

(* Full statement (DESIGN): same records, same order, identical CHROM POS ID REF ALT QUAL FILTER INFO,
   same number of sample columns. *)
Definition C04_write_stream_conserves_full_statement : Prop :=
  forall cf ru plan input out,
    map fst plan = runs input -> phase_writer cf ru plan input = Ok out ->
    conserves fixed_eqb input out = true.

(* The current code refutes it: pysam's VariantFile.write re-synchronises INFO/END (a record with a
   symbolic ALT and no END gets END=POS+len(REF)-1 appended). Witness: one such record, nothing phased. *)
Theorem C04_write_stream_conserves_refuted :
  exists cf plan input out,
    map fst plan = runs input /\ phase_writer cf fix_rules plan input = Ok out /\
    conserves fixed_eqb input out = false.
Proof.
  exists (mkCfg TagPS false false true), [(7, [])],
         [mkRec 7 99 [1;2;3;4;5] [(11, 12)] 1 [5] true false [mkCall (Some [Some 0%nat; Some 0%nat]) false None None None []]].
  eexists. split; [reflexivity|]. split; [vm_compute; reflexivity|]. vm_compute. reflexivity.
Qed.
Print Assumptions C04_write_stream_conserves_refuted.

(* What does hold for every input: the stream logic (one carried `_unprocessed_record`) delivers
   every record exactly once and in order, and everything but the END key of INFO is identical. *)
Theorem C04_write_stream_conserves_mod_end :
  forall cf ru plan input out,
    map fst plan = runs input -> phase_writer cf ru plan input = Ok out ->
    conserves fixed_mod_end_eqb input out = true.
Proof. exact write_stream_conserves_mod_end. Qed.
Print Assumptions C04_write_stream_conserves_mod_end.

(* ... and the full identity for files whose records need no END re-synchronisation
   (no symbolic ALT without END; no END that is undeclared or equals POS+len(REF)-1 on a plain record). *)
Theorem C04_write_stream_conserves_stable :
  forall cf ru plan input out,
    map fst plan = runs input -> phase_writer cf ru plan input = Ok out ->
    forallb (end_stable (end_decl cf)) input = true ->
    conserves fixed_eqb input out = true.
Proof. exact write_stream_conserves_stable. Qed.
Print Assumptions C04_write_stream_conserves_stable.

(* The writer cannot fail in the stream logic (no AssertionError): its only error is the KeyError of
   call["GT"] on a processed record without GT key. *)
Theorem C04_writer_error_is_keyerror :
  forall cf ru plan input e,
    map fst plan = runs input -> phase_writer cf ru plan input = Err e -> e = EKey.
Proof. exact writer_error_is_keyerror. Qed.
Print Assumptions C04_writer_error_is_keyerror.

(* --- write_frames ------------------------------------------------------------------------------ *)
(* the boolean frame predicate the check evaluates on (input, real output): a call of a non-target sample,
   and every call of a write() without targets (non-selected chromosome), is unchanged; in a target call
   every FORMAT value other than the phase encoding (GT, PS, HP, PQ) is unchanged and GT stays present. *)
Theorem C04_write_frames :
  forall cf ru plan input out,
    ru = orig_rules \/ ru = fix_rules ->
    Forall (fun e => NoDup (map t_sample (snd e))) plan ->
    map fst plan = runs input -> phase_writer cf ru plan input = Ok out ->
    frames (annotate plan input) out = true.
Proof.
  intros cf ru plan input out [-> | ->]; [apply write_frames; exact orig_rules_ok|apply write_frames; exact fix_rules_ok].
Qed.
Print Assumptions C04_write_frames.

(* the code as it is, field by field: in a target call only the phase encoding changes -- GT (separator
   and order; the alleles only in the genotype-change branch, see C04_alleles_preserved), PS, HP, PQ.
   Every other FORMAT field is unchanged; PQ is cleared; the key of the other encoding is cleared (PS under
   --tag HP; HP under --tag PS: '.' if the record has the key).  Calls of non-target samples and all calls
   of a write() without targets (non-selected chromosome) are identical. *)
Theorem C04_write_frames_fields :
  forall cf plan input out,
    Forall (fun e => NoDup (map t_sample (snd e))) plan ->
    map fst plan = runs input -> phase_writer cf fix_rules plan input = Ok out ->
    Forall2 (fun a o =>
       length (calls o) = length (calls (fst a)) /\
       (snd a = [] -> calls o = calls (fst a) /\ ps_key o = ps_key (fst a)) /\
       forall i c c', nth_error (calls (fst a)) i = Some c -> nth_error (calls o) i = Some c' ->
         (is_target (snd a) i = false -> c' = c) /\
         (is_target (snd a) i = true ->
            other c' = other c /\ (gt c' = None <-> gt c = None) /\ pq c' = None /\
            (tag cf = TagPS -> hp c' = None \/ hp c' = Some [HPdot]) /\
            (tag cf = TagHP -> ps c' = None)))
      (annotate plan input) out.
Proof. exact write_frames_fix. Qed.
Print Assumptions C04_write_frames_fields.

(* the code before the repair 9ec9805 left PQ and the key of the other encoding in place *)
Theorem C04_write_frames_fields_original_code :
  forall cf plan input out,
    Forall (fun e => NoDup (map t_sample (snd e))) plan ->
    map fst plan = runs input -> phase_writer cf orig_rules plan input = Ok out ->
    Forall2 (fun a o =>
       length (calls o) = length (calls (fst a)) /\
       (snd a = [] -> calls o = calls (fst a) /\ ps_key o = ps_key (fst a)) /\
       forall i c c', nth_error (calls (fst a)) i = Some c -> nth_error (calls o) i = Some c' ->
         (is_target (snd a) i = false -> c' = c) /\
         other c' = other c /\ pq c' = pq c /\
         (tag cf = TagPS -> hp c' = hp c) /\ (tag cf = TagHP -> ps c' = ps c))
      (annotate plan input) out.
Proof. exact write_frames_cur. Qed.
Print Assumptions C04_write_frames_fields_original_code.

(* --- alleles_preserved ------------------------------------------------------------------------ *)
(* Hypothesis (C01/C05's business, taken as given here): wherever a target has an allowed super-read
   column, its alleles are the multiset of the input genotype.  Then no genotype changes. *)
Theorem C04_alleles_preserved :
  forall cf ru plan input out,
    ru = orig_rules \/ ru = fix_rules ->
    Forall (fun e => NoDup (map t_sample (snd e))) plan ->
    map fst plan = runs input -> phase_writer cf ru plan input = Ok out ->
    superreads_agree cf (annotate plan input) = true ->
    alleles_kept input out = true.
Proof.
  intros cf ru plan input out [-> | ->]; [apply alleles_preserved; exact orig_rules_ok|apply alleles_preserved; exact fix_rules_ok].
Qed.
Print Assumptions C04_alleles_preserved.

(* --- only_het_supported_phased ---------------------------------------------------------------- *)
Theorem C04_only_het_supported_phased :
  forall cf ru plan input out,
    ru = orig_rules \/ ru = fix_rules ->
    Forall (fun e => NoDup (map t_sample (snd e))) plan ->
    map fst plan = runs input -> phase_writer cf ru plan input = Ok out ->
    only_het_supported cf (annotate plan input) out = true.
Proof.
  intros cf ru plan input out [-> | ->];
    [apply only_het_supported_phased; exact orig_rules_ok|apply only_het_supported_phased; exact fix_rules_ok].
Qed.
Print Assumptions C04_only_het_supported_phased.

(* with the record bookkeeping: a call that the run marks phased lies in a record that write() did not
   skip: it has ALT alleles, is bi-allelic (or mav), an SNV under only_snvs, is not at the position of
   the previously processed record, and is phased in the target's own components and super-reads *)
Theorem C04_only_het_supported_phased_records :
  forall cf ru plan input out,
    ru = orig_rules \/ ru = fix_rules ->
    Forall (fun e => NoDup (map t_sample (snd e))) plan ->
    map fst plan = runs input -> phase_writer cf ru plan input = Ok out ->
    Forall2 (fun a o => exists prev,
       forall i c c', nth_error (calls (fst a)) i = Some c -> nth_error (calls o) i = Some c' ->
         is_target (snd a) i = true -> newly_marked (tag cf) c c' = true ->
         skip cf (snd a) prev (fst a) = None /\ het_call c' = true /\
         exists t, target_of (snd a) i = Some t /\ phased_in cf (pos (fst a)) t = true)
      (annotate plan input) out.
Proof.
  intros cf ru plan input out [-> | ->];
    [apply only_het_supported_phased_records; exact orig_rules_ok
    |apply only_het_supported_phased_records; exact fix_rules_ok].
Qed.
Print Assumptions C04_only_het_supported_phased_records.

(* --- header_superset -------------------------------------------------------------------------- *)
Theorem C04_header_superset :
  forall predef_f predef_i tg cmd u hin hout,
    out_header predef_f predef_i tg cmd u hin = HOk hout -> header_superset hin hout = true.
Proof. exact header_superset_holds. Qed.
Print Assumptions C04_header_superset.

(* --- non-vacuity ------------------------------------------------------------------------------- *)
(* two chromosomes, two samples; S1 (column 0) is phased on chromosome 7 (positions 10 and 30 in one
   component, 1|0 and 0|1), the multi-ALT record at 20 and chromosome 8 are left alone *)
Definition ex_call (a b : nat) (ph : bool) : call := mkCall (Some [Some a; Some b]) ph None None None [(21, 22)].
Definition ex_input : list vrec :=
  [ mkRec 7 10 [1;2;3;4;5] [] 1 [1] false false [ex_call 0 1 false; ex_call 1 0 true];
    mkRec 7 20 [1;2;3;4;5] [] 1 [1;1] false false [ex_call 1 2 true; ex_call 0 1 false];
    mkRec 7 30 [1;2;3;4;5] [(K_END, 44)] 1 [5] true false [ex_call 1 0 false; ex_call 0 1 false];
    mkRec 8 10 [1;2;3;4;5] [] 1 [1] false false [ex_call 0 1 true; ex_call 1 1 false] ].
Definition ex_plan : list (token * list target) :=
  [ (7, [mkTarget 0 [(10, [1;0]%nat); (30, [0;1]%nat)] [(10, 10); (30, 10)]]); (8, []) ].
Definition ex_cf := mkCfg TagPS false false true.

Example C04_example_hypotheses :
  map fst ex_plan = runs ex_input /\
  Forall (fun e => NoDup (map t_sample (snd e))) ex_plan /\
  superreads_agree ex_cf (annotate ex_plan ex_input) = true /\
  forallb (end_stable (end_decl ex_cf)) ex_input = true.
Proof.
  split; [reflexivity|]. split.
  - repeat constructor; cbn; intuition.
  - split; vm_compute; reflexivity.
Qed.

Example C04_example_output :
  phase_writer ex_cf fix_rules ex_plan ex_input = Ok
  [ mkRec 7 10 [1;2;3;4;5] [] 1 [1] false true
      [mkCall (Some [Some 1; Some 0]%nat) true (Some 11) None None [(21, 22)]; ex_call 1 0 true];
    mkRec 7 20 [1;2;3;4;5] [] 1 [1;1] false false
      [mkCall (Some [Some 1; Some 2]%nat) false None None None [(21, 22)]; ex_call 0 1 false];
    mkRec 7 30 [1;2;3;4;5] [(K_END, 44)] 1 [5] true true
      [mkCall (Some [Some 0; Some 1]%nat) true (Some 11) None None [(21, 22)]; ex_call 0 1 false];
    mkRec 8 10 [1;2;3;4;5] [] 1 [1] false false [ex_call 0 1 true; ex_call 1 1 false] ].
Proof. vm_compute. reflexivity. Qed.

(* a header with a ##phasing line, a missing (predefined) FORMAT and INFO definition and a missing contig *)
Example C04_example_header :
  out_header [4; 5; 6] [0] TagHP (Some 99)
             (mkUse [31; 32] [6; 40] [0; 41])
             (mkHeader [31] [41] [50] [40] [(60, 61); (K_phasing, 62); (63, 64)] [70; 71])
  = HOk (mkHeader [31; 32] [41; 0] [50; F_PASS] [40; 6; F_HP] [(60, 61); (63, 64); (K_commandline, 99)] [70; 71]).
Proof. vm_compute. reflexivity. Qed.
