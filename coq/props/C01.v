(* C01 — the exact solver returns a minimum-cost (Ped)MEC solution with a matching witness.
   Only the property theorems (each closed by `exact`), their assumption printouts and
   non-vacuity examples. Model: model/PedMEC.v; proofs: proofs/PedMECProofs.v (on top of the generic
   semiring column-DP theorem proofs/SemiringDP.v in the (min,+) semiring proofs/Tropical.v). *)
From mathcomp Require Import all_ssreflect.
From WH.Model Require Import PedMEC.
From WH.Proofs Require Import PedMECProofs PedMECWitness PedMECBounds.

(* The instance used in the non-vacuity examples: a trio (father 0, mother 1, child 2), five
   columns, reads with interior gaps and different weights, trusted genotypes, non-zero
   recombination costs; the last column is covered by one read only. *)
Definition ex_trio : inst :=
  MkInst
    [:: MkRead 0 0 [:: Some (true, 3); Some (false, 2); None; Some (true, 1)];
        MkRead 1 0 [:: Some (false, 3); None; Some (true, 2)];
        MkRead 2 1 [:: Some (true, 3); Some (false, 2); Some (true, 5)];
        MkRead 2 2 [:: Some (true, 4); Some (false, 2); Some (false, 1)]]
    5 3 [:: (0, 1, 2)]
    [:: [:: GT 1; GT 1; GT 1]; [:: GT 1; GT 0; GT 1]; [:: GT 1; GT 1; GT 1]; [:: GT 1; GT 1; GT 2];
        [:: GT 0; GT 0; GT 0]]
    [:: 3; 1; 0; 2; 3].
(* the same reads in distrust mode (phred triples instead of genotypes) *)
Definition ex_trio_gl : inst :=
  MkInst (i_reads ex_trio) 5 3 [:: (0, 1, 2)]
    [:: [:: GL 0 3 9; GL 5 0 5; GL 2 0 7]; [:: GL 0 0 0; GL 0 4 8; GL 6 0 1]; [:: GL 3 0 3; GL 1 1 0; GL 0 2 2];
        [:: GL 9 0 9; GL 0 0 4; GL 7 3 0]; [:: GL 0 6 6; GL 0 5 5; GL 0 1 9]]
    [:: 3; 1; 0; 2; 3].

(* --- 1. the reported cost is the PedMEC optimum ------------------------------------------------

   For every well-formed instance (any number of reads, columns, individuals and trios, all weights,
   trusted genotypes or phred triples, every recombination vector) on which the solver does not raise
   "Mendelian conflict", the column DP with projection tables (dp_cost: the model of
   PedigreeDPTable::compute_table/compute_column) returns the minimum, over ALL bipartitions beta of
   the reads and ALL transmission vectors tau, of the PedMEC objective
       cost_of beta tau = sum over columns c of
                            [c > 0] popcount(tau_(c-1) xor tau_c) * recomb_c
                          + min over admissible allele assignments of column c of
                              (genotype cost + weight of the entries that disagree).
   no_overflow is the 32-bit guard: the model computes in nat + infinity, the code in unsigned int
   with UINT_MAX as infinity; outside the guard nothing is claimed (the guard is not used by the proof
   about the model). *)
Theorem C01_dp_cost_optimal : forall I : inst,
  wf I -> no_conflict I -> no_overflow I ->
  dp_cost I =
  Cost (ominl [seq ominl [seq cost_of I beta tau | tau <- tuples (nT I) (i_ncols I)]
              | beta <- bvs (nreads I)]).
Proof. move=> I hwf hnc _; exact: (dp_cost_optimal hwf hnc). Qed.
Print Assumptions C01_dp_cost_optimal.

(* what the objective is, spelled out (all three hold by unfolding) *)
Theorem C01_objective_unfold : forall (I : inst) (beta : seq bool) (tau : seq nat) (c : nat),
  opt_spec I = ominl [seq ominl [seq cost_of I beta tau | tau <- tuples (nT I) (i_ncols I)]
                     | beta <- bvs (nreads I)] /\
  cost_of I beta tau = oaddl [seq term I beta tau c | c <- iota 0 (i_ncols I)] /\
  term I beta tau c =
    oadd (Some (if c is c'.+1 then hamming (2 * ntrios I) (nth 0 tau c) (nth 0 tau c') * recomb I c else 0))
         (local_cost I c (restrict (active I c) beta) (nth 0 tau c)).
Proof. by []. Qed.
Print Assumptions C01_objective_unfold.

(* local_cost c x t is the minimum over the allele assignments a (one allele per founder haplotype)
   that the genotypes admit (allowed: the genotype cost g is 0 for a matching trusted genotype, the
   sum of the phred entries in distrust mode) of g + flip cost: a lower bound of all, attained by one *)
Theorem C01_local_cost_is_min : forall (I : inst) (c : nat) (x : seq bool) (t : nat),
  (forall a g, (a, g) \in allowed I c t ->
     ole (local_cost I c x t) (Some (g + flip_cost (h2p_map I t) (colents I c) x a))) /\
  (forall v, local_cost I c x t = Some v ->
     exists a g, (a, g) \in allowed I c t /\ v = g + flip_cost (h2p_map I t) (colents I c) x a) /\
  (forall a g, (a, g) \in allowed I c t <->
     a \in assignments I /\ geno_cost I (h2p_map I t) (nth [::] (i_geno I) c) a = Some g).
Proof.
move=> I c x t; split; first exact: local_cost_lower.
split; [exact: local_cost_attained | exact: allowedP].
Qed.
Print Assumptions C01_local_cost_is_min.

(* without a Mendelian conflict the optimum is finite and attained by some witness *)
Theorem C01_opt_finite_attained : forall I : inst, no_conflict I ->
  exists v beta tau,
    [/\ opt_spec I = Some v, size beta = nreads I, size tau = i_ncols I,
        all (fun t => t < nT I) tau & cost_of I beta tau = Some v].
Proof.
move=> I /opt_finite[v hv]; case: (opt_attained hv) => beta [tau [h1 h2 h3 h4]].
by exists v, beta, tau; split.
Qed.
Print Assumptions C01_opt_finite_attained.

(* With a Mendelian conflict (some column admits no allele assignment under any transmission value)
   the solver raises, and indeed no bipartition / transmission vector has finite cost. Together with
   C01_dp_cost_optimal this characterises the outcome of every well-formed instance. *)
Theorem C01_conflict_reported : forall I : inst,
  ~~ no_conflict I -> dp_cost I = Conflict /\ opt_spec I = None.
Proof. exact conflict_reported. Qed.
Print Assumptions C01_conflict_reported.

(* --- 2. witnesses ---------------------------------------------------------------------------- *)

(* Every bipartition of the reads and every transmission vector costs at least the optimum: a
   returned witness whose cost_of equals the reported cost is therefore an optimal one. *)
Theorem C01_witness_cost : forall (I : inst) (beta : seq bool) (tau : seq nat),
  size beta = nreads I -> size tau = i_ncols I -> all (fun t => t < nT I) tau ->
  ole (opt_spec I) (cost_of I beta tau).
Proof. exact witness_cost. Qed.
Print Assumptions C01_witness_cost.

(* Stage 2: the backtrace. dp_witness models the back-pointer tables of compute_column
   (index_backtrace_table = first bipartition in Gray-code order whose cell attains the forward
   projection minimum, transmission_backtrace_table = first transmission value attaining the cell's
   minimum), the optimum of the last column, the backtrace loop of compute_table and
   get_optimal_partitioning / the transmission vector of get_super_reads. For every well-formed instance
   without Mendelian conflict it returns a bipartition of all reads and one transmission value per
   column whose PedMEC objective is exactly the reported cost (hence, with C01_dp_cost_optimal, the
   optimum). Not modelled: WHEN columns are stored, dropped and recomputed (the sqrt(n) check-pointing);
   the model treats the tables of a column as a function of the column, which is what recomputation
   yields; the correspondence check compares the returned witness itself (L2 `l2_witness`, exact, incl.
   tie-breaking) on instances with k = floor(sqrt(n)) > 1. *)
Theorem C01_dp_witness_achieves : forall I : inst,
  wf I -> no_conflict I -> no_overflow I ->
  exists beta tau v,
    [/\ dp_witness I = Some (beta, tau), size beta = nreads I, size tau = i_ncols I,
        all (fun t => t < nT I) tau
      & [/\ cost_of I beta tau = Some v, dp_cost I = Cost (Some v) & opt_spec I = Some v]].
Proof. move=> I hwf hnc _; exact: (dp_witness_optimal hwf hnc). Qed.
Print Assumptions C01_dp_witness_achieves.

(* --- 3. alleles of the super reads ------------------------------------------------------------ *)

(* get_alleles c x t models PedigreeColumnCostComputer::get_alleles for column c, bipartition x of
   the active reads and transmission value t (incl. the `<=`-last-wins choice, the per-haplotype
   best-cost table, quality |best0 - best1| with (int)UINT_MAX = -1, code 3 = EQUAL_SCORES).
   Every allele it reports for individual i / haplotype h that is not the tie code agrees with
   EVERY cost-optimal allele assignment of that column. *)
Theorem C01_alleles_non_tie_forced :
  forall (I : inst) (c : nat) (x : seq bool) (t : nat) (v : seq (nat * nat * nat))
         (i : nat) (h : bool) (a : seq bool),
  get_alleles I c x t = Some v -> i < i_nind I ->
  (if h then (nth (0, 0, 0) v i).1.2 else (nth (0, 0, 0) v i).1.1) != 3 ->
  a \in optimal_assignments I c x t ->
  (if h then (nth (0, 0, 0) v i).1.2 else (nth (0, 0, 0) v i).1.1) =
  nat_of_bool (allele_of (h2p_map I t) a i h).
Proof. exact alleles_non_tie_forced. Qed.
Print Assumptions C01_alleles_non_tie_forced.

(* --- 4. the 32-bit guard --------------------------------------------------------------------- *)

(* The code computes in `unsigned int` with UINT_MAX as infinity (and casts to int in get_alleles);
   the model computes in nat + None. The theorems above are about the model; they speak about the code
   as long as no value the solver forms reaches 2^31 - 1. This theorem bounds every finite value of the
   forward pass of the model (current costs, projection columns, DP columns of every column) by
   total_bound I = sum over columns of (weights of the column's entries + largest genotype costs
   + 2 * #trios * recombination cost); no_overflow I is `total_bound I + 1 < 2^31`. The machine
   arithmetic itself is not modelled: outside no_overflow nothing is claimed. *)
Theorem C01_values_bounded : forall I : inst, wf I -> no_conflict I ->
  forall recs, dp_forward I (iota 0 (i_ncols I)) (prev0 I) = Some recs ->
  all (fun r => [&& table_le (total_bound I) (cr_lrows r), table_le (total_bound I) (cr_prev r)
                  & table_le (total_bound I) (cr_col r)]) recs.
Proof. exact values_bounded. Qed.
Print Assumptions C01_values_bounded.

(* --- 5. the evaluator used by the correspondence check ---------------------------------------- *)

(* opt_fast (shares the per-column cost computers between all (beta, tau)) is what Coq evaluates on
   the implementation's outputs for the brute-force comparison; it is the specification optimum. *)
Theorem C01_opt_fast_is_opt_spec : forall I : inst, opt_fast I = opt_spec I.
Proof. exact opt_fastE. Qed.
Print Assumptions C01_opt_fast_is_opt_spec.

(* --- non-vacuity ------------------------------------------------------------------------------ *)
Example C01_ex_trio_hyps : wf ex_trio && no_conflict ex_trio && no_overflow ex_trio.
Proof. by vm_compute. Qed.
Example C01_ex_trio_bound : total_bound ex_trio = 46 /\ total_bound ex_trio_gl = 127 /\
  isSome (dp_forward ex_trio (iota 0 5) (prev0 ex_trio)).
Proof. by vm_compute. Qed.
Example C01_ex_trio_cost : dp_cost ex_trio = Cost (Some 2) /\ opt_spec ex_trio = Some 2.
Proof. by vm_compute. Qed.
(* an optimal witness with a recombination event (transmission value changes 3 -> 0 at column 2,
   where the recombination cost is 0), and a non-optimal one *)
Example C01_ex_trio_witness :
  cost_of ex_trio [:: true; true; false; true] [:: 3; 3; 0; 0; 0] = Some 2 /\
  cost_of ex_trio [:: false; true; false; true] [:: 0; 0; 0; 0; 0] = Some 6.
Proof. by vm_compute. Qed.
Example C01_ex_trio_gl_hyps : wf ex_trio_gl && no_conflict ex_trio_gl && no_overflow ex_trio_gl.
Proof. by vm_compute. Qed.
Example C01_ex_trio_gl_cost : dp_cost ex_trio_gl = Cost (opt_spec ex_trio_gl) /\ opt_spec ex_trio_gl = Some 7.
Proof. by vm_compute. Qed.
(* alleles: column 3 of ex_trio at the optimal witness: the child is homozygous ALT (forced, quality from
   the excluded allele), the parents' alleles are forced by the reads *)
Example C01_ex_trio_alleles :
  get_alleles ex_trio 3 (restrict (active ex_trio 3) [:: true; true; false; true]) 0
  = Some [:: (0, 1, 3); (0, 1, 3); (1, 1, 3)] /\
  optimal_assignments ex_trio 3 (restrict (active ex_trio 3) [:: true; true; false; true]) 0
  = [:: [:: false; true; false; true]].
Proof. by vm_compute. Qed.
Example C01_ex_trio_backtrace :
  dp_witness ex_trio = Some ([:: true; true; false; true], [:: 3; 3; 0; 0; 0]) /\
  dp_witness ex_trio_gl = Some ([:: true; true; false; true], [:: 3; 3; 0; 0; 0]).
Proof. by vm_compute. Qed.
(* a Mendelian conflict is reported as such, and then no solution has finite cost *)
Example C01_ex_conflict :
  let I := MkInst [:: MkRead 2 0 [:: Some (true, 1); Some (false, 1)]] 2 3 [:: (0, 1, 2)]
                  [:: [:: GT 1; GT 1; GT 1]; [:: GT 0; GT 0; GT 2]] [:: 0; 0] in
  wf I && ~~ no_conflict I /\ dp_cost I = Conflict /\ opt_spec I = None.
Proof. by vm_compute. Qed.
