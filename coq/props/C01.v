(* C01 — the exact solver returns a minimum-cost (Ped)MEC solution with a matching witness.
   Only the property theorems (each closed by `exact`), their assumption printouts and
   non-vacuity examples. Model: model/PedMEC.v; proofs: proofs/PedMECProofs.v (on top of the generic
   semiring column-DP theorem proofs/SemiringDP.v in the (min,+) semiring proofs/Tropical.v). *)
From mathcomp Require Import all_ssreflect.
From WH.Model Require Import PedMEC.
From WH.Proofs Require Import PedMECProofs.

(* The instance used in the non-vacuity examples: a trio (father 0, mother 1, child 2), five
   columns, reads with interior gaps and different weights, trusted genotypes, non-zero
   recombination costs; the last column is covered by one read only. *)
Definition ex_trio : inst :=
  MkInst
    [:: MkRead 0 0 [:: Some (true, 3); Some (false, 2); None; Some (true, 1)];
        MkRead 1 0 [:: Some (false, 3); None; Some (true, 2)];
        MkRead 2 1 [:: Some (true, 3); Some (false, 2); Some (true, 5)];
        MkRead 2 2 [:: Some (true, 4); Some (false, 2); Some (false, 1)]]
    5 3 [:: (0, 1, 2)]
    [:: [:: GT 1; GT 1; GT 1]; [:: GT 1; GT 0; GT 1]; [:: GT 1; GT 1; GT 1]; [:: GT 1; GT 1; GT 2];
        [:: GT 0; GT 0; GT 0]]
    [:: 3; 1; 0; 2; 3].

(* Every bipartition of the reads and every transmission vector costs at least the brute-force
   optimum: a witness whose cost equals the reported (optimal) cost is therefore an optimal one. *)
Theorem C01_witness_cost : forall (I : inst) (beta : seq bool) (tau : seq nat),
  size beta = nreads I -> size tau = i_ncols I -> all (fun t => t < nT I) tau ->
  ole (opt_spec I) (cost_of I beta tau).
Proof. exact witness_cost. Qed.
Print Assumptions C01_witness_cost.

Example C01_ex_trio_wf : wf ex_trio && no_conflict ex_trio && no_overflow ex_trio.
Proof. by vm_compute. Qed.
Example C01_ex_trio_cost : dp_cost ex_trio = Cost (Some 2) /\ opt_spec ex_trio = Some 2.
Proof. by vm_compute. Qed.
