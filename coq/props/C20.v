(* C20 — the auxiliary reports of `whatshap phase` (read list, changed-genotype list, recombination list)
   cover the whole run and agree with the phased VCF.
   Only property theorems (closed by `exact`), their assumption printouts and non-vacuity examples.

   Model: WH.Model.AuxReports.  `run gt_rule rec_rule pos_rule opts ids vcf_samples chromosomes` is the run-level
   model of the three writers over the list of per-(chromosome, family) results; the two switches are
     wrule   PerCall = the file is opened with mode "w" by every call of the writer function (code before commit 1fd343a of
                       write_changed_genotypes / write_recombination_list),
             PerRun  = opened once before the main loop, header once (ReadList; the repair of F9),
     posrule ZeroBased = `position` column of the changed-genotype list is variant.position (code before commit a4e9ec3),
             OneBased  = position + 1 = VCF POS (the repair; what the other two lists print).
     emptyrule Strict = find_recombination asserts len(positions) == len(recombcost) also for a family without
                        accessible position, where both cost computers return [0] (code before commit 341691b: the run dies),
               EmptyOk = no event for such a family (the repair).
   run_phase = run PerRun PerRun OneBased EmptyOk is the code as it is (the correspondence check demands exactly
   this rule set); run_old = run PerCall PerCall ZeroBased Strict is the code before the three fix: commits and
   occurs only in the _refuted witnesses and in the characterisation of what it left behind. *)
From Coq Require Import ZArith List Bool Arith.
From WH.Model Require Import AuxReports.
From WH.Proofs Require Import AuxReportsProofs.
Import ListNotations.
Open Scope Z_scope.

(* ================================================================ lists_cover_run *)

(* Read list (under every rule of the other two writers): the final file is the header followed by the
   concatenation, over ALL processed (chromosome, family) instances in processing order, of what
   ReadList.write produces for that instance; the components passed to a call map the members of the
   family being processed to that family's components. *)
Theorem C20_read_list_covers_run : forall gr rr pr er o ids vs cs out,
  o_reads o = true -> run gr rr pr er o ids vs cs = Some out ->
  exists calls,
    Forall2 (fun ci es => exists sc, read_entries ids sc (snd ci) = Some es /\
               forall s, In s (map fst (inst_members (snd ci))) -> lookup s sc = Some (i_comps (snd ci)))
            (instances cs) calls /\
    out_reads out = Some (Header :: map Entry (concat calls)).
Proof. exact read_list_covers_run. Qed.
Print Assumptions C20_read_list_covers_run.

(* Repaired writer rule (file opened once per run): the recombination list is the header followed by the
   events of every processed (chromosome, family). *)
Theorem C20_recombination_list_covers_run_repaired : forall gr pr er o ids vs cs out,
  o_recs o = true -> run gr PerRun pr er o ids vs cs = Some out ->
  exists calls,
    Forall2 (fun ci es => inst_rec_entries er (c_name (fst ci)) (snd ci) = Some es) (instances cs) calls /\
    out_recs out = Some (Header :: map Entry (concat calls)).
Proof. exact recombination_list_covers_run_repaired. Qed.
Print Assumptions C20_recombination_list_covers_run_repaired.

(* Repaired writer rule: the changed-genotype list is the header followed by the changes of every
   processed chromosome. *)
Theorem C20_changed_genotype_list_covers_run_repaired : forall rr pr er o ids vs cs out,
  o_gts o = true -> run PerRun rr pr er o ids vs cs = Some out ->
  exists calls,
    Forall2 (fun c es => exists wr,
               write_records pr (c_name c) vs (targets_of (c_insts c)) None (c_records c) = Some wr /\
               es = concat (map fst wr))
            (filter c_selected cs) calls /\
    out_gts out = Some (Header :: map Entry (concat calls)).
Proof. exact changed_genotype_list_covers_run_repaired. Qed.
Print Assumptions C20_changed_genotype_list_covers_run_repaired.

(* Code before commit 1fd343a (finding F9): lists_cover_run is false for both overwritten lists.  Witness: a trio on two
   chromosomes with a recombination and a changed genotype on the first one (wit_cs); both files end up with
   the header only. *)
Theorem C20_lists_cover_run_refuted :
  exists o ids vs cs out,
    run_wf ids cs = true /\ run_old o ids vs cs = Some out /\
    ~ (exists calls,
         Forall2 (fun ci es => inst_rec_entries old_emptyrule (c_name (fst ci)) (snd ci) = Some es) (instances cs) calls /\
         out_recs out = Some (Header :: map Entry (concat calls))) /\
    ~ (exists calls,
         Forall2 (fun c es => exists wr,
                    write_records old_posrule (c_name c) vs (targets_of (c_insts c)) None (c_records c) = Some wr /\
                    es = concat (map fst wr))
                 (filter c_selected cs) calls /\
         out_gts out = Some (Header :: map Entry (concat calls))).
Proof. exact lists_cover_run_refuted. Qed.
Print Assumptions C20_lists_cover_run_refuted.

(* What the PerCall rule (code before commit 1fd343a) leaves behind, for every run: the entries of the LAST call only (no file at all if
   nothing was processed). *)
Theorem C20_recombination_list_current_last_only : forall gr pr er o ids vs cs out,
  o_recs o = true -> run gr PerCall pr er o ids vs cs = Some out ->
  exists calls,
    Forall2 (fun ci es => inst_rec_entries er (c_name (fst ci)) (snd ci) = Some es) (instances cs) calls /\
    out_recs out = match rev calls with [] => None | es :: _ => Some (Header :: map Entry es) end.
Proof. exact recombination_list_current_last_only. Qed.
Print Assumptions C20_recombination_list_current_last_only.

Theorem C20_changed_genotype_list_current_last_only : forall rr pr er o ids vs cs out,
  o_gts o = true -> run PerCall rr pr er o ids vs cs = Some out ->
  exists calls,
    Forall2 (fun c es => exists wr,
               write_records pr (c_name c) vs (targets_of (c_insts c)) None (c_records c) = Some wr /\
               es = concat (map fst wr))
            (filter c_selected cs) calls /\
    out_gts out = match rev calls with [] => None | es :: _ => Some (Header :: map Entry es) end.
Proof. exact changed_genotype_list_current_last_only. Qed.
Print Assumptions C20_changed_genotype_list_current_last_only.

(* ================================================================ read_list_entries *)
(* Every line of the read list is a selected read r of a processed (chromosome, family) instance i, with the
   haplotype h the partitioning assigns to it, the sample it belongs to (a member of that family), its number
   of variants, first and last variant position (1-based), and phase set = component of its first variant + 1. *)
Theorem C20_read_list_entries : forall gr rr pr er o ids vs cs out lines e,
  run gr rr pr er o ids vs cs = Some out -> run_wf ids cs = true ->
  out_reads out = Some lines -> In (Entry e) lines ->
  exists c i r h v0 rest b,
    In c cs /\ c_selected c = true /\ In i (c_insts c) /\
    In (r, h) (combine (i_reads i) (i_part i)) /\ length (i_reads i) = length (i_part i) /\
    r_vars r = v0 :: rest /\
    re_name e = r_name r /\ re_source e = r_source r /\
    lookup (r_sample r) ids = Some (re_sample e) /\ In (re_sample e) (map fst (inst_members i)) /\
    re_hap e = h /\ re_n e = Z.of_nat (length (r_vars r)) /\
    re_first e = fst v0 + 1 /\ re_last e = fst (last (r_vars r) v0) + 1 /\
    lookup (fst v0) (i_comps i) = Some b /\ re_ps e = b + 1.
Proof. exact read_list_entries. Qed.
Print Assumptions C20_read_list_entries.

(* ================================================================ changes_are_diffs *)
(* Writer level, every rule: for each input record r with output genotypes `snd ro`, the changes listed for
   it are exactly the calls of the phased samples whose genotype (allele multiset) differs between input and
   output, and the calls of all other samples keep their genotype. *)
Theorem C20_changes_are_diffs_per_record : forall pr ch vs tg rs prev res,
  NoDup (map fst tg) ->
  write_records pr ch vs tg prev rs = Some res ->
  Forall2 (fun r ro =>
             fst ro = record_changes (pos_shift pr) ch (map fst tg) r (snd ro) /\
             forall s, ~ In s (map fst tg) -> lookup s (snd ro) = option_map gcode (lookup s (v_gts r)))
          rs res.
Proof. exact changes_are_diffs. Qed.
Print Assumptions C20_changes_are_diffs_per_record.

(* Repaired rules (file opened once per run, position column = VCF POS = 0-based position + 1): the
   changed-genotype list is the header followed by exactly the differences between input and output VCF over
   all processed chromosomes. *)
Theorem C20_changes_are_diffs_repaired : forall rr er o ids vs cs out,
  o_gts o = true -> run PerRun rr OneBased er o ids vs cs = Some out -> run_wf ids cs = true ->
  length (out_vcf out) = length cs /\
  out_gts out = Some (Header :: map Entry (run_diffs 1 cs (out_vcf out))).
Proof. exact (fun rr => changes_are_diffs_run rr OneBased). Qed.
Print Assumptions C20_changes_are_diffs_repaired.

(* The same for any position rule: the listed position is the 0-based position + pos_shift. *)
Theorem C20_changes_are_diffs_upto_position : forall rr pr er o ids vs cs out,
  o_gts o = true -> run PerRun rr pr er o ids vs cs = Some out -> run_wf ids cs = true ->
  length (out_vcf out) = length cs /\
  out_gts out = Some (Header :: map Entry (run_diffs (pos_shift pr) cs (out_vcf out))).
Proof. exact changes_are_diffs_run. Qed.
Print Assumptions C20_changes_are_diffs_upto_position.

(* ZeroBased position rule (second finding, code before commit a4e9ec3): even with the file opened once per run the listed entries are not
   the differences at their VCF positions (every entry points one base before the changed call). *)
Theorem C20_changes_are_diffs_refuted :
  exists o ids vs cs out,
    run_wf ids cs = true /\ run PerRun PerRun old_posrule old_emptyrule o ids vs cs = Some out /\
    out_gts out <> Some (Header :: map Entry (run_diffs 1 cs (out_vcf out))).
Proof. exact changes_are_diffs_refuted. Qed.
Print Assumptions C20_changes_are_diffs_refuted.

(* Frame: calls on chromosomes that are not processed, and calls of samples that are not being phased, keep
   their genotype (so the differences above are ALL differences between input and output VCF). *)
Theorem C20_output_frame : forall gr rr pr er o ids vs cs out,
  run gr rr pr er o ids vs cs = Some out -> run_wf ids cs = true ->
  Forall2 (fun c ovc =>
             Forall2 (fun r oc => forall s, c_selected c = false \/ ~ In s (target_names c) ->
                                 lookup s oc = option_map gcode (lookup s (v_gts r)))
                     (c_records c) ovc)
          cs (out_vcf out).
Proof. exact output_frame. Qed.
Print Assumptions C20_output_frame.

(* Without --distrust-genotypes the solver's super-reads reproduce the input genotypes (hypothesis
   superreads_conform: C01/C05); then, under every writer rule, no change is listed and no genotype of the
   output VCF differs from the input. *)
Theorem C20_no_changes_without_distrust : forall gr rr pr er o ids vs cs out,
  run gr rr pr er o ids vs cs = Some out ->
  (forall c, In c cs -> c_selected c = true -> superreads_conform (targets_of (c_insts c)) (c_records c)) ->
  (forall lines e, out_gts out = Some lines -> ~ In (Entry e) lines) /\
  Forall2 (fun c ovc => Forall2 (fun r oc => forall s, lookup s oc = option_map gcode (lookup s (v_gts r)))
                                (c_records c) ovc)
          cs (out_vcf out).
Proof. exact no_changes_without_distrust_run. Qed.
Print Assumptions C20_no_changes_without_distrust.

(* ================================================================ recombinations_within_set *)
(* Under every writer rule, each line of the recombination list names the child of a trio (number k) of a
   processed (chromosome, family) instance and two variants p1 < p2 (1-based in the file) of ONE phase set b of
   that family with no variant of the set between them, at which the trio's transmission values ta, tb
   differ; the four haplotype columns are their paternal/maternal bits and the cost is the recombination cost
   at the second variant. *)
Theorem C20_recombinations_within_set : forall gr rr pr er o ids vs cs out lines e,
  run gr rr pr er o ids vs cs = Some out -> run_wf ids cs = true ->
  out_recs out = Some lines -> In (Entry e) lines ->
  exists c i k child father mother b ta ca tb cb,
    In c cs /\ c_selected c = true /\ In i (c_insts c) /\
    nth_error (i_trios i) k = Some (child, (father, mother)) /\
    ce_child e = child /\ ce_chrom e = c_name c /\
    lookup (ce_p1 e - 1) (i_comps i) = Some b /\ lookup (ce_p2 e - 1) (i_comps i) = Some b /\
    ce_p1 e < ce_p2 e /\
    (forall q, ce_p1 e - 1 < q < ce_p2 e - 1 -> lookup q (i_comps i) <> Some b) /\
    lookup (ce_p1 e - 1)
           (combine (i_positions i) (combine (tv_of_trio (length (i_trios i)) k (i_tv i)) (i_costs i))) = Some (ta, ca) /\
    lookup (ce_p2 e - 1)
           (combine (i_positions i) (combine (tv_of_trio (length (i_trios i)) k (i_tv i)) (i_costs i))) = Some (tb, cb) /\
    ta <> tb /\ ce_f1 e = ta mod 2 /\ ce_f2 e = tb mod 2 /\ ce_m1 e = ta / 2 /\ ce_m2 e = tb / 2 /\
    ce_cost e = cb.
Proof. exact recombinations_within_set. Qed.
Print Assumptions C20_recombinations_within_set.

(* ================================================================ the evaluators used on the real files *)
(* The boolean predicates that the correspondence check evaluates on the implementation's own files (level L1)
   accept the lists of every completed well-formed run of the model, under every rule: they demand nothing
   beyond the two theorems above. *)
Theorem C20_spec_rec_sound_accepts_model : forall gr rr pr er o ids vs cs out,
  run gr rr pr er o ids vs cs = Some out -> run_wf ids cs = true -> o_recs o = true ->
  out_recs out <> None ->
  spec_rec_sound cs (obs_of_out out) = true.
Proof. exact model_passes_spec_rec_sound. Qed.
Print Assumptions C20_spec_rec_sound_accepts_model.

Theorem C20_spec_read_sound_accepts_model : forall gr rr pr er o ids vs cs out,
  run gr rr pr er o ids vs cs = Some out -> run_wf ids cs = true -> o_reads o = true ->
  spec_read_sound ids cs (obs_of_out out) = true.
Proof. exact model_passes_spec_read_sound. Qed.
Print Assumptions C20_spec_read_sound_accepts_model.

(* The event-by-event specification that the check evaluates on the real recombination list (expected_recs:
   for every trio, every change of its transmission value between two neighbouring variants of one phase set,
   the first of which is not the first variant of the set, with the haplotype and cost columns of that
   change) contains every entry that the model's write_recombination_list produces for an instance. *)
Theorem C20_model_entries_are_expected : forall er chromname i es e,
  NoDup (map fst (i_comps i)) -> inst_rec_entries er chromname i = Some es -> In e es ->
  In e (expected_recs chromname i).
Proof. exact model_entries_are_expected. Qed.
Print Assumptions C20_model_entries_are_expected.

(* ================================================================ the run completes *)
(* With recombination-cost vectors as long as the position lists (and components within the accessible
   positions) write_recombination_list never fails on an instance. *)
Theorem C20_recombination_entries_total : forall er chromname i,
  length (i_tv i) = length (i_positions i) -> length (i_positions i) = length (i_costs i) ->
  (forall pc, In pc (i_comps i) -> In (fst pc) (i_positions i)) ->
  exists es, inst_rec_entries er chromname i = Some es.
Proof. exact inst_rec_entries_total. Qed.
Print Assumptions C20_recombination_entries_total.

(* Repaired find_recombination (no event for a family without accessible position): with the cost vectors the
   cost computers return (length max 1 #positions) write_recombination_list never fails on an instance. *)
Theorem C20_recombination_entries_total_repaired : forall chromname i,
  length (i_tv i) = length (i_positions i) ->
  length (i_costs i) = Nat.max 1 (length (i_positions i)) ->
  (forall pc, In pc (i_comps i) -> In (fst pc) (i_positions i)) ->
  exists es, inst_rec_entries EmptyOk chromname i = Some es.
Proof. exact inst_rec_entries_total_repaired. Qed.
Print Assumptions C20_recombination_entries_total_repaired.

(* Strict rule (third finding, code before commit 341691b): both return a vector of length max 1 (#positions), so a family
   without accessible variant trips find_recombination's assertion: the run dies exactly when
   --recombination-list is given.  Witness: a trio whose two variants are homozygous in everybody. *)
Theorem C20_run_completes_refuted :
  exists o ids vs cs,
    run_wf ids cs = true /\
    (forall ci, In ci (instances cs) ->
       length (i_costs (snd ci)) = Nat.max 1 (length (i_positions (snd ci))) /\
       length (i_tv (snd ci)) = length (i_positions (snd ci))) /\
    run_old o ids vs cs = None /\
    run_old (mkOpts (o_reads o) (o_gts o) false) ids vs cs <> None.
Proof. exact run_completes_refuted. Qed.
Print Assumptions C20_run_completes_refuted.

(* ================================================================ non-vacuity *)
(* the witness run is well-formed, does not crash, and under the repaired rules lists the recombination on
   chromosome 10 between VCF positions 200 and 300 and the genotype change at VCF position 400, although a
   second chromosome is processed afterwards *)
Example C20_example_repaired :
  run_wf wit_ids wit_cs = true /\
  exists out, run_phase wit_opts wit_ids wit_samples wit_cs = Some out /\
    out_recs out = Some [Header; Entry (mkCE 1 10 200 300 0 1 0 0 6)] /\
    out_gts out = Some [Header; Entry (mkGE 3 10 400 7 8 [0; 0] [0; 1])] /\
    option_map (@length _) (out_reads out) = Some 6%nat.
Proof. split; [vm_compute; reflexivity|]. eexists; split; [vm_compute; reflexivity|]. vm_compute. auto. Qed.

(* the same run under the old rules: both lists hold the header only *)
Example C20_example_current :
  exists out, run_old wit_opts wit_ids wit_samples wit_cs = Some out /\
    out_recs out = Some [Header] /\ out_gts out = Some [Header] /\
    option_map (@length _) (out_reads out) = Some 6%nat.
Proof. eexists; split; [vm_compute; reflexivity|]. vm_compute. auto. Qed.

(* with only the first chromosome requested (--chromosome) the old code does list both entries,
   the genotype change with the 0-based position 399 *)
Example C20_example_current_one_chromosome :
  let cs := [mkChrom 10 true (wit_recs [99; 199; 299; 399]) [wit_instA];
             mkChrom 11 false (wit_recs [49; 149]) []] in
  exists out, run_old wit_opts wit_ids wit_samples cs = Some out /\
    out_recs out = Some [Header; Entry (mkCE 1 10 200 300 0 1 0 0 6)] /\
    out_gts out = Some [Header; Entry (mkGE 3 10 399 7 8 [0; 0] [0; 1])].
Proof. eexists; split; [vm_compute; reflexivity|]. vm_compute. auto. Qed.

(* hypothesis of C20_no_changes_without_distrust: the second witness chromosome conforms *)
Example C20_example_conform :
  superreads_conform (targets_of [wit_instB]) (wit_recs [49; 149]) /\
  exists out, run_old wit_opts wit_ids wit_samples [mkChrom 11 true (wit_recs [49; 149]) [wit_instB]] = Some out.
Proof.
  split.
  - intros t r a b g Ht Hr Hp Hg.
    destruct Ht as [<-|[<-|[<-|[]]]]; destruct Hr as [<-|[<-|[]]];
      vm_compute in Hp; vm_compute in Hg; inversion Hp; inversion Hg; reflexivity.
  - eexists; vm_compute; reflexivity.
Qed.

(* hypothesis of C20_changes_are_diffs_per_record *)
Example C20_example_targets : NoDup (map fst (targets_of [wit_instA])) /\
  exists res, write_records OneBased 10 wit_samples (targets_of [wit_instA]) None (wit_recs [99; 199; 299; 399]) = Some res.
Proof.
  split.
  - vm_compute; repeat constructor; cbn; intuition discriminate.
  - eexists; vm_compute; reflexivity.
Qed.

(* hypotheses of C20_recombination_entries_total *)
Example C20_example_total :
  length (i_tv wit_instA) = length (i_positions wit_instA) /\
  length (i_positions wit_instA) = length (i_costs wit_instA) /\
  forallb (fun pc => existsb (Z.eqb (fst pc)) (i_positions wit_instA)) (i_comps wit_instA) = true /\
  inst_rec_entries old_emptyrule 10 wit_instA = Some [mkCE 1 10 200 300 0 1 0 0 6].
Proof. vm_compute; auto. Qed.

(* the crash witness completes under the repaired rules (header-only recombination list) *)
Example C20_example_empty_family_repaired :
  exists out, run_phase (mkOpts true true true) wit_ids wit_samples wit_empty_cs = Some out /\
    out_recs out = Some [Header].
Proof. eexists; split; vm_compute; reflexivity. Qed.

(* hypotheses of C20_recombination_entries_total_repaired: a family without accessible position *)
Example C20_example_total_repaired :
  length (i_tv wit_empty_inst) = length (i_positions wit_empty_inst) /\
  length (i_costs wit_empty_inst) = Nat.max 1 (length (i_positions wit_empty_inst)) /\
  inst_rec_entries EmptyOk 10 wit_empty_inst = Some [] /\
  inst_rec_entries Strict 10 wit_empty_inst = None.
Proof. vm_compute; auto. Qed.

(* the specification side lists exactly the event of the witness instance *)
Example C20_example_expected :
  expected_recs 10 wit_instA = [mkCE 1 10 200 300 0 1 0 0 6] /\
  inst_rec_entries repaired_emptyrule 10 wit_instA = Some [mkCE 1 10 200 300 0 1 0 0 6].
Proof. vm_compute; auto. Qed.
