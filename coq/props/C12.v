(* C12 — `whatshap stats` counts add up and describe the phase sets present in the file.
   Only the property theorems (each closed by `exact`), their assumption printouts and non-vacuity
   examples.  Model and specification side: coq/model/Stats.v.

   Vocabulary (all defined in WH.Model.Stats):
     vrec / call        one VCF record of a chromosome with the call of the selected sample
     rules              the two switchable rules; legacy_rules = the code as found, repaired_rules = after the fixes
     read_rows          VcfReader._process_single_chromosome (None = VcfNotSortedError)
     process_rows       get_phase_blocks + write_to_block_list + add_blocks + get_detailed_stats + print for
                        one chromosome (None = the run aborts with an exception)
     spec_of            the independent counts over the record list (no dictionary, no fold over blocks)
     sorted_recs        positions of the considered records are non-decreasing (what VcfReader requires)
     get_nonoverlapping_blocks   the while loop with explicit fuel (NOutOfFuel / NAssert = error values)       *)
From Coq Require Import ZArith List Bool Arith Sorted.
From WH.Model Require Import Stats.
From WH.Proofs Require Import StatsPieces StatsRows StatsSpec StatsAll StatsProofs StatsGtf StatsRun.
Import ListNotations.
Open Scope Z_scope.

(* ------------------------------------------------------------------------------------------------
   counts_partition, part 1 — for EVERY rule set, every chromosome, every input: whenever a chromosome
   is reported at all, phased + unphased + singletons = heterozygous (the assertion in
   DetailedStats.print never fires), the per-block size sum equals phased, and the block list agrees
   with the row: the sizes of its lines with >= 2 variants sum to phased, their number is `blocks`,
   the number of one-variant lines is `singletons`.                                                    *)
Theorem C12_counts_partition_identities :
  forall (R : rules) (chrlen : Z -> option Z) (cid : Z) (rows : list trow) (cr : chrom_result),
  process_rows R chrlen cid rows = Some cr ->
  let d := cr_row cr in
  let bl := cr_blocklist cr in
  d_phased d + d_unphased d + d_singletons d = d_het d /\
  d_vsum d = d_phased d /\
  zsum (map (fun l : key * Z * Z * Z => snd l) (filter (fun l => 1 <? snd l) bl)) = d_phased d /\
  count (fun l : key * Z * Z * Z => 1 <? snd l) bl = d_blocks d /\
  count (fun l : key * Z * Z * Z => snd l =? 1) bl = d_singletons d.
Proof. exact (fun R chrlen cid rows cr H => identities_ok_prop _ _ (process_rows_identities R chrlen cid rows cr H)). Qed.
Print Assumptions C12_counts_partition_identities.

(* ------------------------------------------------------------------------------------------------
   counts_partition, part 2 — the full statement, parametrised by the rule set: the chromosome is
   read and reported (no exception) and every reported number equals the independent count.          *)
Definition C12_counts_partition_full_statement (R : rules) : Prop :=
  forall (only_snvs : bool) (recs : list vrec) (chrlen : Z -> option Z) (cid : Z),
  sorted_recs only_snvs recs ->
  exists rows cr,
    read_rows only_snvs None recs = Some rows /\
    process_rows R chrlen cid rows = Some cr /\
    let d := cr_row cr in
    let s := spec_of only_snvs recs in
    d_variants d = s_variants s /\ d_het d = s_het s /\ d_hetsnv d = s_hetsnv s /\ d_phased d = s_phased s /\
    d_unphased d = s_unphased s /\ d_singletons d = s_singletons s /\ d_blocks d = s_blocks s /\
    d_vmin d = s_vmin s /\ d_vmax d = s_vmax s /\ d_phsnv d = s_phsnv s.

(* It is REFUTED for the code as found (finding F4): `./.` and `0/.` pass `genotype.is_homozygous()`
   because Genotype([]) is not homozygous, so they are counted heterozygous and unphased. *)
Theorem C12_counts_partition_legacy_refuted : ~ C12_counts_partition_full_statement legacy_rules.
Proof. exact counts_partition_legacy_refuted. Qed.
Print Assumptions C12_counts_partition_legacy_refuted.

(* the witness: 0|1:100  ./.  0/.  1|0:100  0/1  1/1  — reported 5 heterozygous / 3 unphased,
   independent count 3 / 1.  Replayed on the implementation this is signature
   stats:missing-genotype-counted-het. *)
Theorem C12_counts_partition_legacy_refuted_witness :
  exists recs, sorted_recs false recs /\
  exists rows cr,
    read_rows false None recs = Some rows /\
    process_rows legacy_rules (fun _ => None) 1 rows = Some cr /\
    d_het (cr_row cr) = 5 /\ s_het (spec_of false recs) = 3 /\
    d_unphased (cr_row cr) = 3 /\ s_unphased (spec_of false recs) = 1.
Proof. exact counts_partition_legacy_witness. Qed.
Print Assumptions C12_counts_partition_legacy_refuted_witness.

(* second defect of the code as found, met while building the check: a phased heterozygous call whose
   PS is "." gets block id None and is put into a block of that name; together with an integer id
   `sorted(blocks.keys())` raises TypeError (haplotag, by contrast, skips block id None).
   Witness 0|1:100  1|0:.  (signature stats:phased-call-missing-ps). *)
Theorem C12_no_crash_legacy_refuted :
  exists recs, sorted_recs false recs /\
  exists rows, read_rows false None recs = Some rows /\
               process_rows legacy_rules (fun _ => None) 1 rows = None.
Proof. exact no_crash_legacy_refuted. Qed.
Print Assumptions C12_no_crash_legacy_refuted.

(* With the repaired classification (calls whose genotype is missing or partially missing are skipped;
   a `|` call whose PS is "." names no phase set and counts as unphased) the full statement HOLDS, for all record lists VcfReader accepts, with and
   without --only-snvs: no exception, and all ten integer counts equal the independent count. *)
Theorem C12_counts_partition_repaired : C12_counts_partition_full_statement repaired_rules.
Proof. exact chrom_repaired_statement. Qed.
Print Assumptions C12_counts_partition_repaired.

(* ------------------------------------------------------------------------------------------------
   block_list_spec (repaired rules): the block list of a chromosome has exactly one line per phase set
   present among the heterozygous calls, in increasing id order, with the 1-based positions of its
   first and last member and its number of members:
     s_blocklist (spec_of o recs) = [ (id, min pos + 1, max pos + 1, #members) | id <- sorted distinct ids ]  *)
Theorem C12_block_list_spec :
  forall (only_snvs : bool) (recs : list vrec) (chrlen : Z -> option Z) (cid : Z),
  sorted_recs only_snvs recs ->
  exists rows cr,
    read_rows only_snvs None recs = Some rows /\
    process_rows repaired_rules chrlen cid rows = Some cr /\
    cr_blocklist cr =
      map (fun l : Z * Z * Z * Z => match l with (i, f, t, n) => (Some i, f, t, n) end)
          (s_blocklist (spec_of only_snvs recs)).
Proof. exact block_list_repaired. Qed.
Print Assumptions C12_block_list_spec.

(* ------------------------------------------------------------------------------------------------
   pieces_disjoint: for ANY list of well-formed blocks the loop terminates within its fuel
   (never NOutOfFuel, never the split assertion), every piece has >= 2 variants and is a sub-sequence
   of one input block (so a sub-range of it), the pieces are pairwise non-overlapping from left to
   right, there is at least one piece if some block has >= 2 variants (statistics.median never sees
   an empty list), and the sum of the piece lengths is at most max end - min start.                   *)
Theorem C12_pieces_disjoint : forall blocks : list pblock, Forall pb_wf blocks ->
  exists pieces, get_nonoverlapping_blocks blocks = NOk pieces /\
    Forall (fun p => pb_wf p /\ (2 <= pb_len p)%nat /\
                     exists b, In b blocks /\ subseq (pb_vars p) (pb_vars b)) pieces /\
    ForallOrdPairs (fun p q => pb_rm p <= pb_lm q) pieces /\
    ((exists b, In b blocks /\ (2 <= pb_len b)%nat) -> pieces <> []) /\
    (forall lo hi, (forall b, In b blocks -> (2 <= pb_len b)%nat -> lo <= pb_lm b /\ pb_rm b <= hi) ->
                   pieces <> [] -> zsum (map pb_span pieces) <= hi - lo).
Proof. exact nonoverlapping_blocks_spec. Qed.
Print Assumptions C12_pieces_disjoint.

(* the blocks stats builds are well-formed, so this applies to every chromosome; at the level of the
   reported row (repaired rules): 0 <= shortest <= longest <= sum of lengths <= covered span, where the
   covered span is max - min position over the members of the phase sets with >= 2 members.           *)
Theorem C12_block_lengths_bounded :
  forall (only_snvs : bool) (recs : list vrec) (chrlen : Z -> option Z) (cid : Z),
  sorted_recs only_snvs recs ->
  exists rows cr,
    read_rows only_snvs None recs = Some rows /\
    process_rows repaired_rules chrlen cid rows = Some cr /\
    0 <= d_bmin (cr_row cr) /\ d_bmin (cr_row cr) <= d_bmax (cr_row cr) /\ d_bmax (cr_row cr) <= d_bsum (cr_row cr) /\
    d_bsum (cr_row cr) <= s_span (spec_of only_snvs recs).
Proof. exact lengths_repaired. Qed.
Print Assumptions C12_block_lengths_bounded.

(* ... and exactly: shortest / longest / sum of block lengths are those of the non-overlapping pieces of the
   independently determined phase sets (spec_blocks: the sets of the heterozygous records as blocks of their
   members; spec_piece_lens: the splitting procedure of C12_pieces_disjoint applied to them).             *)
Theorem C12_block_lengths_of_pieces :
  forall (only_snvs : bool) (recs : list vrec) (chrlen : Z -> option Z) (cid : Z),
  sorted_recs only_snvs recs ->
  exists rows cr,
    read_rows only_snvs None recs = Some rows /\
    process_rows repaired_rules chrlen cid rows = Some cr /\
    pieces_ok only_snvs recs (cr_row cr) = true.
Proof. exact pieces_repaired. Qed.
Print Assumptions C12_block_lengths_of_pieces.

(* ------------------------------------------------------------------------------------------------
   all_row_additive (every rule set): for any sequence of successfully reported chromosomes, the
   statistics of the `+=`-aggregated object exist (no exception, the print assertion holds) and every
   integer field equals the field-wise sum of the per-chromosome rows — minimum / maximum fields: the
   minimum / maximum over the rows that have blocks.                                                   *)
Theorem C12_all_row_additive : forall (R : rules) (chrlen : Z -> option Z) (crs : list chrom_result),
  Forall (fun cr => exists cid rows, process_rows R chrlen cid rows = Some cr) crs ->
  exists d,
    get_detailed_stats chrlen (fold_left ps_iadd (map cr_stats crs) ps_empty) = Some d /\
    print_ok d = true /\
    dstats_int_eqb d (row_sum (map cr_row crs)) = true.
Proof. exact all_row_additive. Qed.
Print Assumptions C12_all_row_additive.

(* ------------------------------------------------------------------------------------------------
   GTF (repaired rules): every written feature lies inside the extent of the phase set it names and the
   features of a chromosome are written from left to right without overlap (gtf_ok, the check the
   harness evaluates on the implementation's GTF).                                                     *)
Theorem C12_gtf_features_within_sets : forall (only_snvs : bool) (recs : list vrec),
  sorted_recs only_snvs recs ->
  gtf_ok (s_blocklist (spec_of only_snvs recs)) None
         (gtf_finish (get_phase_blocks repaired_rules (map row_of (counted only_snvs recs)))) = true.
Proof. exact gtf_ok_chrom. Qed.
Print Assumptions C12_gtf_features_within_sets.

(* ------------------------------------------------------------------------------------------------
   The whole run (repaired rules): for every file — any number of chromosomes (each one contiguous
   group of records, accepted by VcfReader), with and without --only-snvs, with any list of distinct
   --chromosome names (names absent from the file included; with an index: names known to the header),
   with and without an index — `stats` ends normally and its complete output (per-chromosome rows in
   output order, ALL row, block list, GTF) passes l1_run: EXACTLY the specification check (L1) that the
   correspondence harness evaluates in Coq on the real implementation's outputs:
     every reported row: identities, the ten counts = independent counts, length bound, block list = one
     line per phase set (true extent, size), GTF features inside their sets;  ALL row = field-wise sum;
     without --chromosome every chromosome is reported in file order, with it exactly the requested ones. *)
Theorem C12_run_conforms_repaired :
  forall (only_snvs : bool) (header : list (Z * option Z)) (groups : list (Z * list vrec)) (given : list Z),
  NoDup (map fst groups) ->
  (forall g, In g groups -> sorted_recs only_snvs (snd g)) ->
  forall indexed : bool,
  NoDup given ->
  (indexed = true -> forall c, In c given -> In c (map fst header)) ->
  exists out, run_stats repaired_rules only_snvs indexed header groups given = ROk out /\
              l1_run only_snvs groups given out = true.
Proof. exact run_stats_spec. Qed.
Print Assumptions C12_run_conforms_repaired.

(* every output that passes l1_run (in particular: every output of the repaired model, by the theorem
   above, and every implementation output accepted by the harness) has an ALL row whose sum of block
   lengths is at most the total covered span: the sum over the reported chromosomes of max - min position
   over the members of the phase sets with >= 2 members. (all_row_ok already demands that ALL's
   bp_per_block_sum / min / max equal the sum / min / max of the per-chromosome rows.)                   *)
Theorem C12_all_row_lengths_within_span :
  forall (only_snvs : bool) (groups : list (Z * list vrec)) (given : list Z) (out : output),
  l1_run only_snvs groups given out = true -> all_span_ok only_snvs groups out = true.
Proof. exact l1_run_all_span. Qed.
Print Assumptions C12_all_row_lengths_within_span.

(* ------------------------------------------------------------------------------------------------
   non-vacuity                                                                                         *)
(* the hypotheses of C12_counts_partition_repaired / C12_block_list_spec / C12_block_lengths_bounded:
   a sorted chromosome with two interleaved sets, a nested singleton, an unphased call, a homozygous
   call, a missing call, an indel, a duplicated position and a multi-ALT record *)
Definition C12_example_recs : list vrec :=
  [ mkRec 99 true 1 (mkCall (Some [Some 0; Some 1]) true (PSVal 100) None);
    mkRec 199 true 1 (mkCall (Some [Some 1; Some 0]) true (PSVal 200) None);
    mkRec 249 false 1 (mkCall (Some [Some 0; Some 1]) true (PSVal 100) None);
    mkRec 249 true 1 (mkCall (Some [Some 0; Some 1]) true (PSVal 100) None);
    mkRec 299 true 2 (mkCall (Some [Some 1; Some 2]) true (PSVal 100) None);
    mkRec 349 true 1 (mkCall (Some [Some 0; Some 1]) true (PSVal 350) None);
    mkRec 399 true 1 (mkCall (Some [Some 0; Some 1]) true (PSVal 200) None);
    mkRec 449 true 1 (mkCall (Some [None; None]) false PSMissing None);
    mkRec 499 true 1 (mkCall (Some [Some 0; Some 1]) false PSMissing None);
    mkRec 549 true 1 (mkCall (Some [Some 1; Some 1]) true (PSVal 100) None);
    mkRec 599 true 1 (mkCall (Some [Some 1; Some 0]) true (PSVal 100) None) ].

Example C12_example_sorted : sorted_recs false C12_example_recs /\ sorted_recs true C12_example_recs.
Proof. unfold sorted_recs. cbn. split; repeat constructor; cbn; discriminate. Qed.

Example C12_example_counts :
  let s := spec_of false C12_example_recs in
  (s_variants s, s_het s, s_phased s, s_unphased s, s_singletons s, s_blocks s, s_span s) = (9, 7, 5, 1, 1, 2, 500) /\
  s_blocklist s = [(100, 100, 600, 3); (200, 200, 400, 2); (350, 350, 350, 1)].
Proof. vm_compute. split; reflexivity. Qed.

(* the model of the whole run on a two-chromosome file (repaired rules): rows, ALL row, block list, GTF *)
Example C12_example_run :
  run_stats repaired_rules false false [(1, Some 1000); (2, None)]
            [(1, C12_example_recs); (2, [mkRec 9 true 1 (mkCall (Some [Some 0; Some 1]) false PSAbsent (Some 7));
                                         mkRec 59 true 1 (mkCall (Some [Some 0; Some 1]) false PSAbsent (Some 7))])] [] =
  ROk (mkOut [(1, mkD 9 5 1 1 2 2 3 5 200 200 200 7 6 4 (Some 0)); (2, mkD 2 2 0 0 1 2 2 2 50 50 50 2 2 2 None)]
              (Some (mkD 11 7 1 1 3 2 3 7 50 200 250 9 8 6 None))
              [(1, (Some 100, 100, 600, 3)); (1, (Some 200, 200, 400, 2)); (1, (Some 350, 350, 350, 1)); (2, (Some 7, 10, 60, 2))]
              [(1, (100, 100, 100)); (1, (200, 200, 200)); (1, (250, 250, 100)); (1, (350, 350, 350)); (1, (400, 400, 200));
               (1, (600, 600, 100)); (2, (10, 60, 7))]).
Proof. vm_compute. reflexivity. Qed.

(* the hypothesis of C12_pieces_disjoint, and what the loop does on the interleaved blocks of
   tests/data/phased_overlapping.vcf: pieces 100-350, 410-470, 500-700, 800-950 (sum 660 <= 850) *)
Example C12_example_pieces :
  let mk := fun l => pb_of_vars (map (fun p => mkVar p true) l) in
  let blocks := [mk [99; 199; 349; 499; 599; 699]; mk [409; 439; 469]; mk [799; 949]] in
  get_nonoverlapping_blocks blocks =
  NOk [mk [99; 199; 349]; mk [409; 439; 469]; mk [499; 599; 699]; mk [799; 949]].
Proof. vm_compute. reflexivity. Qed.

(* the ALL row is built from the per-chromosome non-overlapping pieces (`split_blocks.extend`), never from a
   re-split of all blocks of all chromosomes: chr1 has two interleaved sets (100,300 | 200,400), chr2 an ordinary
   block (150,250) that starts between them — chr1 contributes 200 (the set 10 is split away), chr2 100,
   ALL min / max / sum = 100 / 200 / 300 *)
Example C12_example_all_row_cross_chromosome :
  let h := fun (p ps : Z) => mkRec p true 1 (mkCall (Some [Some 0; Some 1]) true (PSVal ps) None) in
  match run_stats repaired_rules false false [(1, Some 5000); (2, Some 5000)]
                  [(1, [h 99 10; h 199 20; h 299 10; h 399 20]); (2, [h 149 30; h 249 30])] [] with
  | ROk o => (map (fun r => (fst r, d_bsum (snd r))) (o_rows o),
              option_map (fun a => (d_bmin a, d_bmax a, d_bsum a)) (o_all o)) =
             ([(1, 200); (2, 100)], Some (100, 200, 300))
  | RErr _ => False
  end.
Proof. vm_compute. reflexivity. Qed.

(* three mutually interleaved sets {100,1050,1100}, {200,300,1000}, {400,1090}: the pieces are 200-300 of the
   second and 1050-1100 of the first set: sum 150 <= covered span 1000 *)
Example C12_example_three_interleaved :
  let h := fun (p ps : Z) => mkRec p true 1 (mkCall (Some [Some 0; Some 1]) true (PSVal ps) None) in
  let recs := [h 99 1; h 199 2; h 299 2; h 399 3; h 999 2; h 1049 1; h 1089 3; h 1099 1] in
  spec_piece_lens (hets (counted false recs)) = Some [100; 50] /\ s_span (spec_of false recs) = 1000.
Proof. vm_compute. split; reflexivity. Qed.
