(* C06 — allele detection never assigns the wrong allele to an error-free read.
   Only property theorems (closed by `exact`), their assumption printouts and non-vacuity examples. *)
From Coq Require Import ZArith List Bool Arith.
From WH.Model Require Import EditDist AlleleDetect.
From WH.Proofs Require Import AlleleDetectProofs.
Import ListNotations.

(* --- the lock-step walk over CIGAR and variants ------------------------------------------------- *)

(* Every tuple (index, i, consumed, query_pos) yielded by _iterate_cigar belongs to a variant of the list whose
   position lies inside the reference span [start, start + reference length of the CIGAR] of the alignment (strictly
   inside unless it is reported at an insertion that ends the alignment); operation i is the match/deletion
   containing that position at offset `consumed` (or an insertion located at it), and query_pos is the number of
   query bases (soft clips included) in front of it.  Hence no variant outside the span -- in particular none the
   read does not overlap -- is ever handed to re-alignment. *)
Theorem C06_iterate_cigar_sound :
  forall (vs : list ivar) (start : nat) (cig : cigar) (j i consumed qpos : nat),
  sorted_pos vs ->
  In (j, i, consumed, qpos) (iterate_cigar vs start cig) ->
  exists v, In (j, v) vs /\ yield_ok start cig (vpos v) (j, i, consumed, qpos) /\
            start <= vpos v /\ vpos v <= start + ref_units (expand cig) /\
            (vpos v < start + ref_units (expand cig) \/ exists len, nth_error cig i = Some (OpI, len)).
Proof. exact iterate_cigar_sound. Qed.
Print Assumptions C06_iterate_cigar_sound.

Example C06_iterate_cigar_example :
  let vs := index_from 0 [mkVar 3 [65] [67]; mkVar 12 [65] [67]; mkVar 17 [71] [71;84]; mkVar 21 [65] [67];
                          mkVar 30 [65] [67]; mkVar 41 [65] [67]]%Z in
  sorted_pos vs /\
  iterate_cigar vs 10 [(OpS, 2); (OpM, 8); (OpI, 2); (OpEQ, 3); (OpD, 2); (OpN, 10); (OpX, 5)]
  = [(1, 1, 2, 4); (2, 1, 7, 9); (3, 4, 0, 15)].
Proof. vm_compute. repeat split; repeat constructor. Qed.

(* --- re-alignment ------------------------------------------------------------------------------- *)

(* realign_correct.  The CIGAR is read as its list of unit operations; (i, consumed, query_pos) is a split point as
   _iterate_cigar yields it.  Left of the split lie the operations `pre ++ LM`, right of it `V ++ RM ++ post`, where
     LM, RM  are runs of match operations (M, =, X) whose bases are the reference bases WL, WR (the clean flanks),
     V       are the operations of the variant itself: any mixture of match/I/D consuming |REF| reference bases and
             as many query bases as the carried allele has (REF: carried = 0, ALT: carried = 1),
   and each flank is at least `overhang` long or is followed only by clips up to the end of the read (under the
   repaired skip rule also: by a reference skip).  No other difference to the reference lies within the window.
   Then realign reports exactly the carried allele -- for SNVs, MNPs, insertions, deletions and complex variants,
   with windows truncated by the read ends, soft and hard clips, under both the current and the repaired rules. *)
Theorem C06_realign_correct :
  forall (R : rules) (reference query : list Z) (overhang : nat) (v : variant) (cig : cigar)
         (i consumed qpos : nat) (op : cop) (len : nat) (pre LM V RM post : list cop)
         (r1 WL WR r2 q1 q2 : list Z) (carried : nat),
  0 < overhang -> positive_lengths cig ->
  nth_error cig i = Some (op, len) -> consumed <= len ->
  firstn (unit_index cig i consumed) (expand cig) = pre ++ LM ->
  skipn (unit_index cig i consumed) (expand cig) = V ++ RM ++ post ->
  forallb is_match LM = true -> forallb is_match RM = true -> forallb is_aligned V = true ->
  carried <= 1 ->
  ref_units V = length (vref v) -> query_units V = length (get_allele v carried) ->
  (overhang <= length LM \/ window_end R (rev pre)) ->
  (overhang <= length RM \/ window_end R post) ->
  reference = r1 ++ WL ++ vref v ++ WR ++ r2 -> vpos v = length r1 + length WL ->
  query = q1 ++ WL ++ get_allele v carried ++ WR ++ q2 ->
  length WL = length LM -> length WR = length RM ->
  length q1 = query_units pre -> qpos = query_units (pre ++ LM) ->
  vref v <> valt v -> is_symbolic v = false ->
  realign R reference overhang v cig query i consumed qpos = Some (Some carried).
Proof. exact realign_correct. Qed.
Print Assumptions C06_realign_correct.

(* non-vacuity: an insertion carried by a soft-clipped read whose left flank is cut by the read start *)
Example C06_realign_example :
  let reference := [1;2;3;4;1;2;4;3;1;2;3;3]%Z in
  let v := mkVar 5 [2]%Z [2;9;9]%Z in
  let cig := [(OpS, 1); (OpM, 4); (OpI, 2); (OpM, 4)] in
  let query := [7; 3;4;1; 2;9;9; 4;3;1;2]%Z in
  let pre := [OpS] in let LM := [OpM;OpM;OpM] in let V := [OpM;OpI;OpI] in let RM := [OpM;OpM;OpM;OpM] in
  let post := @nil cop in
  (0 < 3 /\ nth_error cig 1 = Some (OpM, 4) /\ 3 <= 4 /\
   firstn (unit_index cig 1 3) (expand cig) = pre ++ LM /\
   skipn (unit_index cig 1 3) (expand cig) = V ++ RM ++ post /\
   forallb is_match LM = true /\ forallb is_match RM = true /\ forallb is_aligned V = true /\
   ref_units V = length (vref v) /\ query_units V = length (get_allele v 1) /\
   window_end current_rules (rev pre) /\ 3 <= length RM /\
   reference = [1;2]%Z ++ [3;4;1]%Z ++ vref v ++ [4;3;1;2]%Z ++ [3;3]%Z /\ vpos v = 2 + 3 /\
   query = [7]%Z ++ [3;4;1]%Z ++ get_allele v 1 ++ [4;3;1;2]%Z ++ [] /\
   1 = query_units pre /\ 4 = query_units (pre ++ LM) /\ is_symbolic v = false) /\
  realign current_rules reference 3 v cig query 1 3 4 = Some (Some 1).
Proof. vm_compute. repeat split; try reflexivity; try (repeat constructor); left; reflexivity. Qed.
