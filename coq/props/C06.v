(* C06 — allele detection never assigns the wrong allele to an error-free read.
   Only property theorems (closed by `exact`), their assumption printouts and non-vacuity examples. *)
From Coq Require Import ZArith List Bool Arith.
From WH.Model Require Import EditDist AlleleDetect.
From WH.Proofs Require Import AlleleDetectProofs AlleleDetectNoref AlleleDetectRefuted AlleleDetectComplete AlleleDetectIndel.
Import ListNotations.

(* --- the lock-step walk over CIGAR and variants ------------------------------------------------- *)

(* Every tuple (index, i, consumed, query_pos) yielded by _iterate_cigar belongs to a variant of the list whose
   position lies inside the reference span [start, start + reference length of the CIGAR] of the alignment (strictly
   inside unless it is reported at an insertion that ends the alignment); operation i is the match/deletion
   containing that position at offset `consumed` (or an insertion located at it), and query_pos is the number of
   query bases (soft clips included) in front of it.  Hence no variant outside the span -- in particular none the
   read does not overlap -- is ever handed to re-alignment. *)
Theorem C06_iterate_cigar_sound :
  forall (vs : list ivar) (start : nat) (cig : cigar) (j i consumed qpos : nat),
  sorted_pos vs ->
  In (j, i, consumed, qpos) (iterate_cigar vs start cig) ->
  exists v, In (j, v) vs /\ yield_ok start cig (vpos v) (j, i, consumed, qpos) /\
            start <= vpos v /\ vpos v <= start + ref_units (expand cig) /\
            (vpos v < start + ref_units (expand cig) \/ exists len, nth_error cig i = Some (OpI, len)).
Proof. exact iterate_cigar_sound. Qed.
Print Assumptions C06_iterate_cigar_sound.

Example C06_iterate_cigar_example :
  let vs := index_from 0 [mkVar 3 [65] [67]; mkVar 12 [65] [67]; mkVar 17 [71] [71;84]; mkVar 21 [65] [67];
                          mkVar 30 [65] [67]; mkVar 41 [65] [67]]%Z in
  sorted_pos vs /\
  iterate_cigar vs 10 [(OpS, 2); (OpM, 8); (OpI, 2); (OpEQ, 3); (OpD, 2); (OpN, 10); (OpX, 5)]
  = [(1, 1, 2, 4); (2, 1, 7, 9); (3, 4, 0, 15)].
Proof. vm_compute. repeat split; repeat constructor. Qed.

(* --- re-alignment ------------------------------------------------------------------------------- *)

(* realign_correct.  The CIGAR is read as its list of unit operations; (i, consumed, query_pos) is a split point as
   _iterate_cigar yields it.  Left of the split lie the operations `pre ++ LM`, right of it `V ++ RM ++ post`, where
     LM, RM  are runs of match operations (M, =, X) whose bases are the reference bases WL, WR (the clean flanks),
     V       are the operations of the variant itself: any mixture of match/I/D consuming |REF| reference bases and
             as many query bases as the carried allele has (REF: carried = 0, ALT: carried = 1),
   and each flank is at least `overhang` long or is followed only by clips up to the end of the read (under the
   repaired skip rule also: by a reference skip).  No other difference to the reference lies within the window.
   Then realign reports exactly the carried allele -- for SNVs, MNPs, insertions, deletions and complex variants,
   with windows truncated by the read ends, soft and hard clips, under both the current and the repaired rules. *)
Theorem C06_realign_correct :
  forall (R : rules) (reference query : list Z) (overhang : nat) (v : variant) (cig : cigar)
         (i consumed qpos : nat) (op : cop) (len : nat) (pre LM V RM post : list cop)
         (r1 WL WR r2 q1 q2 : list Z) (carried : nat),
  0 < overhang -> positive_lengths cig ->
  nth_error cig i = Some (op, len) -> consumed <= len ->
  firstn (unit_index cig i consumed) (expand cig) = pre ++ LM ->
  skipn (unit_index cig i consumed) (expand cig) = V ++ RM ++ post ->
  forallb is_match LM = true -> forallb is_match RM = true -> forallb is_aligned V = true ->
  carried <= 1 ->
  ref_units V = length (vref v) -> query_units V = length (get_allele v carried) ->
  (overhang <= length LM \/ window_end R (rev pre)) ->
  (overhang <= length RM \/ window_end R post) ->
  reference = r1 ++ WL ++ vref v ++ WR ++ r2 -> vpos v = length r1 + length WL ->
  query = q1 ++ WL ++ get_allele v carried ++ WR ++ q2 ->
  length WL = length LM -> length WR = length RM ->
  length q1 = query_units pre -> qpos = query_units (pre ++ LM) ->
  vref v <> valt v -> is_symbolic v = false ->
  realign R reference overhang v cig query i consumed qpos = Some (Some carried).
Proof. exact realign_correct. Qed.
Print Assumptions C06_realign_correct.

(* non-vacuity: an insertion carried by a soft-clipped read whose left flank is cut by the read start *)
Example C06_realign_example :
  let reference := [1;2;3;4;1;2;4;3;1;2;3;3]%Z in
  let v := mkVar 5 [2]%Z [2;9;9]%Z in
  let cig := [(OpS, 1); (OpM, 4); (OpI, 2); (OpM, 4)] in
  let query := [7; 3;4;1; 2;9;9; 4;3;1;2]%Z in
  let pre := [OpS] in let LM := [OpM;OpM;OpM] in let V := [OpM;OpI;OpI] in let RM := [OpM;OpM;OpM;OpM] in
  let post := @nil cop in
  (0 < 3 /\ nth_error cig 1 = Some (OpM, 4) /\ 3 <= 4 /\
   firstn (unit_index cig 1 3) (expand cig) = pre ++ LM /\
   skipn (unit_index cig 1 3) (expand cig) = V ++ RM ++ post /\
   forallb is_match LM = true /\ forallb is_match RM = true /\ forallb is_aligned V = true /\
   ref_units V = length (vref v) /\ query_units V = length (get_allele v 1) /\
   window_end current_rules (rev pre) /\ 3 <= length RM /\
   reference = [1;2]%Z ++ [3;4;1]%Z ++ vref v ++ [4;3;1;2]%Z ++ [3;3]%Z /\ vpos v = 2 + 3 /\
   query = [7]%Z ++ [3;4;1]%Z ++ get_allele v 1 ++ [4;3;1;2]%Z ++ [] /\
   1 = query_units pre /\ 4 = query_units (pre ++ LM) /\ is_symbolic v = false) /\
  realign current_rules reference 3 v cig query 1 3 4 = Some (Some 1) /\
  realign original_rules reference 3 v cig query 1 3 4 = Some (Some 1).
Proof. vm_compute. repeat split; try reflexivity; try (repeat constructor); left; reflexivity. Qed.

(* "With a reference the correct allele is always found", at the level of detect_alleles_by_alignment: for a variant
   list with strictly increasing positions, an alignment whose unit operations decompose as pre ++ LM ++ V ++ RM ++ post
   around variant j as in C06_realign_correct (V starts at the variant's position; REF is non-empty as in every VCF
   record) reports (j, carried allele, quality 30) -- whenever detect_alleles_by_alignment returns at all, i.e. no
   AssertionError is raised for one of the OTHER variants the alignment overlaps. *)
Theorem C06_detect_by_alignment_finds :
  forall (R : rules) (reference query : list Z) (overhang : nat) (variants : list variant) (start : nat) (cig : cigar)
         (j : nat) (v : variant) (pre LM V RM post : list cop) (r1 WL WR r2 q1 q2 : list Z) (carried : nat)
         (ds : list det),
  0 < overhang -> positive_lengths cig ->
  sorted_strict (index_from 0 variants) -> nth_error variants j = Some v ->
  expand cig = pre ++ LM ++ V ++ RM ++ post ->
  vpos v = start + ref_units (pre ++ LM) ->
  forallb is_match LM = true -> forallb is_match RM = true -> forallb is_aligned V = true ->
  carried <= 1 ->
  0 < length (vref v) -> ref_units V = length (vref v) -> query_units V = length (get_allele v carried) ->
  (overhang <= length LM \/ window_end R (rev pre)) ->
  (overhang <= length RM \/ window_end R post) ->
  reference = r1 ++ WL ++ vref v ++ WR ++ r2 -> vpos v = length r1 + length WL ->
  query = q1 ++ WL ++ get_allele v carried ++ WR ++ q2 ->
  length WL = length LM -> length WR = length RM -> length q1 = query_units pre ->
  vref v <> valt v -> is_symbolic v = false ->
  detect_by_alignment R reference overhang variants start cig query = Some ds ->
  In (j, carried, 30) ds.
Proof. exact detect_by_alignment_finds. Qed.
Print Assumptions C06_detect_by_alignment_finds.

(* non-vacuity: the insertion of C06_realign_example (second variant of three), read aligned at reference position 2 *)
Example C06_detect_by_alignment_example :
  let reference := [1;2;3;4;1;2;4;3;1;2;3;3]%Z in
  let variants := [mkVar 1 [2] [4]; mkVar 5 [2] [2;9;9]; mkVar 11 [3] [1]]%Z in
  let cig := [(OpS, 1); (OpM, 4); (OpI, 2); (OpM, 4)] in
  let query := [7; 3;4;1; 2;9;9; 4;3;1;2]%Z in
  sorted_strict (index_from 0 variants) /\
  expand cig = [OpS] ++ [OpM;OpM;OpM] ++ [OpM;OpI;OpI] ++ [OpM;OpM;OpM;OpM] ++ [] /\
  5 = 2 + ref_units ([OpS] ++ [OpM;OpM;OpM]) /\
  detect_by_alignment current_rules reference 3 variants 2 cig query = Some [(1, 1, 30)].
Proof. vm_compute. repeat split; repeat constructor. Qed.

(* restricted_genotypes (haplotagphase passes the sample's genotype of each variant): under the hypotheses of
   C06_realign_correct, re-alignment restricted to ANY genotype that contains the carried allele -- heterozygous,
   homozygous for it, polyploid -- still reports the carried allele.  (Model: realign_restricted; a missing genotype
   [] reports nothing; without restriction the restricted functions are the unrestricted ones, read_set_r_none.) *)
Theorem C06_realign_restricted_correct :
  forall (R : rules) (reference query : list Z) (overhang : nat) (v : variant) (cig : cigar)
         (i consumed qpos : nat) (op : cop) (len : nat) (pre LM V RM post : list cop)
         (r1 WL WR r2 q1 q2 : list Z) (carried : nat) (g : list nat),
  0 < overhang -> positive_lengths cig ->
  nth_error cig i = Some (op, len) -> consumed <= len ->
  firstn (unit_index cig i consumed) (expand cig) = pre ++ LM ->
  skipn (unit_index cig i consumed) (expand cig) = V ++ RM ++ post ->
  forallb is_match LM = true -> forallb is_match RM = true -> forallb is_aligned V = true ->
  carried <= 1 ->
  ref_units V = length (vref v) -> query_units V = length (get_allele v carried) ->
  (overhang <= length LM \/ window_end R (rev pre)) ->
  (overhang <= length RM \/ window_end R post) ->
  reference = r1 ++ WL ++ vref v ++ WR ++ r2 -> vpos v = length r1 + length WL ->
  query = q1 ++ WL ++ get_allele v carried ++ WR ++ q2 ->
  length WL = length LM -> length WR = length RM ->
  length q1 = query_units pre -> qpos = query_units (pre ++ LM) ->
  vref v <> valt v -> is_symbolic v = false ->
  In carried g ->
  realign_restricted R reference overhang v cig query i consumed qpos (Some g) = Some (Some carried).
Proof. exact realign_restricted_correct. Qed.
Print Assumptions C06_realign_restricted_correct.

Theorem C06_read_set_unrestricted :
  forall R reference overhang mapq use_supp dup threshold variants alns,
  read_set_r R reference overhang mapq use_supp dup threshold variants None alns
  = read_set R reference overhang mapq use_supp dup threshold variants alns.
Proof. exact read_set_r_none. Qed.
Print Assumptions C06_read_set_unrestricted.

(* non-vacuity: the insertion of C06_realign_example restricted to 1/1, 0/1 and a missing genotype; a symbolic record *)
Example C06_realign_restricted_example :
  let reference := [1;2;3;4;1;2;4;3;1;2;3;3]%Z in
  let v := mkVar 5 [2]%Z [2;9;9]%Z in
  let cig := [(OpS, 1); (OpM, 4); (OpI, 2); (OpM, 4)] in
  let query := [7; 3;4;1; 2;9;9; 4;3;1;2]%Z in
  realign_restricted current_rules reference 3 v cig query 1 3 4 (Some [1; 1]) = Some (Some 1) /\
  realign_restricted current_rules reference 3 v cig query 1 3 4 (Some [0; 1]) = Some (Some 1) /\
  realign_restricted current_rules reference 3 v cig query 1 3 4 (Some []) = Some None /\
  realign_restricted current_rules reference 3 (mkVar 5 [2]%Z [60;68;69;76;62]%Z) cig query 1 3 4 (Some [0; 1]) = Some None.
Proof. vm_compute. repeat split; reflexivity. Qed.

(* The same statement with reference skips (N) allowed as window ends -- i.e. with `window_end repaired_rules` in the
   hypotheses -- is AlleleDetect.realign_correct_with_skips_statement R.  It holds for the code as it is now
   (current_rules; skip rule repaired by fix 8735279) and was refuted by the code as it was (original_rules):
   cigar_prefix_length reported the *requested* number of reference bases at an N, so the padded alleles extended
   across the skip.  Witness (found on the real implementation by the correspondence check): reference
   TCTGCATCGTAGTCTCGC, deletion GC>G at 3, read TGCATCC aligned 6M5N1M at 2 carries REF -- ReadSetReader reported ALT. *)
Theorem C06_realign_correct_with_skips :
  forall (reference query : list Z) (overhang : nat) (v : variant) (cig : cigar)
         (i consumed qpos : nat) (op : cop) (len : nat) (pre LM V RM post : list cop)
         (r1 WL WR r2 q1 q2 : list Z) (carried : nat),
  0 < overhang -> positive_lengths cig ->
  nth_error cig i = Some (op, len) -> consumed <= len ->
  firstn (unit_index cig i consumed) (expand cig) = pre ++ LM ->
  skipn (unit_index cig i consumed) (expand cig) = V ++ RM ++ post ->
  forallb is_match LM = true -> forallb is_match RM = true -> forallb is_aligned V = true ->
  carried <= 1 ->
  ref_units V = length (vref v) -> query_units V = length (get_allele v carried) ->
  (overhang <= length LM \/ window_end repaired_rules (rev pre)) ->
  (overhang <= length RM \/ window_end repaired_rules post) ->
  reference = r1 ++ WL ++ vref v ++ WR ++ r2 -> vpos v = length r1 + length WL ->
  query = q1 ++ WL ++ get_allele v carried ++ WR ++ q2 ->
  length WL = length LM -> length WR = length RM ->
  length q1 = query_units pre -> qpos = query_units (pre ++ LM) ->
  vref v <> valt v -> is_symbolic v = false ->
  realign current_rules reference overhang v cig query i consumed qpos = Some (Some carried).
Proof. exact realign_with_skips_current. Qed.
Print Assumptions C06_realign_correct_with_skips.

(* realign_correct_with_skips_statement R (coq/model/AlleleDetect.v) is the statement above with R for current_rules *)
Theorem C06_realign_correct_with_skips_original_refuted : ~ realign_correct_with_skips_statement original_rules.
Proof. exact realign_with_skips_original_refuted. Qed.
Print Assumptions C06_realign_correct_with_skips_original_refuted.

(* --- without reference --------------------------------------------------------------------------- *)

(* SNVs: whatever the CIGAR (clips, skips, insertions, deletions, padding, any operation boundaries), the qualities and
   the other variants in the list: if _detect_alleles reports allele a for a variant that is a single-base
   substitution after normalisation, the variant's position lies in a match operation and the query base aligned to
   it IS the base of allele a.  Holds for the current and the repaired rules. *)
Theorem C06_detect_noref_snv :
  forall (R : rules) (variants : list variant) (start : nat) (cig : cigar) (query quals : list Z) (j a q : nat) (v : variant),
  sorted_pos (index_from 0 (map normalized variants)) ->
  In (j, a, q) (detect_noref R variants start cig query quals) ->
  nth_error (map normalized variants) j = Some v -> snv_shape v ->
  a < 2 /\ exists k, query_index cig start (vpos v) = Some k /\ base_at query k = base_at (get_allele v a) 0.
Proof. exact detect_noref_snv. Qed.
Print Assumptions C06_detect_noref_snv.

(* never the other allele, without reference (the full clause): an alignment that shows allele `carried` of a
   (normalised) SNV or pure insertion / deletion at the variant's position -- flanked by aligned bases in the indel
   case -- is never assigned the other allele, whatever else (clips, skips, other insertions/deletions, other variants,
   operation boundaries, qualities) the alignment and the variant list contain.  For the code as it is now. *)
Theorem C06_detect_noref_never_wrong :
  forall (variants : list variant) (start : nat) (cig : cigar) (query quals : list Z) (j a q : nat)
         (v : variant) (carried : nat) (pre V post : list cop) (q1 q2 : list Z),
  sorted_pos (index_from 0 (map normalized variants)) -> positive_lengths cig ->
  In (j, a, q) (detect_noref current_rules variants start cig query quals) ->
  nth_error (map normalized variants) j = Some v ->
  (snv_shape v \/ pure_indel v) -> vref v <> valt v -> carried <= 1 ->
  expand cig = pre ++ V ++ post -> vpos v = start + ref_units pre -> allele_units v carried V ->
  query = q1 ++ get_allele v carried ++ q2 -> length q1 = query_units pre ->
  (pure_indel v -> flanked pre post) ->
  a = carried.
Proof. exact detect_noref_never_wrong_current. Qed.
Print Assumptions C06_detect_noref_never_wrong.

(* the SNV clause holds for every rule set, and without the positivity of the CIGAR lengths *)
Theorem C06_detect_noref_never_wrong_snv :
  forall (R : rules) (variants : list variant) (start : nat) (cig : cigar) (query quals : list Z) (j a q : nat)
         (v : variant) (carried : nat) (pre V post : list cop) (q1 q2 : list Z),
  sorted_pos (index_from 0 (map normalized variants)) ->
  In (j, a, q) (detect_noref R variants start cig query quals) ->
  nth_error (map normalized variants) j = Some v ->
  snv_shape v -> vref v <> valt v -> carried <= 1 ->
  expand cig = pre ++ V ++ post -> vpos v = start + ref_units pre -> allele_units v carried V ->
  query = q1 ++ get_allele v carried ++ q2 -> length q1 = query_units pre ->
  a = carried.
Proof. exact detect_noref_never_wrong_snv. Qed.
Print Assumptions C06_detect_noref_never_wrong_snv.

(* no allele for a variant the read does not overlap, without reference: a reported variant's normalised position
   lies within the reference span of the alignment (at its end only for an insertion operation that ends the CIGAR).
   (The clause in terms of the footprint of the ORIGINAL record, AlleleDetect.detect_noref_only_overlapped_statement,
   is not proved: it needs the CIGAR not to end with an insertion; it is validated by the correspondence check and
   was refuted by the code as it was, see below.) *)
Theorem C06_detect_noref_within_span :
  forall (R : rules), r_ins_span R = true ->
  forall (variants : list variant) (start : nat) (cig : cigar) (query quals : list Z) (j a q : nat) (v : variant),
  sorted_pos (index_from 0 (map normalized variants)) ->
  In (j, a, q) (detect_noref R variants start cig query quals) ->
  nth_error (map normalized variants) j = Some v ->
  start <= vpos v /\ vpos v <= start + ref_units (expand cig).
Proof. exact detect_noref_within_span. Qed.
Print Assumptions C06_detect_noref_within_span.

(* non-vacuity: a deletion shown by the read (CG>C at 4: normalised G> at 5) and an insertion not shown (A>ATT at 8) *)
Example C06_detect_noref_indel_example :
  let variants := [mkVar 4 [67;71] [67]; mkVar 8 [65] [65;84;84]]%Z in
  let cig := [(OpM, 3); (OpD, 1); (OpM, 6)] in
  let query := [65;67;67; 84;65;67;65;71;71]%Z in
  map normalized variants = [mkVar 5 [71] []; mkVar 9 [] [84;84]]%Z /\
  sorted_pos (index_from 0 (map normalized variants)) /\
  detect_noref current_rules variants 2 cig query [] = [(0, 1, 30); (1, 0, 30)] /\
  expand cig = [OpM;OpM;OpM] ++ [OpD] ++ [OpM;OpM;OpM;OpM;OpM;OpM] /\
  allele_units (mkVar 5 [71] [])%Z 1 [OpD] /\ flanked [OpM;OpM;OpM] [OpM;OpM;OpM;OpM;OpM;OpM] /\
  expand cig = [OpM;OpM;OpM;OpD;OpM;OpM;OpM] ++ [] ++ [OpM;OpM;OpM] /\
  allele_units (mkVar 9 [] [84;84])%Z 0 [] /\ flanked [OpM;OpM;OpM;OpD;OpM;OpM;OpM] [OpM;OpM;OpM].
Proof.
vm_compute. repeat split; repeat constructor.
- exists []. repeat split.
- exists [OpM; OpM], OpM. now split.
- exists OpM, [OpM;OpM;OpM;OpM;OpM]. now split.
- exists [OpM;OpM;OpM;OpD;OpM;OpM], OpM. now split.
- exists OpM, [OpM;OpM]. now split.
Qed.

(* non-vacuity: the insertion C>CTT at 3 shown by two adjacent insertion operations behind a soft clip *)
Example C06_detect_noref_insertion_example :
  let variants := [mkVar 3 [67] [67;84;84]]%Z in
  let cig := [(OpS, 1); (OpM, 4); (OpI, 1); (OpI, 1); (OpEQ, 3)] in
  let query := [9; 65;71;65;67; 84;84; 71;65;71]%Z in
  map normalized variants = [mkVar 4 [] [84;84]]%Z /\
  detect_noref current_rules variants 0 cig query [] = [(0, 1, 30)] /\
  expand cig = [OpS;OpM;OpM;OpM;OpM] ++ [OpI;OpI] ++ [OpEQ;OpEQ;OpEQ] /\
  allele_units (mkVar 4 [] [84;84])%Z 1 [OpI;OpI] /\ flanked [OpS;OpM;OpM;OpM;OpM] [OpEQ;OpEQ;OpEQ] /\
  query = [9; 65;71;65;67]%Z ++ [84;84]%Z ++ [71;65;71]%Z /\ 5 = query_units [OpS;OpM;OpM;OpM;OpM].
Proof.
vm_compute. repeat split.
- exists []. repeat split.
- exists [OpS;OpM;OpM;OpM], OpM. now split.
- exists OpEQ, [OpEQ;OpEQ]. now split.
Qed.

(* non-vacuity: two SNVs, the second inside a read with soft clip, insertion and skip; both resolved *)
Example C06_detect_noref_example :
  let variants := [mkVar 3 [65] [67]; mkVar 9 [71] [84]; mkVar 30 [65] [67]]%Z in
  let cig := [(OpS, 2); (OpM, 3); (OpI, 1); (OpM, 2); (OpN, 2); (OpEQ, 2); (OpX, 1); (OpM, 2)] in
  let query := [1;1; 65;67;67; 9; 71;71; 65;84; 84; 65;65]%Z in
  sorted_pos (index_from 0 (map normalized variants)) /\
  detect_noref current_rules variants 1 cig query [] = [(0, 1, 30); (1, 1, 30)] /\
  query_index cig 1 3 = Some 4 /\ query_index cig 1 9 = Some 9.
Proof. vm_compute. repeat split; repeat constructor. Qed.

(* detect_noref_never_wrong_statement R (coq/model/AlleleDetect.v) is the statement of C06_detect_noref_never_wrong with
   R for current_rules.  The code as it was refuted the insertion clause: at an I operation _detect_alleles queued every insertion variant
   less than `length` bases downstream (ref_end = ref_pos + length; repaired by fix 064e8b6).  Witness: reference
   GATCAGTC, listed insertion C>CGG at 3, read GATTTCGGAGTC aligned 3M2I1M2I4M carries it behind an unrelated
   insertion TT -- reported: REF. *)
Theorem C06_detect_noref_never_wrong_original_refuted : ~ detect_noref_never_wrong_statement original_rules.
Proof. exact detect_noref_never_wrong_original_refuted. Qed.
Print Assumptions C06_detect_noref_never_wrong_original_refuted.

(* "No allele for a variant the read does not overlap" without reference
   (AlleleDetect.detect_noref_only_overlapped_statement) was refuted by the code as it was: an insertion whose anchor is
   the base immediately before the first aligned base was reported as REF (repaired by fix 7e88262).  Witness: reference
   GATCAGTC, insertion C>CTT at 3, read AGTC aligned 4M at 4.  (With reference the clause is C06_iterate_cigar_sound;
   without reference it is not proved for the code as it is now, only validated by the correspondence check.) *)
Theorem C06_detect_noref_only_overlapped_original_refuted : ~ detect_noref_only_overlapped_statement original_rules.
Proof. exact detect_noref_only_overlapped_original_refuted. Qed.
Print Assumptions C06_detect_noref_only_overlapped_original_refuted.

(* Without reference, records with a symbolic ALT (<DEL>, <DUP>, ...) are never reported (fix b8437fb: they are left out
   like in re-alignment).  detect_noref_skips_symbolic_statement R is the statement with R for current_rules; the code
   as it was took '<DEL>' as literal text (a 4-base insertion) and reported REF for every spanning read: witness
   reference GATCAGTC, record (3, C, <DEL>), read GATCAGTC aligned 8M. *)
Theorem C06_detect_noref_skips_symbolic :
  forall (variants : list variant) (start : nat) (cig : cigar) (query quals : list Z) (j a q : nat) (v : variant),
  sorted_pos (index_from 0 (map normalized variants)) ->
  In (j, a, q) (detect_noref current_rules variants start cig query quals) ->
  nth_error (map normalized variants) j = Some v ->
  is_symbolic v = false.
Proof. exact detect_noref_skips_symbolic_current. Qed.
Print Assumptions C06_detect_noref_skips_symbolic.

Theorem C06_detect_noref_skips_symbolic_original_refuted : ~ detect_noref_skips_symbolic_statement original_rules.
Proof. exact detect_noref_skips_symbolic_original_refuted. Qed.
Print Assumptions C06_detect_noref_skips_symbolic_original_refuted.

(* --- read pairs ---------------------------------------------------------------------------------- *)

(* "Both primary alignments of a pair contribute" (AlleleDetect.pair_keeps_both_mates_statement: the allele of a
   variant detected on the first mate is in the merged read, provided no alignment of the pair reports that position
   differently) holds for the code as it is now and was refuted by the code
   as it was: create_read_from_group dropped every alignment whose strand differs from the last primary one, i.e. one
   mate of every forward/reverse pair (repaired by fix ad24a2d). *)
Theorem C06_pair_keeps_both_mates :
  forall (threshold : Z) (r1 r2 : aligned_read) (x : rvar),
  (0 <= threshold)%Z -> ar_start r2 <= ar_end r2 ->
  ar_supp r1 = false -> ar_supp r2 = false -> ar_name r1 = ar_name r2 ->
  Z.leb (ar_distance current_rules r2 r1) threshold = true ->
  In x (ar_vars r1) -> (forall y, In y (ar_vars r1 ++ ar_vars r2) -> fst (fst y) = fst (fst x) -> y = x) ->
  exists vs, read_from_group current_rules threshold [r1; r2] = Some (ar_name r2, vs) /\ In x vs.
Proof. exact pair_keeps_both_mates_current. Qed.
Print Assumptions C06_pair_keeps_both_mates.

(* pair_keeps_both_mates_statement R is the statement above with R for current_rules *)
Theorem C06_pair_keeps_both_mates_original_refuted : ~ pair_keeps_both_mates_statement original_rules.
Proof. exact pair_keeps_both_mates_original_refuted. Qed.
Print Assumptions C06_pair_keeps_both_mates_original_refuted.

(* "A single primary alignment keeps the alleles detected on it" (AlleleDetect.single_alignment_kept_statement) holds
   for the code as it is now and was refuted by the code as it was: AlignedRead.distance(primary, primary) was the reference span of the alignment, so an
   alignment spanning more than the supplementary distance threshold (default 100 000) dropped out of its own group and
   the read lost every allele (reproduced on the real implementation with a 100 250 base alignment; repaired by fix
   9cec2b4). *)
Theorem C06_single_alignment_kept :
  forall (threshold : Z) (r : aligned_read) (x : rvar),
  (0 <= threshold)%Z -> ar_supp r = false -> ar_start r <= ar_end r -> In x (ar_vars r) ->
  (forall y, In y (ar_vars r) -> fst (fst y) = fst (fst x) -> y = x) ->
  exists vs, read_from_group current_rules threshold [r] = Some (ar_name r, vs) /\ In x vs.
Proof. exact single_alignment_kept_current. Qed.
Print Assumptions C06_single_alignment_kept.

(* single_alignment_kept_statement R is the statement above with R for current_rules *)
Theorem C06_single_alignment_kept_original_refuted : ~ single_alignment_kept_statement original_rules.
Proof. exact single_alignment_kept_original_refuted. Qed.
Print Assumptions C06_single_alignment_kept_original_refuted.

(* --- read groups ---------------------------------------------------------------------------------- *)

(* SampleBamReader.fetch(sample = s) (model: sample_select) delivers exactly the alignments whose RG tag names a read
   group with SM = s -- for every order of the @RG lines in the header, in particular when the read groups of a sample
   are not adjacent.  (h: the @RG lines as (read group id, SM); rgs: the RG tag of each alignment.) *)
Theorem C06_sample_select_spec :
  forall (h : rg_header) (s : nat) (rgs : list (option nat)) (alns l : list alignment) (a : alignment),
  sample_select h (Some s) rgs alns = (Some l, 0) ->
  (In a l <-> exists k g, nth_error alns k = Some a /\ nth_error rgs k = Some (Some g) /\ In (g, Some s) h).
Proof. exact sample_select_spec. Qed.
Print Assumptions C06_sample_select_spec.

Example C06_sample_select_example :
  sample_groups [(1, Some 0); (2, Some 1); (3, Some 0); (4, None)] 0 = [1; 3] /\
  select_by_rg [1; 3] [Some 3; Some 2; Some 1; Some 4] [10; 11; 12; 13] = [10; 12].
Proof. vm_compute. split; reflexivity. Qed.

(* the witnesses at the level of ReadSetReader.read, under the rules of the code as it was (what the real
   implementation returned before the fix: commits; found by the correspondence check) and under the repaired rules *)
Example C06_witnesses :
  let aln n rev start cig q := mkAln n false false false false rev 60 start cig q (map (fun _ => 30%Z) q) in
  (* skip: wrong allele *)
  read_set_default original_rules (Some [84;67;84;71;67;65;84;67;71;84;65;71;84;67;84;67;71;67]%Z) 100000%Z
    [mkVar 3 [71;67]%Z [71]%Z] [aln 0 false 2 [(OpM, 6); (OpN, 5); (OpM, 1)] [84;71;67;65;84;67;67]%Z]
    = Some [(0, [(3, 1, 30)])] /\
  read_set_default repaired_rules (Some [84;67;84;71;67;65;84;67;71;84;65;71;84;67;84;67;71;67]%Z) 100000%Z
    [mkVar 3 [71;67]%Z [71]%Z] [aln 0 false 2 [(OpM, 6); (OpN, 5); (OpM, 1)] [84;71;67;65;84;67;67]%Z]
    = Some [(0, [(3, 0, 30)])] /\
  (* skip: AssertionError *)
  read_set_default original_rules (Some [84;67;84;67;65;84;65;67;84;71;84;65;84;71]%Z) 100000%Z
    [mkVar 4 [65]%Z [84]%Z] [aln 0 false 4 [(OpM, 4); (OpN, 2); (OpM, 1)] [84;84;65;67;84]%Z] = None /\
  read_set_default repaired_rules (Some [84;67;84;67;65;84;65;67;84;71;84;65;84;71]%Z) 100000%Z
    [mkVar 4 [65]%Z [84]%Z] [aln 0 false 4 [(OpM, 4); (OpN, 2); (OpM, 1)] [84;84;65;67;84]%Z] = Some [(0, [(4, 1, 30)])] /\
  (* insertion at the start of the aligned block *)
  read_set_default original_rules None 100000%Z [mkVar 3 [67]%Z [67;84;84]%Z] [aln 0 false 4 [(OpM, 4)] [65;71;84;67]%Z]
    = Some [(0, [(3, 0, 30)])] /\
  read_set_default repaired_rules None 100000%Z [mkVar 3 [67]%Z [67;84;84]%Z] [aln 0 false 4 [(OpM, 4)] [65;71;84;67]%Z]
    = Some [] /\
  (* insertion behind an unrelated insertion *)
  read_set_default original_rules None 100000%Z [mkVar 3 [67]%Z [67;71;71]%Z]
    [aln 0 false 0 [(OpM, 3); (OpI, 2); (OpM, 1); (OpI, 2); (OpM, 4)] [71;65;84;84;84;67;71;71;65;71;84;67]%Z]
    = Some [(0, [(3, 0, 30)])] /\
  read_set_default repaired_rules None 100000%Z [mkVar 3 [67]%Z [67;71;71]%Z]
    [aln 0 false 0 [(OpM, 3); (OpI, 2); (OpM, 1); (OpI, 2); (OpM, 4)] [71;65;84;84;84;67;71;71;65;71;84;67]%Z]
    = Some [(0, [(3, 1, 30)])] /\
  (* forward/reverse pair: GAGCA at 0 (+), GTACA at 5 (-), SNVs T>G at 2 and C>A at 7 *)
  read_set_default original_rules (Some [71;65;84;67;65;71;84;67;67;65]%Z) 100000%Z [mkVar 2 [84]%Z [71]%Z; mkVar 7 [67]%Z [65]%Z]
    [aln 0 false 0 [(OpM, 5)] [71;65;71;67;65]%Z; aln 0 true 5 [(OpM, 5)] [71;84;65;67;65]%Z]
    = Some [(0, [(7, 1, 30)])] /\
  read_set_default repaired_rules (Some [71;65;84;67;65;71;84;67;67;65]%Z) 100000%Z [mkVar 2 [84]%Z [71]%Z; mkVar 7 [67]%Z [65]%Z]
    [aln 0 false 0 [(OpM, 5)] [71;65;71;67;65]%Z; aln 0 true 5 [(OpM, 5)] [71;84;65;67;65]%Z]
    = Some [(0, [(2, 1, 30); (7, 1, 30)])] /\
  (* an alignment longer than the distance threshold (here 8) *)
  read_set_default original_rules (Some [71;65;84;67;65;71;84;67;67;65]%Z) 8%Z [mkVar 2 [84]%Z [71]%Z]
    [aln 0 false 0 [(OpM, 10)] [71;65;71;67;65;71;84;67;67;65]%Z] = Some [(0, [])] /\
  read_set_default repaired_rules (Some [71;65;84;67;65;71;84;67;67;65]%Z) 8%Z [mkVar 2 [84]%Z [71]%Z]
    [aln 0 false 0 [(OpM, 10)] [71;65;71;67;65;71;84;67;67;65]%Z] = Some [(0, [(2, 1, 30)])].
Proof. vm_compute. repeat split; reflexivity. Qed.
