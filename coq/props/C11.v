(* C11 — compare reports the defined error counts, independent of haplotype labelling.
   Only the property theorems (each closed by `exact`), their assumption printouts and
   non-vacuity examples.  Model: model/Compare.v (whatshap/cli/compare.py, switchflipcalculator.cpp). *)
From Coq Require Import List Bool Arith NArith ZArith Permutation.
From WH.Model Require Import Compare.
From WH.Proofs Require Import CompareProofs CompareBlocksProofs ComparePolyProofs.
Import ListNotations.

(* ============================ diploid blocks (0/1 strings) ==================================== *)

(* switches_def.  A switch at point j exchanges the haplotypes from variant j+1 on (switch_at: the
   suffix of the 0/1 string is complemented).  The reported switch error count
   hamming(switch_encoding p0, switch_encoding p1) is the minimum number of switch points turning p0
   into p1 or into its complement: it is attained by a set of distinct in-range switch points, and no
   list of switch points (of any kind) that works is shorter. *)
Theorem C11_switches_def : forall p0 p1 : hap, length p0 = length p1 ->
  (exists ss, NoDup ss /\ (forall j, In j ss -> S j < length p0) /\
              length ss = hamming (switch_encoding p0) (switch_encoding p1) /\
              (apply_switches ss p0 = p1 \/ apply_switches ss p0 = complement p1)) /\
  (forall ss, (apply_switches ss p0 = p1 \/ apply_switches ss p0 = complement p1) ->
              hamming (switch_encoding p0) (switch_encoding p1) <= length ss).
Proof. exact switches_def. Qed.
Print Assumptions C11_switches_def.

(* sf_identity: switches = (non-flip) switches + 2 * flips of the switch/flip decomposition *)
Theorem C11_sf_identity : forall p0 p1 : hap, length p0 = length p1 ->
  hamming (switch_encoding p0) (switch_encoding p1)
  = fst (compute_switch_flips p0 p1) + 2 * snd (compute_switch_flips p0 p1).
Proof. exact sf_identity. Qed.
Print Assumptions C11_sf_identity.

(* what compare_block reports on a heterozygous diploid block (haplotypes p, complement p): the switch
   count of switches_def, the Hamming distance minimised over the two haplotype correspondences,
   the decomposition of sf_identity, and no genotype difference; it never fails. *)
Theorem C11_block_numbers : forall p0 p1 : hap, length p0 = length p1 ->
  compare_block_dip (p0, complement p0) (p1, complement p1)
  = Some (PE (hamming (switch_encoding p0) (switch_encoding p1))
             (Nat.min (hamming p0 p1) (hamming p0 (complement p1)))
             (compute_switch_flips p0 p1) 0).
Proof. exact compare_block_het. Qed.
Print Assumptions C11_block_numbers.

Theorem C11_zero_on_equal : forall p : hap,
  compare_block_dip (p, complement p) (p, complement p) = Some (PE 0 0 (0, 0) 0).
Proof. exact zero_on_equal. Qed.
Print Assumptions C11_zero_on_equal.

(* label_invariance: listing the two haplotypes of the phase set in the other order in either file
   (= complementing the first haplotype string), or exchanging the two files, changes no number *)
Theorem C11_label_invariance : forall p0 p1 : hap, length p0 = length p1 ->
  compare_block_dip (complement p0, p0) (p1, complement p1)
    = compare_block_dip (p0, complement p0) (p1, complement p1) /\
  compare_block_dip (p0, complement p0) (complement p1, p1)
    = compare_block_dip (p0, complement p0) (p1, complement p1) /\
  compare_block_dip (p1, complement p1) (p0, complement p0)
    = compare_block_dip (p0, complement p0) (p1, complement p1).
Proof. exact label_invariance. Qed.
Print Assumptions C11_label_invariance.

(* bed_count: one BED record per switch error *)
Theorem C11_bed_count : forall (p0 p1 : hap) (pos : list Z),
  length p0 = length p1 -> length pos = length p0 ->
  length (bed_records p0 p1 pos) = hamming (switch_encoding p0) (switch_encoding p1).
Proof. exact bed_count. Qed.
Print Assumptions C11_bed_count.

(* agreement_matches_hamming.  Full statement (for the orientation rule in force in the model):
     forall p0 p1 e, length p0 = length p1 ->
       compare_block_dip (p0, complement p0) (p1, complement p1) = Some e ->
       zeros (agreement (p0, complement p0) (p1, complement p1)) = pe_hamming e.
   The faithful model of the CURRENT compare_pair (orientation by hamming() of the two LISTS of
   haplotype strings) refutes it: *)
Theorem C11_agreement_matches_hamming_refuted : exists (p0 p1 : hap) (e : phasing_errors),
  length p0 = length p1 /\
  compare_block_dip (p0, complement p0) (p1, complement p1) = Some e /\
  zeros (agreement_current (p0, complement p0) (p1, complement p1)) <> pe_hamming e.
Proof. exact agreement_current_refuted. Qed.
Print Assumptions C11_agreement_matches_hamming_refuted.

(* ... and it holds for the corrected rule hamming(phasing0[0], phasing1[0]) < hamming(phasing0[0],
   complement(phasing1[0])) (model function agreement_fixed; after the repair of /repo switch
   `Definition agreement` in model/Compare.v to agreement_fixed). *)
Theorem C11_agreement_matches_hamming_fixed : forall (p0 p1 : hap) (e : phasing_errors),
  length p0 = length p1 ->
  compare_block_dip (p0, complement p0) (p1, complement p1) = Some e ->
  zeros (agreement_fixed (p0, complement p0) (p1, complement p1)) = pe_hamming e.
Proof. exact agreement_fixed_matches_hamming. Qed.
Print Assumptions C11_agreement_matches_hamming_fixed.

(* the same for the alternative repair that compares with phasing1[1] instead of complement(phasing1[0])
   (it also removes the KeyError on alleles >= 2); model function agreement_fixed_alt *)
Theorem C11_agreement_matches_hamming_fixed_alt : forall (p0 p1 : hap) (e : phasing_errors),
  length p0 = length p1 ->
  compare_block_dip (p0, complement p0) (p1, complement p1) = Some e ->
  zeros (agreement_fixed_alt (p0, complement p0) (p1, complement p1)) = pe_hamming e.
Proof. exact agreement_fixed_alt_matches_hamming. Qed.
Print Assumptions C11_agreement_matches_hamming_fixed_alt.

(* ============================ block intersection ============================================= *)

(* intersection_blocks: with one row of block ids per common variant (k data sets), the joint blocks of
   compare() have distinct keys, every key has one id per data set, and for every such key:
   (key, vs) is a joint block  iff  vs is the non-empty intersection of the phase sets key[i] of data set i. *)
Theorem C11_intersection_blocks : forall (ids : list (list (option Z))) (k : nat),
  (forall r, In r ids -> length r = k) ->
  NoDup (map fst (block_intersection ids)) /\
  (forall key vs, In (key, vs) (block_intersection ids) -> length key = k) /\
  (forall key vs, length key = k ->
     (In (key, vs) (block_intersection ids) <-> (vs <> [] /\ vs = joint_spec ids key))).
Proof. exact intersection_blocks_full. Qed.
Print Assumptions C11_intersection_blocks.

(* ============================ polyploid blocks =============================================== *)

(* the permutations the minimum ranges over are exactly all permutations of the k haplotypes *)
Theorem C11_perms_complete : forall (k : nat) (p : perm),
  In p (perms k) <-> Permutation p (seq 0 k).
Proof. exact perms_in. Qed.
Print Assumptions C11_perms_complete.

(* sf_spec is the minimum, over all sequences of haplotype permutations (one per position), of
   switch_cost * (number of rows re-assigned between consecutive positions) + flip_cost * (number of
   mismatching alleles under the assignment) *)
Theorem C11_sf_spec_is_minimum : forall (sc fc : N) (k : nat) (cs : cols),
  (exists path, length path = length cs /\ Forall (fun p => Permutation p (seq 0 k)) path /\
                path_cost sc fc path cs = sf_spec sc fc k cs) /\
  (forall path, length path = length cs -> Forall (fun p => Permutation p (seq 0 k)) path ->
                (sf_spec sc fc k cs <= path_cost sc fc path cs)%N).
Proof. exact sf_spec_is_min. Qed.
Print Assumptions C11_sf_spec_is_minimum.

(* the (unpruned) dynamic program of SwitchFlipCalculator::compare computes it: all ploidies, lengths, costs *)
Theorem C11_sf_dp_eq_spec : forall (sc fc : N) (k : nat) (cs : cols),
  sf_dp sc fc k cs = sf_spec sc fc k cs.
Proof. exact sf_dp_eq_spec. Qed.
Print Assumptions C11_sf_dp_eq_spec.

(* invariance under listing the haplotypes of either phasing in a different order *)
Theorem C11_sf_permutation_invariance : forall (sc fc : N) (k : nat) (s : perm) (cs : cols),
  Permutation s (seq 0 k) ->
  Forall (fun c => length (fst c) = k /\ length (snd c) = k) cs ->
  sf_spec sc fc k (permute0 s cs) = sf_spec sc fc k cs /\
  sf_spec sc fc k (permute1 s cs) = sf_spec sc fc k cs.
Proof. exact sf_permutation_invariance. Qed.
Print Assumptions C11_sf_permutation_invariance.

Theorem C11_sf_zero_on_equal : forall (sc fc : N) (k : nat) (cl : list column),
  Forall (fun c => length c = k) cl ->
  sf_spec sc fc k (map (fun c => (c, c)) cl) = 0%N.
Proof. exact sf_spec_zero_on_equal. Qed.
Print Assumptions C11_sf_zero_on_equal.

(* ============================ non-vacuity examples =========================================== *)

Definition ex_h (l : list nat) : hap := map (fun x => negb (Nat.eqb x 0)) l.

(* a block with a flip (two adjacent switches) and a lone switch: 3 = 1 + 2*1, brute force agrees *)
Example C11_ex_diploid :
  let p0 := ex_h [0;0;0;0;0;0;0;0] in
  let p1 := ex_h [0;0;1;0;0;1;1;1] in
  length p0 = length p1 /\
  hamming (switch_encoding p0) (switch_encoding p1) = 3 /\
  compute_switch_flips p0 p1 = (1, 1) /\
  min_switches_bf p0 p1 = Some 3 /\
  compare_block_dip (p0, complement p0) (p1, complement p1) = Some (PE 3 4 (1, 1) 0) /\
  zeros (agreement_fixed (p0, complement p0) (p1, complement p1)) = 4 /\
  length (bed_records p0 p1 [10;20;30;40;50;60;70;80]%Z) = 3.
Proof. vm_compute. repeat split; reflexivity. Qed.

(* the F1 witness of DESIGN section 7: 7 disagreements marked, Hamming distance 3 *)
Example C11_ex_F1 :
  let p0 := ex_h [0;0;0;0;0;0;0;0;0;0] in
  let p1 := ex_h [1;1;1;1;1;1;1;0;0;0] in
  option_map pe_hamming (compare_block_dip (p0, complement p0) (p1, complement p1)) = Some 3 /\
  zeros (agreement_current (p0, complement p0) (p1, complement p1)) = 7 /\
  zeros (agreement_fixed (p0, complement p0) (p1, complement p1)) = 3.
Proof. vm_compute. repeat split; reflexivity. Qed.

(* interleaved phase sets of two data sets, an unphased variant, a singleton intersection *)
Example C11_ex_blocks :
  let ids := [[Some 1; Some 5]; [Some 1; Some 7]; [None; Some 5]; [Some 2; Some 5]; [Some 1; Some 5]]%Z in
  (forall r, In r ids -> length r = 2) /\
  block_intersection ids = [([1; 5]%Z, [0; 4]); ([1; 7]%Z, [1]); ([2; 5]%Z, [3])] /\
  joint_spec ids [1; 5]%Z = [0; 4] /\ joint_spec ids [2; 7]%Z = [].
Proof.
  split; [|vm_compute; repeat split; reflexivity].
  intros r Hr. cbn in Hr. repeat (destruct Hr as [<-|Hr]; [reflexivity|]). destruct Hr.
Qed.

(* triploid block of tests/test_run_compare.py: cost 2 (= 2/3 per haplotype), DP = brute force over
   6^6 sequences, and a row permutation of either side does not change it *)
Example C11_ex_poly :
  let a := [[0;0;0;0;0;0]; [1;0;1;1;1;1]; [1;1;1;0;1;0]]%Z in
  let b := [[0;0;0;0;0;0]; [1;0;1;0;1;0]; [1;1;1;1;1;1]]%Z in
  let cs := combine (columns_of 6 a) (columns_of 6 b) in
  Forall (fun c => length (fst c) = 3 /\ length (snd c) = 3) cs /\
  sf_spec 1 1 3 cs = 2%N /\ sf_dp 1 1 3 cs = 2%N /\
  sf_spec 1 1 3 (permute0 [2; 0; 1] cs) = 2%N /\ sf_spec 1 1 3 (permute1 [1; 0; 2] cs) = 2%N /\
  Permutation [2; 0; 1] (seq 0 3).
Proof.
  split; [repeat constructor|].
  split; [vm_compute; reflexivity|]. split; [vm_compute; reflexivity|].
  split; [vm_compute; reflexivity|]. split; [vm_compute; reflexivity|].
  apply perms_in. vm_compute. tauto.
Qed.
