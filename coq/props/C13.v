(* C13 — `whatshap unphase` accepts every VCF, removes all phase information and nothing else.
   Only the property theorems (each closed by `exact`), their assumption printouts and non-vacuity
   examples.  Model: coq/model/Unphase.v (`cur_rule` = whatshap/cli/unphase.py as it is, with pysam's
   exceptions as error values; `fixed_rule` / `unphase_fixed` = the repaired record step).
   Keys: K_HP = 1, K_PS = 2, K_PQ = 3; an allele is `option Z` (None = '.'). *)
From Coq Require Import ZArith List Bool Arith Permutation.
From WH.Model Require Import Unphase.
From WH.Proofs Require Import UnphaseProofs.
Import ListNotations.
Open Scope Z_scope.

(* ============================================================ totality: refuted for the current code *)

(* The clause "unphase succeeds on every well-formed VCF", for the faithful model of the current code. *)
Definition C13_unphase_total_full_statement : Prop :=
  forall rs : list vrec, exists out, unphase_file cur_rule rs = (out, None) /\ length out = length rs.

(* It is false: three classes of records make run_unphase raise (finding F2): a called haploid genotype
   (IndexError), a polyploid genotype whose first two alleles are called and a later one is missing
   (TypeError in sorted), a record without GT (KeyError).  Each witness replays on the real CLI. *)
Theorem C13_unphase_total_refuted :
  ~ (forall rs : list vrec, exists out, unphase_file cur_rule rs = (out, None) /\ length out = length rs).
Proof. exact cur_total_refuted. Qed.
Print Assumptions C13_unphase_total_refuted.

Theorem C13_unphase_total_refuted_haploid :
  exists r, r = mkRec [] [mkCall (Some [Some 1]) false []] /\ unphase_rec cur_rule r = Err EIndex.
Proof. exact cur_refuted_haploid_ex. Qed.
Print Assumptions C13_unphase_total_refuted_haploid.

Theorem C13_unphase_total_refuted_partial_polyploid :
  exists r, r = mkRec [] [mkCall (Some [Some 0; Some 1; None]) true []] /\ unphase_rec cur_rule r = Err EType.
Proof. exact cur_refuted_partial_ex. Qed.
Print Assumptions C13_unphase_total_refuted_partial_polyploid.

Theorem C13_unphase_total_refuted_no_gt :
  exists r, r = mkRec [] [mkCall None false [(10, 7)]] /\ unphase_rec cur_rule r = Err EKey.
Proof. exact cur_refuted_nogt_ex. Qed.
Print Assumptions C13_unphase_total_refuted_no_gt.

(* Exactly these classes: the call step of the current code raises iff `crash_class` names an exception,
   and otherwise computes the repaired step. *)
Theorem C13_current_call_step : forall c : call,
  unphase_call cur_rule c =
  match crash_class c with Some e => Err e | None => Ok (unphase_call_fixed c) end.
Proof. exact cur_call_eq. Qed.
Print Assumptions C13_current_call_step.

Theorem C13_current_succeeds_iff_no_crash_class : forall r : vrec,
  (exists r', unphase_rec cur_rule r = Ok r') <-> rec_crashes r = false.
Proof. exact cur_rec_ok_iff. Qed.
Print Assumptions C13_current_succeeds_iff_no_crash_class.

(* ================================================================== the repaired record step *)

(* total: the repaired rule never raises; every record is written *)
Theorem C13_fixed_total : forall rs : list vrec,
  unphase_file fixed_rule rs = (map unphase_fixed rs, None).
Proof. exact fixed_file. Qed.
Print Assumptions C13_fixed_total.

(* clean: no phased genotype, no HP / PS / PQ *)
Theorem C13_fixed_clean : forall (r : vrec) (c : call), In c (r_calls (unphase_fixed r)) ->
  c_phased c = false /\ forall k v, In (k, v) (c_fields c) -> k <> K_HP /\ k <> K_PS /\ k <> K_PQ.
Proof. exact fixed_clean. Qed.
Print Assumptions C13_fixed_clean.

(* frames: fixed columns, number of samples, presence of GT, all other FORMAT fields (values and order)
   and the multiset of alleles of every genotype are unchanged *)
Theorem C13_fixed_frames : forall r : vrec,
  r_fixed (unphase_fixed r) = r_fixed r /\
  length (r_calls (unphase_fixed r)) = length (r_calls r) /\
  forall i c, nth_error (r_calls r) i = Some c ->
    exists c', nth_error (r_calls (unphase_fixed r)) i = Some c' /\
      c_fields c' = filter (fun kv => negb (is_phase_key (fst kv))) (c_fields c) /\
      match c_gt c, c_gt c' with
      | None, None => True
      | Some g, Some g' => Permutation g g'
      | _, _ => False
      end.
Proof. exact fixed_frames. Qed.
Print Assumptions C13_fixed_frames.

(* nothing else: a record without phase information whose fully called genotypes are ascending is untouched *)
Theorem C13_fixed_noop_without_phase_information : forall r : vrec,
  rec_clean r = true ->
  (forall c g zs, In c (r_calls r) -> c_gt c = Some g -> all_called g = Some zs -> isort zs = zs) ->
  unphase_fixed r = r.
Proof. exact fixed_noop. Qed.
Print Assumptions C13_fixed_noop_without_phase_information.

Example C13_noop_example :
  let r := mkRec [1; 2] [mkCall (Some [Some 0; Some 1]) false [(10, 5)]; mkCall (Some [None; Some 0]) false [];
                         mkCall None false [(11, 4)]] in
  rec_clean r = true /\ unphase_fixed r = r.
Proof. vm_compute. split; reflexivity. Qed.

(* idempotent *)
Theorem C13_fixed_idempotent : forall r : vrec, unphase_fixed (unphase_fixed r) = unphase_fixed r.
Proof. exact fixed_idem. Qed.
Print Assumptions C13_fixed_idempotent.

(* unphase after phase: whatever a phasing writer does within `rec_phase_rel` (permute the alleles of fully
   called genotypes, set the phased flag, set / add / remove HP, PS, PQ) is undone *)
Theorem C13_fixed_after_phase : forall r r' : vrec, rec_phase_rel r r' -> unphase_fixed r' = unphase_fixed r.
Proof. exact fixed_after_phase. Qed.
Print Assumptions C13_fixed_after_phase.

Theorem C13_phase_write_within_relation : forall (ds : list pdec) (r : vrec), rec_phase_rel r (phase_write ds r).
Proof. exact phase_write_rel. Qed.
Print Assumptions C13_phase_write_within_relation.

Theorem C13_fixed_after_phase_write : forall (ds : list pdec) (r : vrec),
  unphase_fixed (phase_write ds r) = unphase_fixed r.
Proof. exact fixed_after_phase_write. Qed.
Print Assumptions C13_fixed_after_phase_write.

(* any history of phase / unphase applications, then unphase = unphase of the original *)
Theorem C13_fixed_history : forall (ops : list hop) (r : vrec),
  unphase_fixed (fold_left hstep ops r) = unphase_fixed r.
Proof. exact fixed_history. Qed.
Print Assumptions C13_fixed_history.

Example C13_phase_example :
  let r := mkRec [1] [mkCall (Some [Some 0; Some 1]) false [(10, 5)]; mkCall (Some [Some 0; None]) false [(10, 6)]] in
  let ds := [mkDec (Some [1; 0]) true [(K_PS, 77)]; mkDec (Some [1; 0]) false [(K_PS, 78); (K_HP, 79)]] in
  phase_write ds r = mkRec [1] [mkCall (Some [Some 1; Some 0]) true [(10, 5); (K_PS, 77)];
                                mkCall (Some [Some 0; None]) false [(10, 6); (K_PS, 78); (K_HP, 79)]] /\
  unphase_fixed (phase_write ds r) = r /\
  fold_left hstep [HPhase ds; HUnphase; HPhase ds; HPhase ds; HUnphase] r = r.
Proof. vm_compute. repeat split; reflexivity. Qed.

(* ====================================== the current code, on inputs where it raises no exception *)

(* one statement carries every clause over: without an exception the current code computes the repaired step *)
Theorem C13_current_equals_fixed_when_no_crash : forall r r' : vrec,
  unphase_rec cur_rule r = Ok r' -> r' = unphase_fixed r.
Proof. exact cur_rec_ok. Qed.
Print Assumptions C13_current_equals_fixed_when_no_crash.

(* the file: what reached stdout is the repaired output of the records before the first raising one *)
Theorem C13_current_file_prefix : forall (rs out : list vrec) (e : option err),
  unphase_file cur_rule rs = (out, e) ->
  out = map unphase_fixed (firstn (length out) rs) /\
  match e with
  | None => length out = length rs
  | Some e' => exists r, nth_error rs (length out) = Some r /\ unphase_rec cur_rule r = Err e'
  end.
Proof. exact cur_file_prefix. Qed.
Print Assumptions C13_current_file_prefix.

Theorem C13_current_clean_guarded : forall r r' : vrec, unphase_rec cur_rule r = Ok r' ->
  forall c, In c (r_calls r') ->
    c_phased c = false /\ forall k v, In (k, v) (c_fields c) -> k <> K_HP /\ k <> K_PS /\ k <> K_PQ.
Proof. exact cur_clean. Qed.
Print Assumptions C13_current_clean_guarded.

Theorem C13_current_frames_guarded : forall r r' : vrec, unphase_rec cur_rule r = Ok r' ->
  r_fixed r' = r_fixed r /\
  length (r_calls r') = length (r_calls r) /\
  forall i c, nth_error (r_calls r) i = Some c ->
    exists c', nth_error (r_calls r') i = Some c' /\
      c_fields c' = filter (fun kv => negb (is_phase_key (fst kv))) (c_fields c) /\
      match c_gt c, c_gt c' with
      | None, None => True
      | Some g, Some g' => Permutation g g'
      | _, _ => False
      end.
Proof. exact cur_frames. Qed.
Print Assumptions C13_current_frames_guarded.

Theorem C13_current_idempotent_guarded : forall r r' : vrec,
  unphase_rec cur_rule r = Ok r' -> unphase_rec cur_rule r' = Ok r'.
Proof. exact cur_idem. Qed.
Print Assumptions C13_current_idempotent_guarded.

(* a phasing writer neither creates nor removes an exception and does not change the result *)
Theorem C13_current_after_phase : forall r r' : vrec,
  rec_phase_rel r r' -> unphase_rec cur_rule r' = unphase_rec cur_rule r.
Proof. exact cur_after_phase. Qed.
Print Assumptions C13_current_after_phase.

Theorem C13_current_history_guarded : forall (ops : list hop) (r r' : vrec),
  hrun_cur ops r = Ok r' -> r' = fold_left hstep ops r /\ unphase_fixed r' = unphase_fixed r.
Proof. exact cur_history_both. Qed.
Print Assumptions C13_current_history_guarded.

Example C13_current_guard_example :
  let r := mkRec [1; 2; 3] [mkCall (Some [Some 1; Some 0]) true [(K_PS, 7); (10, 5); (K_HP, 8)];
                            mkCall (Some [Some 2; Some 0; Some 1]) true [(K_PS, 9); (10, 6); (K_HP, 8)];
                            mkCall (Some [None; Some 1]) true [(K_PS, 9); (10, 6); (K_PQ, 8)];
                            mkCall (Some [None]) false [(K_PS, 0); (10, 6); (K_PQ, 0)]] in
  let r' := mkRec [1; 2; 3] [mkCall (Some [Some 0; Some 1]) false [(10, 5)];
                             mkCall (Some [Some 0; Some 1; Some 2]) false [(10, 6)];
                             mkCall (Some [None; Some 1]) false [(10, 6)];
                             mkCall (Some [None]) false [(10, 6)]] in
  unphase_rec cur_rule r = Ok r' /\ rec_crashes r = false /\
  hrun_cur [HUnphase; HPhase [mkDec (Some [1; 0]) true [(K_PS, 77)]]; HUnphase] r = Ok r' /\
  rec_phase_rel r' (phase_write [mkDec (Some [1; 0]) true [(K_PS, 77)]] r').
Proof. split; [|split; [|split]]; try (vm_compute; reflexivity). apply phase_write_rel. Qed.

Example C13_current_file_example :
  unphase_file cur_rule [mkRec [1] [mkCall (Some [Some 1; Some 0]) true [(K_PS, 7)]];
                         mkRec [2] [mkCall (Some [Some 1; Some 0]) true []; mkCall (Some [Some 1]) false []];
                         mkRec [3] [mkCall (Some [Some 1; Some 0]) true []]]
  = ([mkRec [1] [mkCall (Some [Some 0; Some 1]) false []]], Some EIndex).
Proof. vm_compute. reflexivity. Qed.

(* ============================ the executable checks evaluated on the implementation's output (L1) *)

Theorem C13_checks_mean_what_they_say :
  (forall r, rec_clean r = true <->
     forall c, In c (r_calls r) ->
       c_phased c = false /\ forall k v, In (k, v) (c_fields c) -> k <> K_HP /\ k <> K_PS /\ k <> K_PQ) /\
  (forall l l' : list allele, mset_eqb l l' = true <-> Permutation l l') /\
  (forall r r', rec_frame r r' = true <->
     r_fixed r = r_fixed r' /\
     Forall2 (fun c c' =>
                strip (c_fields c) = strip (c_fields c') /\
                match c_gt c, c_gt c' with
                | None, None => True
                | Some g, Some g' => Permutation g g'
                | _, _ => False
                end) (r_calls r) (r_calls r')) /\
  (forall a b, recs_eqb a b = true <-> a = b) /\
  (forall r r', rec_phase_relb r r' = true <-> rec_phase_rel r r').
Proof. exact checks_mean. Qed.
Print Assumptions C13_checks_mean_what_they_say.

(* the repaired step passes the checks on every input *)
Theorem C13_fixed_passes_checks : forall r : vrec,
  rec_clean (unphase_fixed r) = true /\ rec_frame r (unphase_fixed r) = true.
Proof. exact fixed_passes_checks. Qed.
Print Assumptions C13_fixed_passes_checks.

(* ================================================================================ the header step *)
(* header lines are (kind, id, token): kind 0 = `##phasing=...`, 1 = `##FORMAT=<ID=id,...>`, 2 = anything else *)

(* no FORMAT definition of HP, PS or PQ is left in the output header *)
Theorem C13_header_clean : forall h : list hline,
  header_clean (unphase_header h) = true /\
  forall k i t, In (k, i, t) (unphase_header h) -> k = 1 -> i <> K_HP /\ i <> K_PS /\ i <> K_PQ.
Proof. exact (fun h => conj (header_clean_unphase h) (proj1 (header_clean_spec _) (header_clean_unphase h))). Qed.
Print Assumptions C13_header_clean.

(* apart from `##phasing` lines, the output header is the input header without these definitions, in order *)
Theorem C13_header_frames : forall h : list hline,
  drop_phasing (unphase_header h) = filter hline_keep (drop_phasing h).
Proof. exact header_frames. Qed.
Print Assumptions C13_header_frames.

(* of the `##phasing` lines exactly the first is removed (the loop in unphase_header ends with `break`) *)
Theorem C13_header_phasing_lines : forall h : list hline,
  filter is_phasing_line (unphase_header h) = tl (filter is_phasing_line h).
Proof. exact header_phasing_lines. Qed.
Print Assumptions C13_header_phasing_lines.

(* a second application changes nothing in the header apart from `##phasing` lines ... *)
Theorem C13_header_idempotent_up_to_phasing_lines : forall h : list hline,
  drop_phasing (unphase_header (unphase_header h)) = drop_phasing (unphase_header h).
Proof. exact header_idem_modulo_phasing. Qed.
Print Assumptions C13_header_idempotent_up_to_phasing_lines.

(* ... but the header as a whole is not a fixed point: with two `##phasing` lines in the input the second
   application removes the second one (witness [##phasing=a; ##phasing=b]; replays on the real CLI). *)
Definition C13_header_idempotent_full_statement : Prop :=
  forall h : list hline, unphase_header (unphase_header h) = unphase_header h.
Theorem C13_header_idempotent_refuted :
  ~ (forall h : list hline, unphase_header (unphase_header h) = unphase_header h).
Proof. exact header_idem_strict_refuted. Qed.
Print Assumptions C13_header_idempotent_refuted.

Example C13_header_example :
  let h := [(2, 0, 1); (0, 0, 2); (1, K_PS, 3); (1, 10, 4); (0, 0, 5); (1, K_HP, 6); (2, 0, 7)] in
  unphase_header h = [(2, 0, 1); (1, 10, 4); (0, 0, 5); (2, 0, 7)] /\
  unphase_header (unphase_header h) = [(2, 0, 1); (1, 10, 4); (2, 0, 7)].
Proof. vm_compute. split; reflexivity. Qed.
