(* C15 — polyphase output obeys the input genotypes and forms contiguous blocks.
   Only the property theorems (each closed by `exact`), their assumption printouts and non-vacuity examples.
   Conventions (model/Polyphase.v): haplotype matrices column-wise, genotypes as allele vectors, -1 = undetermined
   allele.

   What is a THEOREM and what is an ENVELOPE.  Since /repo e62f700 force_genotypes takes a candidate configuration in
   every case (model: fallback = AlwaysCandidate), and the theorems below about that rule are FULL statements about the
   code as it is: they quantify over EVERY outcome of the parts that are not modelled deterministically -
     * read clustering and the threading DP (arbitrary threaded columns `init`),
     * the float likelihood arg-max in force_genotypes (any permutation of alleles_to_insert),
     * link likelihoods and their arg-max / the ILP solution in get_optimal_assignments (any orders of the breakpoints'
       haplotypes; any list of permutations),
     * the float threshold tests of compute_cut_positions for -B 2..4 (any decision function dec),
     * find_breakpoints / the breakpoint merge (any sorted breakpoint list) and find_subinstances (any sub-instances of
       the stated shape).
   Nothing in the statements is partial any more; what stays outside the proofs is only WHICH element of each envelope
   the implementation picks.  That the implementation's results lie inside the envelopes (and that the stated shapes
   hold) is what the correspondence run checks on every generated and traced call.
   The KeepGiven variants describe the code before e62f700 and are kept as `_refuted` witnesses of that defect
   (finding force:likelihood-underflow). *)
From Coq Require Import ZArith List Bool Arith Permutation.
From WH.Model Require Import Polyphase.
From WH.Proofs Require Import PolyphaseProofs PolyphaseProofs2 PolyphaseProofs3 PolyphaseProofs4.
Import ListNotations.
Open Scope Z_scope.

(* --- force_genotypes ----------------------------------------------------------------------------- *)

(* For a genotype with as many alleles as there are haplotypes, whichever permutation of alleles_to_insert the arg-max
   picks, the result is not a python error, keeps the number of haplotypes, and has an undetermined allele (position
   skipped) or exactly the genotype's alleles with their multiplicities. *)
Theorem C15_force_genotypes_conforms : forall g cfg o, length g = length cfg ->
  In o (force_pos_envelope AlwaysCandidate g cfg) ->
  exists out, o = Some out /\ length out = length cfg /\ (In undet out \/ Permutation out g).
Proof. exact force_pos_conforms. Qed.
Print Assumptions C15_force_genotypes_conforms.

(* the code before e62f700 (best_config started as the given configuration and was replaced only on a strictly larger
   likelihood): a result that does not obey the genotype is the unchanged given configuration at a position that
   needed forcing *)
Theorem C15_force_genotypes_before_fix : forall g cfg o, length g = length cfg ->
  In o (force_pos_envelope KeepGiven g cfg) ->
  exists out, o = Some out /\ length out = length cfg /\
    (In undet out \/ Permutation out g \/ (out = cfg /\ needs_forcing g cfg = true)).
Proof. exact force_pos_keepgiven. Qed.
Print Assumptions C15_force_genotypes_before_fix.

(* REFUTED for the code before e62f700: genotype 0/0/1/1, threaded alleles 0,0,0,0; when every candidate's likelihood
   underflows to 0 (one cluster of depth >= 1075 showing only allele 0) the result was 0,0,0,0.
   The same input is replayed on the implementation in every run (harness/props/C15.py corpus cases). *)
Theorem C15_force_genotypes_before_fix_refuted : exists g cfg out,
  length g = length cfg /\ In (Some out) (force_pos_envelope KeepGiven g cfg) /\ conforms g out = false.
Proof. exact force_pos_keepgiven_refuted. Qed.
Print Assumptions C15_force_genotypes_before_fix_refuted.

(* whole matrix, in the form the harness evaluates (L2 envelope membership implies the L1 predicate) *)
Theorem C15_force_genotypes_matrix : forall gs cols outs,
  Forall2 (fun g c => length g = length c) gs cols ->
  in_force_envelope AlwaysCandidate gs cols outs = true ->
  all_conform gs outs = true /\ Forall2 (fun c o => length o = length c) cols outs.
Proof. exact force_genotypes_conforms. Qed.
Print Assumptions C15_force_genotypes_matrix.

Example C15_force_example :
  needs_forcing [0; 1; 2] [2; 1; 1] = true /\
  force_pos_envelope AlwaysCandidate [0; 1; 2] [2; 1; 1] = [Some [2; 0; 1]; Some [2; 1; 0]] /\
  force_pos_envelope KeepGiven [0; 0; 1; 1] [0; 1; -1; 1] = [Some [0; 1; -1; 1]].
Proof. vm_compute. repeat split; reflexivity. Qed.

(* --- reordering ---------------------------------------------------------------------------------- *)

(* greedy branch of get_optimal_assignments: for ANY choice of the arg-max keys (orders of the breakpoints'
   haplotypes) the code does not fail and every assignment is a permutation of 0..k-1, one per block *)
Theorem C15_assignments_are_permutations : forall k bests,
  Forall (fun p => NoDup p /\ Forall (fun i => (i < k)%nat) p) bests ->
  exists asg, assignments k bests = Some asg /\ length asg = S (length bests) /\
              Forall (fun a => Permutation a (seq 0 k)) asg.
Proof. exact assignments_are_permutations. Qed.
Print Assumptions C15_assignments_are_permutations.

Example C15_assignments_example :
  assignments 4 [[1; 0; 2]; [2; 0]]%nat = Some [[0; 1; 2; 3]; [1; 0; 2; 3]; [1; 2; 0; 3]]%nat.
Proof. vm_compute. reflexivity. Qed.

(* permute_blocks with any list of permutations (greedy or ILP): no failure, and every position keeps its multiset
   of alleles - reordering only permutes alleles among the haplotypes of one position *)
Theorem C15_permute_preserves_columns : forall k (cols : list (list Z)) bps pms,
  Forall (fun c => length c = k) cols -> Forall (fun b => (b <= length cols)%nat) bps ->
  length pms = S (length bps) -> Forall (fun p => Permutation p (seq 0 k)) pms ->
  exists outs, permute_blocks_cols k cols bps pms = Some outs /\ Forall2 (@Permutation Z) cols outs.
Proof. exact permute_preserves_columns. Qed.
Print Assumptions C15_permute_preserves_columns.

Example C15_permute_example :
  permute_blocks_cols 3 [[0; 1; 2]; [0; 1; 2]; [3; 4; 5]] [2%nat] [[0; 1; 2]; [2; 0; 1]]%nat
  = Some [[0; 1; 2]; [0; 1; 2]; [5; 3; 4]].
Proof. vm_compute. reflexivity. Qed.

(* integrate_sub_results: if every solved sub-instance returns, per variant, an undetermined allele or exactly the
   alleles its threads had there (its sub-genotype), and the sub-instances have the shape find_subinstances produces
   (distinct threads < k, distinct variants inside the matrix, no cell shared by two sub-instances), then writing
   them back does not fail and every position has an undetermined allele or the same alleles as before *)
Theorem C15_sub_results_preserve : forall k (cols : list (list Z)) (subs : list subres),
  Forall (fun c => length c = k) cols ->
  Forall (fun s => sub_wfb k (length cols) s = true) subs -> subs_disjointb subs = true ->
  (forall s, In s subs -> forall i p sc, nth_error (sr_snps s) i = Some p -> nth_error (sr_cols s) i = Some sc ->
      In undet sc \/ Permutation sc (restrict_col (sr_threads s) (nth p cols []))) ->
  exists outs, integrate cols subs = Some outs /\ length outs = length cols /\
    Forall (fun c => length c = k) outs /\
    forall p, (p < length cols)%nat -> In undet (nth p outs []) \/ Permutation (nth p outs []) (nth p cols []).
Proof. exact sub_results_preserve_b. Qed.
Print Assumptions C15_sub_results_preserve.

Example C15_integrate_example :
  let subs := [([0; 2]%nat, [1; 2]%nat, [[2; 0]; [5; 3]])] in
  forallb (sub_wfb 3 3) subs = true /\ subs_disjointb subs = true /\
  integrate [[0; 1; 2]; [0; 1; 2]; [3; 4; 5]] subs = Some [[0; 1; 2]; [2; 1; 0]; [5; 4; 3]].
Proof. vm_compute. repeat split; reflexivity. Qed.

(* the whole block pipeline (recursion over sub-instances included): for arbitrary clustering / threading /
   likelihood / ILP outcomes, every matrix in the envelope has k alleles per position and, per position, an
   undetermined allele or exactly the genotype's alleles with multiplicities *)
Theorem C15_pipeline_conforms : forall d k gs cols,
  SolvesN AlwaysCandidate d k gs cols -> Forall (fun g => length g = k) gs ->
  Forall2 (fun g c => length c = k /\ (In undet c \/ Permutation c g)) gs cols.
Proof. exact pipeline_conforms_b. Qed.
Print Assumptions C15_pipeline_conforms.

(* the pipeline with the rule before e62f700: a matrix in its envelope contradicts its genotypes *)
Theorem C15_pipeline_before_fix_refuted : exists d k gs cols,
  SolvesN KeepGiven d k gs cols /\ Forall (fun g => length g = k) gs /\
  ~ Forall2 (fun g c => length c = k /\ (In undet c \/ Permutation c g)) gs cols.
Proof. exact pipeline_keepgiven_refuted_b. Qed.
Print Assumptions C15_pipeline_before_fix_refuted.

(* --- blocks -------------------------------------------------------------------------------------- *)

(* aggregate_results: block results with at least one column and sorted breakpoints inside the block give the
   concatenated columns and a sorted breakpoint list that starts with the zero-confidence breakpoint at 0 *)
Theorem C15_aggregate_sorted_from_zero : forall borders (rs : list blockres),
  rs <> [] ->
  Forall (fun r => fst r <> [] /\ nondecN (map fst (snd r)) = true /\
                   Forall (fun b => (fst b < length (fst r))%nat) (snd r)) rs ->
  fst (aggregate borders rs) = concat (map fst rs) /\
  nondecN (map fst (snd (aggregate borders rs))) = true /\
  exists rest, snd (aggregate borders rs) = (0%nat, true) :: rest.
Proof. exact aggregate_sorted_from_zero_b. Qed.
Print Assumptions C15_aggregate_sorted_from_zero.

Example C15_aggregate_example :
  let rs := [([[0; 1]; [1; 0]], [(1%nat, false)]); ([[1; 1]], []);
             ([[0; 1]; [1; 0]; [0; 1]], [(0%nat, true); (2%nat, false)])] in
  forallb (fun r : blockres => negb (Nat.eqb (length (fst r)) 0) && nondecN (map fst (snd r)) &&
                               forallb (fun b : bp => (fst b <? length (fst r))%nat) (snd r)) rs = true /\
  aggregate [] rs = ([[0; 1]; [1; 0]; [1; 1]; [0; 1]; [1; 0]; [0; 1]],
                     [(0, true); (1, false); (2, true); (3, true); (3, true); (5, false)]%nat) /\
  snd (aggregate [3%nat] rs) = [(0, true); (1, false); (3, true); (3, true); (5, false)]%nat.
Proof. vm_compute. repeat split; reflexivity. Qed.

(* compute_cut_positions: for every sensitivity and every outcome `dec` of the float threshold test the cuts are
   strictly increasing, start with 0, and are breakpoint positions *)
Theorem C15_cuts_sorted_start_at_zero : forall sens dec rest,
  nondecN (map fst ((0%nat, true) :: rest)) = true ->
  cuts_okb (compute_cuts sens dec ((0%nat, true) :: rest)) = true /\
  forall c, In c (compute_cuts sens dec ((0%nat, true) :: rest)) -> In c (map fst ((0%nat, true) :: rest)).
Proof. exact cuts_sorted_start_at_zero. Qed.
Print Assumptions C15_cuts_sorted_start_at_zero.

Example C15_cuts_example :
  let bps := [(0, true); (1, false); (2, true); (2, false); (3, false)]%nat in
  nondecN (map fst bps) = true /\
  compute_cuts 4 (fun _ => true) bps = [0; 1; 2; 3]%nat /\ compute_cuts 4 (fun _ => false) bps = [0; 2]%nat /\
  compute_cuts 0 (fun _ => true) bps = [0]%nat.
Proof. vm_compute. repeat split; reflexivity. Qed.

(* component construction in phase_single_individual: with the read-covered heterozygous positions strictly
   increasing and a strictly increasing cut list starting at 0, every such variant is named by the position of the
   variant at the LAST cut <= its index: the phase sets are the index intervals [cut_i, cut_i+1) - disjoint - each
   named by the first variant of its interval (the extra key position+1 never shadows a variant's own entry) *)
Theorem C15_components_are_intervals : forall acc cuts,
  strictly_incZ acc = true -> cuts_okb cuts = true -> Forall (fun c => (c < length acc)%nat) cuts ->
  exists m, components acc cuts = Some m /\
    forall p a, nth_error acc p = Some a ->
      exists c name, In c cuts /\ (c <= p)%nat /\ (forall c', In c' cuts -> (c' <= p)%nat -> (c' <= c)%nat) /\
                     nth_error acc c = Some name /\ lookup m a = Some name.
Proof. exact components_are_intervals. Qed.
Print Assumptions C15_components_are_intervals.

Example C15_components_example :
  strictly_incZ [10; 11; 20; 30; 31] = true /\ cuts_okb [0; 2; 3]%nat = true /\
  option_map (fun m => map (lookup m) [10; 11; 20; 30; 31]) (components [10; 11; 20; 30; 31] [0; 2; 3]%nat)
  = Some [Some 10; Some 10; Some 20; Some 30; Some 30].
Proof. vm_compute. repeat split; reflexivity. Qed.

(* --- one sample end to end: components + superreads + writer --------------------------------------- *)

(* For a processed sample: read-covered heterozygous positions acc (strictly increasing), the solver's columns cols
   obeying the genotypes gs of these variants, a strictly increasing cut list starting at 0, and the sample's VCF
   records (each record at a read-covered position carries that variant's heterozygous, fully called genotype):
   the model of component construction + superreads + PhasedVcfWriter produces calls that satisfy the per-sample
   predicate the harness evaluates on real output: every phased call lists exactly the input alleles, only
   heterozygous fully called genotypes are phased, a call with a missing, partially missing or homozygous genotype comes
   out unphased with exactly its input alleles, other unphased calls keep their alleles and carry no phase set (an old
   PS value is always removed, /repo 9ec9805), and the phase sets are disjoint
   intervals of acc named by the first variant of their interval. *)
Theorem C15_sample_output_ok : forall acc cols cuts gs (recs : list inrec),
  strictly_incZ acc = true -> cuts_okb cuts = true -> Forall (fun c => (c < length acc)%nat) cuts ->
  length cols = length acc ->
  Forall2 (fun g c => In undet c \/ Permutation c g) gs cols ->
  (forall p a g r, nth_error acc p = Some a -> nth_error gs p = Some g -> In r recs -> fst (fst r) = a ->
      Permutation (snd (fst r)) g /\ is_het g = true /\ ~ In undet g /\ g <> []) ->
  exists outs, sample_out acc cols cuts recs = Some outs /\
               sample_okb (map (fun a => a + 1) acc) (obs_of_model recs outs) = true.
Proof. exact sample_output_ok. Qed.
Print Assumptions C15_sample_output_ok.

Example C15_sample_example :
  let acc := [10; 11; 20; 30; 31] in
  let cols := [[0; 1; 1]; [1; 0; 1]; [0; -1; 1]; [1; 1; 0]; [0; 0; 2]] in
  let recs := [(5, [0; 1; 1], None); (7, [1; -1; 0], None); (8, [1; 1; 1], Some 3); (10, [0; 1; 1], None);
               (11, [0; 1; 1], Some 3); (20, [0; 1; 1], Some 3); (30, [0; 1; 1], None); (31, [0; 0; 2], None)] in
  option_map (fun outs => (map snd outs, sample_okb (map (fun a => a + 1) acc) (obs_of_model recs outs)))
             (sample_out acc cols [0; 2; 3]%nat recs)
  = Some ([([0; 1; 1], false, None); ([1; -1; 0], false, None); ([1; 1; 1], false, None); ([0; 1; 1], true, Some 11); ([1; 0; 1], true, Some 11);
           ([0; 1; 1], false, None); ([1; 1; 0], true, Some 31); ([0; 0; 2], true, Some 31)], true).
Proof. vm_compute. reflexivity. Qed.

(* Everything composed for one processed sample: whatever clustering, threading, likelihoods,
   ILP and threshold tests do - any matrix cols in the pipeline envelope for the genotypes gs of the read-covered
   heterozygous variants acc, any sorted breakpoint list starting with the zero-confidence breakpoint at 0 (what
   aggregate_results returns, C15_aggregate_sorted_from_zero) with positions inside acc, any sensitivity and any
   outcome dec of the threshold tests - the written calls of the sample satisfy the property's per-sample predicate:
   genotype clause for every call and phase sets = disjoint intervals of acc named by their first variant. *)
Theorem C15_polyphase_sample : forall d k acc gs cols rest sens dec (recs : list inrec),
  SolvesN AlwaysCandidate d k gs cols -> Forall (fun g => length g = k) gs ->
  strictly_incZ acc = true -> length acc = length gs ->
  nondecN (map fst ((0%nat, true) :: rest)) = true ->
  Forall (fun b => (fst b < length acc)%nat) ((0%nat, true) :: rest) ->
  (forall p a g r, nth_error acc p = Some a -> nth_error gs p = Some g -> In r recs -> fst (fst r) = a ->
      Permutation (snd (fst r)) g /\ is_het g = true /\ ~ In undet g /\ g <> []) ->
  exists outs, sample_out acc cols (compute_cuts sens dec ((0%nat, true) :: rest)) recs = Some outs /\
               sample_okb (map (fun a => a + 1) acc) (obs_of_model recs outs) = true.
Proof. exact polyphase_sample_ok. Qed.
Print Assumptions C15_polyphase_sample.

(* non-vacuity of the envelope hypothesis: a two-block instance (one singleton block, one general block with a forced
   position and a non-identity assignment) is in the envelope *)
Example C15_envelope_example :
  SolvesN AlwaysCandidate 1 3 [[0; 1; 1]; [0; 0; 1]; [0; 1; 2]] [[0; 1; 1]; [0; 1; 0]; [2; 1; 0]].
Proof.
  cbn [SolvesN]. exists [([[0; 1; 1]], [[0; 1; 1]]); ([[0; 0; 1]; [0; 1; 2]], [[0; 1; 0]; [2; 1; 0]])].
  split; [reflexivity |]. split; [reflexivity |]. constructor; [| constructor; [| constructor]].
  - left. exists [0; 1; 1]. split; reflexivity.
  - right. exists [[0; 1; 0]; [1; 1; 2]], [[0; 1; 0]; [1; 0; 2]], [], [[0; 1; 0]; [1; 0; 2]], [1%nat],
                  [[0; 1; 2]%nat; [2; 0; 1]%nat].
    repeat split; try reflexivity; repeat constructor.
Qed.

(* the boolean envelope-membership checks evaluated by the harness (L2) are sound: a passed check exhibits the
   permutation / decisions / arg-max keys for which the model produces exactly the implementation's result *)
Theorem C15_envelope_checkers_sound :
  (forall fb g cfg out, in_force_pos fb g cfg out = true -> In (Some out) (force_pos_envelope fb g cfg)) /\
  (forall sens decs bps obs, cuts_replay sens decs bps obs = true -> exists dec, compute_cuts sens dec bps = obs) /\
  (forall affs cur obs, assignments_in_envelope cur affs obs = true ->
     exists bests, Forall2 (fun b aff => Permutation b aff) bests affs /\
                   assignments_from cur bests = Some (cur :: obs)).
Proof. exact envelope_checkers_sound. Qed.
Print Assumptions C15_envelope_checkers_sound.
