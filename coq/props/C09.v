(* C09 — PS and HP encodings are equivalent, round-trip, and never mix old and new phase.
   Theorems about the encoders (_set_PS, _set_HP, _remove_existing_phasing inside PhasedVcfWriter.write)
   and decoders (VcfReader._extract_GT_PS_phase / _extract_HP_phase, phased_blocks_as_reads) as modelled
   in coq/model/VcfRecord.v; the model is tied to the code by harness/props/C09.py (and C04.py).

   fix_rules / fix_guard model the code as it is (after the repairs b86843e, 3231061, 9ec9805 in /repo:
   every phase statement of a target call is removed before writing, for either tag; the genotype-change
   branch assigns the ascending genotype; an unset HP is written as '.'; an HP tuple that is empty or
   contains None or '.' is no phase) and satisfy all clauses for all inputs.  orig_rules / orig_guard model
   the code before those repairs; it refuted three clauses, and each refutation -- a concrete file found
   by the correspondence check on the real tool -- is kept here, replayed by vm_compute. *)
From Coq Require Import ZArith List Bool Arith.
From WH.Model Require Import VcfRecord.
From WH.Proofs Require Import VcfRecordProofs VcfRecordProofsC09.
Import ListNotations.
Open Scope Z_scope.

(* --- decode . encode, one call ----------------------------------------------------------------- *)
(* what _set_PS writes for a heterozygous phase tuple decodes to (component + 1, that tuple) *)
Theorem C09_decode_encode_PS :
  forall (c : call) (comp : Z) (ph : list nat),
    ph <> [] -> is_homozygous ph = false ->
    decode_PS true (set_PS c comp ph) = Ok (Some (mkPhase (Some (comp + 1)) (map Some ph) (pq c))).
Proof. exact decode_encode_PS. Qed.
Print Assumptions C09_decode_encode_PS.

(* what _set_HP writes decodes to the tuple -- provided GT is the ascending 0/1 *)
Theorem C09_decode_encode_HP :
  forall guard (c : call) (comp : Z) (ph : list nat),
    guard = orig_guard \/ guard = fix_guard ->
    gt c = Some [Some 0; Some 1]%nat ->
    ph = [0; 1]%nat \/ ph = [1; 0]%nat ->
    decode_HP guard (set_HP c comp ph) = Ok (Some (mkPhase (Some (comp + 1)) (map Some ph) (pq c))).
Proof. exact decode_encode_HP. Qed.
Print Assumptions C09_decode_encode_HP.

(* on a descending GT (input written 1/0, or a genotype changed under --distrust-genotypes, whose
   Genotype.as_vector() is descending) the same HP value decodes to the flipped phase *)
Theorem C09_decode_encode_HP_descending_flips :
  forall guard (c : call) (comp : Z),
    guard = orig_guard \/ guard = fix_guard ->
    gt c = Some [Some 1; Some 0]%nat ->
    decode_HP guard (set_HP c comp [0; 1]%nat)
    = Ok (Some (mkPhase (Some (comp + 1)) [Some 1; Some 0]%nat (pq c))).
Proof. exact decode_encode_HP_descending. Qed.
Print Assumptions C09_decode_encode_HP_descending_flips.

(* --- ps_hp_equivalent ---------------------------------------------------------------------------- *)
Definition C09_ps_hp_equivalent_full_statement (ru : rules) (guard : list hpitem -> bool) : Prop :=
  forall cf plan input outP outH tP tH,
    map fst plan = runs input ->
    phase_writer (with_tag cf TagPS) ru plan input = Ok outP ->
    phase_writer (with_tag cf TagHP) ru plan input = Ok outH ->
    read_file guard false false outP = Ok tP -> read_file guard false false outH = Ok tH ->
    tables_equiv plan tP tH = true.

(* code before the repairs: a fresh single-sample input with one het call written 1/0; --tag PS decodes to (0,1),
   --tag HP to (1,0) *)
Definition w1_input : list vrec :=
  [mkRec 7 50 [1;2;3;4;5] [] 1 [1] false false [mkCall (Some [Some 1; Some 0]%nat) false None None None []]].
Definition w1_plan : list (token * list target) := [(7, [mkTarget 0 [(50, [0; 1]%nat)] [(50, 50)]])].
Definition w_cf := mkCfg TagPS false false true.

Theorem C09_ps_hp_equivalent_refuted : ~ C09_ps_hp_equivalent_full_statement orig_rules orig_guard.
Proof.
  intros H.
  specialize (H w_cf w1_plan w1_input).
  specialize (H _ _ _ _ eq_refl eq_refl eq_refl eq_refl eq_refl).
  vm_compute in H. discriminate.
Qed.
Print Assumptions C09_ps_hp_equivalent_refuted.

(* the witness spelled out: the two decoded tables *)
Example C09_ps_hp_witness_tables :
  (exists oP, phase_writer (with_tag w_cf TagPS) orig_rules w1_plan w1_input = Ok oP /\
     read_file orig_guard false false oP =
     Ok [(7, [mkRow 50 [[0; 1]%nat] [Some (mkPhase (Some 51) [Some 0; Some 1]%nat None)]])]) /\
  (exists oH, phase_writer (with_tag w_cf TagHP) orig_rules w1_plan w1_input = Ok oH /\
     read_file orig_guard false false oH =
     Ok [(7, [mkRow 50 [[0; 1]%nat] [Some (mkPhase (Some 51) [Some 1; Some 0]%nat None)]])]).
Proof. split; eexists; split; vm_compute; reflexivity. Qed.

(* the code as it is: for every input the statements of every target call agree between
   the two outputs -- the PS statement of the PS output equals the HP statement of the HP output, and
   neither output carries a statement in the other encoding *)
Theorem C09_ps_hp_equivalent_fixed :
  forall cf plan input outP outH,
    mav cf = false ->
    Forall (fun e => NoDup (map t_sample (snd e))) plan ->
    plan_diploid plan -> wf_input input ->
    map fst plan = runs input ->
    phase_writer (with_tag cf TagPS) fix_rules plan input = Ok outP ->
    phase_writer (with_tag cf TagHP) fix_rules plan input = Ok outH ->
    Forall2 (fun a oo =>
       forall t cP cH, In t (snd a) ->
         nth_error (calls (fst oo)) (t_sample t) = Some cP ->
         nth_error (calls (snd oo)) (t_sample t) = Some cH ->
         decode_PS (ps_key (fst oo)) cP = decode_HP fix_guard cH /\
         decode_HP fix_guard cP = Ok None /\ decode_PS (ps_key (snd oo)) cH = Ok None)
      (annotate plan input) (combine outP outH).
Proof. exact ps_hp_equivalent_fixed. Qed.
Print Assumptions C09_ps_hp_equivalent_fixed.

(* --- rephase_no_stale_phase ---------------------------------------------------------------------- *)
Definition C09_rephase_no_stale_phase_full_statement (ru : rules) : Prop :=
  forall cf plan input out,
    wf_input input -> map fst plan = runs input -> phase_writer cf ru plan input = Ok out ->
    file_no_stale fix_guard cf plan input out = true.

(* code before the repairs, re-tag PS -> HP: the old `0|1` and PS stay next to the new HP *)
Definition w2_input : list vrec :=
  [mkRec 7 50 [1;2;3;4;5] [] 1 [1] false true [mkCall (Some [Some 1; Some 0]%nat) true (Some 9) None None []];
   mkRec 7 80 [1;2;3;4;5] [] 1 [1] false true [mkCall (Some [Some 0; Some 1]%nat) true (Some 9) None None []]].
Definition w2_plan : list (token * list target) :=
  [(7, [mkTarget 0 [(50, [0; 1]%nat); (80, [0; 1]%nat)] [(50, 50); (80, 50)]])].
(* code before the repairs, re-tag HP -> PS: the old HP stays (mixed phasing on read-back) *)
Definition w3_input : list vrec :=
  [mkRec 7 50 [1;2;3;4;5] [] 1 [1] false false
     [mkCall (Some [Some 0; Some 1]%nat) false None None (Some [HPnum 9 2; HPnum 9 1]) []]].
Definition w3_plan : list (token * list target) := [(7, [mkTarget 0 [(50, [0; 1]%nat)] [(50, 50)]])].
(* code before the repairs, same tag HP: a record the new run does not phase keeps its old HP *)
Definition w4_plan : list (token * list target) := [(7, [mkTarget 0 [] []])].

Example w_inputs_wf : wf_input w2_input /\ wf_input w3_input.
Proof.
  split; repeat constructor; cbn; try discriminate.
Qed.

Theorem C09_rephase_no_stale_phase_refuted : ~ C09_rephase_no_stale_phase_full_statement orig_rules.
Proof.
  intros H. specialize (H (with_tag w_cf TagHP) w2_plan w2_input _ (proj1 w_inputs_wf) eq_refl eq_refl).
  vm_compute in H. discriminate.
Qed.
Print Assumptions C09_rephase_no_stale_phase_refuted.

Example C09_rephase_witnesses :
  (* PS -> HP *)
  (exists o, phase_writer (with_tag w_cf TagHP) orig_rules w2_plan w2_input = Ok o /\
             file_no_stale fix_guard (with_tag w_cf TagHP) w2_plan w2_input o = false /\
             read_file orig_guard false false o = Err EMixed) /\
  (* HP -> PS *)
  (exists o, phase_writer (with_tag w_cf TagPS) orig_rules w3_plan w3_input = Ok o /\
             file_no_stale fix_guard (with_tag w_cf TagPS) w3_plan w3_input o = false /\
             read_file orig_guard false false o = Err EMixed) /\
  (* HP -> HP, nothing phased this time *)
  (exists o, phase_writer (with_tag w_cf TagHP) orig_rules w4_plan w3_input = Ok o /\
             file_no_stale fix_guard (with_tag w_cf TagHP) w4_plan w3_input o = false).
Proof. repeat split; eexists; repeat split; vm_compute; reflexivity. Qed.

Theorem C09_rephase_no_stale_phase_fixed :
  forall cf plan input out,
    mav cf = false ->
    Forall (fun e => NoDup (map t_sample (snd e))) plan ->
    plan_diploid plan -> wf_input input ->
    map fst plan = runs input -> phase_writer cf fix_rules plan input = Ok out ->
    file_no_stale fix_guard cf plan input out = true.
Proof. exact rephase_no_stale_fixed. Qed.
Print Assumptions C09_rephase_no_stale_phase_fixed.

(* --- decoding a written file returns what was written ------------------------------------------ *)
(* Through the reader model: every VariantTable (one per chromosome run) read back from the written
   file gives, for every target sample at every row, exactly the phase that was written -- (component + 1,
   super-read alleles) where the position has a component and a heterozygous allowed super-read column,
   nothing elsewhere.  Side conditions: diploid bi-allelic run (mav off, two super-reads), pysam-shaped
   calls, target samples exist, each chromosome forms one run (as in a sorted VCF), the reader is given
   the writer's only_snvs / mav, and the reader accepts the file (it still rejects files whose OTHER samples
   mix the encodings or whose positions are unsorted; that is outside the property). *)
Definition C09_decode_written_statement (ru : rules) (guard : list hpitem -> bool) : Prop :=
  forall cf plan input out tabs,
    mav cf = false ->
    Forall (fun e => NoDup (map t_sample (snd e))) plan ->
    plan_diploid plan -> wf_input input -> targets_exist plan input ->
    NoDup (map fst plan) -> map fst plan = runs input ->
    phase_writer cf ru plan input = Ok out ->
    read_file guard (only_snvs cf) (mav cf) out = Ok tabs ->
    map fst tabs = map fst plan /\ file_decodes cf plan tabs = true.

Theorem C09_decode_written : C09_decode_written_statement fix_rules fix_guard.
Proof. exact decode_written_file. Qed.
Print Assumptions C09_decode_written.

(* the code before the repairs: the 1/0 witness under --tag HP reads back fine but as the flipped phase *)
Theorem C09_decode_written_refuted : ~ C09_decode_written_statement orig_rules orig_guard.
Proof.
  intros H.
  assert (W : wf_input w1_input) by (repeat constructor; cbn; discriminate).
  assert (D : plan_diploid w1_plan) by (repeat constructor).
  assert (N : Forall (fun e => NoDup (map t_sample (snd e))) w1_plan) by (repeat constructor; cbn; intuition).
  assert (T : targets_exist w1_plan w1_input).
  { intros c ts r t [E|[]] [<-|[]] Ht. inversion E. subst. destruct Ht as [<-|[]]. cbn. auto. }
  assert (P : NoDup (map fst w1_plan)) by (repeat constructor; cbn; intuition).
  destruct (H (with_tag w_cf TagHP) w1_plan w1_input _ _ eq_refl N D W T P eq_refl eq_refl eq_refl) as [_ Hd].
  vm_compute in Hd. discriminate.
Qed.
Print Assumptions C09_decode_written_refuted.

(* the code before the repair b86843e: three samples phased with --tag HP, two of them homozygous at the
   phased record; their HP was assigned None, read back as (None,), and _extract_HP_phase died on it;
   the guard as it is now reads the same file and finds what was written *)
Definition w5_input : list vrec :=
  [mkRec 7 50 [1;2;3;4;5] [] 1 [1] false false
     [mkCall (Some [Some 0; Some 1]%nat) false None None None [];
      mkCall (Some [Some 1; Some 1]%nat) false None None None [];
      mkCall (Some [Some 0; Some 0]%nat) false None None None []]].
Definition w5_plan : list (token * list target) :=
  [(7, [mkTarget 0 [(50, [0; 1]%nat)] [(50, 50)]; mkTarget 1 [(50, [1; 1]%nat)] [(50, 50)];
        mkTarget 2 [(50, [0; 0]%nat)] [(50, 50)]])].

Theorem C09_reader_crash_original_code :
  exists o, phase_writer (with_tag w_cf TagHP) orig_rules w5_plan w5_input = Ok o /\
            read_file orig_guard false false o = Err EAttr /\
            exists tabs, read_file fix_guard false false o = Ok tabs /\
                         file_decodes (with_tag w_cf TagHP) w5_plan tabs = true.
Proof. eexists. split; [vm_compute; reflexivity|]. split; [vm_compute; reflexivity|].
       eexists. split; vm_compute; reflexivity. Qed.
Print Assumptions C09_reader_crash_original_code.

(* The same record by record along every write() call (with the writer's own prev_pos bookkeeping, also for
   records a reader skips): the statement of the chosen encoding of every target call is exactly what was
   written, and the other encoding makes no statement. *)
Theorem C09_decode_written_records :
  forall cf plan input out,
    mav cf = false ->
    Forall (fun e => NoDup (map t_sample (snd e))) plan ->
    plan_diploid plan -> wf_input input ->
    map fst plan = runs input -> phase_writer cf fix_rules plan input = Ok out ->
    file_exact cf plan input out.
Proof. exact decode_written_fixed. Qed.
Print Assumptions C09_decode_written_records.

(* --- blocks_as_reads_roundtrip ------------------------------------------------------------------ *)
(* For sample column i and a phase set b with at least two contributing rows (diploid, in the variant
   set, heterozygous, phased; phase tuples of two different alleles, which is what the decoders return
   for a heterozygous diploid GT): phased_blocks_as_reads yields exactly two reads for b; they cover
   the same positions with complementary alleles; and the bipartition {read 0} | {read 1} is conflict
   free with haplotypes equal to the phase set. *)
Theorem C09_blocks_as_reads_roundtrip :
  forall (inset : Z -> bool) (i : nat) (rows : list row) (b : option Z),
    let cs := contribs inset i rows in
    let ms := members cs b in
    (forall e, In e ms -> exists a0 a1, ce_alleles e = [a0; a1] /\ a0 <> a1) ->
    (2 <= length ms)%nat ->
    (forall k rd, In (b, k, rd) (blocks_as_reads inset i rows) <->
                  (k = 0%nat /\ rd = read_of ms 0) \/ (k = 1%nat /\ rd = read_of ms 1)) /\
    map (fun x => fst (fst x)) (read_of ms 0) = map (fun x => fst (fst x)) (read_of ms 1) /\
    Forall2 (fun x y => snd (fst x) <> snd (fst y)) (read_of ms 0) (read_of ms 1) /\
    map (fun xy => (fst (fst (fst xy)), [snd (fst (fst xy)); snd (fst (snd xy))]))
        (combine (read_of ms 0) (read_of ms 1))
    = map (fun e => (ce_pos e, ce_alleles e)) ms.
Proof. exact blocks_as_reads_roundtrip. Qed.
Print Assumptions C09_blocks_as_reads_roundtrip.

(* --- non-vacuity -------------------------------------------------------------------------------- *)
(* two interleaved phase sets of one sample: rows at 10, 20, 30, 40; set 11 = {10, 30}, set 21 = {20, 40} *)
Definition ex_rows : list row :=
  [mkRow 10 [[0; 1]%nat] [Some (mkPhase (Some 11) [Some 0; Some 1]%nat None)];
   mkRow 20 [[0; 1]%nat] [Some (mkPhase (Some 21) [Some 1; Some 0]%nat None)];
   mkRow 30 [[0; 1]%nat] [Some (mkPhase (Some 11) [Some 1; Some 0]%nat None)];
   mkRow 40 [[0; 1]%nat] [Some (mkPhase (Some 21) [Some 1; Some 0]%nat None)];
   mkRow 50 [[1; 1]%nat] [None]].

Example C09_blocks_example :
  blocks_as_reads (fun _ => true) 0 ex_rows =
  [(Some 11, 0%nat, [(10, 0%nat, None); (30, 1%nat, None)]); (Some 11, 1%nat, [(10, 1%nat, None); (30, 0%nat, None)]);
   (Some 21, 0%nat, [(20, 1%nat, None); (40, 1%nat, None)]); (Some 21, 1%nat, [(20, 0%nat, None); (40, 0%nat, None)])]
  /\ (2 <= length (members (contribs (fun _ => true) 0 ex_rows) (Some 11%Z)))%nat.
Proof. split; vm_compute; [reflexivity|repeat constructor]. Qed.

(* the code as it is on the re-tag witnesses: hypotheses hold, outputs read back to what was written *)
Example C09_fixed_on_witnesses :
  plan_diploid w2_plan /\ Forall (fun e => NoDup (map t_sample (snd e))) w2_plan /\ wf_input w2_input /\
  (exists o, phase_writer (with_tag w_cf TagHP) fix_rules w2_plan w2_input = Ok o /\
     read_file fix_guard false false o =
     Ok [(7, [mkRow 50 [[0; 1]%nat] [Some (mkPhase (Some 51) [Some 0; Some 1]%nat None)];
              mkRow 80 [[0; 1]%nat] [Some (mkPhase (Some 51) [Some 0; Some 1]%nat None)]])]) /\
  (exists o, phase_writer (with_tag w_cf TagHP) fix_rules w1_plan w1_input = Ok o /\
     read_file fix_guard false false o =
     Ok [(7, [mkRow 50 [[0; 1]%nat] [Some (mkPhase (Some 51) [Some 0; Some 1]%nat None)]])]).
Proof.
  split; [repeat constructor|]. split; [repeat constructor; cbn; intuition|].
  split; [exact (proj1 w_inputs_wf)|]. split; eexists; split; vm_compute; reflexivity.
Qed.
