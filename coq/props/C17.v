(* C17 — haplotag followed by haplotagphase reproduces the phasing that tagged the reads.
   This file contains only the property theorems (each closed by `exact`), their assumption
   printouts, and non-vacuity examples.  Model: coq/model/HaplotagPhase.v.

   Reading guide.  `orig` is the phased VCF that tagged the reads, `inp` the (partially) unphased VCF
   given to haplotagphase, `s` a sample column, `phi_of (sample_view orig s)` the phasing as
   `whatshap haplotag` reads it (position -> (phase set id, allele of haplotype 0, allele of haplotype 1)).
   A read is "tagged from the phasing" when its (HP, PS) tags are those the model of haplotag's decision
   assigns (`tagged_by`: HP = haplotype index + 1, PS = phase set id, no tags for an undecided read) and it
   is an error-free copy of one haplotype inside one phase set (`error_free`; this contains the proviso
   that no read overlaps two different phase sets). *)
From Coq Require Import ZArith List Bool Arith.
From WH.Model Require Import HaplotagPhase.
From WH.Proofs Require Import HaplotagPhaseProofs.
Import ListNotations.
Open Scope Z_scope.

(* The tag semantics shared by the two subcommands: an error-free read of haplotype h inside phase set
   st is either left untagged by haplotag or gets exactly haplotype h and phase set st. *)
Theorem C17_haplotag_tags_error_free_read :
  forall (phi : Z -> option (Z * Z * Z)),
    (forall p b x0 x1, phi p = Some (b, x0, x1) -> x0 <> x1) ->
  forall (h st : Z) (r : read),
    (h = 0 \/ h = 1) -> error_free_on phi h st r = true ->
    haplotag_decide phi r = None \/ exists q, haplotag_decide phi r = Some (h, q, st) /\ 0 < q.
Proof. exact decide_error_free. Qed.
Print Assumptions C17_haplotag_tags_error_free_read.

(* votes_concentrate: for error-free reads tagged from the phasing, at every variant the phasing
   phases, all non-zero vote weight lies on the single key (ps, ht xor allele id) = (phase set id - 1,
   id of the allele of haplotype 0), i.e. on the orientation of the phasing, and it is positive. *)
Theorem C17_votes_concentrate :
  forall (orig inp : table) (s : nat),
    map (fun iv => (iv_pos iv, iv_g iv)) (sample_view orig s) =
    map (fun iv => (iv_pos iv, iv_g iv)) (sample_view inp s) ->
  forall (reads : list read) (V : votes),
    (forall r, In r reads -> tagged_by (phi_of (sample_view orig s)) r = true /\
                             error_free (phi_of (sample_view orig s)) r = true) ->
    compute_votes (sample_view inp s) reads = Ok V ->
    forall p b x0 x1 m k w,
      phi_of (sample_view orig s) p = Some (b, x0, x1) -> In (p, m) V -> In (k, w) m -> w <> 0 ->
      0 < w /\
      exists iv i, find_iv p (sample_view inp s) = Some iv /\ a2id (iv_g iv) x0 = Some i /\ k = (b - 1, i).
Proof. exact votes_concentrate. Qed.
Print Assumptions C17_votes_concentrate.

(* consensus_reproduces: whatever haplotagphase phases (call written with `|` that was not phased in
   its input) at a variant of the phasing gets exactly the haplotype order of the phasing and the phase
   set of the reads (= the phase set id of the phasing, which is the PS tag of every covering tagged
   read).  For any thresholds/filters, any reference, both treatments of already phased input, any
   number of samples, any reads of the other samples. *)
Theorem C17_consensus_reproduces :
  forall (orig inp : table) (s : nat),
    map (fun iv => (iv_pos iv, iv_g iv)) (sample_view orig s) =
    map (fun iv => (iv_pos iv, iv_g iv)) (sample_view inp s) ->
  forall (rl : rule) (pr : params) (ref : list Z) (readss : list (list read)) (out : table) (reads : list read),
    NoDup (map v_pos inp) ->
    nth_error readss s = Some reads ->
    (forall r, In r reads -> tagged_by (phi_of (sample_view orig s)) r = true /\
                             error_free (phi_of (sample_view orig s)) r = true) ->
    haplotagphase rl pr ref inp readss = Ok out ->
    forall i r r' c c' b x0 x1,
      nth_error inp i = Some r -> nth_error out i = Some r' ->
      nth_error (v_calls r) s = Some c -> nth_error (v_calls r') s = Some c' ->
      phi_of (sample_view orig s) (v_pos r) = Some (b, x0, x1) ->
      c_phased c = false -> c_phased c' = true ->
      c' = mkCall [Some x0; Some x1] true (Some b).
Proof. exact consensus_reproduces. Qed.
Print Assumptions C17_consensus_reproduces.

(* prephased_untouched — the full clause, for a rule `rl`: *)
Definition C17_prephased_untouched_full_statement (rl : rule) : Prop :=
  forall pr ref inp readss out,
    NoDup (map v_pos inp) ->
    haplotagphase rl pr ref inp readss = Ok out ->
    forall i r r' s reads c b x0 x1,
      nth_error inp i = Some r -> nth_error out i = Some r' ->
      nth_error readss s = Some reads ->
      nth_error (v_calls r) s = Some c ->
      v_pskey r = true -> c = mkCall [Some x0; Some x1] true (Some b) -> x0 <> x1 ->
      nth_error (v_calls r') s = Some c.

(* The code before the repair (rule Cur; /repo before commit f97203d) refutes it: record 5 below is phased 1|0:3 in the input, no tagged
   read covers it, and it comes out as 0/1:. (unphased by the shared writer). *)
Theorem C17_prephased_untouched_refuted :
  exists pr ref inp readss out i r r' s c,
    NoDup (map v_pos inp) /\
    haplotagphase Cur pr ref inp readss = Ok out /\
    nth_error inp i = Some r /\ nth_error out i = Some r' /\
    nth_error (v_calls r) s = Some c /\ c_phased c = true /\ v_pskey r = true /\
    (exists b x0 x1, c = mkCall [Some x0; Some x1] true (Some b) /\ x0 <> x1) /\
    nth_error (v_calls r') s <> Some c.
Proof. exact prephased_untouched_refuted. Qed.
Print Assumptions C17_prephased_untouched_refuted.

(* second witness (the shape found on tests/data/pacbio): a call phased 1|0 in set 99 whose covering
   reads were tagged from the other orientation in set 3 is rewritten to 0|1:3. *)
Theorem C17_prephased_flipped_refuted :
  exists pr ref inp readss out,
    haplotagphase Cur pr ref inp readss = Ok out /\
    inp = [mkRec 2 true true [mkCall [Some 1; Some 0] true (Some 99)];
           mkRec 5 true true [mkCall [Some 0; Some 1] false None]] /\
    out = [mkRec 2 true true [mkCall [Some 0; Some 1] true (Some 3)];
           mkRec 5 true true [mkCall [Some 0; Some 1] true (Some 3)]].
Proof. exact prephased_flipped_refuted. Qed.
Print Assumptions C17_prephased_flipped_refuted.

(* The repaired rule (Fixed; the code now in /repo) satisfies the clause for every input: a call that VcfReader recognises as
   phased (heterozygous, diploid, fully called, with a phase set id) comes out exactly as it went in. *)
Theorem C17_prephased_untouched_fixed :
  forall pr ref inp readss out,
    NoDup (map v_pos inp) ->
    haplotagphase Fixed pr ref inp readss = Ok out ->
    forall i r r' s reads c b x0 x1,
      nth_error inp i = Some r -> nth_error out i = Some r' ->
      nth_error readss s = Some reads ->
      nth_error (v_calls r) s = Some c ->
      v_pskey r = true -> c = mkCall [Some x0; Some x1] true (Some b) -> x0 <> x1 ->
      nth_error (v_calls r') s = Some c.
Proof. exact prephased_untouched_fixed. Qed.
Print Assumptions C17_prephased_untouched_fixed.

(* The clause as the property text has it — *every* call written with `|` in the input comes out
   unchanged — is still refuted by the repaired rule (the code now in /repo): the shared writer's
   _remove_existing_phasing unphases what VcfReader does not regard as phased (homozygous 1|1:5 -> 1/1:.;
   0|0:5 on a record without ALT -> 0/0:.), and a heterozygous 0|1 without a PS key is put back with PS = 0. *)
Definition C17_prephased_any_untouched_full_statement (rl : rule) : Prop :=
  forall pr ref mav recs nalts readss out,
    haplotagphase_file rl pr ref mav recs nalts readss = Ok out ->
    forall i r r' s c,
      nth_error recs i = Some r -> nth_error out i = Some r' ->
      nth_error (v_calls r) s = Some c -> c_phased c = true ->
      nth_error (v_calls r') s = Some c.
Theorem C17_prephased_unrecognised_refuted :
  (exists out, haplotagphase Fixed default_params [0;1;2;3] [mkRec 2 true true [mkCall [Some 1; Some 1] true (Some 5)]] [[]]
               = Ok out /\ out = [mkRec 2 true true [mkCall [Some 1; Some 1] false None]]) /\
  (exists out, haplotagphase Fixed default_params [0;1;2;3] [mkRec 2 true false [mkCall [Some 0; Some 1] true None]] [[]]
               = Ok out /\ out = [mkRec 2 true true [mkCall [Some 0; Some 1] true (Some 0)]]) /\
  (exists out, haplotagphase_file Fixed default_params [0;1;2;3] true
                 [mkRec 2 true true [mkCall [Some 0; Some 0] true (Some 5)]] [0] [[]]
               = Ok out /\ out = [mkRec 2 true true [mkCall [Some 0; Some 0] false None]]).
Proof. exact prephased_unrecognised_refuted. Qed.
Print Assumptions C17_prephased_unrecognised_refuted.

(* The repaired rule changes nothing when no call of the input is written with `|`: on such inputs
   (the `whatshap unphase` output in particular) both rules give the same result or the same error. *)
Theorem C17_rules_agree_on_unphased :
  forall pr ref inp readss,
    (forall r c, In r inp -> In c (v_calls r) -> c_phased c = false) ->
    haplotagphase Fixed pr ref inp readss = haplotagphase Cur pr ref inp readss.
Proof. exact rules_agree_on_unphased. Qed.
Print Assumptions C17_rules_agree_on_unphased.

(* Side result about the filters: the two run lengths are each capped at the threshold, so the test
   `max_length > cut_homopolymers` never holds — --cut-poly has no effect, in any reference. *)
Theorem C17_homopolymer_filter_never_fires :
  forall (ref : list Z) (pos cut : Z), in_long_homopolymer ref pos cut = false.
Proof. exact homopolymer_filter_never_fires. Qed.
Print Assumptions C17_homopolymer_filter_never_fires.

(* ------------------------------------------------------------------------------- non-vacuity *)
(* A phased VCF with two phase sets (ids 3 and 40; the second set is flipped), an indel, a homozygous
   record; four error-free reads; the hypotheses of the theorems hold and haplotagphase re-creates the
   phasing from the unphased file. *)
Definition ex_orig : table :=
  [mkRec 2 true true [mkCall [Some 0; Some 1] true (Some 3)];
   mkRec 9 false true [mkCall [Some 1; Some 0] true (Some 3)];
   mkRec 20 true true [mkCall [Some 1; Some 1] false None];
   mkRec 39 true true [mkCall [Some 1; Some 0] true (Some 40)];
   mkRec 47 true true [mkCall [Some 0; Some 1] true (Some 40)]].
Definition ex_inp : table :=
  [mkRec 2 true false [mkCall [Some 0; Some 1] false None];
   mkRec 9 false false [mkCall [Some 0; Some 1] false None];
   mkRec 20 true false [mkCall [Some 1; Some 1] false None];
   mkRec 39 true false [mkCall [Some 0; Some 1] false None];
   mkRec 47 true false [mkCall [Some 0; Some 1] false None]].
Definition ex_reads_untagged : list read :=
  [mkRead (-1) (-1) [mkRV 2 0 30; mkRV 9 1 20; mkRV 20 1 30];
   mkRead (-1) (-1) [mkRV 2 1 30; mkRV 9 0 20];
   mkRead (-1) (-1) [mkRV 39 1 30; mkRV 47 0 30];
   mkRead (-1) (-1) [mkRV 20 1 30; mkRV 39 0 30; mkRV 47 1 30]].
Definition ex_tag (r : read) : read :=
  let t := tags_of (haplotag_decide (phi_of (sample_view ex_orig 0)) r) in mkRead (snd t) (fst t) (r_vars r).
Definition ex_reads : list read := map ex_tag ex_reads_untagged.

Example C17_example_hypotheses :
  map (fun iv => (iv_pos iv, iv_g iv)) (sample_view ex_orig 0) =
  map (fun iv => (iv_pos iv, iv_g iv)) (sample_view ex_inp 0) /\
  forallb (fun r => tagged_by (phi_of (sample_view ex_orig 0)) r && error_free (phi_of (sample_view ex_orig 0)) r)
          ex_reads = true /\
  map (fun r => (r_hp r, r_ps r)) ex_reads = [(1, 3); (2, 3); (1, 40); (2, 40)] /\
  compute_votes (sample_view ex_inp 0) ex_reads =
    Ok [(2, [((2, 0), 0); ((2, 1), 60)]); (9, [((2, 0), 40); ((2, 1), 0)]);
        (39, [((39, 0), 60); ((39, 1), 0)]); (47, [((39, 0), 0); ((39, 1), 60)])] /\
  haplotagphase Cur default_params [0;1;2;3;0;1;2;3] ex_inp [ex_reads] =
    Ok [mkRec 2 true true [mkCall [Some 0; Some 1] true (Some 3)];
        mkRec 9 false true [mkCall [Some 1; Some 0] true (Some 3)];
        mkRec 20 true false [mkCall [Some 1; Some 1] false None];
        mkRec 39 true true [mkCall [Some 1; Some 0] true (Some 40)];
        mkRec 47 true true [mkCall [Some 0; Some 1] true (Some 40)]] /\
  haplotagphase Fixed default_params [0;1;2;3;0;1;2;3] ex_inp [ex_reads] =
  haplotagphase Cur default_params [0;1;2;3;0;1;2;3] ex_inp [ex_reads].
Proof. vm_compute. repeat split; reflexivity. Qed.

(* the repaired rule on the refuting input: the uncovered phased record stays 1|0:3 *)
Example C17_example_fixed_keeps :
  haplotagphase Fixed default_params [0;1;2;3;0;1;2;3]
    [mkRec 2 true true [mkCall [Some 0; Some 1] true (Some 3)];
     mkRec 5 true true [mkCall [Some 1; Some 0] true (Some 3)]]
    [[mkRead 3 1 [mkRV 2 0 30]]] =
  Ok [mkRec 2 true true [mkCall [Some 0; Some 1] true (Some 3)];
      mkRec 5 true true [mkCall [Some 1; Some 0] true (Some 3)]].
Proof. vm_compute. reflexivity. Qed.

(* the executable L1 predicates accept a faithful run and reject an altered pre-phased call / a flipped order *)
Example C17_example_l1 :
  prephased_kept [mkCall [Some 1; Some 0] true (Some 3)] [mkCall [Some 1; Some 0] true (Some 3)] = true /\
  prephased_kept [mkCall [Some 1; Some 0] true (Some 3)] [mkCall [Some 0; Some 1] false (Some 3)] = false /\
  order_one (mkCall [Some 1; Some 0] true (Some 3), mkCall [Some 0; Some 1] false None,
             mkCall [Some 1; Some 0] true (Some 3), [3; 3]) = true /\
  order_one (mkCall [Some 1; Some 0] true (Some 3), mkCall [Some 0; Some 1] false None,
             mkCall [Some 0; Some 1] true (Some 3), [3; 3]) = false /\
  ps_one (mkCall [Some 1; Some 0] true (Some 3), mkCall [Some 0; Some 1] false None,
          mkCall [Some 1; Some 0] true (Some 4), [3; 3]) = false.
Proof. vm_compute. repeat split; reflexivity. Qed.
