(* Shared abstract VCF record (DESIGN 5.5) and executable models of the phased-VCF writer and the
   phase decoders of whatshap/vcf.py:

     VcfAugmenter._iterrecords / _record_modifier (stream with one carried `_unprocessed_record`),
     pysam's VariantFile.write (INFO/END re-synchronisation, the only thing the model knows about it),
     PhasedVcfWriter.write (record loop with every early `continue`, genotype-change branch),
     PhasedVcfWriter._remove_existing_phasing / _set_PS / _set_HP,
     missing_headers / augment_header / setup_header (header as sets of defined ids),
     VcfReader._extract_HP_phase / _extract_GT_PS_phase / genotype_code / the record loop of
     _process_single_chromosome (phases=True), VariantTable.phased_blocks_as_reads,
     run_unphase's record step (used only to build histories for C09).

   The abstraction (built from real files by harness/vcfabs.py with pysam):
     - CHROM, ID, REF, ALT, QUAL, FILTER are opaque tokens (interned raw column text); POS is the
       0-based `record.start`; INFO is the list of (key token, value token) in file order where the key
       END is the reserved token 0 and carries its integer value; `ref_len`, `alt_lens`, `symbolic` are
       the only facts about REF/ALT the code looks at.
     - a call: GT as the list of allele numbers (None = '.') or None if FORMAT has no GT key; pysam's
       `phased` flag; PS and PQ values (None = '.' or key absent); HP as pysam returns it (None = key
       absent, else the tuple, whose items are 'b-h', '.', None or unparsable); every other FORMAT
       field with a non-missing value as (key token, value token) in FORMAT order.
   The rules that were defective are isolated in the record `rules` and in the decoder guard:
   fix_rules / fix_guard model the code as it is (after the repairs b86843e, 3231061, 9ec9805 in /repo);
   orig_rules / orig_guard model the code before them and are kept for the refutation witnesses of C09.
   Definitions only: model + executable specification side, no lemmas. *)
From Coq Require Import ZArith List Bool Arith.
Import ListNotations.
Open Scope Z_scope.

(* ------------------------------------------------------------------------------------------ data *)
Definition token := Z.
Definition allele := option nat.                 (* None = '.' *)

Inductive hpitem :=
| HPnum (block hap : Z)       (* "block-hap" *)
| HPdot                        (* "." *)
| HPnone                       (* python None: what pysam returns for an empty string value *)
| HPbad (t : token).           (* any other text (interned), e.g. 'mat', '1', 'h2' written by another tool *)

Record call := mkCall {
  gt : option (list allele);         (* None: FORMAT has no GT key *)
  phased : bool;                     (* pysam: every separator is '|' (vacuously true for one allele) *)
  ps : option Z;
  pq : option token;
  hp : option (list hpitem);         (* None: FORMAT has no HP key *)
  other : list (token * token)
}.

Definition K_END : token := 0.

Record vrec := mkRec {
  chrom : token;
  pos : Z;                           (* record.start *)
  fixed : list token;                (* raw text of ID, REF, ALT, QUAL, FILTER *)
  info : list (token * Z);
  ref_len : Z;
  alt_lens : list Z;                 (* [] when ALT is '.' *)
  symbolic : bool;                   (* some ALT allele has the form <...> *)
  ps_key : bool;                     (* FORMAT has a PS key (call.get("PS", 0) distinguishes) *)
  calls : list call
}.

Inductive err := EKey | EAttr | EValue | EAssert | EIndex | EMixed | EUnsorted.
Inductive res (A : Type) := Ok (a : A) | Err (e : err).
Arguments Ok {A} a.
Arguments Err {A} e.

Definition bind {A B} (x : res A) (f : A -> res B) : res B :=
  match x with Ok a => f a | Err e => Err e end.

(* field updates *)
Definition set_gt (c : call) (g : option (list allele)) (p : bool) : call :=
  mkCall g p (ps c) (pq c) (hp c) (other c).
Definition set_phased (c : call) (p : bool) : call :=
  mkCall (gt c) p (ps c) (pq c) (hp c) (other c).
Definition set_ps (c : call) (v : option Z) : call :=
  mkCall (gt c) (phased c) v (pq c) (hp c) (other c).
Definition set_pq (c : call) (v : option token) : call :=
  mkCall (gt c) (phased c) (ps c) v (hp c) (other c).
Definition set_hp (c : call) (v : option (list hpitem)) : call :=
  mkCall (gt c) (phased c) (ps c) (pq c) v (other c).
Definition set_calls (r : vrec) (cs : list call) (pk : bool) : vrec :=
  mkRec (chrom r) (pos r) (fixed r) (info r) (ref_len r) (alt_lens r) (symbolic r) pk cs.
Definition set_info (r : vrec) (i : list (token * Z)) : vrec :=
  mkRec (chrom r) (pos r) (fixed r) i (ref_len r) (alt_lens r) (symbolic r) (ps_key r) (calls r).

(* -------------------------------------------------------------------------------- genotypes *)
(* whatshap.core.Genotype is a multiset of alleles; canonical form here: ascending list.
   Genotype([]) is the `none` genotype. *)
Fixpoint insert_asc (a : nat) (l : list nat) : list nat :=
  match l with
  | [] => [a]
  | b :: t => if (a <=? b)%nat then a :: l else b :: insert_asc a t
  end.
Definition sort_asc (l : list nat) : list nat := fold_right insert_asc [] l.

Fixpoint all_called (l : list allele) : option (list nat) :=
  match l with
  | [] => Some []
  | None :: _ => None
  | Some a :: t => match all_called t with Some r => Some (a :: r) | None => None end
  end.

(* genotype_code *)
Definition genotype_code (g : option (list allele)) : list nat :=
  match g with
  | None => []
  | Some l => match all_called l with Some ns => sort_asc ns | None => [] end
  end.

(* Genotype.is_homozygous: false for the none genotype *)
Definition is_homozygous (g : list nat) : bool :=
  match g with [] => false | a :: t => forallb (Nat.eqb a) t end.

(* Genotype.as_vector: position 0 holds the highest allele *)
Definition as_vector (g : list nat) : list nat := rev g.

Fixpoint list_nat_eqb (a b : list nat) : bool :=
  match a, b with
  | [], [] => true
  | x :: a', y :: b' => Nat.eqb x y && list_nat_eqb a' b'
  | _, _ => false
  end.

(* pysam: phased flag of a freshly assigned / unphased GT of this many alleles *)
Definition unph {A} (l : list A) : bool := (length l <=? 1)%nat.

(* --------------------------------------------------------------------------- writer: inputs *)
Inductive tagk := TagPS | TagHP.
Record cfg := mkCfg { tag : tagk; only_snvs : bool; mav : bool;
                      end_decl : bool (* not a writer option: a fact about the input, see sync_end *) }.

(* what write() receives for one sample of sample_superreads *)
Record target := mkTarget {
  t_sample : nat;                          (* index of the sample column *)
  t_super : list (Z * list nat);           (* zip( *superreads ): (position, allele of each super-read) *)
  t_comp : list (Z * Z)                    (* sample_components[sample]: position -> component *)
}.

(* python dict built by successive assignment: the last entry for a key wins *)
Fixpoint dict_get {V} (k : Z) (l : list (Z * V)) : option V :=
  match l with
  | [] => None
  | (k', v) :: t => match dict_get k t with
                    | Some w => Some w
                    | None => if k' =? k then Some v else None
                    end
  end.

(* `allowed_alleles`; a tuple produced by zip( *superreads ) has one allele per super-read, so it is
   never empty: the empty list is not a valid entry of t_super and is ignored *)
Definition allowed (c : cfg) (ph : list nat) : bool :=
  negb (length ph =? 0)%nat && (mav c || forallb (fun a => (a <=? 1)%nat) ph).

(* sample_phases[sample].get(pos) (sample_genotypes has the same keys) *)
Definition phase_at (c : cfg) (t : target) (p : Z) : option (list nat) :=
  dict_get p (filter (fun e => allowed c (snd e)) (t_super t)).

(* --------------------------------------------------------------------- writer: switchable rules *)
Record rules := mkRules {
  rm_phasing : tagk -> call -> call;        (* body of _remove_existing_phasing for one target call *)
  chg_order : list nat -> list nat;         (* allele order assigned by the genotype-change branch,
                                               given the ascending genotype *)
  unset_hp : list hpitem                    (* what the HP value of an unphased target call reads back as:
                                               current code assigns None, which pysam writes as an empty string
                                               (or a NUL byte when no sample of the record has a value) and reads
                                               back as (None,) -- or as ('.',) in the last column; the harness
                                               compares the two forms as equal, see canon_hp -- ; the repaired
                                               code assigns "." *)
}.

(* the PS branch of _remove_existing_phasing *)
Definition unphase_call (c : call) : call :=
  match gt c with
  | None => c
  | Some l => match all_called l with
              | Some ns => set_gt c (Some (map Some (sort_asc ns))) (unph l)
              | None => set_phased c (unph l)
              end
  end.

Definition orig_rm (tg : tagk) (c : call) : call :=
  match tg with TagPS => unphase_call c | TagHP => c end.

(* the code now: for either tag remove every phase statement of the call (GT unphased and sorted, PS, HP, PQ) *)
Definition clear_hp (c : call) : call :=
  match hp c with None => c | Some _ => set_hp c (Some [HPdot]) end.
Definition fix_rm (tg : tagk) (c : call) : call :=
  set_pq (clear_hp (set_ps (unphase_call c) None)) None.

Definition orig_rules : rules := mkRules orig_rm as_vector [HPnone].
Definition fix_rules : rules := mkRules fix_rm (fun g => g) [HPdot].

(* --------------------------------------------------------------------- writer: one target call *)
Definition set_PS (c : call) (comp : Z) (ph : list nat) : call :=
  set_ps (set_gt c (Some (map Some ph)) true) (Some (comp + 1)).
Definition set_HP (c : call) (comp : Z) (ph : list nat) : call :=
  set_hp c (Some (map (fun a => HPnum (comp + 1) (Z.of_nat a + 1)) ph)).
Definition set_tag (tg : tagk) (c : call) (comp : Z) (ph : list nat) : call :=
  match tg with TagPS => set_PS c comp ph | TagHP => set_HP c comp ph end.
Definition unset_tag (ru : rules) (tg : tagk) (c : call) : call :=
  match tg with TagPS => set_ps c None | TagHP => set_hp c (Some (unset_hp ru)) end.

(* the body of `for sample in sample_superreads:` for one call *)
Definition update_call (cf : cfg) (ru : rules) (t : target) (p : Z) (c : call) : res call :=
  match gt c with
  | None => Err EKey                                    (* call["GT"] *)
  | Some _ =>
    let gt_type := genotype_code (gt c) in
    let ph := phase_at cf t p in
    let c1_het :=
      match ph with
      | Some phv =>
        let g := sort_asc phv in
        if list_nat_eqb g gt_type then (c, negb (is_homozygous gt_type))
        else (set_gt c (Some (map Some (chg_order ru g))) (unph g), negb (is_homozygous g))
      | None => (c, negb (is_homozygous gt_type))
      end in
    match ph, dict_get p (t_comp t) with
    | Some phv, Some comp =>
      if snd c1_het then Ok (set_tag (tag cf) (fst c1_het) comp phv)
      else Ok (unset_tag ru (tag cf) (fst c1_het))
    | _, _ => Ok (unset_tag ru (tag cf) (fst c1_het))
    end
  end.

(* --------------------------------------------------------------------- writer: one record *)
Fixpoint upd_nth {A} (l : list A) (i : nat) (f : A -> res A) : res (list A) :=
  match l, i with
  | [], _ => Ok []                               (* sample not in the file: not reachable from the CLI *)
  | x :: t, O => bind (f x) (fun y => Ok (y :: t))
  | x :: t, S i' => bind (upd_nth t i' f) (fun t' => Ok (x :: t'))
  end.

Definition map_nth {A} (l : list A) (i : nat) (f : A -> A) : list A :=
  match upd_nth l i (fun x => Ok (f x)) with Ok r => r | Err _ => l end.

Definition remove_existing (ru : rules) (tg : tagk) (ts : list target) (cs : list call) : list call :=
  fold_left (fun acc t => map_nth acc (t_sample t) (rm_phasing ru tg)) ts cs.

Definition phased_in (cf : cfg) (p : Z) (t : target) : bool :=
  match dict_get p (t_comp t), phase_at cf t p with Some _, Some _ => true | _, _ => false end.

Definition is_snv (r : vrec) : bool :=
  (ref_len r =? 1) && match alt_lens r with a :: _ => a =? 1 | [] => false end.

Inductive skip_reason := NoAlt | MultiAlt | Duplicate | NotSnv | Unphased.

(* which `continue` the record loop takes, if any *)
Definition skip (cf : cfg) (ts : list target) (prev : option Z) (r : vrec) : option skip_reason :=
  match alt_lens r with
  | [] => Some NoAlt
  | _ :: more =>
    if negb (unph (alt_lens r)) && negb (mav cf) then Some MultiAlt
    else if match prev with Some q => pos r =? q | None => false end then Some Duplicate
    else if only_snvs cf && negb (is_snv r) then Some NotSnv
    else if negb (existsb (fun t => (t_sample t <? length (calls r))%nat && phased_in cf (pos r) t) ts)
         then Some Unphased
    else None
  end.

Definition update_targets (cf : cfg) (ru : rules) (ts : list target) (p : Z) (cs : list call)
  : res (list call) :=
  fold_left (fun acc t => bind acc (fun cs' => upd_nth cs' (t_sample t) (update_call cf ru t p)))
            ts (Ok cs).

(* one iteration of `for record in self._record_modifier(chromosome)`; state = prev_pos *)
Definition record_step (cf : cfg) (ru : rules) (ts : list target) (prev : option Z) (r : vrec)
  : res (option Z * vrec) :=
  let cs1 := remove_existing ru (tag cf) ts (calls r) in
  match skip cf ts prev r with
  | Some _ => Ok (prev, set_calls r cs1 (ps_key r))
  | None =>
    bind (update_targets cf ru ts (pos r) cs1) (fun cs2 =>
      Ok (Some (pos r),
          set_calls r cs2 (match tag cf, ts with TagPS, _ :: _ => true | _, _ => ps_key r end)))
  end.

(* ------------------------------------------------------- pysam VariantFile.write: bcf_sync_end *)
Fixpoint info_get (k : token) (i : list (token * Z)) : option Z :=
  match i with [] => None | (k', v) :: t => if k' =? k then Some v else info_get k t end.

(* 1-based inclusive END implied by POS and REF *)
Definition implied_end (r : vrec) : Z := pos r + ref_len r.

(* [end_decl]: INFO/END is defined in the (repaired) header, i.e. it was declared in the input or some
   record has an ALT starting with '<'. An undeclared END is parsed as a string and does not set rlen. *)
Definition sync_end (end_decl : bool) (r : vrec) : vrec :=
  match info_get K_END (info r) with
  | None => if symbolic r then set_info r (info r ++ [(K_END, implied_end r)]) else r
  | Some e =>
    if negb (symbolic r) && (negb end_decl || (e =? implied_end r))
    then set_info r (filter (fun kv => negb (fst kv =? K_END)) (info r)) else r
  end.

(* ------------------------------------------------------------- stream: _iterrecords and write() *)
Record stream := mkStream { carried : option vrec; rest : list vrec }.

Fixpoint take_run (c : token) (l : list vrec) : list vrec * list vrec :=
  match l with
  | [] => ([], [])
  | r :: t => if chrom r =? c then let '(a, b) := take_run c t in (r :: a, b) else ([], l)
  end.

(* records yielded for `chromosome`, and the stream afterwards (the carried record is NOT cleared
   when the input is exhausted, as in the code) *)
Definition iterrecords (c : token) (s : stream) : res (list vrec * stream) :=
  match carried s with
  | Some r => if chrom r =? c then
      let '(run, tl) := take_run c (rest s) in
      match tl with
      | [] => Ok (r :: run, mkStream (carried s) [])
      | x :: tl' => Ok (r :: run, mkStream (Some x) tl')
      end
    else Err EAssert
  | None =>
    let '(run, tl) := take_run c (rest s) in
    match tl with
    | [] => Ok (run, mkStream None [])
    | x :: tl' => match run with [] => Err EAssert | _ => Ok (run, mkStream (Some x) tl') end
    end
  end.

Fixpoint steps (cf : cfg) (ru : rules) (ts : list target) (prev : option Z) (l : list vrec)
  : res (list vrec) :=
  match l with
  | [] => Ok []
  | r :: t => bind (record_step cf ru ts prev r) (fun pr =>
              bind (steps cf ru ts (fst pr) t) (fun out => Ok (sync_end (end_decl cf) (snd pr) :: out)))
  end.

(* PhasedVcfWriter.write(chromosome, superreads, components) *)
Definition write_call (cf : cfg) (ru : rules) (c : token) (ts : list target) (s : stream)
  : res (list vrec * stream) :=
  bind (iterrecords c s) (fun ys => bind (steps cf ru ts None (fst ys)) (fun out => Ok (out, snd ys))).

(* the sequence of write() calls made by run_whatshap: one per chromosome run of the input *)
Fixpoint write_all (cf : cfg) (ru : rules) (plan : list (token * list target)) (s : stream)
  : res (list vrec) :=
  match plan with
  | [] => Ok []
  | (c, ts) :: more =>
    bind (write_call cf ru c ts s) (fun o =>
    bind (write_all cf ru more (snd o)) (fun out => Ok (fst o ++ out)))
  end.

Definition phase_writer (cf : cfg) (ru : rules) (plan : list (token * list target)) (input : list vrec)
  : res (list vrec) := write_all cf ru plan (mkStream None input).

(* ---------------------------------------------------------------- specification side (C04) *)
(* chromosome of each maximal run: what itertools.groupby over the same file yields *)
Fixpoint runs (l : list vrec) : list token :=
  match l with
  | [] => []
  | r :: t => match t with
              | [] => [chrom r]
              | r' :: _ => if chrom r' =? chrom r then runs t else chrom r :: runs t
              end
  end.

(* pair every record with the targets of the write() call that consumes it *)
Fixpoint annotate (plan : list (token * list target)) (l : list vrec) : list (vrec * list target) :=
  match plan with
  | [] => []
  | (c, ts) :: more =>
    let '(run, tl) := take_run c l in map (fun r => (r, ts)) run ++ annotate more tl
  end.

Definition tok_eqb := Z.eqb.
Fixpoint all2 {A B} (f : A -> B -> bool) (a : list A) (b : list B) : bool :=
  match a, b with
  | [], [] => true
  | x :: a', y :: b' => f x y && all2 f a' b'
  | _, _ => false
  end.
Definition list_eqb {A} (eqb : A -> A -> bool) (a b : list A) : bool := all2 eqb a b.
Definition opt_eqb {A} (eqb : A -> A -> bool) (a b : option A) : bool :=
  match a, b with Some x, Some y => eqb x y | None, None => true | _, _ => false end.
Definition pair_eqb {A B} (ea : A -> A -> bool) (eb : B -> B -> bool) (a b : A * B) : bool :=
  ea (fst a) (fst b) && eb (snd a) (snd b).
Definition allele_eqb : allele -> allele -> bool := opt_eqb Nat.eqb.
Definition hpitem_eqb (a b : hpitem) : bool :=
  match a, b with
  | HPnum x y, HPnum x' y' => (x =? x') && (y =? y')
  | HPdot, HPdot | HPnone, HPnone => true
  | HPbad s, HPbad t => s =? t
  | _, _ => false
  end.
Definition gt_eqb := opt_eqb (list_eqb allele_eqb).
Definition hp_eqb := opt_eqb (list_eqb hpitem_eqb).
Definition other_eqb := list_eqb (pair_eqb Z.eqb Z.eqb).
Definition call_eqb (a b : call) : bool :=
  gt_eqb (gt a) (gt b) && Bool.eqb (phased a) (phased b) && opt_eqb Z.eqb (ps a) (ps b)
  && opt_eqb Z.eqb (pq a) (pq b) && hp_eqb (hp a) (hp b) && other_eqb (other a) (other b).

(* an HP value whose items are all '.'/None carries no information: canonical form for comparing
   what pysam reads back (which of the two it returns depends on the column) *)
Definition hp_missing (l : list hpitem) : bool :=
  forallb (fun x => match x with HPdot | HPnone => true | _ => false end) l.
Definition canon_hp (h : option (list hpitem)) : option (list hpitem) :=
  match h with Some l => if hp_missing l then None else h | None => None end.
Definition canon_call (c : call) : call := set_hp c (canon_hp (hp c)).
Definition call_sim (a b : call) : bool := call_eqb (canon_call a) (canon_call b).

Definition info_eqb := list_eqb (pair_eqb Z.eqb Z.eqb).
(* CHROM POS ID REF ALT QUAL FILTER INFO identical *)
Definition fixed_eqb (a b : vrec) : bool :=
  (chrom a =? chrom b) && (pos a =? pos b) && list_eqb Z.eqb (fixed a) (fixed b)
  && info_eqb (info a) (info b).
(* the same, INFO compared without the END key *)
Definition no_end (i : list (token * Z)) := filter (fun kv => negb (fst kv =? K_END)) i.
Definition fixed_mod_end_eqb (a b : vrec) : bool :=
  (chrom a =? chrom b) && (pos a =? pos b) && list_eqb Z.eqb (fixed a) (fixed b)
  && info_eqb (no_end (info a)) (no_end (info b)).
Definition rec_sim (a b : vrec) : bool :=
  fixed_eqb a b && Bool.eqb (ps_key a) (ps_key b) && list_eqb call_sim (calls a) (calls b).

(* [conserves]: same records, same order, same fixed columns, same number of sample columns *)
Definition conserves (eqf : vrec -> vrec -> bool) (inp out : list vrec) : bool :=
  list_eqb (fun a b => eqf a b && (length (calls a) =? length (calls b))%nat) inp out.

(* multiset of the alleles of a GT value ('.' counted as an allele of its own) *)
Definition acode (a : allele) : nat := match a with None => O | Some n => S n end.
Definition gt_multiset_eqb (a b : option (list allele)) : bool :=
  match a, b with
  | Some x, Some y => list_nat_eqb (sort_asc (map acode x)) (sort_asc (map acode y))
  | None, None => true
  | _, _ => false
  end.

Definition is_target (ts : list target) (i : nat) : bool :=
  existsb (fun t => Nat.eqb (t_sample t) i) ts.

(* frame of one call: untouched if not a target; otherwise only the phase encoding (GT order and
   separator, PS, HP, PQ) may differ. *)
Definition call_frame (istarget : bool) (a b : call) : bool :=
  if istarget then
    other_eqb (other a) (other b)
    && match gt a, gt b with
       | Some _, Some _ | None, None => true
       | _, _ => false
       end
  else call_sim a b.

Fixpoint calls_frame (ts : list target) (i : nat) (a b : list call) : bool :=
  match a, b with
  | [], [] => true
  | x :: a', y :: b' => call_frame (is_target ts i) x y && calls_frame ts (S i) a' b'
  | _, _ => false
  end.

Definition frames (ann : list (vrec * list target)) (out : list vrec) : bool :=
  all2 (fun p o => calls_frame (snd p) O (calls (fst p)) (calls o)) ann out.

(* allele multisets preserved in every call *)
Definition alleles_kept (inp out : list vrec) : bool :=
  list_eqb (fun a b => list_eqb (fun x y => gt_multiset_eqb (gt x) (gt y)) (calls a) (calls b)) inp out.

(* hypothesis of the trusted-genotype case: wherever a target has an (allowed) super-read column,
   its alleles are the genotype of the call *)
Definition agrees_call (cf : cfg) (t : target) (p : Z) (c : call) : bool :=
  match phase_at cf t p with
  | Some ph => list_nat_eqb (sort_asc ph) (genotype_code (gt c))
  | None => true
  end.
Definition agrees_rec (cf : cfg) (ts : list target) (r : vrec) : bool :=
  forallb (fun t => match nth_error (calls r) (t_sample t) with
                    | Some c => agrees_call cf t (pos r) c
                    | None => true end) ts.
Definition superreads_agree (cf : cfg) (ann : list (vrec * list target)) : bool :=
  forallb (fun p => agrees_rec cf (snd p) (fst p)) ann.

(* the phase statement this run's tag makes about a call *)
Definition marked (tg : tagk) (c : call) : bool :=
  match tg with
  | TagPS => phased c && negb (match gt c with Some l => unph l | None => true end)
  | TagHP => match hp c with Some l => negb (hp_missing l) | None => false end
  end.
Definition stmt_eqb (tg : tagk) (a b : call) : bool :=
  match tg with
  | TagPS => gt_eqb (gt a) (gt b) && Bool.eqb (phased a) (phased b) && opt_eqb Z.eqb (ps a) (ps b)
  | TagHP => hp_eqb (canon_hp (hp a)) (canon_hp (hp b))
  end.
Definition het_call (c : call) : bool :=
  match gt c with
  | Some l => match all_called l with
              | Some (a :: t) => negb (forallb (Nat.eqb a) t)
              | _ => false end
  | None => false
  end.
Definition supported (cf : cfg) (r : vrec) : bool :=
  match alt_lens r with
  | [] => false
  | _ :: _ => (unph (alt_lens r) || mav cf) && (negb (only_snvs cf) || is_snv r)
  end.
(* a statement of this run's tag that is present in the output call and was not already (identically)
   present in the input call *)
Definition newly_marked (tg : tagk) (a b : call) : bool :=
  marked tg b && negb (marked tg a && stmt_eqb tg a b).
Fixpoint calls_only_het (tg : tagk) (ts : list target) (i : nat) (a b : list call) : bool :=
  match a, b with
  | x :: a', y :: b' =>
    (negb (is_target ts i && newly_marked tg x y) || het_call y) && calls_only_het tg ts (S i) a' b'
  | _, _ => true
  end.
Fixpoint calls_any_new (tg : tagk) (ts : list target) (i : nat) (a b : list call) : bool :=
  match a, b with
  | x :: a', y :: b' => (is_target ts i && newly_marked tg x y) || calls_any_new tg ts (S i) a' b'
  | _, _ => false
  end.
(* [only_het_supported]: a target call that this run marks phased is heterozygous and its record is
   of a supported type (bi-allelic unless mav; an SNV under only_snvs) *)
Definition only_het_supported (cf : cfg) (ann : list (vrec * list target)) (out : list vrec) : bool :=
  all2 (fun p o =>
      calls_only_het (tag cf) (snd p) O (calls (fst p)) (calls o)
      && (negb (calls_any_new (tag cf) (snd p) O (calls (fst p)) (calls o)) || supported cf (fst p)))
    ann out.

(* ------------------------------------------------------------------------------ header model *)
(* ids defined per category + the unstructured (key, value) meta lines *)
Record header := mkHeader {
  h_contigs : list token; h_infos : list token; h_filters : list token; h_formats : list token;
  h_generic : list (token * token);      (* ##key=value lines, in order *)
  h_samples : list token
}.
Definition K_phasing : token := 1.        (* key of a ##phasing= line *)
Definition K_commandline : token := 2.
Definition F_PASS : token := 3.           (* FILTER id PASS (htslib always defines it) *)
Definition F_PS : token := 4.             (* FORMAT ids *)
Definition F_HP : token := 5.

Definition mem (x : token) (l : list token) : bool := existsb (Z.eqb x) l.
Definition add_new (l : list token) (xs : list token) : list token :=
  fold_left (fun acc x => if mem x acc then acc else acc ++ [x]) xs l.
Fixpoint remove_first_key (k : token) (l : list (token * token)) : list (token * token) :=
  match l with [] => [] | (k', v) :: t => if k' =? k then t else (k', v) :: remove_first_key k t end.

(* what the file body uses (computed by the harness from the input): contigs, FORMAT keys, INFO keys
   (+ END if a symbolic ALT occurs); `predef_f` / `predef_i` = PREDEFINED_FORMATS / _INFOS *)
Record body_use := mkUse { u_contigs : list token; u_formats : list token; u_infos : list token }.

Inductive hres := HOk (h : header) | HErrFormat (f : token) | HErrInfo (i : token).

Definition first_not_in (xs l : list token) : option token :=
  find (fun x => negb (mem x l)) xs.

Definition out_header (predef_f predef_i : list token) (tg : tagk) (cmdline : option token)
  (u : body_use) (h : header) : hres :=
  let miss_c := filter (fun x => negb (mem x (h_contigs h))) (u_contigs u) in
  let miss_f := filter (fun x => negb (mem x (h_formats h))) (u_formats u) in
  let miss_i := filter (fun x => negb (mem x (h_infos h))) (u_infos u) in
  match first_not_in miss_f predef_f with
  | Some f => HErrFormat f
  | None =>
    match first_not_in miss_i predef_i with
    | Some i => HErrInfo i
    | None =>
      let gen := remove_first_key K_phasing (h_generic h) in
      let gen := match cmdline with Some v => gen ++ [(K_commandline, v)] | None => gen end in
      HOk (mkHeader (add_new (h_contigs h) miss_c) (add_new (h_infos h) miss_i)
                    (add_new (h_filters h) [F_PASS])
                    (add_new (add_new (h_formats h) miss_f) [match tg with TagPS => F_PS | TagHP => F_HP end])
                    gen (h_samples h))
    end
  end.

Definition subset (a b : list token) : bool := forallb (fun x => mem x b) a.
Definition same_set (a b : list token) : bool := subset a b && subset b a.
Definition generic_kept (a b : list (token * token)) : bool :=
  forallb (fun kv => (fst kv =? K_phasing) || existsb (pair_eqb Z.eqb Z.eqb kv) b) a.
(* [header_superset]: every definition of the input is still there; only `phasing=` may go *)
Definition header_superset (hin hout : header) : bool :=
  subset (h_contigs hin) (h_contigs hout) && subset (h_infos hin) (h_infos hout)
  && subset (h_filters hin) (h_filters hout) && subset (h_formats hin) (h_formats hout)
  && generic_kept (h_generic hin) (h_generic hout)
  && list_eqb Z.eqb (h_samples hin) (h_samples hout).
Definition header_sim (a b : header) : bool :=
  same_set (h_contigs a) (h_contigs b) && same_set (h_infos a) (h_infos b)
  && same_set (h_filters a) (h_filters b) && same_set (h_formats a) (h_formats b)
  && list_eqb (pair_eqb Z.eqb Z.eqb) (h_generic a) (h_generic b)
  && list_eqb Z.eqb (h_samples a) (h_samples b).

(* ------------------------------------------------------------------------------ decoders (C09) *)
Record dphase := mkPhase { block : option Z; alleles : list allele; quality : option token }.

Fixpoint parse_hp (l : list hpitem) : res (list (Z * Z)) :=
  match l with
  | [] => Ok []
  | HPnum b h :: t => bind (parse_hp t) (fun r => Ok ((b, h) :: r))
  | HPnone :: _ => Err EAttr                 (* None.split *)
  | _ :: _ => Err EValue                     (* int('.') *)
  end.

Fixpoint index_of (x : Z) (l : list Z) : option nat :=
  match l with
  | [] => None
  | y :: t => if y =? x then Some O else option_map S (index_of x t)
  end.

Fixpoint hp_pick (g : list allele) (order : list Z) (i : nat) (n : nat) : res (list allele) :=
  match n with
  | O => Ok []
  | S n' =>
    match index_of (Z.of_nat i) order with
    | None => Err EValue                     (* order.index(i) *)
    | Some j => match nth_error g j with
                | None => Err EIndex
                | Some a => bind (hp_pick g order (S i) n') (fun r => Ok (a :: r))
                end
    end
  end.

(* guards of _extract_HP_phase: originally `hp is None or hp == (".",)`; now: empty, or any None or "." *)
Definition orig_guard (l : list hpitem) : bool :=
  match l with [HPdot] => true | _ => false end.
Definition fix_guard (l : list hpitem) : bool :=
  match l with
  | [] => true                                (* `not hp`: the empty tuple pysam returns for a cut-off field *)
  | _ => existsb (fun x => match x with HPdot | HPnone => true | _ => false end) l
  end.

Definition decode_HP (guard : list hpitem -> bool) (c : call) : res (option dphase) :=
  match hp c with
  | None => Ok None
  | Some l =>
    if guard l then Ok None else
    bind (parse_hp l) (fun fs =>
      match fs with
      | [] => Err EIndex
      | (b0, _) :: _ =>
        if negb (forallb (fun f => fst f =? b0) fs) then Err EAssert else
        match gt c with
        | None => Err EKey
        | Some g =>
          let order := map (fun f => snd f - 1) fs in
          bind (hp_pick g order O (length order)) (fun ph => Ok (Some (mkPhase (Some b0) ph (pq c))))
        end
      end)
  end.

Definition decode_PS (pskey : bool) (c : call) : res (option dphase) :=
  if negb (phased c) then Ok None else
  match gt c with
  | None => Err EKey
  | Some [] => Err EIndex
  | Some (a :: t) =>
    if forallb (allele_eqb a) t then Ok None
    else Ok (Some (mkPhase (if pskey then ps c else Some 0) (a :: t) (pq c)))
  end.

Inductive pkind := KHP | KPS.
Definition pkind_eqb (a b : pkind) := match a, b with KHP, KHP | KPS, KPS => true | _, _ => false end.

(* the body of `for call in record.samples.values()` with the phase_detected state *)
Definition decode_call (guard : list hpitem -> bool) (pskey : bool) (det : option pkind) (c : call)
  : res (option pkind * option dphase) :=
  bind (decode_HP guard c) (fun p1 =>
    let st1 := match p1, det with
               | Some _, None => Ok (Some KHP)
               | Some _, Some k => if pkind_eqb k KHP then Ok det else Err EMixed
               | None, _ => Ok det end in
    bind st1 (fun det1 =>
    bind (decode_PS pskey c) (fun p2 =>
      match p2 with
      | Some _ => match det1 with
                  | None => Ok (Some KPS, p2)
                  | Some k => if pkind_eqb k KPS then Ok (det1, p2) else Err EMixed
                  end
      | None => Ok (det1, p1)
      end))).

Fixpoint decode_calls (guard : list hpitem -> bool) (pskey : bool) (det : option pkind) (cs : list call)
  : res (option pkind * list (option dphase)) :=
  match cs with
  | [] => Ok (det, [])
  | c :: t => bind (decode_call guard pskey det c) (fun r =>
              bind (decode_calls guard pskey (fst r) t) (fun r' => Ok (fst r', snd r :: snd r')))
  end.

(* a row of the VariantTable: position, genotypes and phases of all samples *)
Record row := mkRow { row_pos : Z; row_gts : list (list nat); row_phases : list (option dphase) }.

(* _process_single_chromosome(phases=True) over the records of one chromosome run
   (ploidy consistency checks are not modelled: diploid inputs) *)
Fixpoint read_rows (guard : list hpitem -> bool) (osnv mv : bool) (prev : option Z) (det : option pkind)
  (l : list vrec) : res (list row) :=
  match l with
  | [] => Ok []
  | r :: t =>
    let skipit :=
      match alt_lens r with
      | [] => true
      | _ => (negb (unph (alt_lens r)) && negb mv)
             || (osnv && negb ((ref_len r =? 1) && forallb (fun a => a =? 1) (alt_lens r)))
      end in
    if skipit then read_rows guard osnv mv prev det t
    else if match prev with Some q => q >? pos r | None => false end then Err EUnsorted
    else if match prev with Some q => q =? pos r | None => false end then read_rows guard osnv mv prev det t
    else
      bind (decode_calls guard (ps_key r) det (calls r)) (fun d =>
      bind (read_rows guard osnv mv (Some (pos r)) (fst d) t) (fun rows =>
        Ok (mkRow (pos r) (map (fun c => genotype_code (gt c)) (calls r)) (snd d) :: rows)))
  end.

(* the whole file: one table per chromosome run (fuel = number of records) *)
Fixpoint read_file_aux (fuel : nat) (guard : list hpitem -> bool) (osnv mv : bool) (l : list vrec)
  : res (list (token * list row)) :=
  match fuel, l with
  | _, [] => Ok []
  | O, _ => Ok []
  | S f, r :: t =>
    let '(run, tl) := take_run (chrom r) t in
    bind (read_rows guard osnv mv None None (r :: run)) (fun rows =>
    bind (read_file_aux f guard osnv mv tl) (fun more => Ok ((chrom r, rows) :: more)))
  end.
Definition read_file guard osnv mv (l : list vrec) := read_file_aux (length l) guard osnv mv l.

(* phases_of(sample) *)
Definition phases_of (rows : list row) (i : nat) : list (option dphase) :=
  map (fun rw => nth i (row_phases rw) None) rows.

Definition dphase_eqb (a b : dphase) : bool :=
  opt_eqb Z.eqb (block a) (block b) && list_eqb allele_eqb (alleles a) (alleles b)
  && opt_eqb Z.eqb (quality a) (quality b).

(* ----------------------------------------------------------- phased_blocks_as_reads (diploid) *)
Definition pread := list (Z * nat * option token).     (* (position, allele, quality or default) *)

(* rows of one sample that contribute: ploidy 2, in the variant set, heterozygous, phased with a
   called first allele *)
Definition contributes (inset : Z -> bool) (i : nat) (rw : row) : option (option Z * Z * list nat * option token) :=
  let g := nth i (row_gts rw) [] in
  if negb (length g =? 2)%nat then None
  else if negb (inset (row_pos rw)) then None
  else if is_homozygous g then None
  else match nth i (row_phases rw) None with
       | None => None
       | Some p => match alleles p with
                   | None :: _ => None
                   | al => match all_called al with
                           | Some ns => Some (block p, row_pos rw, ns, quality p)
                           | None => None       (* would raise in add_variant; excluded: phase comes from a het GT *)
                           end
                   end
       end.

Definition oz_eqb := opt_eqb Z.eqb.
Fixpoint block_ids (l : list (option Z * Z * list nat * option token)) (seen : list (option Z)) : list (option Z) :=
  match l with
  | [] => rev seen
  | (b, _, _, _) :: t => if existsb (oz_eqb b) seen then block_ids t seen else block_ids t (b :: seen)
  end.

(* read number k of a block: one entry per contributing row of that block *)
Definition block_read (l : list (option Z * Z * list nat * option token)) (b : option Z) (k : nat) : pread :=
  flat_map (fun e => let '(b', p, ns, q) := e in
                     if oz_eqb b' b then match nth_error ns k with Some a => [(p, a, q)] | None => [] end
                     else []) l.

(* all yielded reads: per block (in order of first appearance) reads 0..ploidy-1 of the first row,
   those with more than one variant *)
Definition blocks_as_reads (inset : Z -> bool) (i : nat) (rows : list row) : list (option Z * nat * pread) :=
  let cs := flat_map (fun rw => match contributes inset i rw with Some e => [e] | None => [] end) rows in
  flat_map (fun b =>
    let width := match find (fun e => oz_eqb (fst (fst (fst e))) b) cs with
                 | Some (_, _, ns, _) => length ns | None => O end in
    flat_map (fun k => let rd := block_read cs b k in
                       if (1 <? length rd)%nat then [(b, k, rd)] else []) (seq O width))
    (block_ids cs []).

(* ------------------------------------------------------------------------ unphase record step *)
(* run_unphase on a record whose calls all have a (diploid or longer) GT: HP/PS/PQ removed from the
   record, GT sorted when the first two alleles are called, unphased *)
Definition unphase_step_call (c : call) : call :=
  let c1 := mkCall (gt c) (phased c) None None None (other c) in
  match gt c with
  | Some l => match all_called l with
              | Some ns => set_gt c1 (Some (map Some (sort_asc ns))) (unph l)
              | None => set_phased c1 (unph l)
              end
  | None => c1
  end.
Definition unphase_step (end_decl : bool) (r : vrec) : vrec :=
  sync_end end_decl (set_calls r (map unphase_step_call (calls r)) false).

(* ---------------------------------------------------------------- specification side (C09) *)
Definition target_of (ts : list target) (i : nat) : option target :=
  find (fun t => Nat.eqb (t_sample t) i) ts.

(* what the run states about sample column i at position p, read off the writer's *inputs*:
   (phase set id, haplotype alleles) iff the position has a component, an allowed super-read column
   and that column is heterozygous *)
Definition written (cf : cfg) (ts : list target) (i : nat) (p : Z) : option (Z * list nat) :=
  match target_of ts i with
  | None => None
  | Some t =>
    match phase_at cf t p, dict_get p (t_comp t) with
    | Some ph, Some c => if is_homozygous (sort_asc ph) then None else Some (c + 1, ph)
    | _, _ => None
    end
  end.

Definition phase_matches (d : option dphase) (e : option (Z * list nat)) : bool :=
  match d, e with
  | None, None => true
  | Some x, Some (b, ph) => opt_eqb Z.eqb (block x) (Some b) && list_eqb allele_eqb (alleles x) (map Some ph)
  | _, _ => false
  end.

Definition plan_targets (plan : list (token * list target)) (c : token) : list target :=
  match find (fun e => fst e =? c) plan with Some e => snd e | None => [] end.

(* [decodes]: in the tables read back from the output, every target sample's phase at every row is
   exactly what was written (and nothing where nothing was written) *)
Definition table_decodes (cf : cfg) (ts : list target) (rows : list row) : bool :=
  forallb (fun rw => forallb (fun t =>
     phase_matches (nth (t_sample t) (row_phases rw) None) (written cf ts (t_sample t) (row_pos rw))) ts) rows.
Definition file_decodes (cf : cfg) (plan : list (token * list target)) (tabs : list (token * list row)) : bool :=
  forallb (fun tb => table_decodes cf (plan_targets plan (fst tb)) (snd tb)) tabs.

(* phase qualities of target samples stem from the run too (whatshap writes none) *)
Definition file_quality_fresh (plan : list (token * list target)) (tabs : list (token * list row)) : bool :=
  forallb (fun tb => forallb (fun rw => forallb (fun t =>
     match nth (t_sample t) (row_phases rw) None with Some d => match quality d with None => true | Some _ => false end
                                                    | None => true end) (plan_targets plan (fst tb))) (snd tb)) tabs.

(* [equivalent]: two read-backs agree on block ids and haplotype alleles of the target samples *)
Definition dphase_sim (a b : option dphase) : bool :=
  match a, b with
  | None, None => true
  | Some x, Some y => opt_eqb Z.eqb (block x) (block y) && list_eqb allele_eqb (alleles x) (alleles y)
  | _, _ => false
  end.
Definition tables_equiv (plan : list (token * list target)) (a b : list (token * list row)) : bool :=
  all2 (fun ta tb => (fst ta =? fst tb) &&
     all2 (fun ra rb => (row_pos ra =? row_pos rb) &&
        forallb (fun t => dphase_sim (nth (t_sample t) (row_phases ra) None) (nth (t_sample t) (row_phases rb) None))
                (plan_targets plan (fst ta))) (snd ta) (snd tb)) a b.

(* [no stale phase]: on the output *records* (also those a reader skips) each decodable phase statement
   of a target call -- the HP statement and the GT/PS statement separately -- is what this run wrote *)
Definition stmt_ok (d : res (option dphase)) (e : option (Z * list nat)) : bool :=
  match d with Ok None => true | Ok (Some x) => phase_matches (Some x) e | Err _ => false end.
Definition call_no_stale (guard : list hpitem -> bool) (pskey : bool) (c : call) (e : option (Z * list nat)) : bool :=
  stmt_ok (decode_HP guard c) e && stmt_ok (decode_PS pskey c) e.
Fixpoint run_no_stale (guard : list hpitem -> bool) (cf : cfg) (ts : list target) (prev : option Z)
  (inp out : list vrec) : bool :=
  match inp, out with
  | r :: inp', o :: out' =>
    let sk := skip cf ts prev r in
    forallb (fun t => match nth_error (calls o) (t_sample t) with
                      | Some c => call_no_stale guard (ps_key o) c
                                    (match sk with Some _ => None | None => written cf ts (t_sample t) (pos r) end)
                      | None => true end) ts
    && run_no_stale guard cf ts (match sk with Some _ => prev | None => Some (pos r) end) inp' out'
  | _, _ => true
  end.
Fixpoint file_no_stale (guard : list hpitem -> bool) (cf : cfg) (plan : list (token * list target))
  (inp out : list vrec) : bool :=
  match plan with
  | [] => true
  | (c, ts) :: more =>
    let '(run, tl) := take_run c inp in
    run_no_stale guard cf ts None run (firstn (length run) out)
    && file_no_stale guard cf more tl (skipn (length run) out)
  end.

(* [reproduces]: every phase set of `orig` (sample i) with at least two rows that are heterozygous
   in `base` lies in one phase set of `re` with the same or the globally flipped alleles *)
Definition het_in (base : list row) (i : nat) (p : Z) : bool :=
  existsb (fun rw => (row_pos rw =? p) &&
                     let g := nth i (row_gts rw) [] in (length g =? 2)%nat && negb (is_homozygous g)) base.
Definition phase_at_row (rows : list row) (i : nat) (p : Z) : option dphase :=
  match find (fun rw => row_pos rw =? p) rows with Some rw => nth i (row_phases rw) None | None => None end.
Definition flip2 (l : list allele) : list allele := rev l.
Definition block_members (base orig : list row) (i : nat) (b : option Z) : list (Z * list allele) :=
  flat_map (fun rw => match nth i (row_phases rw) None with
                      | Some d => if oz_eqb (block d) b && het_in base i (row_pos rw)
                                     && (length (nth i (row_gts rw) []) =? 2)%nat
                                     && negb (is_homozygous (nth i (row_gts rw) []))
                                  then [(row_pos rw, alleles d)] else []
                      | None => [] end) orig.
Definition block_reproduced (re : list row) (i : nat) (ms : list (Z * list allele)) : bool :=
  match ms with
  | [] | [_] => true
  | (p0, _) :: _ =>
    match phase_at_row re i p0 with
    | None => false
    | Some d0 =>
      forallb (fun m => match phase_at_row re i (fst m) with
                        | Some d => oz_eqb (block d) (block d0) | None => false end) ms
      && (forallb (fun m => match phase_at_row re i (fst m) with
                            | Some d => list_eqb allele_eqb (alleles d) (snd m) | None => false end) ms
          || forallb (fun m => match phase_at_row re i (fst m) with
                               | Some d => list_eqb allele_eqb (alleles d) (flip2 (snd m)) | None => false end) ms)
    end
  end.
Definition sample_blocks (orig : list row) (i : nat) : list (option Z) :=
  fold_right (fun rw acc => match nth i (row_phases rw) None with
                            | Some d => if existsb (oz_eqb (block d)) acc then acc else block d :: acc
                            | None => acc end) [] orig.
Definition reproduces (base orig re : list row) (i : nat) : bool :=
  forallb (fun b => block_reproduced re i (block_members base orig i b)) (sample_blocks orig i).
Definition tables_reproduce (samples : list nat) (base orig re : list (token * list row)) : bool :=
  forallb (fun tb =>
    let find_tab := fun (l : list (token * list row)) =>
       match find (fun e => fst e =? fst tb) l with Some e => snd e | None => [] end in
    forallb (fun i => reproduces (find_tab base) (snd tb) (find_tab re) i) samples) orig.

(* comparison of a read-back with the reader model (L2) *)
Definition row_eqb (a b : row) : bool :=
  (row_pos a =? row_pos b) && list_eqb list_nat_eqb (row_gts a) (row_gts b)
  && list_eqb (opt_eqb dphase_eqb) (row_phases a) (row_phases b).
Definition err_eqb (a b : err) : bool :=
  match a, b with
  | EKey, EKey | EAttr, EAttr | EValue, EValue | EAssert, EAssert | EIndex, EIndex | EMixed, EMixed
  | EUnsorted, EUnsorted => true
  | _, _ => false
  end.
Definition tables_eqb (a b : res (list (token * list row))) : bool :=
  match a, b with
  | Ok x, Ok y => list_eqb (pair_eqb Z.eqb (list_eqb row_eqb)) x y
  | Err e, Err f => err_eqb e f
  | _, _ => false
  end.
