(* Abstract specification side of C18 (priority queue): a finite map item -> score, followed along
   the *observed* outputs of a run (the abstract state follows the implementation's choice among
   equal maxima). Executable, so that Coq can evaluate it on the implementation's own outputs. *)
From Coq Require Import ZArith List Bool Arith.
From WH.Model Require Import Heap.
Import ListNotations.
Open Scope Z_scope.

Definition amap := list (Z * score).            (* association list, at most one binding per item *)

Fixpoint aget (m : amap) (it : Z) : option score :=
  match m with
  | [] => None
  | (k, s) :: m' => if k =? it then Some s else aget m' it
  end.
Fixpoint aremove (m : amap) (it : Z) : amap :=
  match m with
  | [] => []
  | (k, s) :: m' => if k =? it then aremove m' it else (k, s) :: aremove m' it
  end.
Definition aset (m : amap) (it : Z) (s : score) : amap := (it, s) :: aremove m it.

Fixpoint score_eqb (a b : score) : bool :=
  match a, b with
  | [], [] => true
  | x :: a', y :: b' => (x =? y) && score_eqb a' b'
  | _, _ => false
  end.
Definition oscore_eqb (a b : option score) : bool :=
  match a, b with
  | None, None => true
  | Some x, Some y => score_eqb x y
  | _, _ => false
  end.

(* the API's preconditions: push an item that is not queued, change the score of one that is *)
Definition valid_op (m : amap) (o : op) : bool :=
  match o with
  | OPush _ it => match aget m it with None => true | Some _ => false end
  | OChange it _ => match aget m it with None => false | Some _ => true end
  | _ => true
  end.

(* what the property demands of one observed output in abstract state m *)
Definition ok_out (m : amap) (o : op) (r : out) : bool :=
  match o, r with
  | OPush _ _, RUnit => true
  | OChange _ _, RUnit => true
  | OPop, RPop None => match m with [] => true | _ => false end
  | OPop, RPop (Some (s, it)) =>
      oscore_eqb (aget m it) (Some s) &&                       (* the score last assigned *)
      forallb (fun kv => negb (lower s (snd kv))) m            (* nothing queued is higher *)
  | OGet it, RGet x => oscore_eqb x (aget m it)
  | OLen, RLen n => Nat.eqb n (length m)
  | _, _ => false
  end.

Definition astep (m : amap) (o : op) (r : out) : amap :=
  match o, r with
  | OPush s it, _ => aset m it s
  | OChange it s, _ => aset m it s
  | OPop, RPop (Some (_, it)) => aremove m it
  | _, _ => m
  end.

(* A history is constrained up to its first precondition violation (if any). *)
Fixpoint check_trace (m : amap) (ops : list op) (outs : list out) : bool :=
  match ops, outs with
  | [], [] => true
  | o :: ops', r :: outs' =>
      if valid_op m o then ok_out m o r && check_trace (astep m o r) ops' outs' else true
  | _, _ => false
  end.

Fixpoint all_valid (m : amap) (ops : list op) (outs : list out) : bool :=
  match ops, outs with
  | [], [] => true
  | o :: ops', r :: outs' => valid_op m o && all_valid (astep m o r) ops' outs'
  | _, _ => false
  end.

(* exact comparison of outputs (model conformance, L2) *)
Definition entry_eqb (a b : entry) : bool := score_eqb (fst a) (fst b) && (snd a =? snd b).
Definition out_eqb (a b : out) : bool :=
  match a, b with
  | RUnit, RUnit => true
  | RPop None, RPop None => true
  | RPop (Some x), RPop (Some y) => entry_eqb x y
  | RGet x, RGet y => oscore_eqb x y
  | RLen x, RLen y => Nat.eqb x y
  | _, _ => false
  end.
Fixpoint outs_eqb (a b : list out) : bool :=
  match a, b with
  | [], [] => true
  | x :: a', y :: b' => out_eqb x y && outs_eqb a' b'
  | _, _ => false
  end.
