(* Executable model of src/binomial.cpp:binomial_coefficient, src/genotype.cpp (class Genotype,
   convert_index_to_alleles) and the Genotype wrapper of whatshap/core.pyx (as_vector, get_index,
   ==, !=, <, __getstate__/__setstate__), plus the specification side (Pascal-triangle binomial,
   combinatorial-number-system index).  Model only: no lemmas here.

   Machine arithmetic is a parameter: `ws` is the reduction applied to `int` results, `wu` the one
   applied to `uint32_t` results.  Two instances are used:
     * ws = wu = (fun z => z)              : unbounded ("ideal") arithmetic, the theorems for ALL
                                             ploidies / allele counts are about this instance;
     * ws = wrap_s32, wu = wrap_u32        : what the compiled code does (two's complement wrap on
                                             overflow, truncating division); proved equal to the
                                             ideal instance within the limits ploidy <= 14,
                                             alleles <= 16, and compared with the implementation.
   Several nested uint32 operations are reduced once at the outermost position (the reductions are
   ring homomorphisms, so this is the same value).  The 64-bit word `gt` is a Z; its 4-bit fields
   are accessed arithmetically ((gt / 16^pos) mod 16); with 16 fields it never exceeds 2^64. *)
From Coq Require Import ZArith List Bool.
Import ListNotations.
Open Scope Z_scope.

Definition wrap_u32 (z : Z) : Z := z mod 2 ^ 32.
Definition wrap_s32 (z : Z) : Z := (z + 2 ^ 31) mod 2 ^ 32 - 2 ^ 31.
Definition ideal (z : Z) : Z := z.

(* ================================================================== specification side *)
(* Pascal's rule: the number of k-subsets of an n-set *)
Fixpoint choose (n k : nat) : Z :=
  match n, k with
  | _, O => 1
  | O, S _ => 0
  | S n', S k' => choose n' k' + choose n' k
  end.
Definition chooseZ (n k : Z) : Z :=
  if (n <? 0) || (k <? 0) then 0 else choose (Z.to_nat n) (Z.to_nat k).

(* fast evaluation of the same numbers: rows of Pascal's triangle (proved equal to choose) *)
Fixpoint pascal_next (r : list Z) (prev : Z) : list Z :=
  match r with
  | [] => [prev]
  | x :: r' => (prev + x) :: pascal_next r' x
  end.
Fixpoint pascal_row (n : nat) : list Z :=
  match n with O => [1] | S n' => pascal_next (pascal_row n') 0 end.
Definition choose_fast (n k : Z) : Z :=
  if (n <? 0) || (k <? 0) then 0 else nth (Z.to_nat k) (pascal_row (Z.to_nat n)) 0.

(* canonical VCF index of a genotype given by its alleles in DEscending order (the order of
   as_vector): the k-th smallest allele a (k = 1..ploidy) contributes C(k + a - 1, k). *)
Fixpoint idx_desc (d : list Z) : Z :=
  match d with
  | [] => 0
  | a :: r => chooseZ (Z.of_nat (length d) + a - 1) (Z.of_nat (length d)) + idx_desc r
  end.
Fixpoint idx_desc_fast (d : list Z) : Z :=
  match d with
  | [] => 0
  | a :: r => choose_fast (Z.of_nat (length d) + a - 1) (Z.of_nat (length d)) + idx_desc_fast r
  end.
(* number of genotypes of ploidy p over n alleles *)
Definition n_genotypes (p n : Z) : Z := chooseZ (n + p - 1) p.

Fixpoint desc_sorted (d : list Z) : bool :=
  match d with
  | [] => true
  | a :: r => match r with [] => true | b :: _ => (b <=? a) && desc_sorted r end
  end.
Fixpoint list_eqb (a b : list Z) : bool :=
  match a, b with
  | [], [] => true
  | x :: a', y :: b' => (x =? y) && list_eqb a' b'
  | _, _ => false
  end.
(* d is a genotype of ploidy p over alleles 0..n-1, written in descending order *)
Definition valid_desc (p n : Z) (d : list Z) : bool :=
  (Z.of_nat (length d) =? p) && desc_sorted d && forallb (fun a => (0 <=? a) && (a <? n)) d.

(* insertion sort (std::sort on the allele vector) *)
Fixpoint insert (x : Z) (l : list Z) : list Z :=
  match l with
  | [] => [x]
  | y :: r => if x <=? y then x :: l else y :: insert x r
  end.
Fixpoint isort (l : list Z) : list Z :=
  match l with [] => [] | x :: r => insert x (isort r) end.

(* ================================================================== the code *)
Section Arith.
Variable ws : Z -> Z.   (* int *)
Variable wu : Z -> Z.   (* uint32_t *)

(* binomial.cpp:  for (int i = 0; i < k; i++) { result *= (n-i); result /= (i+1); }
   C++ integer division truncates towards zero (Z.quot). *)
Fixpoint binom_loop (cnt : nat) (n i result : Z) : Z :=
  match cnt with
  | O => result
  | S c => binom_loop c n (ws (i + 1)) (Z.quot (ws (result * ws (n - i))) (ws (i + 1)))
  end.
Definition binom (n k : Z) : Z :=
  if (k <? 0) || (n <? 0) || (n <? k) then 0
  else
    let k' := if k >? ws (n - k) then ws (n - k) else k in
    binom_loop (Z.to_nat k') n 0 1.

(* instrumentation of the same loop: is every division exact? *)
Fixpoint binom_loop_exact (cnt : nat) (n i result : Z) : bool :=
  match cnt with
  | O => true
  | S c => (Z.rem (ws (result * ws (n - i))) (ws (i + 1)) =? 0) &&
           binom_loop_exact c n (ws (i + 1)) (Z.quot (ws (result * ws (n - i))) (ws (i + 1)))
  end.
Definition binom_exact (n k : Z) : bool :=
  if (k <? 0) || (n <? 0) || (n <? k) then true
  else
    let k' := if k >? ws (n - k) then ws (n - k) else k in
    binom_loop_exact (Z.to_nat k') n 0 1.

(* ---- class Genotype: uint64_t gt, 16 fields of 4 bits; field 15 = ploidy, field i (< ploidy) =
   the (i+1)-th largest allele. *)
Definition get_position (gt pos : Z) : Z := (gt / 16 ^ pos) mod 16.    (* (gt >> (pos*4)) & 15 *)
(* gt &= ~(15 << 4 pos); gt |= allele << 4 pos.  (The callers guarantee pos <= 15, allele < 16.) *)
Definition set_position (gt pos allele : Z) : Z :=
  gt - get_position gt pos * 16 ^ pos + allele * 16 ^ pos.
Definition get_ploidy (gt : Z) : Z := get_position gt 15.
Definition set_ploidy (gt ploidy : Z) : Z := set_position gt 15 ploidy.

Inductive gerr := ErrPloidy | ErrAlleles | ErrSorted | ErrDiverge.

(* for (i = 0; i < ploidy; i++) { if (alleles[i] >= MAX_ALLELES) throw; set_position(ploidy-i-1, alleles[i]); } *)
Fixpoint fill (sorted : list Z) (ploidy i gt : Z) : option Z :=
  match sorted with
  | [] => Some gt
  | a :: rest => if a >=? 16 then None
                 else fill rest ploidy (i + 1) (set_position gt (ploidy - i - 1) a)
  end.
(* for (i = 0; i < ploidy-1; i++) if (get_position(i) < get_position(i+1)) throw *)
Fixpoint check_sorted (cnt : nat) (gt i : Z) : bool :=
  match cnt with
  | O => true
  | S c => if get_position gt i <? get_position gt (i + 1) then false else check_sorted c gt (i + 1)
  end.

(* Genotype::Genotype(vector<uint32_t> alleles); inl = std::runtime_error *)
Definition mk_genotype (alleles : list Z) : gerr + Z :=
  let ploidy := Z.of_nat (length alleles) in
  if ploidy >=? 15 then inl ErrPloidy
  else match fill (isort alleles) ploidy 0 0 with
       | None => inl ErrAlleles
       | Some gt =>
           let gt := set_ploidy gt ploidy in
           if (ploidy >? 0) && negb (check_sorted (Z.to_nat (ploidy - 1)) gt 0) then inl ErrSorted
           else inr gt
       end.

(* as_vector: positions 0 .. ploidy-1, i.e. alleles in descending order *)
Fixpoint positions (cnt : nat) (gt i : Z) : list Z :=
  match cnt with
  | O => []
  | S c => get_position gt i :: positions c gt (i + 1)
  end.
Definition as_vector (gt : Z) : list Z := positions (Z.to_nat (get_ploidy gt)) gt 0.
Definition is_none (gt : Z) : bool := get_ploidy gt =? 0.

(* get_index:  for (i = 0; i < ploidy; i++) { allele = get_position(ploidy-i-1);
                 index += binomial_coefficient(k + allele - 1, allele - 1); k += 1; }
   index, k, allele are uint32_t; the arguments are converted to int. *)
Fixpoint index_loop (cnt : nat) (gt ploidy i index k : Z) : Z :=
  match cnt with
  | O => index
  | S c =>
      let allele := get_position gt (wu (ploidy - i - 1)) in
      let b := binom (ws (wu (k + allele - 1))) (ws (wu (allele - 1))) in
      index_loop c gt ploidy (wu (i + 1)) (wu (index + b)) (wu (k + 1))
  end.
Definition get_index (gt : Z) : Z :=
  let ploidy := get_ploidy gt in index_loop (Z.to_nat ploidy) gt ploidy 0 0 1.

(* convert_index_to_alleles, inner for-loop.  Returns the chosen allele and the new leftover index.
   None = fuel exhausted, or the for-loop ran out without `break` (then the enclosing while-loop
   would repeat it forever). *)
Fixpoint scan (fuel : nat) (pth left max_a a : Z) : option (Z * Z) :=
  match fuel with
  | O => None
  | S f =>
      if a <=? max_a then
        let i := wu (binom (ws (wu (pth + a - 1))) (ws pth)) in
        if (i >=? left) || (a =? max_a) then
          let a' := if i >? left then wu (a - 1) else a in
          Some (a', wu (left - wu (binom (ws (wu (pth + a' - 1))) (ws pth))))
        else scan f pth left max_a (wu (a + 1))
      else None
  end.
(* the while (pth > 0) loop; cnt = pth as nat.  genotype[pth-1] = allele: the vector is filled from
   its end, so consing yields genotype[0..ploidy-1] (ascending alleles). *)
Fixpoint unindex_loop (cnt fuel : nat) (left max_a : Z) (acc : list Z) : option (list Z) :=
  match cnt with
  | O => Some acc
  | S c =>
      match scan fuel (Z.of_nat cnt) left max_a 0 with
      | None => None
      | Some (a, left') => unindex_loop c fuel left' a (a :: acc)
      end
  end.
(* index arrives as uint64_t and is narrowed to uint32_t; ploidy is uint32_t *)
Definition convert_index_to_alleles (fuel : nat) (index ploidy : Z) : option (list Z) :=
  unindex_loop (Z.to_nat ploidy) fuel (wu index) (wu index) [].

(* operators *)
Definition g_eq (g1 g2 : Z) : bool := g1 =? g2.                 (* !(g1.gt ^ g2.gt) *)
Definition g_ne (g1 g2 : Z) : bool := negb (g1 =? g2).
Definition g_lt (g1 g2 : Z) : bool := get_index g1 <? get_index g2.

(* core.pyx: __getstate__ = (get_index, get_ploidy); __setstate__ = Genotype(convert_index_to_alleles(..)) *)
Definition getstate (gt : Z) : Z * Z := (get_index gt, get_ploidy gt).
Definition setstate (fuel : nat) (st : Z * Z) : gerr + Z :=
  match convert_index_to_alleles fuel (fst st) (snd st) with
  | None => inl ErrDiverge
  | Some al => mk_genotype al
  end.

Definition is_homozygous (gt : Z) : bool :=
  if is_none gt then false
  else forallb (fun a => a =? get_position gt 0) (as_vector gt).
Definition is_diploid_and_biallelic (gt : Z) : bool :=
  (get_ploidy gt =? 2) && forallb (fun a => negb (a >? 1)) (as_vector gt).

End Arith.

(* ================================================================== instances *)
(* what the compiled code computes *)
Definition binom32 := binom wrap_s32.
Definition mk32 := mk_genotype.
Definition get_index32 := get_index wrap_s32 wrap_u32.
Definition unindex32 := convert_index_to_alleles wrap_s32 wrap_u32.
Definition setstate32 := setstate wrap_s32 wrap_u32.
Definition getstate32 := getstate wrap_s32 wrap_u32.
Definition g_lt32 := g_lt wrap_s32 wrap_u32.
(* unbounded arithmetic *)
Definition binomI := binom ideal.
Definition get_indexI := get_index ideal ideal.
Definition unindexI := convert_index_to_alleles ideal ideal.
Definition setstateI := setstate ideal ideal.
Definition getstateI := getstate ideal ideal.
Definition g_ltI := g_lt ideal ideal.

Definition res_eqb (a b : gerr + Z) : bool :=
  match a, b with
  | inr x, inr y => x =? y
  | inl _, inl _ => true          (* every model error is a std::runtime_error: same class *)
  | _, _ => false
  end.
Definition olist_eqb (a b : option (list Z)) : bool :=
  match a, b with
  | Some x, Some y => list_eqb x y
  | None, None => true
  | _, _ => false
  end.
