(* C15 — model of the genotype-forcing / reordering / block-cut / component / writer steps of
   `whatshap polyphase`, plus the executable specification side.

   Conventions.
   * A haplotype matrix is stored COLUMN-wise: `cols : list (list Z)`, one column per variant position of the
     allele matrix, each column listing the alleles of the k haplotypes (python: haplotypes[h][pos]).
   * A genotype is the allele VECTOR (every allele repeated with its multiplicity); python keeps the dict
     allele -> multiplicity (zero entries, which force_genotypes adds, vanish in the vector).
   * -1 is the undetermined allele.
   * The float / ILP / clustering driven parts are ENVELOPES: the model is the set of results the code can choose
     from (as a list of candidates or as a function of a supplied decision), the arg-max itself is not modelled.
   No lemmas in this file. *)
From Coq Require Import ZArith List Bool Arith.
Import ListNotations.
Open Scope Z_scope.

(* ------------------------------------------------------------------------------------------ basics *)
Definition undet : Z := -1.
Definition count (a : Z) (l : list Z) : nat := count_occ Z.eq_dec l a.
Definition memZ (a : Z) (l : list Z) : bool := existsb (Z.eqb a) l.
Definition memN (a : nat) (l : list nat) : bool := existsb (Nat.eqb a) l.

Fixpoint nodupZ (l : list Z) : list Z :=
  match l with
  | [] => []
  | x :: t => if memZ x t then nodupZ t else x :: nodupZ t
  end.

Fixpoint insertZ (x : Z) (l : list Z) : list Z :=
  match l with
  | [] => [x]
  | y :: t => if x <=? y then x :: l else y :: insertZ x t
  end.
Definition sortZ (l : list Z) : list Z := fold_right insertZ [] l.

Fixpoint insertN (x : nat) (l : list nat) : list nat :=
  match l with
  | [] => [x]
  | y :: t => if (x <=? y)%nat then x :: l else y :: insertN x t
  end.
Definition sortN (l : list nat) : list nat := fold_right insertN [] l.

Fixpoint set_nth {A} (n : nat) (x : A) (l : list A) : list A :=
  match l, n with
  | [], _ => []
  | _ :: t, O => x :: t
  | y :: t, S n' => y :: set_nth n' x t
  end.

Fixpoint list_eqb {A} (eqb : A -> A -> bool) (a b : list A) : bool :=
  match a, b with
  | [], [] => true
  | x :: a', y :: b' => eqb x y && list_eqb eqb a' b'
  | _, _ => false
  end.
Definition col_eqb := list_eqb Z.eqb.
Definition cols_eqb := list_eqb col_eqb.
Definition ocol_eqb (a b : option (list Z)) : bool :=
  match a, b with Some x, Some y => col_eqb x y | None, None => true | _, _ => false end.
Definition ocols_eqb (a b : option (list (list Z))) : bool :=
  match a, b with Some x, Some y => cols_eqb x y | None, None => true | _, _ => false end.

Fixpoint mapM {A B} (f : A -> option B) (l : list A) : option (list B) :=
  match l with
  | [] => Some []
  | x :: t => match f x, mapM f t with Some y, Some ys => Some (y :: ys) | _, _ => None end
  end.

(* same multiset of alleles *)
Definition same_mset (a b : list Z) : bool :=
  forallb (fun x => Nat.eqb (count x a) (count x b)) (a ++ b).

(* specification side: a column obeys a genotype if it has an undetermined allele (then it is not phased)
   or lists exactly the genotype's alleles with their multiplicities *)
Definition conforms (g col : list Z) : bool := memZ undet col || same_mset col g.
Fixpoint all2 {A B} (f : A -> B -> bool) (a : list A) (b : list B) : bool :=
  match a, b with
  | [], [] => true
  | x :: a', y :: b' => f x y && all2 f a' b'
  | _, _ => false
  end.
Definition all_conform (gs cols : list (list Z)) : bool := all2 conforms gs cols.

(* ------------------------------------------------------------------------ threading.force_genotypes *)
(* all orders of a list (itertools.permutations; the code dedups them with set()) *)
Fixpoint insert_all (x : Z) (l : list Z) : list (list Z) :=
  match l with
  | [] => [[x]]
  | y :: t => (x :: l) :: map (cons y) (insert_all x t)
  end.
Fixpoint perms (l : list Z) : list (list Z) :=
  match l with
  | [] => [[]]
  | x :: t => flat_map (insert_all x) (perms t)
  end.

Definition abundant (g cfg : list Z) (a : Z) : bool := (count a g <? count a cfg)%nat.
Definition lacking (g cfg : list Z) (a : Z) : bool := (count a cfg <? count a g)%nat.
(* the python set `alleles` *)
Definition alleles_of (g cfg : list Z) : list Z := nodupZ (g ++ cfg).
(* slots holding an abundant allele, ascending (affected_positions after .sort()) *)
Definition affected_slots (g cfg : list Z) : list nat :=
  filter (fun p => abundant g cfg (nth p cfg 0)) (seq 0 (length cfg)).
(* alleles_to_insert after .sort(): an abundant allele as often as the genotype wants it, a lacking allele as
   often as it is missing *)
Definition to_insert (g cfg : list Z) : list Z :=
  sortZ (flat_map (fun a => if abundant g cfg a then repeat a (count a g)
                            else if lacking g cfg a then repeat a (count a g - count a cfg)%nat
                            else []) (alleles_of g cfg)).
(* newconfig[affected[i]] = perm[i] for i < len(perm); None = IndexError *)
Fixpoint write_slots (cfg : list Z) (slots : list nat) (vals : list Z) : option (list Z) :=
  match vals, slots with
  | [], _ => Some cfg
  | v :: vs, s :: ss => write_slots (set_nth s v cfg) ss vs
  | _ :: _, [] => None
  end.
Definition candidates (g cfg : list Z) : list (option (list Z)) :=
  map (write_slots cfg (affected_slots g cfg)) (perms (to_insert g cfg)).
(* positions with an undetermined allele and positions without an abundant allele are skipped *)
Definition needs_forcing (g cfg : list Z) : bool :=
  negb (memZ undet cfg) && existsb (abundant g cfg) (alleles_of g cfg).

(* What the arg-max loop keeps when NO candidate has a likelihood > -inf (binom.pmf underflows to 0 for every
   candidate).  AlwaysCandidate = the code as it is since /repo e62f700 (best_config starts as None, the first
   candidate is taken unconditionally): a candidate in every case.  KeepGiven = the code before that fix: it started
   from best_config = given_config and replaced it only on a strictly larger likelihood, so the given (non-conforming)
   configuration survived.  This is the single switch between the two. *)
Inductive fallback := KeepGiven | AlwaysCandidate.
Definition fallback_extra (fb : fallback) (cfg : list Z) : list (option (list Z)) :=
  match fb with KeepGiven => [Some cfg] | AlwaysCandidate => [] end.

(* envelope of force_genotypes at one position *)
Definition force_pos_envelope (fb : fallback) (g cfg : list Z) : list (option (list Z)) :=
  if needs_forcing g cfg then candidates g cfg ++ fallback_extra fb cfg else [Some cfg].
Definition in_force_pos (fb : fallback) (g cfg out : list Z) : bool :=
  existsb (ocol_eqb (Some out)) (force_pos_envelope fb g cfg).
(* whole matrix: gs, given columns, resulting columns *)
Fixpoint in_force_envelope (fb : fallback) (gs cols outs : list (list Z)) : bool :=
  match gs, cols, outs with
  | [], [], [] => true
  | g :: gs', c :: cols', o :: outs' => in_force_pos fb g c o && in_force_envelope fb gs' cols' outs'
  | _, _, _ => false
  end.

(* ---------------------------------------------------- reorder.get_optimal_assignments (no prephasing) *)
Fixpoint index_of (x : nat) (l : list nat) : option nat :=
  match l with
  | [] => None
  | y :: t => if Nat.eqb x y then Some O else option_map S (index_of x t)
  end.
(* one breakpoint: nxt = copy of cur; for left, right in zip(sorted(perm), perm): nxt[cur.index(left)] = right.
   None = ValueError of .index *)
Definition assign_step (cur perm : list nat) : option (list nat) :=
  fold_left (fun acc lr => match acc, index_of (fst lr) cur with
                           | Some nx, Some i => Some (set_nth i (snd lr) nx)
                           | _, _ => None
                           end) (combine (sortN perm) perm) (Some cur).
(* bests = the arg-max key of lllh[b] for every breakpoint b (envelope: any key, i.e. any order of the
   breakpoint's haplotypes) *)
Fixpoint assignments_from (cur : list nat) (bests : list (list nat)) : option (list (list nat)) :=
  match bests with
  | [] => Some [cur]
  | p :: rest => match assign_step cur p with
                 | None => None
                 | Some nx => option_map (cons cur) (assignments_from nx rest)
                 end
  end.
Definition assignments (k : nat) (bests : list (list nat)) : option (list (list nat)) :=
  assignments_from (seq 0 k) bests.

Definition is_permb (k : nat) (p : list nat) : bool :=
  Nat.eqb (length p) k && forallb (fun i => memN i p) (seq 0 k).
Definition natlist_eqb := list_eqb Nat.eqb.
(* envelope membership for an observed assignment list: consecutive assignments are linked by a step with
   SOME order of the breakpoint's haplotypes (keys = all orders of b.haplotypes, as nat lists) *)
Fixpoint insert_allN (x : nat) (l : list nat) : list (list nat) :=
  match l with
  | [] => [[x]]
  | y :: t => (x :: l) :: map (cons y) (insert_allN x t)
  end.
Fixpoint permsN (l : list nat) : list (list nat) :=
  match l with
  | [] => [[]]
  | x :: t => flat_map (insert_allN x) (permsN t)
  end.
Fixpoint assignments_in_envelope (cur : list nat) (affs : list (list nat)) (obs : list (list nat)) : bool :=
  match affs, obs with
  | [], [] => true
  | aff :: affs', nx :: obs' =>
      existsb (fun p => match assign_step cur p with Some y => natlist_eqb y nx | None => false end) (permsN aff)
      && assignments_in_envelope nx affs' obs'
  | _, _ => false
  end.

(* ------------------------------------------------------------------------- reorder.permute_blocks *)
(* haplotypes[t][p] = copy[perm[t]][p] for t < k *)
Definition permute_col (k : nat) (perm : list nat) (col : list Z) : option (list Z) :=
  if (length perm <? k)%nat then None else mapM (fun j => nth_error col j) (firstn k perm).
(* index of the LAST block i with ext[i] <= p < ext[i+1] (every covering block overwrites from the copy) *)
Fixpoint block_of_from (i : nat) (ext : list nat) (p : nat) : option nat :=
  match ext with
  | s :: ((e :: _) as rest) =>
      match block_of_from (S i) rest p with
      | Some j => Some j
      | None => if (s <=? p)%nat && (p <? e)%nat then Some i else None
      end
  | _ => None
  end.
Definition ext_bp (n : nat) (bps : list nat) : list nat := O :: bps ++ [n].
Fixpoint mapi_from {A B} (i : nat) (f : nat -> A -> B) (l : list A) : list B :=
  match l with [] => [] | x :: t => f i x :: mapi_from (S i) f t end.
(* bps = breakpoint positions; perms = one assignment per block.  None = a python IndexError
   (a breakpoint beyond the matrix, a missing or too short assignment, an index >= k). *)
Definition permute_blocks_cols (k : nat) (cols : list (list Z)) (bps : list nat) (perms : list (list nat))
  : option (list (list Z)) :=
  let n := length cols in
  if negb (forallb (fun b => (b <=? n)%nat) bps) then None else
  mapM (fun x => x)
       (mapi_from 0 (fun p col => match block_of_from 0 (ext_bp n bps) p with
                                  | None => Some col
                                  | Some i => match nth_error perms i with
                                              | None => None
                                              | Some pm => permute_col k pm col
                                              end
                                  end) cols).

(* --------------------------------------------------------- reorder.integrate_sub_results (haplotypes) *)
(* a solved sub-instance: the threads (haplotype indices) it covers, the matrix positions of its variants, and
   its result columns (one per variant, one entry per covered thread) *)
Definition subres : Type := (list nat * list nat * list (list Z))%type.
Definition sr_threads (s : subres) := fst (fst s).
Definition sr_snps (s : subres) := snd (fst s).
Definition sr_cols (s : subres) := snd s.

(* haplotypes[hap][pos] = res[j] for j, hap in enumerate(thread_set); None = IndexError *)
Fixpoint write_threads (col : list Z) (ts : list nat) (vals : list Z) : option (list Z) :=
  match ts, vals with
  | [], _ => Some col
  | t :: ts', v :: vs => if (t <? length col)%nat then write_threads (set_nth t v col) ts' vs else None
  | _ :: _, [] => None
  end.
Fixpoint integrate_cols (cols : list (list Z)) (ts : list nat) (snps : list nat) (sub : list (list Z))
  : option (list (list Z)) :=
  match snps with
  | [] => Some cols
  | pos :: snps' =>
      match sub, nth_error cols pos with
      | sc :: sub', Some col =>
          match write_threads col ts sc with
          | Some col' => integrate_cols (set_nth pos col' cols) ts snps' sub'
          | None => None
          end
      | _, _ => None
      end
  end.
Definition integrate_one (cols : list (list Z)) (s : subres) : option (list (list Z)) :=
  integrate_cols cols (sr_threads s) (sr_snps s) (sr_cols s).
Fixpoint integrate (cols : list (list Z)) (subs : list subres) : option (list (list Z)) :=
  match subs with
  | [] => Some cols
  | s :: rest => match integrate_one cols s with Some c' => integrate c' rest | None => None end
  end.
(* the genotype handed to the sub-instance: subgeno = per variant the alleles of the covered threads *)
Definition restrict_col (ts : list nat) (col : list Z) : list Z := map (fun t => nth t col undet) ts.
Definition sub_genotypes (cols : list (list Z)) (s : subres) : list (list Z) :=
  map (fun pos => restrict_col (sr_threads s) (nth pos cols [])) (sr_snps s).
(* shape of what find_subinstances hands over: threads distinct and < k, variants distinct and inside the matrix,
   and two sub-instances never share a cell (position, thread) *)
Fixpoint nodupNb (l : list nat) : bool :=
  match l with [] => true | x :: t => negb (memN x t) && nodupNb t end.
Definition sub_wfb (k n : nat) (s : subres) : bool :=
  nodupNb (sr_threads s) && forallb (fun t => (t <? k)%nat) (sr_threads s)
  && nodupNb (sr_snps s) && forallb (fun p => (p <? n)%nat) (sr_snps s)
  && Nat.eqb (length (sr_cols s)) (length (sr_snps s))
  && forallb (fun c => Nat.eqb (length c) (length (sr_threads s))) (sr_cols s).
Definition cells_disjointb (a b : subres) : bool :=
  negb (existsb (fun p => memN p (sr_snps b)) (sr_snps a))
  || negb (existsb (fun t => memN t (sr_threads b)) (sr_threads a)).
Fixpoint subs_disjointb (subs : list subres) : bool :=
  match subs with
  | [] => true
  | s :: rest => forallb (cells_disjointb s) rest && subs_disjointb rest
  end.

(* ------------------------------------------------------------ algorithm: singleton blocks, aggregation *)
(* block with one variant: haps = sorted(genotype vector) *)
Definition singleton_cols (g : list Z) : list (list Z) := [sortZ g].

(* a breakpoint as far as the cuts depend on it: (position, confidence == 0.0) *)
Definition bp : Type := (nat * bool)%type.
(* one block result: its columns and its breakpoints (block-local positions) *)
Definition blockres : Type := (list (list Z) * list bp)%type.
(* aggregate_results: columns are concatenated; every block start becomes a zero-confidence breakpoint unless a
   border list is given (prephasing and sensitivity 0) that does not contain it; offset 0 always *)
Fixpoint aggregate_from (off : nat) (borders : list nat) (rs : list blockres) : list (list Z) * list bp :=
  match rs with
  | [] => ([], [])
  | (cols, bps) :: rest =>
      let here := if match borders with [] => true | _ => false end || memN off borders || Nat.eqb off 0
                  then [(off, true)] else [] in
      let shifted := map (fun b => (fst b + off, snd b)%nat) bps in
      let r := aggregate_from (off + length cols) borders rest in
      (cols ++ fst r, here ++ shifted ++ snd r)
  end.
Definition aggregate (borders : list nat) (rs : list blockres) := aggregate_from 0 borders rs.

(* ---------------------------------------------------------------- algorithm.compute_cut_positions *)
(* sens = block cut sensitivity 0..5.  For a breakpoint with non-zero confidence the decision depends on float
   sums of log confidences for sensitivities 2..4 (free: dec idx); for 0 and 1 the threshold is -inf and is
   never reached; for 5 the required count is 0, so every breakpoint cuts. *)
Definition decide (sens : nat) (dec : nat -> bool) (idx : nat) (zero : bool) : bool :=
  if zero then true
  else match sens with
       | O | S O => false
       | S (S (S (S (S _)))) => true
       | _ => dec idx
       end.
Fixpoint cuts_loop (sens : nat) (dec : nat -> bool) (bps : list bp) (idx : nat) (rcuts : list nat) : list nat :=
  match bps with
  | [] => rev rcuts
  | (pos, zero) :: rest =>
      match rcuts with
      | last :: _ =>
          if Nat.eqb last pos then cuts_loop sens dec rest (S idx) rcuts
          else if Nat.eqb sens 0 then rev rcuts
          else if decide sens dec idx zero then cuts_loop sens dec rest (S idx) (pos :: rcuts)
          else cuts_loop sens dec rest (S idx) rcuts
      | [] =>
          if decide sens dec idx zero then cuts_loop sens dec rest (S idx) (pos :: rcuts)
          else cuts_loop sens dec rest (S idx) rcuts
      end
  end.
Definition compute_cuts (sens : nat) (dec : nat -> bool) (bps : list bp) : list nat :=
  cuts_loop sens dec bps 0 [].
(* envelope membership of observed cuts: replay with "cut iff the breakpoint's position is an observed cut" *)
Definition cuts_in_envelope (sens : nat) (bps : list bp) (obs : list nat) : bool :=
  natlist_eqb (compute_cuts sens (fun idx => memN (fst (nth idx bps (O, false))) obs) bps) obs.

(* the same with the decisions supplied per breakpoint index (the harness derives them from the observed cuts by
   walking the breakpoints; needed when equal positions are not adjacent, i.e. for unsorted breakpoint lists) *)
Definition cuts_replay (sens : nat) (decs : list bool) (bps : list bp) (obs : list nat) : bool :=
  natlist_eqb (compute_cuts sens (fun idx => nth idx decs false) bps) obs.

Fixpoint strictly_incN (l : list nat) : bool :=
  match l with
  | x :: ((y :: _) as t) => (x <? y)%nat && strictly_incN t
  | _ => true
  end.
Fixpoint nondecN (l : list nat) : bool :=
  match l with
  | x :: ((y :: _) as t) => (x <=? y)%nat && nondecN t
  | _ => true
  end.
Fixpoint strictly_incZ (l : list Z) : bool :=
  match l with
  | x :: ((y :: _) as t) => (x <? y) && strictly_incZ t
  | _ => true
  end.
(* spec side for cuts: strictly increasing, first cut 0 *)
Definition cuts_okb (cuts : list nat) : bool :=
  strictly_incN cuts && match cuts with O :: _ => true | _ => false end.

(* ---------------------------------------------- cli.polyphase.phase_single_individual: components *)
(* python dict as association list, newest binding first *)
Definition dict := list (Z * Z).
Fixpoint lookup (m : dict) (key : Z) : option Z :=
  match m with
  | [] => None
  | (k, v) :: t => if Z.eqb k key then Some v else lookup t key
  end.
(* for pos in range(s, e): components[acc[pos]] = acc[s]; components[acc[pos] + 1] = acc[s] *)
Fixpoint fill_block (acc : list Z) (name : Z) (ps : list nat) (m : dict) : option dict :=
  match ps with
  | [] => Some m
  | p :: ps' => match nth_error acc p with
                | Some a => fill_block acc name ps' ((a + 1, name) :: (a, name) :: m)
                | None => None
                end
  end.
(* ext = cuts + [num_vars]; blocks = consecutive pairs.  None = IndexError *)
Fixpoint components_from (acc : list Z) (ext : list nat) (m : dict) : option dict :=
  match ext with
  | s :: ((e :: _) as rest) =>
      if (s <? e)%nat then
        match nth_error acc s with
        | Some name => match fill_block acc name (seq s (e - s)) m with
                       | Some m' => components_from acc rest m'
                       | None => None
                       end
        | None => None
        end
      else components_from acc rest m
  | _ => Some m
  end.
Definition components (acc : list Z) (cuts : list nat) : option dict :=
  components_from acc (cuts ++ [length acc]) [].

(* superreads: only positions without an undetermined allele carry a phase *)
Fixpoint phases_of (acc : list Z) (cols : list (list Z)) : list (Z * list Z) :=
  match acc, cols with
  | a :: acc', c :: cols' => if memZ undet c then phases_of acc' cols' else (a, c) :: phases_of acc' cols'
  | _, _ => []
  end.
Fixpoint lookup_phase (m : list (Z * list Z)) (key : Z) : option (list Z) :=
  match m with
  | [] => None
  | (k, v) :: t => if Z.eqb k key then Some v else lookup_phase t key
  end.

(* ------------------------------------------------------------------ vcf.PhasedVcfWriter.write, one call *)
Definition is_het (gt : list Z) : bool :=
  match gt with [] => true | a :: t => negb (forallb (Z.eqb a) t) end.
(* an output call: alleles, phased?, PS *)
Definition call : Type := (list Z * bool * option Z)%type.
(* in_gt: the input alleles of a sample that has superreads (-1 for a missing allele), in_ps its PS value.
   A genotype with a missing allele is not sorted and counts as "no genotype" (Genotype([])).
   pos = record.start (0-based).  _remove_existing_phasing (since /repo 9ec9805: for every target sample of EVERY
   record, also records the writer then skips) clears PS/PQ/HP, unphases GT and sorts it when fully called - so the
   input PS never survives (in_ps is ignored).  A record at which no sample has both a component and a phase is
   skipped after that (others = some other sample is phased at this record).  Otherwise the genotype is replaced by
   the sorted phase alleles if the phase column's multiset differs; the call is phased iff the position has a
   component and a phase and the (possibly replaced) genotype is heterozygous, PS = component + 1. *)
Definition write_call (comps : dict) (phases : list (Z * list Z)) (pos : Z) (in_gt : list Z) (in_ps : option Z)
  (others : bool) : call :=
  let base := if memZ undet in_gt then in_gt else sortZ in_gt in
  match lookup_phase phases pos with
  | Some ph =>
      let changed := negb (col_eqb (sortZ ph) base) in
      let gt := if changed then sortZ ph else base in
      match lookup comps pos with
      | Some c => if is_het (if changed then ph else in_gt) then (ph, true, Some (c + 1)) else (gt, false, None)
      | None => if others then (gt, false, None) else (base, false, None)
      end
  | None => (base, false, None)
  end.
(* all records of one processed sample (the only sample with superreads): (pos, in_gt, in_ps) -> (pos, call) *)
Definition inrec : Type := (Z * list Z * option Z)%type.
Definition sample_out (acc : list Z) (cols : list (list Z)) (cuts : list nat) (recs : list inrec)
  : option (list (Z * call)) :=
  match components acc cuts with
  | Some comps => Some (map (fun r => (fst (fst r), write_call comps (phases_of acc cols) (fst (fst r)) (snd (fst r))
                                                      (snd r) false)) recs)
  | None => None
  end.

(* -------------------------------------------------------------------- specification side, per sample *)
(* One record as seen in input and output for one sample:
   (pos (1-based), in_gt, in_ps, out_gt, out_phased, out_ps).  Missing alleles are -1. *)
Definition obs : Type := (Z * list Z * option Z * list Z * bool * option Z)%type.
Definition o_pos (o : obs) := fst (fst (fst (fst (fst o)))).
Definition o_in (o : obs) := snd (fst (fst (fst (fst o)))).
Definition o_inps (o : obs) := snd (fst (fst (fst o))).
Definition o_out (o : obs) := snd (fst (fst o)).
Definition o_phased (o : obs) := snd (fst o).
Definition o_ps (o : obs) := snd o.
Definition optZ_eqb (a b : option Z) : bool :=
  match a, b with Some x, Some y => Z.eqb x y | None, None => true | _, _ => false end.

(* genotype clause: a phased call lists exactly the input alleles with multiplicities, the input genotype is
   fully called and heterozygous, and it carries a phase set; an unphased call keeps the input alleles
   (as a multiset: existing phasing of a processed sample is removed, alleles sorted) and its PS field is empty or
   the untouched input value; a call whose input genotype is missing, partially missing or homozygous comes out
   unphased with exactly the input alleles in the input order *)
(* a call that must pass through untouched: genotype missing, partially missing or homozygous *)
Definition fixed_gt (g : list Z) : bool :=
  memZ undet g || negb (is_het g) || match g with [] => true | _ => false end.
Definition gt_clause (o : obs) : bool :=
  if fixed_gt (o_in o)
  then negb (o_phased o) && col_eqb (o_out o) (o_in o)
       && (match o_ps o with None => true | Some _ => false end || optZ_eqb (o_ps o) (o_inps o))
  else if o_phased o
  then same_mset (o_out o) (o_in o) && negb (memZ undet (o_in o)) && is_het (o_in o)
       && match o_in o with [] => false | _ => true end
       && match o_ps o with Some _ => true | None => false end
  else same_mset (o_out o) (o_in o) && (match o_ps o with None => true | Some _ => false end || optZ_eqb (o_ps o) (o_inps o)).

Fixpoint index_ofZ (x : Z) (l : list Z) : option nat :=
  match l with
  | [] => None
  | y :: t => if Z.eqb x y then Some O else option_map S (index_ofZ x t)
  end.
(* interval clause on the phased calls (pos, ps) of one sample; acc = 1-based positions of its read-covered
   heterozygous variants in order.  Every phased variant and every set name is such a variant, the name is not
   after the member, and the stretches [name .. member] of two different sets never contain each other's name. *)
Definition intervals_okb (acc : list Z) (ps : list (Z * Z)) : bool :=
  forallb (fun m =>
    match index_ofZ (fst m) acc, index_ofZ (snd m) acc with
    | Some ip, Some is_ =>
        (is_ <=? ip)%nat &&
        forallb (fun m' =>
          Z.eqb (snd m') (snd m) ||
          match index_ofZ (snd m') acc with
          | Some it => negb ((is_ <=? it)%nat && (it <=? ip)%nat)
          | None => false
          end) ps
    | _, _ => false
    end) ps.
Definition phased_pairs (os : list obs) : list (Z * Z) :=
  flat_map (fun o => match o_phased o, o_ps o with true, Some s => [(o_pos o, s)] | _, _ => [] end) os.
(* the whole per-sample L1 predicate *)
Definition sample_okb (acc : list Z) (os : list obs) : bool :=
  forallb gt_clause os && intervals_okb acc (phased_pairs os).

(* observation built from the model's output for a processed sample (positions 0-based -> 1-based) *)
Definition obs_of_model (recs : list inrec) (outs : list (Z * call)) : list obs :=
  map (fun ro => (fst (fst (fst ro)) + 1, snd (fst (fst ro)), snd (fst ro), fst (fst (snd (snd ro))),
                  snd (fst (snd (snd ro))), snd (snd (snd ro)))) (combine recs outs).

(* a sample that polyphase does not process on a chromosome (fewer than two heterozygous variants, no suitable
   read, not requested): its calls pass through untouched.  (in_gt, in_phased, in_ps) vs (out_gt, out_phased, out_ps) *)
Definition rawcall : Type := (list Z * bool * option Z)%type.
Definition rawcall_eqb (a b : rawcall) : bool :=
  col_eqb (fst (fst a)) (fst (fst b)) && Bool.eqb (snd (fst a)) (snd (fst b))
  && match snd a, snd b with Some x, Some y => Z.eqb x y | None, None => true | _, _ => false end.
Definition untouched_okb (ins outs : list rawcall) : bool := list_eqb rawcall_eqb ins outs.
(* everything else of the file (fixed fields, INFO, other FORMAT fields, other header lines), as interned tokens *)
Definition frame_okb (a b : list (list Z)) : bool := list_eqb col_eqb a b.

(* ------------------------------------------- algorithm.solve_polyphase_instance / phase_single_block: envelope *)
(* The set of haplotype matrices the block pipeline can return for a genotype list, as a relation (clustering,
   threading, the likelihood arg-max, link likelihoods, the ILP are arbitrary; only the data flow is fixed):
   the instance is cut into blocks; a block with one variant gets the sorted genotype; any other block starts from
   ARBITRARY threaded columns `init` (k alleles each), is forced onto the genotypes (force envelope), has the solved
   sub-instances (recursive calls with ploidy = number of covered threads and sub-genotype = the covered alleles)
   written back, and is reordered by assignments that are permutations.  d bounds the recursion depth. *)
Definition block_general (fb : fallback) (rec : nat -> list (list Z) -> list (list Z) -> Prop) (k : nat)
  (bg bc : list (list Z)) : Prop :=
  exists (init forced : list (list Z)) (subs : list subres) (integ : list (list Z)) (bps : list nat) (pms : list (list nat)),
    length init = length bg /\ Forall (fun c => length c = k) init /\
    in_force_envelope fb bg init forced = true /\
    Forall (fun s => sub_wfb k (length forced) s = true) subs /\ subs_disjointb subs = true /\
    Forall (fun s => rec (length (sr_threads s)) (sub_genotypes forced s) (sr_cols s)) subs /\
    integrate forced subs = Some integ /\
    Forall (fun p => is_permb k p = true) pms /\
    permute_blocks_cols k integ bps pms = Some bc.

Fixpoint SolvesN (fb : fallback) (d : nat) (k : nat) (gs cols : list (list Z)) : Prop :=
  match d with
  | O => False
  | S d' =>
      exists blocks : list (list (list Z) * list (list Z)),
        gs = concat (map fst blocks) /\ cols = concat (map snd blocks) /\
        Forall (fun b => (exists g, fst b = [g] /\ snd b = singleton_cols g)
                         \/ block_general fb (SolvesN fb d') k (fst b) (snd b)) blocks
  end.
