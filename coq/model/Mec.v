(* Single-sample weighted MEC objective on error-free reads (C02): model of what the exact solver
   optimises for one individual with trusted heterozygous genotypes, plus the executable checks used on
   the traced solver instances and on the output VCF. Model only: no lemmas here. *)
From Coq Require Import ZArith List Bool Arith.
From WH.Model Require Import UnionFind UFSpec.
Import ListNotations.

(* a read: entries (column, allele, weight); a haplotype pair per column *)
Definition entry := (nat * bool * nat)%type.
Definition read := list entry.
Definition haps := nat -> (bool * bool).          (* column |-> (allele on hap 0, allele on hap 1) *)

Definition hap_allele (h : haps) (side : bool) (c : nat) : bool :=
  if side then snd (h c) else fst (h c).

(* flip cost of one read placed on side `side` of haplotype pair h *)
Definition read_cost (h : haps) (side : bool) (r : read) : nat :=
  fold_right (fun (e : entry) acc =>
                let '(c, a, w) := e in (if Bool.eqb a (hap_allele h side c) then 0 else w) + acc) 0 r.

(* MEC cost of bipartition beta (one side per read, in read order) *)
Fixpoint cost (h : haps) (beta : list bool) (reads : list read) : nat :=
  match beta, reads with
  | b :: beta', r :: reads' => read_cost h b r + cost h beta' reads'
  | _, _ => 0
  end.

(* every entry of every read is a copy of the true haplotype the read comes from *)
Definition read_error_free (truth : haps) (side : bool) (r : read) : bool :=
  forallb (fun (e : entry) => let '(c, a, _) := e in Bool.eqb a (hap_allele truth side c)) r.
Fixpoint error_free (truth : haps) (origin : list bool) (reads : list read) : bool :=
  match origin, reads with
  | o :: origin', r :: reads' => read_error_free truth o r && error_free truth origin' reads'
  | [], [] => true
  | _, _ => false
  end.

Definition het (h : haps) (c : nat) : Prop := fst (h c) <> snd (h c).
Definition covers (r : read) (c : nat) : Prop := exists a w, In (c, a, w) r.
Definition positive (r : read) : Prop := forall c a w, In (c, a, w) r -> 0 < w.

(* two columns are linked when a read covers both; connected = equivalence closure *)
Definition linked (reads : list read) (c c' : nat) : Prop :=
  exists r, In r reads /\ covers r c /\ covers r c'.
Definition connected (reads : list read) : nat -> nat -> Prop :=
  Relation_Operators.clos_refl_sym_trans nat (linked reads).

(* orientation of candidate h relative to truth at column c *)
Definition same_at (h truth : haps) (c : nat) : Prop := h c = truth c.
Definition swapped_at (h truth : haps) (c : nat) : Prop := h c = (snd (truth c), fst (truth c)).

(* ---- executable side used by the correspondence ------------------------------------------- *)
(* haplotype pairs given as association lists column |-> (a0, a1); missing columns default (false,false) *)
Fixpoint lookup (l : list (nat * (bool * bool))) (c : nat) : bool * bool :=
  match l with
  | [] => (false, false)
  | (k, v) :: l' => if Nat.eqb k c then v else lookup l' c
  end.
Definition haps_of (l : list (nat * (bool * bool))) : haps := lookup l.

(* component label of every column: naive minimum over the read graph (UFSpec.naive_min) *)
Definition read_edges (r : read) : list (nat * nat) :=
  match r with
  | [] => []
  | (c0, _, _) :: rest => map (fun (e : entry) => let '(c, _, _) := e in (c0, c)) rest
  end.
Definition col_edges (reads : list read) : list (nat * nat) := flat_map read_edges reads.
Definition columns (reads : list read) : list nat :=
  nodup Nat.eq_dec (flat_map (fun r => map (fun (e : entry) => let '(c, _, _) := e in c) r) reads).
(* computed with the (proved) union-find model: representative = minimum of the component *)
Definition comp_state (reads : list read) : uf :=
  urun_state (uf_init (columns reads)) (map (fun e => UMerge (fst e) (snd e))
                                            (filter (fun e => negb (Nat.eqb (fst e) (snd e))) (col_edges reads))).
Definition comp_in (s : uf) (c : nat) : nat :=
  match find s c with inl (r, _) => r | inr _ => c end.
Definition comp_of (reads : list read) (c : nat) : nat := comp_in (comp_state reads) c.

Definition pair_eqb (x y : bool * bool) : bool := Bool.eqb (fst x) (fst y) && Bool.eqb (snd x) (snd y).
Definition swap (x : bool * bool) : bool * bool := (snd x, fst x).

(* on the given columns, h equals truth or its swap, consistently within each component *)
Definition orient (h truth : haps) (c : nat) : option bool :=
  if pair_eqb (h c) (truth c) then Some true
  else if pair_eqb (h c) (swap (truth c)) then Some false else None.
Definition obool_eqb (a b : option bool) : bool :=
  match a, b with Some x, Some y => Bool.eqb x y | None, None => true | _, _ => false end.
Definition truth_up_to_flip (reads : list read) (cols : list nat) (h truth : haps) : bool :=
  let st := comp_state reads in
  let tab := map (fun c => (comp_in st c, orient h truth c)) cols in
  forallb (fun x => match snd x with None => false | Some _ => true end) tab &&
  forallb (fun x => forallb (fun y => negb (Nat.eqb (fst x) (fst y)) || obool_eqb (snd x) (snd y)) tab) tab.

(* L1 on the output VCF: phased calls of one sample as (phase set id, written pair, true pair) *)
Definition call := (Z * (bool * bool) * (bool * bool))%type.
Definition call_orient (c : call) : option bool :=
  let '(_, g, t) := c in
  if pair_eqb g t then Some true else if pair_eqb g (swap t) then Some false else None.
Definition sets_match_truth (calls : list call) : bool :=
  forallb (fun c => match call_orient c with None => false | Some _ => true end) calls &&
  forallb (fun c => forallb (fun c' =>
     negb (Z.eqb (fst (fst c)) (fst (fst c'))) || obool_eqb (call_orient c) (call_orient c')) calls) calls.
