(* C05 - focused executable model of the Mendelian part of pedigree phasing in whatshap:

     src/pedigreepartitions.cpp       PedigreePartitions (haplotype_to_partition for a transmission value)
     src/pedigreecolumncostcomputer.cpp  constructor (allowed allele assignments under trusted genotypes),
                                      set_partitioning (cost per partition), get_alleles (super-read
                                      alleles of one column incl. the tie code EQUAL_SCORES = 3 and the
                                      exception "Mendelian conflict")
     whatshap/pedigree.py             mendelian_conflict
     whatshap/cli/phase.py            find_mendelian_conflicts, find_phaseable_variants (row removal),
                                      accessible positions (genetic haplotyping adds the positions that
                                      are homozygous in some member)
     whatshap/vcf.py                  PhasedVcfWriter.write (per call: GT a|b from the two super-reads)

   and the executable specification side (the predicates evaluated on the implementation's outputs).
   The dynamic program itself (which transmission value and which bipartition are chosen per column) is
   NOT modelled here: every definition takes the column's transmission value and the per-partition
   costs as inputs, and the theorems quantify over all of them.

   Conventions
     * individuals are indices 0..n-1 in Pedigree::addIndividual order (= family order in phase.py);
       a triple is (father, mother, child) as in Pedigree::addRelationship;
     * a transmission value is a number (N); bit 2k belongs to the father, bit 2k+1 to the mother of
       triple k; the child's haplotype 0 shares the partition of the father's haplotype
       [!(bit 2k)], its haplotype 1 that of the mother's haplotype [!(bit 2k+1)];
     * an allele assignment is a number (N), bit p = allele of partition p (false = REF);
     * a genotype is what Genotype.as_vector() returns: the alleles in DESCENDING order, [] = none;
     * costs and allele codes are Z; UINT_MAX and the (int) casts of get_alleles are modelled literally.
   Model only: no lemmas here. *)
From Coq Require Import ZArith NArith List Bool Arith.
Import ListNotations.
Local Open Scope nat_scope.

Definition triple := (nat * nat * nat)%type.          (* father, mother, child *)
Definition geno := list Z.                            (* Genotype.as_vector() *)

Definition tr_father (tr : triple) : nat := fst (fst tr).
Definition tr_mother (tr : triple) : nat := snd (fst tr).
Definition tr_child (tr : triple) : nat := snd tr.

Definition sel {A} (p : A * A) (h : bool) : A := if h then snd p else fst p.
Definition b2z (b : bool) : Z := if b then 1%Z else 0%Z.

Definition tbit (t : N) (j : nat) : bool := N.testbit t (N.of_nat j).

(* ------------------------------------------------------------------ PedigreePartitions *)
(* triple_indices[i]: index of the triple in which i is the child; the constructor's loop lets the
   last such triple win *)
Fixpoint triple_of (ts : list triple) (k0 : nat) (i : nat) : option (nat * triple) :=
  match ts with
  | [] => None
  | tr :: rest =>
      match triple_of rest (S k0) i with
      | Some r => Some r
      | None => if tr_child tr =? i then Some (k0, tr) else None
      end
  end.

Definition is_root (ts : list triple) (i : nat) : bool :=
  match triple_of ts 0 i with None => true | Some _ => false end.

(* roots get the partitions (p, p+1), p = 2 * (number of roots before i) *)
Definition root_rank (ts : list triple) (i : nat) : nat := length (filter (is_root ts) (seq 0 i)).

Section Partitions.
Variable ts : list triple.
Variable tb : nat -> bool.          (* bits of the transmission value *)

(* compute_haplotype_to_partition_rec; None = fuel exhausted (cyclic pedigree: the code would not
   terminate) *)
Fixpoint h2p_rec (fuel : nat) (i : nat) : option (nat * nat) :=
  match triple_of ts 0 i with
  | None => Some (2 * root_rank ts i, 2 * root_rank ts i + 1)
  | Some (k, tr) =>
      match fuel with
      | 0 => None
      | S fuel' =>
          match h2p_rec fuel' (tr_father tr), h2p_rec fuel' (tr_mother tr) with
          | Some pf, Some pm => Some (sel pf (negb (tb (2 * k))), sel pm (negb (tb (2 * k + 1))))
          | _, _ => None
          end
      end
  end.
End Partitions.

(* haplotype_to_partition_map[i] for transmission value t, pedigree of n individuals *)
Definition h2p (n : nat) (ts : list triple) (t : N) (i : nat) : option (nat * nat) :=
  h2p_rec ts (tbit t) n i.

(* the same map tabulated once (as the constructor of PedigreePartitions does); None outside 0..n-1 *)
Definition h2p_tab (n : nat) (ts : list triple) (t : N) : nat -> option (nat * nat) :=
  let tab := map (h2p n ts t) (seq 0 n) in fun i => nth i tab None.

Definition part_count (n : nat) (ts : list triple) : nat := 2 * (n - length ts).

(* ------------------------------------------------------------------ allowed assignments *)
(* Genotype(vector{allele0, allele1}).as_vector() *)
Definition geno_of (x y : bool) : geno :=
  if x then (if y then [1; 1] else [1; 0])%Z else (if y then [1; 0] else [0; 0])%Z.

Fixpoint geno_eqb (g h : geno) : bool :=
  match g, h with
  | [], [] => true
  | a :: g', b :: h' => Z.eqb a b && geno_eqb g' h'
  | _, _ => false
  end.

(* allele carried by haplotype h of individual i under assignment bits ab *)
Definition alle (hp : nat -> option (nat * nat)) (ab : nat -> bool) (i : nat) (h : bool) : bool :=
  match hp i with Some p => ab (sel p h) | None => false end.

(* the constructor's inner loop for one assignment, trusted genotypes (distrust_genotypes = false) *)
Definition compatible (n : nat) (hp : nat -> option (nat * nat)) (gs : list geno) (ab : nat -> bool) : bool :=
  forallb (fun i => match hp i with
                    | Some _ => geno_eqb (geno_of (alle hp ab i false) (alle hp ab i true)) (nth i gs [])
                    | None => false
                    end) (seq 0 n).

Definition abit (a : N) (p : nat) : bool := N.testbit a (N.of_nat p).

(* allele_assignments, in the code's enumeration order 0 .. 2^partition_count - 1 *)
Definition allowed (n : nat) (ts : list triple) (t : N) (gs : list geno) : list N :=
  let hp := h2p_tab n ts t in
  filter (fun a => compatible n hp gs (abit a))
         (map N.of_nat (seq 0 (2 ^ part_count n ts))).

(* is allele_assignments non-empty? (short-circuiting form used by the conflict oracle) *)
Definition has_allowed (n : nat) (ts : list triple) (t : N) (gs : list geno) : bool :=
  let hp := h2p_tab n ts t in
  existsb (fun a => compatible n hp gs (abit a)) (map N.of_nat (seq 0 (2 ^ part_count n ts))).

(* ------------------------------------------------------------------ set_partitioning *)
(* one entry of the column: (individual of the read, side of the bipartition (false = haplotype 0),
   allele (0 REF / 1 ALT, anything else = BLANK), phred) *)
Definition entry := (nat * bool * Z * Z)%type.

(* cost_partition[p] = (cost of giving partition p the allele 0, cost of giving it the allele 1) *)
Definition cost_partition (n : nat) (ts : list triple) (t : N) (es : list entry) : list (Z * Z) :=
  let hp := h2p_tab n ts t in
  map (fun p =>
         fold_left (fun acc (e : entry) =>
                      match e with (i, side, al, q) =>
                        match hp i with
                        | Some pr =>
                            if sel pr side =? p then
                              (if Z.eqb al 1 then (fst acc + q, snd acc)
                               else if Z.eqb al 0 then (fst acc, snd acc + q) else acc)%Z
                            else acc
                        | None => acc
                        end
                      end) es (0, 0)%Z)
      (seq 0 (part_count n ts)).

(* ------------------------------------------------------------------ get_alleles *)
Definition UMAX : Z := 4294967295.
(* (int) x for an unsigned int x *)
Definition to_int (x : Z) : Z := if (x <? 2147483648)%Z then x else (x - 4294967296)%Z.
Definition TIE : Z := 3.          (* Entry::EQUAL_SCORES *)

Definition acost (pc : nat) (cp : list (Z * Z)) (a : N) : Z :=
  fold_left (fun acc p => (acc + sel (nth p cp (0, 0)%Z) (abit a p))%Z) (seq 0 pc) 0%Z.

(* best_cost and the assignment that last set pop_haps ("cost <= best_cost") *)
Definition best_assignment (pc : nat) (cp : list (Z * Z)) (al : list N) : Z * option N :=
  fold_left (fun st a => if (acost pc cp a <=? fst st)%Z then (acost pc cp a, Some a) else st)
            al (UMAX, None).

(* best_cost_for_allele[i][h][x] *)
Definition bcfa (pc : nat) (cp : list (Z * Z)) (hp : nat -> option (nat * nat)) (al : list N)
           (i : nat) (h x : bool) : Z :=
  fold_left (fun cur a => if Bool.eqb (alle hp (abit a) i h) x && (acost pc cp a <? cur)%Z
                          then acost pc cp a else cur) al UMAX.

Inductive col_result :=
| NoTermination                      (* cyclic pedigree *)
| Conflict                           (* runtime_error("Error: Mendelian conflict") *)
| Alleles (l : list (Z * Z)).        (* (allele0, allele1) per individual, 3 = EQUAL_SCORES *)

Definition is_tie (pc : nat) (cp : list (Z * Z)) (hp : nat -> option (nat * nat)) (al : list N)
           (i : nat) (h : bool) : bool :=
  Z.eqb (Z.abs (to_int (bcfa pc cp hp al i h false) - to_int (bcfa pc cp hp al i h true))) 0.

Definition get_alleles (n : nat) (ts : list triple) (t : N) (cp : list (Z * Z)) (gs : list geno) : col_result :=
  let hp := h2p_tab n ts t in
  if negb (forallb (fun i => match hp i with Some _ => true | None => false end) (seq 0 n))
  then NoTermination
  else
    let pc := part_count n ts in
    let al := allowed n ts t gs in
    match best_assignment pc cp al with
    | (_, None) => Conflict
    | (bc, Some a) =>
        if Z.eqb bc UMAX then Conflict
        else Alleles (map (fun i =>
                             (if is_tie pc cp hp al i false then TIE else b2z (alle hp (abit a) i false),
                              if is_tie pc cp hp al i true then TIE else b2z (alle hp (abit a) i true)))
                          (seq 0 n))
    end.

(* ------------------------------------------------------------------ pedigree.py / phase.py *)
Definition zmem (x : Z) (l : list Z) : bool := existsb (Z.eqb x) l.

Definition g_none (g : geno) : bool := match g with [] => true | _ => false end.
Definition g_hom (g : geno) : bool :=
  match g with [] => false | a :: r => forallb (Z.eqb a) r end.
Definition g_het (g : geno) : bool := negb (g_none g) && negb (g_hom g).
Definition g_dipbi (g : geno) : bool :=
  geno_eqb g [0; 0]%Z || geno_eqb g [1; 0]%Z || geno_eqb g [1; 1]%Z.

(* mendelian_conflict(genotypem, genotypef, genotypec) *)
Definition mendelian_conflict (gm gf gc : geno) : bool :=
  let c0 := nth 0 gc 0%Z in
  let c1 := nth 1 gc 0%Z in
  if zmem c0 gm && zmem c1 gf then false
  else if zmem c1 gm && zmem c0 gf then false
  else true.

Definition gof (gs : list geno) (i : nat) : geno := nth i gs [].

(* find_mendelian_conflicts for one variant (row) *)
Definition col_conflict (ts : list triple) (gs : list geno) : bool :=
  existsb (fun tr =>
             negb (g_none (gof gs (tr_mother tr))) && negb (g_none (gof gs (tr_father tr)))
             && negb (g_none (gof gs (tr_child tr)))
             && mendelian_conflict (gof gs (tr_mother tr)) (gof gs (tr_father tr)) (gof gs (tr_child tr)))
          ts.

Definition col_missing (n : nat) (gs : list geno) : bool :=
  existsb (fun i => g_none (gof gs i)) (seq 0 n).
Definition col_has_het (n : nat) (gs : list geno) : bool :=
  existsb (fun i => g_het (gof gs i)) (seq 0 n).
Definition col_has_hom (n : nat) (gs : list geno) : bool :=
  existsb (fun i => g_hom (gof gs i)) (seq 0 n).

(* find_phaseable_variants: is the row retained? *)
Definition retained (n : nat) (ts : list triple) (include_hom : bool) (gs : list geno) : bool :=
  (include_hom || col_has_het n gs) && negb (col_missing n gs) && negb (col_conflict ts gs).

(* accessible_positions: covered = some selected read has a variant at the position *)
Definition accessible (n : nat) (ts : list triple) (include_hom genetic : bool) (gs : list geno) (covered : bool) : bool :=
  retained n ts include_hom gs
  && (covered || (genetic && (1 <? n) && col_has_hom n gs)).

(* ------------------------------------------------------------------ PhasedVcfWriter.write, one call *)
(* in_comp: pos in components (= accessible, all accessible positions are keys of overall_components);
   sr: the two super-read alleles at the position; gt: the input genotype.
   Result: Some (a, b) = the call is written as a|b with the PS tag; None = left unphased. *)
Definition allele_ok (a : Z) : bool := Z.eqb a 0 || Z.eqb a 1.
Definition write_call (in_comp : bool) (sr : option (Z * Z)) (gt : geno) : option (Z * Z) :=
  match sr with
  | Some (a0, a1) =>
      if allele_ok a0 && allele_ok a1 then
        let g' := geno_of (Z.eqb a0 1) (Z.eqb a1 1) in
        let is_het := if geno_eqb g' gt then negb (g_hom gt) else negb (g_hom g') in
        if in_comp && is_het then Some (a0, a1) else None
      else None
  | None => None
  end.

(* one column of one family through row removal, solver column (for the transmission value t and the
   partition costs cp the DP settled on) and writer *)
Definition phase_column (n : nat) (ts : list triple) (include_hom genetic : bool) (gs : list geno)
           (covered : bool) (t : N) (cp : list (Z * Z)) : option (list (option (Z * Z))) :=
  if accessible n ts include_hom genetic gs covered then
    match get_alleles n ts t cp gs with
    | Alleles l => Some (map (fun i => write_call true (nth_error l i) (gof gs i)) (seq 0 n))
    | _ => None                      (* exception: no output *)
    end
  else Some (map (fun _ => None) (seq 0 n)).

(* ------------------------------------------------------------------ specification side *)
(* The property text, on observable data of one variant of one family:
     gs     input genotypes per member, calls   output calls per member: Some (a, b, ps) = a|b:ps,
     tv     the reported transmission value at this variant (None if the solver did not see it). *)
Definition call := option (Z * Z * Z).

Definition call_of (cs : list call) (i : nat) : call := nth i cs None.

Definition parent_ok (gs : list geno) (cs : list call) (tv : option N) (child_allele : Z) (ps : Z)
           (parent : nat) (bitpos : nat) : bool :=
  zmem child_allele (gof gs parent)
  && match call_of cs parent with
     | Some (x0, x1, psp) =>
         if Z.eqb psp ps then
           match tv with
           | Some t => Z.eqb child_allele (sel (x0, x1) (negb (tbit t bitpos)))
           | None => false
           end
         else true
     | None => true
     end.

Definition mendel_calls_ok (ts : list triple) (gs : list geno) (cs : list call) (tv : option N) : bool :=
  forallb (fun ktr : nat * triple =>
             let (k, tr) := ktr in
             match call_of cs (tr_child tr) with
             | Some (a, b, ps) =>
                 parent_ok gs cs tv a ps (tr_father tr) (2 * k)
                 && parent_ok gs cs tv b ps (tr_mother tr) (2 * k + 1)
             | None => true
             end) (combine (seq 0 (length ts)) ts).

Definition all_unphased (n : nat) (cs : list call) : bool :=
  forallb (fun i => match call_of cs i with None => true | Some _ => false end) (seq 0 n).

Definition forced_phased (ts : list triple) (gs : list geno) (cs : list call) : bool :=
  forallb (fun tr =>
             if g_het (gof gs (tr_child tr))
                && (g_hom (gof gs (tr_father tr)) || g_hom (gof gs (tr_mother tr)))
             then match call_of cs (tr_child tr) with Some _ => true | None => false end
             else true) ts.

(* the whole property for one variant; genetic = default genetic haplotyping is on *)
Definition c05_variant_ok (n : nat) (ts : list triple) (genetic : bool) (gs : list geno) (cs : list call)
           (tv : option N) : bool :=
  mendel_calls_ok ts gs cs tv
  && (if col_missing n gs || col_conflict ts gs then all_unphased n cs
      else if genetic then forced_phased ts gs cs else true).

(* all members of a family get the same phase-set id at a variant (overall_components is shared) *)
Definition with_ps (ps : Z) (ws : list (option (Z * Z))) : list call :=
  map (fun w => match w with Some (a, b) => Some (a, b, ps) | None => None end) ws.

(* the same Mendelian predicate on raw super-read alleles of one solver column (ties = 3 skipped) *)
Definition sr_parent_ok (gs : list geno) (l : list (Z * Z)) (t : N) (child_allele : Z) (parent bitpos : nat) : bool :=
  if Z.eqb child_allele TIE then true
  else allele_ok child_allele && zmem child_allele (gof gs parent)
       && let pa := sel (nth parent l (TIE, TIE)) (negb (tbit t bitpos)) in
          (Z.eqb pa TIE || Z.eqb pa child_allele).

Definition sr_column_ok (n : nat) (ts : list triple) (gs : list geno) (t : N) (l : list (Z * Z)) : bool :=
  Nat.eqb (length l) n
  && forallb (fun ktr : nat * triple =>
                let (k, tr) := ktr in
                let c := nth (tr_child tr) l (TIE, TIE) in
                sr_parent_ok gs l t (fst c) (tr_father tr) (2 * k)
                && sr_parent_ok gs l t (snd c) (tr_mother tr) (2 * k + 1))
             (combine (seq 0 (length ts)) ts)
  && forallb (fun i => let c := nth i l (TIE, TIE) in
                       if Z.eqb (fst c) TIE || Z.eqb (snd c) TIE then true
                       else allele_ok (fst c) && allele_ok (snd c)
                            && geno_eqb (geno_of (Z.eqb (fst c) 1) (Z.eqb (snd c) 1)) (gof gs i))
             (seq 0 n).

(* conflict-stream oracle of the model: does some column admit no transmission value at all? *)
Definition no_assignment (n : nat) (ts : list triple) (gs : list geno) : bool :=
  forallb (fun t => negb (has_allowed n ts (N.of_nat t) gs)) (seq 0 (4 ^ length ts)).

(* ------------------------------------------------------------------ witnesses used by the proofs' statements *)
(* well-formed pedigree with a topological numbering rk (acyclic): executable check *)
Definition wf_pedb (n : nat) (ts : list triple) (rk : nat -> nat) : bool :=
  forallb (fun tr => (tr_father tr <? n) && (tr_mother tr <? n) && (tr_child tr <? n)
                     && (rk (tr_father tr) <? rk (tr_child tr)) && (rk (tr_mother tr) <? rk (tr_child tr))) ts
  && forallb (fun i => rk i <? n) (seq 0 n)
  && (fix nodup (l : list nat) : bool :=
        match l with [] => true | x :: r => negb (existsb (Nat.eqb x) r) && nodup r end) (map tr_child ts).

(* ------------------------------------------------------------------ check functions used by the harness *)
Fixpoint zpairs_eqb (l1 l2 : list (Z * Z)) : bool :=
  match l1, l2 with
  | [], [] => true
  | (a, b) :: r1, (c, d) :: r2 => Z.eqb a c && Z.eqb b d && zpairs_eqb r1 r2
  | _, _ => false
  end.

(* direct runs of PedigreeDPTable: per column (genotypes, transmission value, entries with the side of
   the optimal bipartition, super-read alleles of the implementation) *)
Definition direct_col := (list geno * N * list entry * list (Z * Z))%type.

Definition direct_l2 (c : nat * list triple * list direct_col) : bool :=
  match c with (n, ts, cols) =>
    forallb (fun col : direct_col =>
               match col with (gs, t, es, l) =>
                 match get_alleles n ts t (cost_partition n ts t es) gs with
                 | Alleles l' => zpairs_eqb l l'
                 | _ => false
                 end
               end) cols
  end.

Definition direct_l1 (c : nat * list triple * list direct_col) : bool :=
  match c with (n, ts, cols) =>
    forallb (fun col : direct_col => match col with (gs, t, es, l) => sr_column_ok n ts gs t l end) cols
  end.

(* conflict stream: the implementation raised "Mendelian conflict" iff some column admits no assignment *)
Definition direct_conflict (c : nat * list triple * list (list geno) * bool) : bool :=
  match c with (n, ts, cols, raised) => Bool.eqb (existsb (no_assignment n ts) cols) raised end.

(* CLI runs: per variant of the input VCF (genotypes, output calls, traced transmission value,
   covered by a selected read, accessible according to the trace, entries, traced super-read alleles) *)
Definition cli_col := (list geno * list call * option N * bool * bool * list entry * list (Z * Z))%type.

Definition cli_l1 (c : nat * list triple * bool * list cli_col) : bool :=
  match c with (n, ts, genetic, cols) =>
    forallb (fun col : cli_col =>
               match col with (gs, cs, tv, covered, acc, es, l) => c05_variant_ok n ts genetic gs cs tv end) cols
  end.

Definition strip_ps (c : call) : option (Z * Z) :=
  match c with Some (a, b, _) => Some (a, b) | None => None end.

Fixpoint ocalls_eqb (l1 l2 : list (option (Z * Z))) : bool :=
  match l1, l2 with
  | [], [] => true
  | None :: r1, None :: r2 => ocalls_eqb r1 r2
  | Some (a, b) :: r1, Some (c, d) :: r2 => Z.eqb a c && Z.eqb b d && ocalls_eqb r1 r2
  | _, _ => false
  end.

(* all phased members carry the same phase-set id at a variant (the assumption behind with_ps) *)
Definition ps_uniform (cs : list call) : bool :=
  let pss := flat_map (fun c : call => match c with Some (_, _, p) => [p] | None => [] end) cs in
  match pss with [] => true | p :: r => forallb (Z.eqb p) r end.

Definition cli_l2 (c : nat * list triple * bool * list cli_col) : bool :=
  match c with (n, ts, genetic, cols) =>
    forallb (fun col : cli_col =>
               match col with (gs, cs, tv, covered, acc, es, l) =>
                 Bool.eqb (accessible n ts false genetic gs covered) acc
                 && ps_uniform cs
                 && match tv with
                    | Some t =>
                        acc
                        && match get_alleles n ts t (cost_partition n ts t es) gs with
                           | Alleles l' => zpairs_eqb l l'
                           | _ => false
                           end
                        && match phase_column n ts false genetic gs covered t (cost_partition n ts t es) with
                           | Some ws => ocalls_eqb ws (map (fun i => strip_ps (call_of cs i)) (seq 0 n))
                           | None => false
                           end
                    | None => negb acc && all_unphased n cs
                    end
               end) cols
  end.

(* ------------------------------------------------------------------ notions used in the theorem statements *)
(* well-formed acyclic pedigree: n individuals, triples ts; rk is a topological numbering (parents are
   numbered below their child, numbers below n); every individual is the child of at most one triple *)
Record wf_ped (n : nat) (ts : list triple) (rk : nat -> nat) : Prop := {
  wf_idx : forall tr, In tr ts -> tr_father tr < n /\ tr_mother tr < n /\ tr_child tr < n;
  wf_child_once : NoDup (map tr_child ts);
  wf_rank : forall tr, In tr ts -> rk (tr_father tr) < rk (tr_child tr) /\ rk (tr_mother tr) < rk (tr_child tr);
  wf_rank_bound : forall i, i < n -> rk i < n
}.

(* first / second allele of as_vector as booleans *)
Definition g0 (g : geno) : bool := Z.eqb (nth 0 g 0%Z) 1.
Definition g1 (g : geno) : bool := Z.eqb (nth 1 g 0%Z) 1.

(* the value the paternal allele of a heterozygous child is forced to when a parent is homozygous *)
Definition forced_paternal (gs : list geno) (tr : triple) : bool :=
  if g_hom (gof gs (tr_father tr)) then g0 (gof gs (tr_father tr)) else negb (g0 (gof gs (tr_mother tr))).
