(* Executable model of whatshap/align.pyx:edit_distance (unbanded single-row DP, banded variant with
   early exit, prefix/suffix trimming wrapper) and its specification `lev` (Levenshtein recursion).
   Model only: no lemmas here, so that it still evaluates when a proof breaks.

   Characters are an arbitrary type A with a boolean equality (bytes in the implementation; the
   harness instantiates A := Z).  Costs are C ints in the code; they are modelled as nat (all values
   stay within [0, len s + len t + 1]; int overflow for strings >= 2^31 is not modelled). *)
From Coq Require Import List Arith Bool ZArith.
Import ListNotations.

Section EditDist.
Variable A : Type.
Variable eqb : A -> A -> bool.

Definition delta (a b : A) : nat := if eqb a b then 0 else 1.
Definition min3 (a b c : nat) := Nat.min a (Nat.min b c).

(* ---- specification: the Levenshtein recursion from the front *)
Fixpoint lev (s : list A) : list A -> nat :=
  match s with
  | [] => fun t => length t
  | a :: s' =>
      fix inner (t : list A) : nat :=
        match t with
        | [] => S (length s')
        | b :: t' => min3 (S (lev s' t)) (S (inner t')) (lev s' t' + delta a b)
        end
  end.

(* ---- unbanded branch.
   One inner loop `for i in range(1, m+1)`: s = remaining characters sv[i-1..], row = old costs[i-1..]
   (so `diag` is prev, `up` is costs[i]), left = freshly written costs[i-1]. *)
Fixpoint row_step (b : A) (s : list A) (row : list nat) (left : nat) : list nat :=
  match s, row with
  | a :: s', diag :: ((up :: _) as row') =>
      let c := min3 (diag + delta a b) (up + 1) (left + 1) in
      c :: row_step b s' row' c
  | _, _ => []
  end.
(* one iteration of `for j in range(1, n+1)`: prev = costs[0]; costs[0] += 1; inner loop *)
Definition next_row (s : list A) (row : list nat) (b : A) : list nat :=
  match row with r0 :: _ => (r0 + 1) :: row_step b s row (r0 + 1) | [] => [] end.
(* costs[i] = i; all columns; return costs[m] *)
Definition dist (s t : list A) : nat :=
  last (fold_left (next_row s) t (seq 0 (S (length s)))) 0.

(* ---- trimming wrapper *)
(* while m > 0 and n > 0 and sv[0] == tv[0]: sv += 1; tv += 1; m -= 1; n -= 1 *)
Fixpoint strip_prefix (s t : list A) : list A * list A :=
  match s, t with
  | a :: s', b :: t' => if eqb a b then strip_prefix s' t' else (s, t)
  | _, _ => (s, t)
  end.
(* while m > 0 and n > 0 and sv[m-1] == tv[n-1]: m -= 1; n -= 1 *)
Definition strip_suffix (s t : list A) : list A * list A :=
  let (s', t') := strip_prefix (rev s) (rev t) in (rev s', rev t').
Definition trim (s t : list A) : list A * list A :=
  let (s1, t1) := strip_prefix s t in strip_suffix s1 t1.

(* ---- banded branch: the costs array with indexed reads and writes *)
Definition get (l : list nat) (i : nat) : nat := nth i l 0.
Fixpoint upd (l : list nat) (i v : nat) : list nat :=
  match l, i with
  | [], _ => []
  | _ :: r, O => v :: r
  | x :: r, S i' => x :: upd r i' v
  end.

(* `for i in range(start, stop)` with cnt = stop - start iterations left; b = tv[j-1] *)
Fixpoint band_inner (cnt i : nat) (s : list A) (b : A) (costs : list nat) (prev smallest : nat)
  : list nat * nat :=
  match cnt with
  | O => (costs, smallest)
  | S cnt' =>
      let d := match nth_error s (i - 1) with Some a => delta a b | None => 1 end in
      let c := min3 (prev + d) (get costs i + 1) (get costs (i - 1) + 1) in    (* prev + 1 - match *)
      band_inner cnt' (S i) s b (upd costs i c) (get costs i) (Nat.min smallest c)
  end.

(* `for j in range(1, n+1)`: t = tv[j-1..]; returns the array and `smallest` at loop exit *)
Fixpoint band_cols (t : list A) (j : nat) (s : list A) (m e : nat) (costs : list nat) (smallest : nat)
  : list nat * nat :=
  match t with
  | [] => (costs, smallest)
  | b :: t' =>
      let stop := Nat.min (j + e + 1) (m + 1) in
      let '(costs1, prev, smallest1, start) :=
        if j <=? e
        then (upd costs 0 (get costs 0 + 1), get costs 0, get costs 0 + 1, 1)
        else (costs, get costs (j - e - 1), e + 1, j - e) in
      let '(costs2, smallest2) := band_inner (stop - start) start s b costs1 prev smallest1 in
      if e <? smallest2 then (costs2, smallest2)                  (* if smallest > maxdiff: break *)
      else band_cols t' (S j) s m e costs2 smallest2
  end.

Definition banded (s t : list A) (e : nat) : nat :=
  let m := length s in
  let '(costs, smallest) := band_cols t 1 s m e (seq 0 (m + 1)) 0 in
  if e <? smallest then smallest else get costs m.

Definition absdiff (m n : nat) : nat := (m - n) + (n - m).

(* edit_distance(s, t, maxdiff): maxdiff = -1 means "no band".
   `if e != -1 and e >= max(m, n): e = -1` : a band at least as wide as the longer string is dropped
   (this also keeps j + e + 1 of the banded branch far away from INT_MAX). *)
Definition edit_distance (s t : list A) (maxdiff : Z) : nat :=
  let m := length s in
  let n := length t in
  let e := if negb (Z.eqb maxdiff (-1)) && Z.geb maxdiff (Z.of_nat (Nat.max m n)) then (-1)%Z else maxdiff in
  if negb (Z.eqb e (-1)) && Z.gtb (Z.of_nat (absdiff m n)) e then absdiff m n
  else
    let (s', t') := trim s t in
    if Z.eqb e (-1) then dist s' t' else banded s' t' (Z.to_nat e).

(* the contract of the banded variant as an executable predicate (used on implementation outputs) *)
Definition banded_contract (l : nat) (maxdiff : Z) (result : nat) : bool :=
  if Z.leb (Z.of_nat l) maxdiff then Nat.eqb result l else Z.ltb maxdiff (Z.of_nat result).

End EditDist.

Arguments delta {A}. Arguments lev {A}. Arguments row_step {A}. Arguments next_row {A}.
Arguments dist {A}. Arguments strip_prefix {A}. Arguments strip_suffix {A}. Arguments trim {A}.
Arguments band_inner {A}. Arguments band_cols {A}. Arguments banded {A}. Arguments edit_distance {A}.

(* ---- instance used by the correspondence check: strings are lists of byte values *)
Definition edit_distance_Z := @edit_distance Z Z.eqb.
Definition lev_Z := @lev Z Z.eqb.
(* fast evaluation of the specification for long strings: the plain full-length single-row DP
   without trimming and without band (proved equal to lev in EditDistProofs: dist_is_lev) *)
Definition lev_fast_Z := @dist Z Z.eqb.
