(* Executable model of whatshap/cli/phase.py: find_components, compute_overall_components,
   find_largest_component, the identifier written by vcf.py:_set_PS/_set_HP and by ReadList.write,
   plus the executable specification side of C03.  Model only: no lemmas here.

   Positions are natural numbers (the harness passes the rank of every genomic position among all
   positions of the case: the code only compares and hashes positions, so an order isomorphism
   commutes with it; the genomic value is carried separately where `+ 1` matters).
   The component finder is the shared model WH.Model.UnionFind (graph.ComponentFinder). *)
From Coq Require Import Arith List Bool ZArith.
From WH.Model Require Import UnionFind UFSpec.
Import ListNotations.

Definition pmem (x : nat) (l : list nat) : bool := existsb (Nat.eqb x) l.

(* a read as find_components sees it: numeric sample id and the positions of its variants *)
Definition cread := (nat * list nat)%type.
(* heterozygous_positions: dict numeric sample id -> set of positions *)
Definition hetmap := list (nat * list nat).
Fixpoint het_lookup (h : hetmap) (s : nat) : option (list nat) :=
  match h with
  | [] => None
  | (k, v) :: h' => if Nat.eqb k s then Some v else het_lookup h' s
  end.

(* [v.position for v in read if v.position in P and (v.position in het[read.sample_id])]
   `and` short-circuits: het[...] is only evaluated (KeyError if the sample is missing) for a position in P *)
Definition read_positions (P : list nat) (het : option hetmap) (r : cread) : list nat + err :=
  let inP := filter (fun p => pmem p P) (snd r) in
  match het with
  | None => inl inP
  | Some h => match het_lookup h (fst r) with
              | Some hs => inl (filter (fun p => pmem p hs) inP)
              | None => match inP with [] => inl [] | _ :: _ => inr KeyError end
              end
  end.

(* for position in positions[1:]: merge(positions[0], position) *)
Definition star (l : list nat) : list uop :=
  match l with [] => [] | x :: tl => map (fun y => UMerge x y) tl end.

(* the sequence of component-finder calls (or a raise) made by find_components before the finds *)
Definition read_events (P : list nat) (het : option hetmap) (r : cread) : list (uop + err) :=
  match read_positions P het r with
  | inl ps => map inl (star ps)
  | inr e => [inr e]
  end.

Definition merge_events (P : list nat) (reads : list cread) (mb : option (list nat)) (het : option hetmap)
  : list (uop + err) :=
  flat_map (read_events P het) reads ++ match mb with None => [] | Some m => map inl (star m) end.

Fixpoint plain (ev : list (uop + err)) : list uop :=
  match ev with
  | [] => []
  | inl o :: ev' => o :: plain ev'
  | inr _ :: ev' => plain ev'
  end.

(* the exception python raises: the first raise / failing component-finder call in program order *)
Fixpoint first_error (ev : list (uop + err)) (outs : list uout) : option err :=
  match ev with
  | [] => None
  | inr e :: _ => Some e
  | inl _ :: ev' => match outs with
                    | UErr e :: _ => Some e
                    | _ :: outs' => first_error ev' outs'
                    | [] => None
                    end
  end.

Fixpoint sortedb (l : list nat) : bool :=       (* phased_positions == sorted(phased_positions) *)
  match l with
  | [] => true
  | x :: l' => match l' with [] => true | y :: _ => (x <=? y) && sortedb l' end
  end.

Definition keys_of (P : list nat) : list nat := nodup Nat.eq_dec P.     (* phased_positions_set *)

Fixpoint vals (outs : list uout) : list nat :=
  match outs with
  | [] => []
  | UVal v :: outs' => v :: vals outs'
  | _ :: outs' => vals outs'
  end.

(* the dict {position: component_finder.find(position)} as an association list in key order *)
Definition find_components (P : list nat) (reads : list cread) (mb : option (list nat)) (het : option hetmap)
  : list (nat * nat) + err :=
  if negb (sortedb P) then inr AssertionError else
  let ev := merge_events P reads mb het ++ map (fun p => inl (UFind p)) (keys_of P) in
  let outs := urun (uf_init P) (plain ev) in
  match first_error ev outs with
  | Some e => inr e
  | None => inl (combine (keys_of P) (vals (skipn (length (plain (merge_events P reads mb het))) outs)))
  end.

(* ---------------------------------------------------------------------------------------------- *)
(* compute_overall_components                                                                      *)

(* one column of a sample's two super-reads: (position, allele on superread 0, allele on superread 1) *)
Definition srcol := (nat * nat * nat)%type.

Definition is_het (c : srcol) : bool :=
  let '(_, a, b) := c in (Nat.eqb a 0 && Nat.eqb b 1) || (Nat.eqb a 1 && Nat.eqb b 0).
Definition is_hom (c : srcol) : bool :=
  let '(_, a, b) := c in (Nat.eqb a 0 && Nat.eqb b 0) || (Nat.eqb a 1 && Nat.eqb b 1).
Definition col_pos (c : srcol) : nat := fst (fst c).

(* superreads: per family member (numeric sample id, columns); later members overwrite earlier ones
   with the same id in the python dict: family members have distinct ids *)
Definition compute_overall_components (accessible : list nat) (reads : list cread) (distrust : bool)
    (family_size : nat) (genetic : bool) (homozygous : list nat) (superreads : list (nat * list srcol))
  : list (nat * nat) + err :=
  let acc := fun p => pmem p accessible in
  let with_mb := (1 <? family_size) && genetic in
  if distrust then
    let het := map (fun s => (fst s, map col_pos (filter (fun c => acc (col_pos c) && is_het c) (snd s)))) superreads in
    let hom_any := flat_map (fun s => map col_pos (filter (fun c => acc (col_pos c) && is_hom c) (snd s))) superreads in
    (* sorted(hom_in_any_sample): the accessible positions in it, in the order of accessible_positions *)
    let mb := if with_mb then Some (filter (fun p => pmem p hom_any) (keys_of accessible)) else None in
    find_components accessible reads mb (Some (rev het))
  else
    let mb := if with_mb then Some (filter (fun p => pmem p homozygous) (keys_of accessible)) else None in
    find_components accessible reads mb None.

(* vcf.py:_set_PS / _set_HP write component + 1; ReadList.write: components[read[0].position] + 1.
   `gpos` maps a rank back to the genomic (0-based) position. *)
Definition lookup (m : list (nat * nat)) (p : nat) : option nat :=
  match List.find (fun e => Nat.eqb (fst e) p) m with Some e => Some (snd e) | None => None end.
Definition block_id (gpos : list Z) (comps : list (nat * nat)) (p : nat) : option Z :=
  match lookup comps p with Some c => Some (nth c gpos 0 + 1)%Z | None => None end.

(* find_largest_component: a sorted list of positions of a largest block *)
Definition block_members (comps : list (nat * nat)) (b : nat) : list nat :=
  map fst (filter (fun e => Nat.eqb (snd e) b) comps).

(* ---------------------------------------------------------------------------------------------- *)
(* specification side                                                                              *)

(* "two positions of P occur in one read (restricted to the het positions of that read's sample)"
   or "both in the master block" *)
Definition spec_positions (P : list nat) (het : option hetmap) (r : cread) : list nat :=
  filter (fun p => pmem p P &&
                   match het with
                   | None => true
                   | Some h => match het_lookup h (fst r) with Some hs => pmem p hs | None => false end
                   end) (snd r).
Definition all_pairs (l : list nat) : list (nat * nat) := flat_map (fun x => map (fun y => (x, y)) l) l.
Definition spec_edges (P : list nat) (reads : list cread) (mb : option (list nat)) (het : option hetmap)
  : list (nat * nat) :=
  flat_map (fun r => all_pairs (spec_positions P het r)) reads ++
  match mb with None => [] | Some m => all_pairs m end.

Definition linked (P : list nat) (reads : list cread) (mb : option (list nat)) (het : option hetmap)
    (x y : nat) : Prop :=
  (exists r, In r reads /\ In x (spec_positions P het r) /\ In y (spec_positions P het r)) \/
  (exists m, mb = Some m /\ In x m /\ In y m).

Definition assoc_eqb (a b : list (nat * nat)) : bool :=
  (length a =? length b) && forallb (fun p => Nat.eqb (fst (fst p)) (fst (snd p)) && Nat.eqb (snd (fst p)) (snd (snd p)))
                                    (combine a b).

(* Table-based label propagation: the same computation as UFSpec.naive_min (|keys| rounds of "both ends
   of every edge take the smaller label"), with the labels kept in an association list so that all
   minima of a case are computed once (ComponentsProofs.min_table_naive_min: equal to naive_min). *)
Definition ltab := list (nat * nat).
Definition tget (t : ltab) (z : nat) : nat :=
  match List.find (fun e => Nat.eqb (fst e) z) t with Some e => snd e | None => z end.
Definition trelax1 (t : ltab) (e : nat * nat) : ltab :=
  let m := Nat.min (tget t (fst e)) (tget t (snd e)) in
  map (fun kv => if Nat.eqb (fst kv) (fst e) || Nat.eqb (fst kv) (snd e) then (fst kv, m) else kv) t.
Definition trelax (ms : list (nat * nat)) (t : ltab) : ltab := fold_left trelax1 ms t.
Fixpoint titer (n : nat) (ms : list (nat * nat)) (t : ltab) : ltab :=
  match n with 0 => t | S n' => titer n' ms (trelax ms t) end.
(* the same iteration, stopping as soon as a round changes nothing (ComponentsProofs.titer_fix_eq) *)
Fixpoint ltab_eqb (a b : ltab) : bool :=
  match a, b with
  | [], [] => true
  | x :: a', y :: b' => Nat.eqb (fst x) (fst y) && Nat.eqb (snd x) (snd y) && ltab_eqb a' b'
  | _, _ => false
  end.
Fixpoint titer_fix (n : nat) (ms : list (nat * nat)) (t : ltab) : ltab :=
  match n with
  | 0 => t
  | S n' => let t' := trelax ms t in if ltab_eqb t' t then t else titer_fix n' ms t'
  end.
Definition min_table (keys : list nat) (ms : list (nat * nat)) : ltab :=
  titer_fix (length keys) ms (map (fun k => (k, k)) keys).
Definition spec_table (P : list nat) (reads : list cread) (mb : option (list nat)) (het : option hetmap) : ltab :=
  min_table (keys_of P) (spec_edges P reads mb het).

(* L1: the returned dict (sorted by key) has exactly the keys of P and maps every position to the
   minimum of its class under the closure of `linked` *)
Definition components_ok (P : list nat) (reads : list cread) (mb : option (list nat)) (het : option hetmap)
    (d : list (nat * nat)) : bool :=
  let t := spec_table P reads mb het in
  assoc_eqb d (map (fun p => (p, tget t p)) (keys_of P)).

(* the identifier the property demands for position p: 1 + genomic position of the leftmost variant of
   p's class *)
Definition spec_block_id (gpos : list Z) (t : ltab) (p : nat) : Z := (nth (tget t p) gpos 0 + 1)%Z.
Definition ids_ok (gpos : list Z) (P : list nat) (reads : list cread) (mb : option (list nat))
    (het : option hetmap) (obs : list (nat * Z)) : bool :=
  let t := spec_table P reads mb het in
  forallb (fun o => pmem (fst o) P && Z.eqb (snd o) (spec_block_id gpos t (fst o))) obs.

(* L2: the model's answer *)
Definition result_eqb (a b : list (nat * nat) + err) : bool :=
  match a, b with
  | inl x, inl y => assoc_eqb x y
  | inr KeyError, inr KeyError => true
  | inr AssertionError, inr AssertionError => true
  | _, _ => false
  end.
