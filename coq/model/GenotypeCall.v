(* Executable model of the step from genotype likelihoods to the VCF fields GT / GQ / GL (property C08):
     whatshap/cli/genotype.py: determine_genotype (stable sort of the three likelihoods, unique maximum
       above the threshold, otherwise the "none" genotype), gt_prob = 1 - 10^(-gt_qual_threshold/10);
     whatshap/vcf.py: GenotypeVcfWriter.write_genotypes (GQ from the summed likelihoods of the other
       genotypes, rounded phred value capped at 10000; GL = log10, floor -1000; GT = the genotype).
   Numbers are exact rationals (stdlib Q); log10 / round are characterised by exact inequalities between
   rationals: for an integer n and m > 0,
        n - 1/2 <= -10 log10 m <= n + 1/2     <->     10^-(2n+1) <= m^20 <= 10^-(2n-1).
   stdlib style. Model and executable specification side only: no lemmas here. *)
From Coq Require Import ZArith QArith Qabs List Bool.
Import ListNotations.
Open Scope Q_scope.

(* ---------------------------------------------------------------- determine_genotype *)
(* list.sort(key = likelihood) on three (likelihood, index) pairs: stable insertion sort, ascending *)
Fixpoint insert_by (x : Q * nat) (l : list (Q * nat)) : list (Q * nat) :=
  match l with
  | [] => [x]
  | y :: l' => if Qlt_le_dec (fst y) (fst x) then y :: insert_by x l' else x :: l
  end.
(* python's sort is stable: equal keys keep their input order.  The elements are inserted starting
   from the right end of the input, each in front of the first element that is not smaller. *)
Definition sort3 (l : list (Q * nat)) : list (Q * nat) := fold_right insert_by [] l.

(* result: Some g (genotype index 0, 1, 2) or None (the "none" genotype, written ./.) *)
Definition determine_genotype (l0 l1 l2 thr : Q) : option nat :=
  match sort3 [(l0, 0%nat); (l1, 1%nat); (l2, 2%nat)] with
  | [_; second; top] =>
      if Qlt_le_dec (fst second) (fst top) then
        if Qlt_le_dec thr (fst top) then Some (snd top) else None
      else None
  | _ => None
  end.

(* ---------------------------------------------------------------- GQ *)
Definition nthq (l : list Q) (i : nat) : Q := nth i l 0.
(* geno_q = sum(geno_l[i] for i in range(n_genotypes) if i != geno_index) *)
Definition other_mass (l : list Q) (gi : nat) : Q :=
  fold_right Qplus 0 (map snd (filter (fun p => negb (Nat.eqb (fst p) gi)) (combine (seq 0 (length l)) l))).
Definition sumq (l : list Q) : Q := fold_right Qplus 0 l.

Definition pow10 (k : Z) : Q := (10 # 1) ^ k.
(* n is a correct rounding of -10 log10 m to an integer (either neighbour at an exact tie) *)
Definition phred_round (m : Q) (n : Z) : bool :=
  Qle_bool (pow10 (- (2 * n + 1))) (m ^ 20) && Qle_bool (m ^ 20) (pow10 (- (2 * n - 1))).
(* the GQ rule of write_genotypes for a called genotype: min(round(-10 log10 mass), 10000) if mass > 0,
   else 10000 *)
Definition gq_rule (mass : Q) (gq : Z) : bool :=
  if Qlt_le_dec 0 mass then
    if (gq =? 10000)%Z then
      (* round(..) >= 10000 (either neighbour at the tie) *)
      Qle_bool (mass ^ 20) (pow10 (- (2 * 10000 - 1)))
    else if (gq <? 10000)%Z then phred_round mass gq else false
  else (gq =? 10000)%Z.
(* the same allowing for a relative perturbation eps of the mass (the implementation sums doubles and
   takes a floating point logarithm: next to a rounding boundary either neighbour is acceptable) *)
Definition gq_rule_tol (eps mass : Q) (gq : Z) : bool :=
  gq_rule mass gq || gq_rule (mass * (1 + eps)) gq || gq_rule (mass * (1 - eps)) gq.

(* ---------------------------------------------------------------- the record written for one call *)
(* what the writer derives from the likelihoods l = [l0; l1; l2] and the threshold:
   GT (None = ./.), and for a called genotype the mass entering GQ *)
Definition call_gt (l : list Q) (thr : Q) : option nat :=
  determine_genotype (nthq l 0) (nthq l 1) (nthq l 2) thr.
Definition call_mass (l : list Q) (thr : Q) : option Q :=
  match call_gt l thr with Some g => Some (other_mass l g) | None => None end.

(* ---------------------------------------------------------------- specification side *)
(* q rounded (towards zero) to 80 significant bits: |qround q - q| <= 2^-79 |q|.  Used by the
   correspondence check before the slack-tolerant rules below are evaluated on exact model values whose
   numerators and denominators have thousands of digits. *)
Definition qround (q : Q) : Q :=
  let n := Qnum q in
  let d := Zpos (Qden q) in
  if (n =? 0)%Z then 0 else
  let e := (Z.log2 d - Z.log2 (Z.abs n) + 80)%Z in
  if (0 <=? e)%Z then Qmake (Z.quot (n * 2 ^ e) d) (Z.to_pos (2 ^ e)) else q.

(* g is the unique maximum of l and exceeds the threshold *)
Definition unique_max_above (l : list Q) (thr : Q) (g : nat) : Prop :=
  (g < 3)%nat /\ thr < nthq l g /\ forall h, (h < 3)%nat -> h <> g -> nthq l h < nthq l g.

(* boolean versions with a relative slack eps, for values that went through float formatting:
   "g may be called": no other entry is larger by more than the slack and g is not below the threshold
   by more than the slack; "no call may be made": no entry is a clear unique maximum above the threshold *)
Definition qclose (eps a b : Q) : bool := Qle_bool (Qabs (a - b)) (eps * Qabs b + (1 # 1000000000000000000000000000000)).
Definition may_call (eps : Q) (l : list Q) (thr : Q) (g : nat) : bool :=
  (g <? 3)%nat &&
  forallb (fun h => Nat.eqb h g || Qle_bool (nthq l h) (nthq l g * (1 + eps))) [0; 1; 2]%nat &&
  Qle_bool (thr * (1 - eps)) (nthq l g * (1 + eps)).
Definition clear_call (eps : Q) (l : list Q) (thr : Q) (g : nat) : bool :=
  forallb (fun h => Nat.eqb h g || negb (Qle_bool (nthq l g * (1 - eps)) (nthq l h))) [0; 1; 2]%nat &&
  negb (Qle_bool (nthq l g * (1 - eps)) (thr * (1 + eps))).
Definition gt_ok (eps : Q) (l : list Q) (thr : Q) (gt : option nat) : bool :=
  match gt with
  | Some g => may_call eps l thr g
  | None => negb (existsb (clear_call eps l thr) [0; 1; 2]%nat)
  end.
(* the written GL triple (as 10^GL, rationals) is a distribution up to the formatting precision *)
Definition gl_distribution (eps : Q) (p : list Q) : bool :=
  (length p =? 3)%nat && forallb (fun x => Qle_bool 0 x) p && qclose eps (sumq p) 1.
