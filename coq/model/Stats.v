(* C12 — executable model of `whatshap stats` (whatshap/cli/stats.py) and of the part of
   VcfReader(phases=True) it relies on (whatshap/vcf.py), followed by the executable specification
   side (independent counts over the record list).  No lemmas in this file.

   Modelling decisions (also listed in harness/props/C12.py:TRUSTED):
   * a record is (0-based position, is-SNV flag, number of ALT alleles, the call of the selected sample);
     a call is what pysam reports: GT tuple (None = no GT key), `phased` flag, PS (key absent / "." / value),
     block id of the HP tag (None = HP absent or ".").
   * VcfVariant comparison / hashing is modelled by the position only: VcfReader never lets two variants of
     one chromosome share a position (duplicated positions are skipped), so `variant < other` is `pos < pos`
     and the `phases` dict of a PhasedBlock never sees the same key twice.
   * PhasedBlock.chromosome is not a field of the model block: get_nonoverlapping_blocks is only reached
     through add_blocks on a fresh per-chromosome PhasingStats, where all blocks carry the same chromosome
     (the `block.chromosome == next_block.chromosome` test is then true and the sort key is the position).
     The chromosome that compute_ng50 reads off the split blocks is kept as a tag next to each split block.
   * leftmost/rightmost of an empty PhasedBlock (None in python) are 0 here; they are never read for an
     empty block.
   * floats (medians, averages, fractions) are not modelled; `0.5 * target` in n50 is modelled exactly
     as 2*total >= target (exact for integers below 2^53).
   * error values: VcfNotSortedError, invalid contig on fetch, the TypeError of sorted() on mixed None/int
     phase-set ids, the `assert split_left <= split_right`, the `assert phased+unphased+singletons ==
     heterozygous` of DetailedStats.print, statistics.median([]) — all are `None`/error constructors. *)
From Coq Require Import ZArith List Bool Arith Sorted.
Import ListNotations.
Open Scope Z_scope.

(* ------------------------------------------------------------------------------------------ *)
(* input                                                                                       *)
Inductive psfield := PSAbsent | PSMissing | PSVal (z : Z).
Record call := mkCall { c_gt : option (list (option Z)); c_phased : bool; c_ps : psfield; c_hp : option Z }.
Record vrec := mkRec { r_pos : Z; r_snv : bool; r_nalts : nat; r_call : call }.

(* The two rules in which the code as found deviates from the property; each can be switched
   to its repaired form. *)
Record rules := mkRules {
  skip_missing_gt : bool;   (* false: `./.`, `0/.` fall through `genotype.is_homozygous()` and are counted heterozygous (F4) *)
  ps_missing_unphased : bool (* false: a phased call with PS="." (block_id None) is put into a block named None *)
}.
Definition legacy_rules := mkRules false false.
Definition repaired_rules := mkRules true true.
(* the rules /repo currently implements: L2 of the correspondence check compares against these *)
Definition current_rules := repaired_rules.

Definition key := option Z.        (* VariantCallPhase.block_id: int or None *)
Definition key_eqb (a b : key) : bool :=
  match a, b with
  | None, None => true
  | Some x, Some y => x =? y
  | _, _ => false
  end.

(* ------------------------------------------------------------------------------------------ *)
(* vcf.py: genotype_code, Genotype.is_none / is_homozygous, _extract_HP_phase, _extract_GT_PS_phase *)
Fixpoint all_some (l : list (option Z)) : option (list Z) :=
  match l with
  | [] => Some []
  | None :: _ => None
  | Some a :: r => match all_some r with Some r' => Some (a :: r') | None => None end
  end.
(* Genotype([]) (the "none" genotype, ploidy 0) is the empty list *)
Definition genotype_code (gt : option (list (option Z))) : list Z :=
  match gt with
  | None => []
  | Some l => match all_some l with Some v => v | None => [] end
  end.
Definition is_none (g : list Z) : bool := match g with [] => true | _ => false end.
Definition is_homozygous (g : list Z) : bool :=
  match g with [] => false | a :: r => forallb (Z.eqb a) r end.

(* `not all(x == call["GT"][0] for x in call["GT"])` on the raw tuple (None == None) *)
Definition raw_het (gt : option (list (option Z))) : bool :=
  match gt with
  | Some (a :: r) => negb (forallb (key_eqb a) r)
  | _ => false
  end.

Definition extract_phase (c : call) : option key :=
  match c_hp c with
  | Some b => Some (Some b)                                   (* _extract_HP_phase, tried first *)
  | None =>
      if c_phased c && raw_het (c_gt c) then                  (* _extract_GT_PS_phase *)
        Some (match c_ps c with
              | PSVal z => Some z
              | PSAbsent => Some 0                            (* call.get("PS", 0) *)
              | PSMissing => None                             (* PS present but ".": block_id None *)
              end)
      else None
  end.

(* ------------------------------------------------------------------------------------------ *)
(* vcf.py: VcfReader._process_single_chromosome (mav=False)                                   *)
Record trow := mkRow { t_pos : Z; t_snv : bool; t_gt : list Z; t_phase : option key }.
Definition row_of (r : vrec) : trow :=
  mkRow (r_pos r) (r_snv r) (genotype_code (c_gt (r_call r))) (extract_phase (r_call r)).

Inductive decision := DSkip | DError | DKeep.
Definition reader_decision (only_snvs : bool) (prev : option Z) (r : vrec) : decision :=
  if negb (Nat.eqb (r_nalts r) 1) then DSkip            (* no ALT / multi-ALT *)
  else if only_snvs && negb (r_snv r) then DSkip
  else match prev with
       | None => DKeep
       | Some p => if r_pos r <? p then DError          (* VcfNotSortedError *)
                   else if p =? r_pos r then DSkip      (* duplicated position *)
                   else DKeep
       end.

Fixpoint read_rows (only_snvs : bool) (prev : option Z) (recs : list vrec) : option (list trow) :=
  match recs with
  | [] => Some []
  | r :: rest =>
      match reader_decision only_snvs prev r with
      | DSkip => read_rows only_snvs prev rest
      | DError => None
      | DKeep => match read_rows only_snvs (Some (r_pos r)) rest with
                 | Some t => Some (row_of r :: t)
                 | None => None
                 end
      end
  end.

(* ------------------------------------------------------------------------------------------ *)
(* python `sorted`: stable insertion sort; `before x y` = x must come before y                 *)
Fixpoint insert_by {A} (before : A -> A -> bool) (x : A) (l : list A) : list A :=
  match l with
  | [] => [x]
  | y :: l' => if before x y then x :: l else y :: insert_by before x l'
  end.
Definition sort_by {A} (before : A -> A -> bool) (l : list A) : list A :=
  fold_left (fun acc x => insert_by before x acc) l [].

(* ------------------------------------------------------------------------------------------ *)
(* stats.py: PhasedBlock                                                                       *)
Record var := mkVar { v_pos : Z; v_snv : bool }.
Record pblock := mkPB { pb_vars : list var; pb_lm : Z; pb_rm : Z }.
Definition pb_empty := mkPB [] 0 0.
Definition pb_len (b : pblock) : nat := length (pb_vars b).
Definition pb_add (b : pblock) (v : var) : pblock :=
  match pb_vars b with
  | [] => mkPB [v] (v_pos v) (v_pos v)
  | _ => mkPB (pb_vars b ++ [v])
              (if v_pos v <? pb_lm b then v_pos v else pb_lm b)
              (if pb_rm b <? v_pos v then v_pos v else pb_rm b)
  end.
Definition pb_of_vars (l : list var) : pblock := fold_left pb_add l pb_empty.
Definition pb_span (b : pblock) : Z := pb_rm b - pb_lm b.
Definition pb_count_snvs (b : pblock) : Z := Z.of_nat (length (filter v_snv (pb_vars b))).
(* split: `if pos < split_left: left.add  elif pos > split_right: right.add` *)
Definition pb_split (b : pblock) (sl sr : Z) : pblock * pblock :=
  (pb_of_vars (filter (fun v => v_pos v <? sl) (pb_vars b)),
   pb_of_vars (filter (fun v => negb (v_pos v <? sl) && (sr <? v_pos v)) (pb_vars b))).

(* ------------------------------------------------------------------------------------------ *)
(* stats.py: PhasingStats.get_nonoverlapping_blocks                                            *)
(* sorted(..., key = leftmost position, reverse=True): descending, stable *)
Definition before_desc (b y : pblock) : bool := pb_lm y <? pb_lm b.
Definition sort_desc (l : list pblock) : list pblock := sort_by before_desc l.

Inductive nres := NOk (pieces : list pblock) | NOutOfFuel | NAssert.

(* pool is the python list pos_sorted_blocks (popped from its end) *)
Fixpoint nonoverlap (fuel : nat) (pool acc : list pblock) : nres :=
  match fuel with
  | O => NOutOfFuel
  | S f =>
      match rev pool with
      | [] => NOk acc
      | block :: rrest =>
          match rrest with
          | [] => nonoverlap f [] (acc ++ [block])
          | next :: _ =>
              if pb_lm next <? pb_rm block then
                if pb_rm next <? pb_lm next then NAssert
                else
                  let lr := pb_split block (pb_lm next) (pb_rm next) in
                  let pool' := if Nat.ltb 1 (pb_len (snd lr))
                               then sort_desc (rev rrest ++ [snd lr]) else rev rrest in
                  if Nat.ltb (pb_len (fst lr)) 2 then nonoverlap f pool' acc
                  else nonoverlap f pool' (acc ++ [fst lr])
              else nonoverlap f (rev rrest) (acc ++ [block])
          end
      end
  end.

Definition sum_len (l : list pblock) : nat := fold_right (fun b n => (pb_len b + n)%nat) O l.
Definition nonoverlap_pool (blocks : list pblock) : list pblock :=
  filter (fun b => Nat.ltb 1 (pb_len b)) (sort_desc blocks).
(* the fuel: one more than the number of variants in the pool (each iteration removes at least one) *)
Definition get_nonoverlapping_blocks (blocks : list pblock) : nres :=
  nonoverlap (S (sum_len (nonoverlap_pool blocks))) (nonoverlap_pool blocks) [].

(* ------------------------------------------------------------------------------------------ *)
(* stats.py: PhasingStats, DetailedStats (integer fields + NG50)                               *)
Record pstats := mkPS {
  ps_blocks : list pblock;
  ps_split : list (Z * pblock);          (* split blocks, each with its chromosome id *)
  ps_unphased : Z; ps_variants : Z; ps_het : Z; ps_hetsnv : Z }.
Definition ps_empty := mkPS [] [] 0 0 0 0.
Definition ps_iadd (a b : pstats) : pstats :=
  mkPS (ps_blocks a ++ ps_blocks b) (ps_split a ++ ps_split b) (ps_unphased a + ps_unphased b)
       (ps_variants a + ps_variants b) (ps_het a + ps_het b) (ps_hetsnv a + ps_hetsnv b).
Definition ps_add_blocks (cid : Z) (st : pstats) (blocks : list pblock) : option pstats :=
  let bl := ps_blocks st ++ blocks in
  match get_nonoverlapping_blocks bl with
  | NOk pieces => Some (mkPS bl (ps_split st ++ map (fun p => (cid, p)) pieces)
                             (ps_unphased st) (ps_variants st) (ps_het st) (ps_hetsnv st))
  | _ => None
  end.

Record dstats := mkD {
  d_variants : Z; d_phased : Z; d_unphased : Z; d_singletons : Z; d_blocks : Z;
  d_vmin : Z; d_vmax : Z; d_vsum : Z; d_bmin : Z; d_bmax : Z; d_bsum : Z;
  d_het : Z; d_hetsnv : Z; d_phsnv : Z; d_n50 : option Z (* None = nan *) }.

Definition sort_asc (l : list Z) : list Z := sort_by Z.ltb l.
Definition zsum (l : list Z) : Z := fold_right Z.add 0 l.

(* n50(lengths, target): lengths sorted descending = reverse of ascending *)
Fixpoint n50_loop (ls : list Z) (total target : Z) : Z :=
  match ls with
  | [] => 0
  | l :: r => if target <=? 2 * (total + l) then l else n50_loop r (total + l) target
  end.
Definition n50 (lengths : list Z) (target : Z) : Z := n50_loop (rev (sort_asc lengths)) 0 target.
Fixpoint zmem (x : Z) (l : list Z) : bool :=
  match l with [] => false | y :: r => (x =? y) || zmem x r end.
Fixpoint znodup (l : list Z) : list Z :=
  match l with [] => [] | x :: r => if zmem x r then znodup r else x :: znodup r end.
Fixpoint sum_lengths (chrlen : Z -> option Z) (cs : list Z) : option Z :=
  match cs with
  | [] => Some 0
  | c :: r => match chrlen c, sum_lengths chrlen r with
              | Some a, Some b => Some (a + b)
              | _, _ => None                       (* KeyError -> nan *)
              end
  end.
Definition compute_ng50 (chrlen : Z -> option Z) (split : list (Z * pblock)) : option Z :=
  match sum_lengths chrlen (znodup (map fst split)) with
  | Some target => Some (n50 (map (fun cp => pb_span (snd cp)) split) target)
  | None => None
  end.

Definition get_detailed_stats (chrlen : Z -> option Z) (st : pstats) : option dstats :=
  let big := filter (fun b => Nat.ltb 1 (pb_len b)) (ps_blocks st) in
  let block_sizes := sort_asc (map (fun b => Z.of_nat (pb_len b)) big) in
  let n_singletons := Z.of_nat (length (filter (fun b => Nat.eqb (pb_len b) 1) (ps_blocks st))) in
  let block_lengths :=
      sort_asc (map (fun cp => pb_span (snd cp)) (filter (fun cp => Nat.ltb 1 (pb_len (snd cp))) (ps_split st))) in
  let phased_snvs := zsum (map pb_count_snvs big) in
  match block_sizes with
  | [] => Some (mkD (ps_variants st) 0 (ps_unphased st) n_singletons 0 0 0 0 0 0 0 (ps_het st) (ps_hetsnv st) 0 None)
  | _ :: _ =>
      match block_lengths with
      | [] => None                                     (* statistics.median([]) raises *)
      | _ :: _ =>
          Some (mkD (ps_variants st) (zsum block_sizes) (ps_unphased st) n_singletons
                    (Z.of_nat (length block_sizes))
                    (hd 0 block_sizes) (last block_sizes 0) (zsum block_sizes)
                    (hd 0 block_lengths) (last block_lengths 0) (zsum block_lengths)
                    (ps_het st) (ps_hetsnv st) phased_snvs (compute_ng50 chrlen (ps_split st)))
      end
  end.

(* ------------------------------------------------------------------------------------------ *)
(* stats.py: get_phase_blocks (with the GTF writer) and write_to_block_list                    *)
Record gtfblock := mkGB { gb_start : Z; gb_end : Z; gb_id : key }.
Record gstate := mkG {
  g_variants : Z; g_het : Z; g_hetsnv : Z; g_unph : Z;
  g_blocks : list (key * pblock);                 (* defaultdict(PhasedBlock), insertion ordered *)
  g_prev : gtfblock;
  g_gtf : list (Z * Z * Z) }.                     (* written features: start+1, stop, block id *)
Definition g_init := mkG 0 0 0 0 [] (mkGB 0 0 None) [].

Fixpoint dict_add (k : key) (v : var) (d : list (key * pblock)) : list (key * pblock) :=
  match d with
  | [] => [(k, pb_add pb_empty v)]
  | (k', b) :: d' => if key_eqb k' k then (k', pb_add b v) :: d' else (k', b) :: dict_add k v d'
  end.

Definition gtf_step (pos : Z) (k : key) (prev : gtfblock) (out : list (Z * Z * Z)) : gtfblock * list (Z * Z * Z) :=
  match gb_id prev with
  | None => (mkGB pos (pos + 1) k, out)            (* `prev_block.id is None`: also true for a block id None *)
  | Some pid =>
      if key_eqb (Some pid) k then (mkGB (gb_start prev) (pos + 1) (gb_id prev), out)
      else (mkGB pos (pos + 1) k, out ++ [(gb_start prev + 1, gb_end prev, pid)])
  end.

(* `if phase is None:` in the code as found; `if phase is None or phase.block_id is None:` repaired *)
Definition eff_phase (R : rules) (row : trow) : option key :=
  match t_phase row with
  | Some None => if ps_missing_unphased R then None else Some None
  | x => x
  end.

Definition gpb_step (R : rules) (s : gstate) (row : trow) : gstate :=
  let v1 := g_variants s + 1 in
  if is_homozygous (t_gt row) then
    mkG v1 (g_het s) (g_hetsnv s) (g_unph s) (g_blocks s) (g_prev s) (g_gtf s)
  else if skip_missing_gt R && is_none (t_gt row) then           (* the repaired rule; absent in the code as found *)
    mkG v1 (g_het s) (g_hetsnv s) (g_unph s) (g_blocks s) (g_prev s) (g_gtf s)
  else
    let h := g_het s + 1 in
    let hs := if t_snv row then g_hetsnv s + 1 else g_hetsnv s in
    match eff_phase R row with
    | None => mkG v1 h hs (g_unph s + 1) (g_blocks s) (g_prev s) (g_gtf s)
    | Some k =>
        let pg := gtf_step (t_pos row) k (g_prev s) (g_gtf s) in
        mkG v1 h hs (g_unph s) (dict_add k (mkVar (t_pos row) (t_snv row)) (g_blocks s)) (fst pg) (snd pg)
    end.

Definition gtf_finish (s : gstate) : list (Z * Z * Z) :=
  match gb_id (g_prev s) with
  | None => g_gtf s
  | Some pid => g_gtf s ++ [(gb_start (g_prev s) + 1, gb_end (g_prev s), pid)]
  end.

Definition get_phase_blocks (R : rules) (rows : list trow) : gstate := fold_left (gpb_step R) rows g_init.

(* sorted(blocks.keys()): TypeError when None and an int are compared *)
Definition key_ltb (a b : key) : bool :=
  match a, b with
  | None, Some _ => true
  | Some x, Some y => x <? y
  | _, _ => false
  end.
Definition before_key (e y : key * pblock) : bool := key_ltb (fst e) (fst y).
Definition sort_keys (d : list (key * pblock)) : list (key * pblock) := sort_by before_key d.
Definition is_nonek (k : key) : bool := match k with None => true | Some _ => false end.
Definition mixed_keys (d : list (key * pblock)) : bool :=
  existsb (fun kb => is_nonek (fst kb)) d && existsb (fun kb => negb (is_nonek (fst kb))) d.
Definition bl_line (kb : key * pblock) : key * Z * Z * Z :=
  (fst kb, pb_lm (snd kb) + 1, pb_rm (snd kb) + 1, Z.of_nat (pb_len (snd kb))).
Definition write_to_block_list (d : list (key * pblock)) : option (list (key * Z * Z * Z)) :=
  if mixed_keys d then None else Some (map bl_line (sort_keys d)).

(* ------------------------------------------------------------------------------------------ *)
(* stats.py: run_stats (with --tsv, --block-list and --gtf given)                              *)
Definition print_ok (d : dstats) : bool := d_phased d + d_unphased d + d_singletons d =? d_het d.

Record chrom_result := mkCR {
  cr_stats : pstats; cr_row : dstats; cr_blocklist : list (key * Z * Z * Z); cr_gtf : list (Z * Z * Z) }.

(* one chromosome: get_phase_blocks, write_to_block_list, add_blocks, get_detailed_stats, print *)
Definition process_rows (R : rules) (chrlen : Z -> option Z) (cid : Z) (rows : list trow) : option chrom_result :=
  let g := get_phase_blocks R rows in
  match write_to_block_list (g_blocks g) with
  | None => None
  | Some bl =>
      match ps_add_blocks cid (mkPS [] [] (g_unph g) (g_variants g) (g_het g) (g_hetsnv g)) (map snd (g_blocks g)) with
      | None => None
      | Some st =>
          match get_detailed_stats chrlen st with
          | None => None
          | Some d => if print_ok d then Some (mkCR st d bl (gtf_finish g)) else None
          end
      end
  end.

Record output := mkOut {
  o_rows : list (Z * dstats);                    (* per-chromosome TSV rows in output order *)
  o_all : option dstats;                         (* the ALL row *)
  o_blocklist : list (Z * (key * Z * Z * Z));
  o_gtf : list (Z * (Z * Z * Z)) }.

Definition subset (a b : list Z) : bool := forallb (fun x => zmem x b) a.

(* how a run ends: normally, or with an exception (classes as the harness reads them off stderr) *)
Inductive errkind := ENotSorted | EInvalidContig | ETypeError | EOther.
Inductive rresult := ROk (o : output) | RErr (e : errkind).

Definition finish (chrlen : Z -> option Z) (seen : list Z) (total : pstats)
           (rows : list (Z * dstats)) (bl : list (Z * (key * Z * Z * Z))) (gtf : list (Z * (Z * Z * Z))) : rresult :=
  if Nat.ltb 1 (length (znodup seen)) then
    match get_detailed_stats chrlen total with
    | Some d => if print_ok d then ROk (mkOut rows (Some d) bl gtf) else RErr EOther
    | None => RErr EOther
    end
  else ROk (mkOut rows None bl gtf).

(* todo: the variant tables still to come: (chromosome id, Some records) or (id, None) = fetch of a
   contig the header does not have (VcfInvalidChromosome) *)
Fixpoint run_loop (R : rules) (only_snvs : bool) (chrlen : Z -> option Z) (given : list Z)
         (todo : list (Z * option (list vrec))) (seen : list Z) (total : pstats)
         (rows : list (Z * dstats)) (bl : list (Z * (key * Z * Z * Z))) (gtf : list (Z * (Z * Z * Z))) : rresult :=
  match todo with
  | [] => finish chrlen seen total rows bl gtf
  | (cid, None) :: _ => RErr EInvalidContig
  | (cid, Some recs) :: rest =>
      match read_rows only_snvs None recs with
      | None => RErr ENotSorted
      | Some trows =>
          let seen' := cid :: seen in
          if negb (match given with [] => true | _ => false end) && negb (zmem cid given) then
            run_loop R only_snvs chrlen given rest seen' total rows bl gtf
          else
            match process_rows R chrlen cid trows with
            | None => RErr (if mixed_keys (g_blocks (get_phase_blocks R trows)) then ETypeError else EOther)
            | Some cr =>
                let total' := ps_iadd total (cr_stats cr) in
                let rows' := rows ++ [(cid, cr_row cr)] in
                let bl' := bl ++ map (fun l => (cid, l)) (cr_blocklist cr) in
                let gtf' := gtf ++ map (fun l => (cid, l)) (cr_gtf cr) in
                if negb (match given with [] => true | _ => false end) && subset given seen' then
                  finish chrlen seen' total' rows' bl' gtf'
                else run_loop R only_snvs chrlen given rest seen' total' rows' bl' gtf'
            end
      end
  end.

Fixpoint lookup_len (header : list (Z * option Z)) (c : Z) : option Z :=
  match header with
  | [] => None
  | (c', l) :: r => if c' =? c then l else lookup_len r c
  end.
Fixpoint lookup_recs (groups : list (Z * list vrec)) (c : Z) : list vrec :=
  match groups with
  | [] => []
  | (c', l) :: r => if c' =? c then l else lookup_recs r c
  end.

(* header: contigs of the VCF header with their lengths; groups: the records of the file grouped by
   chromosome in file order; given: --chromosome (unpacked); indexed: a .tbi/.csi index exists *)
Definition run_stats (R : rules) (only_snvs indexed : bool) (header : list (Z * option Z))
           (groups : list (Z * list vrec)) (given : list Z) : rresult :=
  let todo :=
      if indexed && negb (match given with [] => true | _ => false end) then
        map (fun c => (c, if zmem c (map fst header) then Some (lookup_recs groups c) else None)) given
      else map (fun g => (fst g, Some (snd g))) groups in
  run_loop R only_snvs (lookup_len header) given todo [] ps_empty [] [] [].

(* ------------------------------------------------------------------------------------------ *)
(* comparison with the implementation's outputs (L2)                                           *)
Definition oz_eqb := key_eqb.
Definition dstats_eqb (a b : dstats) : bool :=
  (d_variants a =? d_variants b) && (d_phased a =? d_phased b) && (d_unphased a =? d_unphased b) &&
  (d_singletons a =? d_singletons b) && (d_blocks a =? d_blocks b) && (d_vmin a =? d_vmin b) &&
  (d_vmax a =? d_vmax b) && (d_vsum a =? d_vsum b) && (d_bmin a =? d_bmin b) && (d_bmax a =? d_bmax b) &&
  (d_bsum a =? d_bsum b) && (d_het a =? d_het b) && (d_hetsnv a =? d_hetsnv b) && (d_phsnv a =? d_phsnv b) &&
  oz_eqb (d_n50 a) (d_n50 b).
Fixpoint list_eqb {A} (eqb : A -> A -> bool) (a b : list A) : bool :=
  match a, b with
  | [], [] => true
  | x :: a', y :: b' => eqb x y && list_eqb eqb a' b'
  | _, _ => false
  end.
Definition row_eqb (a b : Z * dstats) : bool := (fst a =? fst b) && dstats_eqb (snd a) (snd b).
Definition blline_eqb (a b : key * Z * Z * Z) : bool :=
  match a, b with (k, f, t, n), (k', f', t', n') => key_eqb k k' && (f =? f') && (t =? t') && (n =? n') end.
Definition cbl_eqb (a b : Z * (key * Z * Z * Z)) : bool := (fst a =? fst b) && blline_eqb (snd a) (snd b).
Definition gtfline_eqb (a b : Z * (Z * Z * Z)) : bool :=
  match a, b with (c, (s, e, i)), (c', (s', e', i')) => (c =? c') && (s =? s') && (e =? e') && (i =? i') end.
Definition odstats_eqb (a b : option dstats) : bool :=
  match a, b with None, None => true | Some x, Some y => dstats_eqb x y | _, _ => false end.
Definition output_eqb (a b : output) : bool :=
  list_eqb row_eqb (o_rows a) (o_rows b) && odstats_eqb (o_all a) (o_all b) &&
  list_eqb cbl_eqb (o_blocklist a) (o_blocklist b) && list_eqb gtfline_eqb (o_gtf a) (o_gtf b).
Definition errkind_eqb (a b : errkind) : bool :=
  match a, b with
  | ENotSorted, ENotSorted | EInvalidContig, EInvalidContig | ETypeError, ETypeError | EOther, EOther => true
  | _, _ => false
  end.
Definition rresult_eqb (a b : rresult) : bool :=
  match a, b with ROk x, ROk y => output_eqb x y | RErr x, RErr y => errkind_eqb x y | _, _ => false end.

(* ========================================================================================== *)
(* SPECIFICATION SIDE: independent counts over the record list of one chromosome              *)
(* ========================================================================================== *)

(* which records are counted: biallelic (exactly one ALT), an SNV under --only-snvs, and the first
   such record at its position *)
Definition eligible (only_snvs : bool) (r : vrec) : bool :=
  Nat.eqb (r_nalts r) 1 && (negb only_snvs || r_snv r).
Fixpoint counted_from (only_snvs : bool) (earlier : list Z) (recs : list vrec) : list vrec :=
  match recs with
  | [] => []
  | r :: rest =>
      if eligible only_snvs r then
        if zmem (r_pos r) earlier then counted_from only_snvs earlier rest
        else r :: counted_from only_snvs (r_pos r :: earlier) rest
      else counted_from only_snvs earlier rest
  end.
Definition counted (only_snvs : bool) (recs : list vrec) : list vrec := counted_from only_snvs [] recs.

(* a call is heterozygous iff every allele is called and two of them differ *)
Definition spec_het (c : call) : bool :=
  match c_gt c with
  | None => false
  | Some l => match all_some l with
              | None => false
              | Some g => existsb (fun a => existsb (fun b => negb (a =? b)) g) g
              end
  end.
(* the phase set a call belongs to: the HP block, else for a `|` genotype its PS value, 0 when the record
   has no PS key at all (whole-chromosome phasing without phase sets); a `|` genotype whose PS is "."
   names no phase set and counts as unphased *)
Definition spec_phase_set (c : call) : option Z :=
  match c_hp c with
  | Some b => Some b
  | None => if c_phased c then match c_ps c with PSVal z => Some z | PSAbsent => Some 0 | PSMissing => None end
            else None
  end.

Definition hets (cs : list vrec) : list vrec := filter (fun r => spec_het (r_call r)) cs.
Definition in_set (id : Z) (r : vrec) : bool :=
  match spec_phase_set (r_call r) with Some i => i =? id | None => false end.
Definition set_members (hs : list vrec) (id : Z) : list vrec := filter (in_set id) hs.
Definition set_size (hs : list vrec) (id : Z) : nat := length (set_members hs id).
Definition count {A} (p : A -> bool) (l : list A) : Z := Z.of_nat (length (filter p l)).
(* size of the phase set of record r (0 for an unphased call) *)
Definition own_set_size (hs : list vrec) (r : vrec) : nat :=
  match spec_phase_set (r_call r) with Some i => set_size hs i | None => O end.
Fixpoint set_ids (hs : list vrec) : list Z :=
  match hs with
  | [] => []
  | r :: rest => match spec_phase_set (r_call r) with Some i => i :: set_ids rest | None => set_ids rest end
  end.
Definition distinct_ids (hs : list vrec) : list Z := sort_asc (znodup (set_ids hs)).
Definition zmin_list (d : Z) (l : list Z) : Z := match l with [] => d | x :: r => fold_left Z.min r x end.
Definition zmax_list (d : Z) (l : list Z) : Z := match l with [] => d | x :: r => fold_left Z.max r x end.

Record spec_counts := mkSC {
  s_variants : Z; s_het : Z; s_hetsnv : Z; s_phased : Z; s_unphased : Z; s_singletons : Z; s_blocks : Z;
  s_vmin : Z; s_vmax : Z; s_phsnv : Z;
  s_span : Z;                                   (* covered span: max - min position over all phased variants *)
  s_blocklist : list (Z * Z * Z * Z) }.         (* id, first position (1-based), last position, size *)

Definition spec_of (only_snvs : bool) (recs : list vrec) : spec_counts :=
  let cs := counted only_snvs recs in
  let hs := hets cs in
  let ids := distinct_ids hs in
  let big_ids := filter (fun i => Nat.ltb 1 (set_size hs i)) ids in
  let sizes := map (fun i => Z.of_nat (set_size hs i)) big_ids in
  let phased_recs := filter (fun r => Nat.ltb 1 (own_set_size hs r)) hs in
  let ppos := map r_pos phased_recs in
  mkSC (Z.of_nat (length cs)) (Z.of_nat (length hs)) (count r_snv hs)
       (Z.of_nat (length phased_recs))
       (count (fun r => match spec_phase_set (r_call r) with None => true | Some _ => false end) hs)
       (count (fun r => Nat.eqb (own_set_size hs r) 1) hs)
       (Z.of_nat (length big_ids))
       (zmin_list 0 sizes) (zmax_list 0 sizes)
       (count r_snv phased_recs)
       (zmax_list 0 ppos - zmin_list 0 ppos)
       (map (fun i => let m := map r_pos (set_members hs i) in
                      (i, zmin_list 0 m + 1, zmax_list 0 m + 1, Z.of_nat (length m))) ids).

(* L1 for one per-chromosome row + its block-list lines *)
Definition spec_blline_eqb (a : key * Z * Z * Z) (b : Z * Z * Z * Z) : bool :=
  match a, b with (k, f, t, n), (i, f', t', n') => key_eqb k (Some i) && (f =? f') && (t =? t') && (n =? n') end.
Fixpoint list_eqb2 {A B} (eqb : A -> B -> bool) (a : list A) (b : list B) : bool :=
  match a, b with
  | [], [] => true
  | x :: a', y :: b' => eqb x y && list_eqb2 eqb a' b'
  | _, _ => false
  end.
(* the counting identities the property states, on a reported row and its block-list lines *)
Definition identities_ok (d : dstats) (bl : list (key * Z * Z * Z)) : bool :=
  (d_phased d + d_unphased d + d_singletons d =? d_het d) &&
  (d_vsum d =? d_phased d) &&
  (zsum (map (fun l => snd l) (filter (fun l => 1 <? snd l) bl)) =? d_phased d) &&
  (count (fun l => 1 <? snd l) bl =? d_blocks d) &&
  (count (fun l => snd l =? 1) bl =? d_singletons d).
Definition counts_ok (s : spec_counts) (d : dstats) : bool :=
  (d_variants d =? s_variants s) && (d_het d =? s_het s) && (d_hetsnv d =? s_hetsnv s) &&
  (d_phased d =? s_phased s) && (d_unphased d =? s_unphased s) && (d_singletons d =? s_singletons s) &&
  (d_blocks d =? s_blocks s) && (d_vmin d =? s_vmin s) && (d_vmax d =? s_vmax s) && (d_phsnv d =? s_phsnv s).
Definition lengths_ok (s : spec_counts) (d : dstats) : bool :=
  (0 <=? d_bmin d) && (d_bmin d <=? d_bmax d) && (d_bmax d <=? d_bsum d) && (d_bsum d <=? s_span s).
(* the non-overlapping pieces, determined independently of the dictionary the code builds: the phase sets of the
   heterozygous records (in order of first occurrence), each as the block of its members, handed to the splitting
   procedure whose output is proved to consist of pairwise non-overlapping sub-ranges (C12_pieces_disjoint) *)
Definition first_ids (ids : list Z) : list Z :=
  fold_left (fun acc i => if zmem i acc then acc else acc ++ [i]) ids [].
Definition spec_blocks (hs : list vrec) : list pblock :=
  map (fun i => pb_of_vars (map (fun r => mkVar (r_pos r) (r_snv r)) (set_members hs i))) (first_ids (set_ids hs)).
Definition spec_piece_lens (hs : list vrec) : option (list Z) :=
  match get_nonoverlapping_blocks (spec_blocks hs) with
  | NOk ps => Some (map pb_span ps)
  | _ => None
  end.
(* shortest / longest / sum of block lengths are those of the pieces (all 0 when there is none) *)
Definition pieces_ok (only_snvs : bool) (recs : list vrec) (d : dstats) : bool :=
  match spec_piece_lens (hets (counted only_snvs recs)) with
  | Some [] => (d_bmin d =? 0) && (d_bmax d =? 0) && (d_bsum d =? 0)
  | Some lens => (d_bmin d =? zmin_list 0 lens) && (d_bmax d =? zmax_list 0 lens) && (d_bsum d =? zsum lens)
  | None => false
  end.

Definition l1_row (only_snvs : bool) (recs : list vrec) (d : dstats) (bl : list (key * Z * Z * Z)) : bool :=
  let s := spec_of only_snvs recs in
  identities_ok d bl && counts_ok s d && lengths_ok s d && list_eqb2 spec_blline_eqb bl (s_blocklist s) &&
  pieces_ok only_snvs recs d.
(* used only to name a failure class: everything but the block-length fields *)
Definition l1_row_nolen (only_snvs : bool) (recs : list vrec) (d : dstats) (bl : list (key * Z * Z * Z)) : bool :=
  let s := spec_of only_snvs recs in
  identities_ok d bl && counts_ok s d && list_eqb2 spec_blline_eqb bl (s_blocklist s).

(* the ALL row: field-wise sum of the per-chromosome rows (min / max over the rows that have blocks) *)
Definition row_add (a b : dstats) : dstats :=
  mkD (d_variants a + d_variants b) (d_phased a + d_phased b) (d_unphased a + d_unphased b)
      (d_singletons a + d_singletons b) (d_blocks a + d_blocks b)
      (if d_blocks a =? 0 then d_vmin b else if d_blocks b =? 0 then d_vmin a else Z.min (d_vmin a) (d_vmin b))
      (if d_blocks a =? 0 then d_vmax b else if d_blocks b =? 0 then d_vmax a else Z.max (d_vmax a) (d_vmax b))
      (d_vsum a + d_vsum b)
      (if d_blocks a =? 0 then d_bmin b else if d_blocks b =? 0 then d_bmin a else Z.min (d_bmin a) (d_bmin b))
      (if d_blocks a =? 0 then d_bmax b else if d_blocks b =? 0 then d_bmax a else Z.max (d_bmax a) (d_bmax b))
      (d_bsum a + d_bsum b)
      (d_het a + d_het b) (d_hetsnv a + d_hetsnv b) (d_phsnv a + d_phsnv b) None.
Definition row_zero := mkD 0 0 0 0 0 0 0 0 0 0 0 0 0 0 None.
Definition row_sum (rows : list dstats) : dstats := fold_left row_add rows row_zero.
(* equality of all integer fields (NG50 is not additive and not part of the property) *)
Definition dstats_int_eqb (a b : dstats) : bool :=
  dstats_eqb (mkD (d_variants a) (d_phased a) (d_unphased a) (d_singletons a) (d_blocks a) (d_vmin a) (d_vmax a)
                  (d_vsum a) (d_bmin a) (d_bmax a) (d_bsum a) (d_het a) (d_hetsnv a) (d_phsnv a) None)
             (mkD (d_variants b) (d_phased b) (d_unphased b) (d_singletons b) (d_blocks b) (d_vmin b) (d_vmax b)
                  (d_vsum b) (d_bmin b) (d_bmax b) (d_bsum b) (d_het b) (d_hetsnv b) (d_phsnv b) None).
Definition all_row_ok (rows : list (Z * dstats)) (all : option dstats) : bool :=
  match all with
  | None => true
  | Some a => dstats_int_eqb a (row_sum (map snd rows))
  end.

(* GTF: every written feature lies inside the extent of the phase set it names, features of one
   chromosome are written left to right without overlap *)
Fixpoint find_line (id : Z) (bl : list (Z * Z * Z * Z)) : option (Z * Z * Z * Z) :=
  match bl with
  | [] => None
  | (i, f, t, n) :: r => if i =? id then Some (i, f, t, n) else find_line id r
  end.
Fixpoint gtf_ok (bl : list (Z * Z * Z * Z)) (last_end : option Z) (g : list (Z * Z * Z)) : bool :=
  match g with
  | [] => true
  | (s, e, i) :: r =>
      match find_line i bl with
      | Some (_, f, t, _) =>
          (f <=? s) && (s <=? e) && (e <=? t) && (match last_end with None => true | Some le => le <? s end) &&
          gtf_ok bl (Some e) r
      | None => false
      end
  end.

(* L1 for a whole run.  `groups` as for run_stats.  Every reported row is checked against the records of
   its chromosome; without --chromosome every chromosome of the file must be reported, in file order;
   with --chromosome only (and, if present in the file, all of) the requested ones. *)
Definition lines_of {A} (cid : Z) (l : list (Z * A)) : list A := map snd (filter (fun x => fst x =? cid) l).
Definition l1_run_gen (rowchk : bool -> list vrec -> dstats -> list (key * Z * Z * Z) -> bool)
           (allchk : list (Z * dstats) -> option dstats -> bool)
           (only_snvs : bool) (groups : list (Z * list vrec)) (given : list Z) (out : output) : bool :=
  forallb (fun row =>
             let recs := lookup_recs groups (fst row) in
             rowchk only_snvs recs (snd row) (lines_of (fst row) (o_blocklist out)) &&
             gtf_ok (s_blocklist (spec_of only_snvs recs)) None (lines_of (fst row) (o_gtf out)))
          (o_rows out) &&
  allchk (o_rows out) (o_all out) &&
  match given with
  | [] => list_eqb Z.eqb (map fst (o_rows out)) (map fst groups)
  | _ => forallb (fun row => zmem (fst row) given) (o_rows out) &&
         forallb (fun c => negb (zmem c (map fst groups)) || zmem c (map fst (o_rows out))) given
  end &&
  forallb (fun l => zmem (fst l) (map fst (o_rows out))) (o_blocklist out) &&
  forallb (fun l => zmem (fst l) (map fst (o_rows out))) (o_gtf out).
Definition l1_run := l1_run_gen l1_row all_row_ok.

(* consequence for the ALL row (proved from l1_run): its sum of block lengths is at most the total covered
   span, i.e. the sum over the reported chromosomes of (max - min position over the members of the phase
   sets with >= 2 members) *)
Definition all_span_ok (only_snvs : bool) (groups : list (Z * list vrec)) (out : output) : bool :=
  match o_all out with
  | None => true
  | Some a => d_bsum a <=? zsum (map (fun row : Z * dstats => s_span (spec_of only_snvs (lookup_recs groups (fst row))))
                                   (o_rows out))
  end.

(* used only to name a failure class: l1_run with the three block-length fields of the ALL row left out *)
Definition nolen (d : dstats) : dstats :=
  mkD (d_variants d) (d_phased d) (d_unphased d) (d_singletons d) (d_blocks d) (d_vmin d) (d_vmax d)
      (d_vsum d) 0 0 0 (d_het d) (d_hetsnv d) (d_phsnv d) None.
Definition all_row_ok_nolen (rows : list (Z * dstats)) (all : option dstats) : bool :=
  match all with
  | None => true
  | Some a => dstats_eqb (nolen a) (nolen (row_sum (map snd rows)))
  end.
Definition l1_run_nolen := l1_run_gen l1_row all_row_ok_nolen.
(* ... and with the block-length fields of the per-chromosome rows left out as well *)
Definition l1_run_norowlen := l1_run_gen l1_row_nolen all_row_ok_nolen.

(* shape of one correspondence case written by harness/props/C12.py:
   ((only_snvs, indexed), header, groups, given, result of the implementation) *)
Definition case_t : Type :=
  ((bool * bool) * list (Z * option Z) * list (Z * list vrec) * list Z * rresult)%type.

(* ========================================================================================== *)
(* Prop-level vocabulary of the theorems in props/C12.v                                       *)
(* ========================================================================================== *)
(* a well-formed block: non-empty, leftmost / rightmost are positions of members and bound all members *)
Definition pb_wf (b : pblock) : Prop :=
  pb_vars b <> [] /\ In (pb_lm b) (map v_pos (pb_vars b)) /\ In (pb_rm b) (map v_pos (pb_vars b)) /\
  Forall (fun v => pb_lm b <= v_pos v <= pb_rm b) (pb_vars b).
Inductive subseq {A : Type} : list A -> list A -> Prop :=
| ss_nil : forall l, subseq [] l
| ss_cons : forall x a b, subseq a b -> subseq (x :: a) (x :: b)
| ss_skip : forall x a b, subseq a b -> subseq a (x :: b).
(* positions of the considered (biallelic, SNV under --only-snvs) records are non-decreasing:
   exactly the condition under which VcfReader accepts the chromosome *)
Definition sorted_recs (only_snvs : bool) (recs : list vrec) : Prop :=
  StronglySorted Z.le (map r_pos (filter (eligible only_snvs) recs)).
