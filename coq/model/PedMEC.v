(* Executable model of the exact (Ped)MEC solver of whatshap:
     src/pedigreedptable.cpp (compute_table / compute_column), src/pedigreecolumncostcomputer.cpp
     (constructor, set_partitioning, get_cost, get_alleles), src/pedigreepartitions.cpp,
     src/columniterator.cpp (which reads are active in a column), src/columnindexingscheme.cpp /
     columnindexingiterator.cpp (backward projection = low bits, forward projection = bits of the reads
     that are still active in the next column),
   together with the executable specification side (cost_of, opt_spec, optimal assignments).
   ssreflect style; everything is a plain structural recursion / foldr so that vm_compute evaluates it.
   Model only: no lemmas here.

   Conventions
     * costs are natural numbers, "infinity" (UINT_MAX in the code) is None, the exception
       "Mendelian conflict" is the result value Conflict;
     * reads are given in column coordinates (the harness maps genomic positions to indices of the
       `positions` vector): first column, then one entry per consecutive column up to the last one,
       None = the read has no variant in that column (ColumnIterator's BLANK entry);
     * a bipartition of the reads of a column is a seq bool, one bit per active read in read order:
       false = bit 0 = "entry_in_partition1" = haplotype 0 of the read's individual;
     * transmission values are numbers < 4^(number of trios): bit 2k of the value belongs to the
       father, bit 2k+1 to the mother of trio k (PedigreePartitions). *)
From mathcomp Require Import all_ssreflect.
From Coq Require NArith.
Set Implicit Arguments.
Unset Strict Implicit.
Unset Printing Implicit Defensive.

(* ---------------------------------------------------------------- (min,+) on nat + infinity *)
Definition omin (x y : option nat) : option nat :=
  match x, y with
  | None, _ => y | _, None => x
  | Some a, Some b => Some (minn a b) end.
Definition oadd (x y : option nat) : option nat :=
  match x, y with
  | Some a, Some b => Some (a + b) | _, _ => None end.
Definition ominl (s : seq (option nat)) : option nat := foldr omin None s.
Definition oaddl (s : seq (option nat)) : option nat := foldr oadd (Some 0) s.
(* x <= y with None = infinity *)
Definition ole (x y : option nat) : bool :=
  match x, y with
  | _, None => true | None, Some _ => false
  | Some a, Some b => a <= b end.

(* all bit vectors of a length; all transmission paths of a length *)
Fixpoint bvs (n : nat) : seq (seq bool) :=
  if n is n'.+1 then [seq b :: v | b <- [:: false; true], v <- bvs n'] else [:: [::]].
Fixpoint tuples (T n : nat) : seq (seq nat) :=
  if n is n'.+1 then [seq rcons p t | p <- tuples T n', t <- iota 0 T] else [:: [::]].

(* ---------------------------------------------------------------- instances *)
Definition entry := option (bool * nat).          (* None = gap; Some (allele, weight) *)
Record read := MkRead { r_sample : nat; r_first : nat; r_ents : seq entry }.
(* per column and individual: a trusted genotype (number of ALT alleles of a diploid bi-allelic
   genotype = its canonical index) or a phred triple (cost of genotype index 0, 1, 2) *)
Inductive gspec := GT of nat | GL of nat & nat & nat.
Record inst := MkInst {
  i_reads : seq read;                    (* in read-set order *)
  i_ncols : nat;                         (* number of columns = size of `positions` *)
  i_nind : nat;                          (* individuals, in Pedigree::addIndividual order *)
  i_trios : seq (nat * nat * nat);       (* (father, mother, child) as individual indices *)
  i_geno : seq (seq gspec);              (* [column][individual] *)
  i_recomb : seq nat                     (* recombination cost per column *)
}.

Definition r_last (r : read) : nat := r_first r + (size (r_ents r)).-1.
Definition r_entry (r : read) (c : nat) : entry :=
  if r_first r <= c then nth None (r_ents r) (c - r_first r) else None.
Definition dflt_read : read := MkRead 0 0 [::].

(* restriction of a global bipartition (one bit per read) to a list of read indices *)
Definition restrict (ids : seq nat) (beta : seq bool) : seq bool := [seq nth false beta i | i <- ids].

(* popcount (a xor b) over the low nbits bits *)
Fixpoint hamming (nbits a b : nat) : nat :=
  if nbits is n.+1 then (odd a != odd b) + hamming n a./2 b./2 else 0.
Definition tbit (t k : nat) : bool := odd (iter k half t).

Section Inst.
Variable I : inst.

Definition nreads := size (i_reads I).
Definition rd (i : nat) : read := nth dflt_read (i_reads I) i.
Definition ntrios := size (i_trios I).
Definition nT : nat := 4 ^ ntrios.                      (* transmission_configurations *)
Definition ts : seq nat := iota 0 nT.

(* ColumnIterator: the reads whose [first,last] span contains column c, in read order *)
Definition active (c : nat) : seq nat :=
  [seq i <- iota 0 nreads | (r_first (rd i) <= c) && (c <= r_last (rd i))].

(* ColumnIndexingScheme: width of the backward projection (reads shared with the previous column;
   the iterator takes the low bits of the index) and the forward projection mask (reads shared with
   the next column) *)
Definition bw (c : nat) : nat := if c is c'.+1 then count (mem (active c')) (active c) else 0.
Definition fmask (c : nat) : seq bool := [seq i \in active c.+1 | i <- active c].

(* ------------------------------------------------------------ PedigreePartitions *)
Definition npart : nat := 2 * (i_nind I - ntrios).
(* triple_indices[i]: the last triple in which i is the child *)
Definition trio_of (i : nat) : option nat :=
  foldl (fun acc k => if (nth (0, 0, 0) (i_trios I) k).2 == i then Some k else acc) None (iota 0 ntrios).
Definition root_rank (i : nat) : nat := count (fun j => ~~ isSome (trio_of j)) (iota 0 i).
(* compute_haplotype_to_partition_rec; None only if the pedigree is cyclic (the code would not terminate) *)
Fixpoint h2p_rec (fuel t i : nat) (h : bool) : option nat :=
  if fuel is f.+1 then
    match trio_of i with
    | None => Some (2 * root_rank i + h)
    | Some k =>
        let tr := nth (0, 0, 0) (i_trios I) k in
        if h then h2p_rec f t tr.1.2 (~~ tbit t (2 * k + 1))
        else h2p_rec f t tr.1.1 (~~ tbit t (2 * k))
    end
  else None.
Definition h2p (t i : nat) (h : bool) : nat := odflt 0 (h2p_rec (i_nind I).+1 t i h).

(* haplotype_to_partition_map of the PedigreePartitions object for transmission value t *)
Definition hpmap := seq (nat * nat).
Definition h2p_map (t : nat) : hpmap := [seq (h2p t i false, h2p t i true) | i <- iota 0 (i_nind I)].
Definition hp_get (hp : hpmap) (i : nat) (h : bool) : nat :=
  let e := nth (0, 0) hp i in if h then e.2 else e.1.

(* ------------------------------------------------------------ PedigreeColumnCostComputer *)
(* allele assignments in the code's enumeration order i = 0 .. 2^npart - 1, bit p of i = allele of
   partition p, as seq bool indexed by partition *)
Definition assignments : seq (seq bool) := [seq rev v | v <- bvs npart].
Definition allele_of (hp : hpmap) (a : seq bool) (i : nat) (h : bool) : bool := nth false a (hp_get hp i h).
(* constructor: None = not compatible with a trusted genotype, Some g = genotype cost *)
Definition geno_cost (hp : hpmap) (gs : seq gspec) (a : seq bool) : option nat :=
  foldl (fun acc i =>
           if acc is Some g then
             let k := allele_of hp a i false + allele_of hp a i true in
             match nth (GT 0) gs i with
             | GT n => if k == n then Some g else None
             | GL g0 g1 g2 => Some (g + nth 0 [:: g0; g1; g2] k)
             end
           else None) (Some 0) (iota 0 (i_nind I)).
(* one cost computer = (partition map, allowed assignments with their genotype cost) *)
Definition cc := (hpmap * seq (seq bool * nat))%type.
Definition dflt_cc : cc := ([::], [::]).
Definition mk_cc (c t : nat) : cc :=
  let hp := h2p_map t in
  (hp, pmap (fun a => omap (fun g => (a, g)) (geno_cost hp (nth [::] (i_geno I) c) a)) assignments).
Definition allowed (c t : nat) : seq (seq bool * nat) := (mk_cc c t).2.
(* the input column: (individual of the read, entry) for every active read *)
Definition colents (c : nat) : seq (nat * entry) := [seq (r_sample (rd i), r_entry (rd i) c) | i <- active c].
(* set_partitioning + the inner sum of get_cost: total weight of the entries of the column that
   differ from the allele assigned to their partition (x = bipartition of the active reads) *)
Definition flip_cost (hp : hpmap) (ents : seq (nat * entry)) (x : seq bool) (a : seq bool) : nat :=
  foldr addn 0
    [seq (if xe.2.2 is Some (al, w) then (if al != allele_of hp a xe.2.1 xe.1 then w else 0) else 0)
    | xe <- zip x ents].
Definition assignment_costs (k : cc) (ents : seq (nat * entry)) (x : seq bool) : seq (seq bool * nat) :=
  [seq (ag.1, ag.2 + flip_cost k.1 ents x ag.1) | ag <- k.2].
(* get_cost *)
Definition lcost (k : cc) (ents : seq (nat * entry)) (x : seq bool) : option nat :=
  ominl [seq Some ac.2 | ac <- assignment_costs k ents x].
Definition local_cost (c : nat) (x : seq bool) (t : nat) : option nat := lcost (mk_cc c t) (colents c) x.

(* get_alleles: per individual (allele0, allele1, quality); allele code 0 = REF, 1 = ALT,
   3 = EQUAL_SCORES; None = the "Mendelian conflict" exception of get_alleles *)
Definition best_for (hp : hpmap) (acs : seq (seq bool * nat)) (i : nat) (h b : bool) : option nat :=
  ominl [seq Some ac.2 | ac <- acs & allele_of hp ac.1 i h == b].
(* abs((int)a - (int)b) with (int)UINT_MAX = -1 *)
Definition quality (a b : option nat) : nat :=
  match a, b with
  | Some x, Some y => (x - y) + (y - x)
  | Some x, None => x.+1 | None, Some y => y.+1 | None, None => 0 end.
(* `if (cost <= best_cost) { best_cost = cost; new_best = true; }` : the last minimal assignment *)
Definition last_best (acs : seq (seq bool * nat)) : option nat * seq bool :=
  foldl (fun st ac => if ole (Some ac.2) st.1 then (Some ac.2, ac.1) else st) (None, [::]) acs.
Definition acode (q : nat) (b : bool) : nat := if q == 0 then 3 else nat_of_bool b.
Definition get_alleles_cc (k : cc) (ents : seq (nat * entry)) (x : seq bool) : option (seq (nat * nat * nat)) :=
  let acs := assignment_costs k ents x in
  let lb := last_best acs in
  if lb.1 is Some _ then
    Some [seq (let q0 := quality (best_for k.1 acs i false false) (best_for k.1 acs i false true) in
               let q1 := quality (best_for k.1 acs i true false) (best_for k.1 acs i true true) in
               (acode q0 (allele_of k.1 lb.2 i false), acode q1 (allele_of k.1 lb.2 i true), q1))
         | i <- iota 0 (i_nind I)]
  else None.
Definition get_alleles (c : nat) (x : seq bool) (t : nat) : option (seq (nat * nat * nat)) :=
  get_alleles_cc (mk_cc c t) (colents c) x.

(* ------------------------------------------------------------ PedigreeDPTable *)
Definition recomb (c : nat) : nat := nth 0 (i_recomb I) c.
Definition trans_cost (c t' t : nat) : nat := hamming (2 * ntrios) t t' * recomb c.

(* tables keyed by (projected) bipartitions; one row = one value per transmission value *)
Definition row := seq (option nat).
Definition table := seq (seq bool * row).
Fixpoint lookup (tb : table) (k : seq bool) : row :=
  if tb is kr :: tb' then (if kr.1 == k then kr.2 else lookup tb' k) else [::].
Definition tlook (tb : table) (k : seq bool) (t : nat) : option nat := nth None (lookup tb k) t.

(* the cost computers of column c (one per transmission value) applied to every bipartition of
   the active reads: current_cost for each (bipartition, transmission value) *)
Definition local_rows (c : nat) : table :=
  let ents := colents c in
  let ccs := [seq mk_cc c t | t <- ts] in
  [seq (x, [seq lcost k ents x | k <- ccs]) | x <- bvs (size ents)].
(* `if (!found_valid_transmission_vector) throw "Mendelian conflict"` for some bipartition *)
Definition conflict_in (lrows : table) : bool := has (fun e => all (fun v => ~~ isSome v) e.2) lrows.
(* the DP column: cell = current_cost + min_j (previous projection [backward index][j]
   + popcount(i xor j) * recombcost[c]); backward index = low bw bits of the bipartition *)
Definition dp_column (c : nat) (lrows prev : table) : table :=
  let b := bw c in
  let rc := recomb c in
  let nb := 2 * ntrios in
  [seq (e.1, let prow := lookup prev (take b e.1) in
             [seq oadd (nth None e.2 t)
                       (ominl [seq oadd (nth None prow t') (Some (hamming nb t t' * rc)) | t' <- ts])
             | t <- ts])
  | e <- lrows].
(* forward projection: minimum over all bipartitions with the same bits on the kept reads *)
Definition project (c : nat) (col : table) : table :=
  let fm := fmask c in
  [seq (s, let es := [seq e <- col | mask fm e.1 == s] in
           [seq ominl [seq nth None e.2 t | e <- es] | t <- ts])
  | s <- bvs (count id fm)].

Inductive result := Conflict | Cost of option nat.

(* column 0 reads previous_cost = 0 for every transmission value *)
Definition prev0 : table := [:: ([::], nseq nT (Some 0))].

Fixpoint dp_loop (cs : seq nat) (prev : table) : result :=
  if cs is c :: cs' then
    let lr := local_rows c in
    if conflict_in lr then Conflict
    else
      let col := dp_column c lr prev in
      if cs' is [::] then Cost (ominl [seq ominl e.2 | e <- col])      (* last column: optimal_score *)
      else dp_loop cs' (project c col)
  else Cost (Some 0).                                                  (* no columns: score 0 *)
Definition dp_cost : result := dp_loop (iota 0 (i_ncols I)) prev0.

(* ------------------------------------------------------------ back-pointers and backtrace *)
(* What compute_column leaves behind for column c: the current costs, the projection column it read
   and the DP column. The back-pointer tables are functions of these (below); the sqrt(n)
   check-pointing of compute_table only decides WHEN a column is (re)computed, not its content. *)
Record colrec := ColRec { cr_lrows : table; cr_prev : table; cr_col : table }.
Fixpoint dp_forward (cs : seq nat) (prev : table) : option (seq colrec) :=
  if cs is c :: cs' then
    let lr := local_rows c in
    if conflict_in lr then None
    else
      let col := dp_column c lr prev in
      if cs' is [::] then Some [:: ColRec lr prev col]
      else omap (cons (ColRec lr prev col)) (dp_forward cs' (project c col))
  else Some [::].

(* `if (val < min) { min = val; min_index = j; }` : the first strict minimum, with its index *)
Definition olt (x y : option nat) : bool := ~~ ole y x.
Definition argmin (A : Type) (d : A) (s : seq (A * option nat)) : option nat * A :=
  foldl (fun st av => if olt av.2 st.1 then (av.2, av.1) else st) (None, d) s.
(* GrayCodes: the reflected binary Gray code, bit j of the index = j-th active read *)
Fixpoint gray (m : nat) : seq (seq bool) :=
  if m is m'.+1 then [seq rcons v false | v <- gray m'] ++ [seq rcons v true | v <- rev (gray m')]
  else [:: [::]].

(* min_recomb_index[t] of the cell (x, t): val_j = current + previous_j (+ popcount * recombcost) *)
Definition recomb_arg (c : nat) (r : colrec) (x : seq bool) (t : nat) : nat :=
  let lc := tlook (cr_lrows r) x t in
  let prow := lookup (cr_prev r) (take (bw c) x) in
  let rc := recomb c in
  let nb := 2 * ntrios in
  (argmin 0 [seq (j, oadd (oadd lc (nth None prow j)) (Some (hamming nb t j * rc))) | j <- ts]).2.
(* index_backtrace_table[c][s][t]: the first bipartition in Gray-code order whose cell attains the
   forward projection minimum *)
Definition back_index (c : nat) (r : colrec) (s : seq bool) (t : nat) : seq bool :=
  let fm := fmask c in
  (argmin [::] [seq (x, tlook (cr_col r) x t) | x <- gray (size (active c)) & mask fm x == s]).2.
(* optimal_score_index / optimal_transmission_value in the last column *)
Definition final_arg (c : nat) (r : colrec) : option nat * (seq bool * nat) :=
  argmin ([::], 0) [seq ((x, t), tlook (cr_col r) x t) | x <- gray (size (active c)), t <- ts].
(* the backtrace loop of compute_table, from column cnext (index x, transmission value p of the
   column before it) down to column 0; recs = columns cnext-1, ..., 0 *)
Fixpoint backtrace (recs : seq (nat * colrec)) (cnext : nat) (x : seq bool) (p : nat) : seq (seq bool * nat) :=
  if recs is cr :: rest then
    let x' := back_index cr.1 cr.2 (take (bw cnext) x) p in
    (x', p) :: backtrace rest cr.1 x' (recomb_arg cr.1 cr.2 x' p)
  else [::].
(* index_path; None = the solver raised *)
Definition dp_path : option (seq (seq bool * nat)) :=
  if dp_forward (iota 0 (i_ncols I)) prev0 is Some recs then
    if rev (zip (iota 0 (i_ncols I)) recs) is cr :: rest then
      let fa := final_arg cr.1 cr.2 in
      Some (rev ((fa.2.1, fa.2.2) :: backtrace rest cr.1 fa.2.1 (recomb_arg cr.1 cr.2 fa.2.1 fa.2.2)))
    else Some [::]
  else None.
(* get_optimal_partitioning (the bit of a read is taken from the last column in which it is active)
   and the transmission vector of get_super_reads *)
Definition witness_of (path : seq (seq bool * nat)) : seq bool * seq nat :=
  ([seq (let c := r_last (rd i) in nth false (nth ([::], 0) path c).1 (index i (active c)))
   | i <- iota 0 nreads],
   [seq e.2 | e <- path]).
Definition dp_witness : option (seq bool * seq nat) := omap witness_of dp_path.

(* ------------------------------------------------------------ specification side *)
(* the PedMEC objective of a bipartition beta (one bit per read) and a transmission vector tau
   (one value per column), with the best admissible allele assignment per column *)
Definition term (beta : seq bool) (tau : seq nat) (c : nat) : option nat :=
  oadd (Some (if c is c'.+1 then trans_cost c (nth 0 tau c') (nth 0 tau c) else 0))
       (local_cost c (restrict (active c) beta) (nth 0 tau c)).
Definition cost_of (beta : seq bool) (tau : seq nat) : option nat :=
  oaddl [seq term beta tau c | c <- iota 0 (i_ncols I)].
Definition opt_spec : option nat :=
  ominl [seq ominl [seq cost_of beta tau | tau <- tuples nT (i_ncols I)] | beta <- bvs nreads].
Definition no_conflict : bool :=
  all (fun c => has (fun t => allowed c t != [::]) ts) (iota 0 (i_ncols I)).

(* the same minimum, evaluated with the per-column cost computers shared between all (beta, tau)
   (for evaluation inside Coq on the implementation's outputs; equal to opt_spec by opt_fastE) *)
Definition opt_fast : option nat :=
  let cds := [seq (active c, colents c, [seq mk_cc c t | t <- ts], recomb c) | c <- iota 0 (i_ncols I)] in
  let nb := 2 * ntrios in
  ominl [seq (let L := [seq [seq lcost k cd.1.1.2 (restrict cd.1.1.1 beta) | k <- cd.1.2] | cd <- cds] in
              let R := [seq cd.2 | cd <- cds] in
              ominl [seq oaddl [seq oadd (Some (if c is c'.+1 then hamming nb (nth 0 tau c) (nth 0 tau c') * nth 0 R c else 0))
                                         (nth None (nth [::] L c) (nth 0 tau c))
                               | c <- iota 0 (i_ncols I)]
                    | tau <- tuples nT (i_ncols I)])
        | beta <- bvs nreads].

(* the cost-optimal allele assignments of column c for bipartition x and transmission value t *)
Definition optimal_assignments (c : nat) (x : seq bool) (t : nat) : seq (seq bool) :=
  let acs := assignment_costs (mk_cc c t) (colents c) x in
  let m := ominl [seq Some ac.2 | ac <- acs] in
  [seq ac.1 | ac <- acs & Some ac.2 == m].

(* well-formedness: what the code checks or silently assumes *)
Definition sorted_reads : bool := sorted leq [seq r_first r | r <- i_reads I].
Definition wf_reads : bool :=
  sorted_reads &&
  all (fun r => (r_ents r != [::]) && (r_last r < i_ncols I) && (r_sample r < i_nind I)) (i_reads I).
Definition wf_ped : bool :=
  all (fun tr => (tr.1.1 < i_nind I) && (tr.1.2 < i_nind I) && (tr.2 < i_nind I)) (i_trios I) &&
  (ntrios <= i_nind I) &&
  all (fun t => all (fun i => all (fun h =>
        if h2p_rec (i_nind I).+1 t i h is Some p then p < npart else false) [:: false; true])
      (iota 0 (i_nind I))) ts.
Definition wf_geno : bool :=
  (size (i_geno I) == i_ncols I) && all (fun g => size g == i_nind I) (i_geno I) &&
  (i_ncols I <= size (i_recomb I)).      (* recombcost[c] is read for every column c *)
Definition wf : bool := wf_reads && wf_ped && wf_geno.

(* 32-bit guard: every intermediate value of the solver is bounded by
   total weight + largest genotype costs + (number of transmission bits) * total recombination cost,
   summed column by column (values_bounded in proofs/PedMECBounds.v) *)
Definition gl_max (g : gspec) : nat := if g is GL a b c then maxn a (maxn b c) else 0.
Definition ent_weight (e : entry) : nat := if e is Some (_, w) then w else 0.
Definition colbound (c : nat) : nat :=
  sumn [seq ent_weight se.2 | se <- colents c]
  + sumn [seq gl_max (nth (GT 0) (nth [::] (i_geno I) c) i) | i <- iota 0 (i_nind I)]
  + 2 * ntrios * recomb c.
Definition total_bound : nat := sumn [seq colbound c | c <- iota 0 (i_ncols I)].
(* every finite entry of a table is <= B *)
Definition table_le (B : nat) (tb : table) : bool :=
  all (fun e => all (fun v => if v is Some a then a <= B else true) e.2) tb.
End Inst.

Definition no_overflow (I : inst) : bool :=      (* total_bound + 1 < 2^31 *)
  BinNat.N.ltb (BinNat.N.succ (BinNat.N.of_nat (total_bound I)))
               (BinNat.N.pow (BinNat.N.of_nat 2) (BinNat.N.of_nat 31)).

(* ---------------------------------------------------------------- harness-facing checks *)
(* implementation outcome: None = raised "Mendelian conflict";
   Some (cost, partition, transmission vector, per column per individual (allele0, allele1, quality)) *)
Definition outcome := option (nat * seq bool * seq nat * seq (seq (nat * nat * nat)))%type.

Definition result_eqb (a b : result) : bool :=
  match a, b with
  | Conflict, Conflict => true
  | Cost x, Cost y => x == y
  | _, _ => false end.

(* L2: reported cost = dp_cost (or both report the conflict) *)
Definition l2_cost (I : inst) (o : outcome) : bool :=
  match o with
  | None => result_eqb (dp_cost I) Conflict
  | Some (cost, _, _, _) => result_eqb (dp_cost I) (Cost (Some cost))
  end.
(* L2: returned partition and transmission vector = the model's backtrace (incl. tie-breaking) *)
Definition l2_witness (I : inst) (o : outcome) : bool :=
  match o with
  | None => dp_witness I == None
  | Some (_, beta, tau, _) => dp_witness I == Some (beta, tau)
  end.
(* L2: super-read alleles and qualities = get_alleles at the implementation's own witness *)
Definition l2_alleles (I : inst) (o : outcome) : bool :=
  match o with
  | None => true
  | Some (_, beta, tau, als) =>
      (size als == i_ncols I) &&
      all (fun c => get_alleles I c (restrict (active I c) beta) (nth 0 tau c) == Some (nth [::] als c))
          (iota 0 (i_ncols I))
  end.
(* L1: the returned partition and transmission vector achieve exactly the reported cost *)
Definition l1_witness (I : inst) (o : outcome) : bool :=
  match o with
  | None => true
  | Some (cost, beta, tau, _) =>
      (size beta == nreads I) && (size tau == i_ncols I) && all (fun t => t < nT I) tau &&
      (cost_of I beta tau == Some cost)
  end.
(* L1: every super-read allele that is not flagged as a tie agrees with every cost-optimal
   allele assignment of its column (at the implementation's own partition and transmission value) *)
Definition forced_ok (I : inst) (c : nat) (x : seq bool) (t : nat) (al : seq (nat * nat * nat)) : bool :=
  let hp := h2p_map I t in
  let oas := optimal_assignments I c x t in
  (size al == i_nind I) &&
  all (fun i =>
         let v := nth (0, 0, 0) al i in
         all (fun a =>
                ((v.1.1 == 3) || (v.1.1 == nat_of_bool (allele_of hp a i false))) &&
                ((v.1.2 == 3) || (v.1.2 == nat_of_bool (allele_of hp a i true))))
             oas)
      (iota 0 (i_nind I)).
Definition l1_alleles (I : inst) (o : outcome) : bool :=
  match o with
  | None => true
  | Some (_, beta, tau, als) =>
      (size als == i_ncols I) &&
      all (fun c => forced_ok I c (restrict (active I c) beta) (nth 0 tau c) (nth [::] als c))
          (iota 0 (i_ncols I))
  end.
(* L1 (small instances): reported cost = brute-force minimum; a raised conflict = no feasible solution *)
Definition l1_opt (I : inst) (o : outcome) : bool :=
  match o with
  | None => opt_fast I == None
  | Some (cost, _, _, _) => opt_fast I == Some cost
  end.
