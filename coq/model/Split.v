(* C14 -- executable model of whatshap/cli/split.py (process_haplotag_list_file, the single pass of
   run_split, write_read_length_histogram) and the executable specification side that Coq evaluates on
   the implementation's own output files.  No lemmas here (see proofs/SplitProofs.v).

   Abstraction: names, phase sets, chromosomes and whole records are integers (the harness encodes
   the bytes of a name / of a canonical record text injectively as one integer), so equality of
   names and "written unmodified" are decided inside Coq on the real bytes.  Parsing of the
   tab-separated text into (name, haplotype, phaseset, chromosome) and reading/writing of
   FASTQ/BAM containers (pysam, xopen) are outside the model. *)
From Coq Require Import ZArith List Bool Arith.
Import ListNotations.
Open Scope Z_scope.

(* ------------------------------------------------------------------------------------------ data *)
(* one line of the haplotag list: name, haplotype (0 = "none", k = "Hk", anything else = a string
   that is not a key of haplotype_to_int), phaseset, chromosome (0,0 for a 2-column list) *)
Definition entry := (Z * Z * Z * Z)%type.
Definition ename (e : entry) : Z := fst (fst (fst e)).
Definition ehap (e : entry) : Z := snd (fst (fst e)).
Definition eps (e : entry) : Z := snd (fst e).
Definition echrom (e : entry) : Z := snd e.

(* one input read: name, read length (as _bam_iterator/_fastq_string_iterator compute it),
   payload = the record as it stands in the input, libstr = what the iterator hands to the writer
   (`str(record)+"\n"` of pysam's FastxRecord for FASTQ -- external behaviour, supplied as data;
   the record itself for BAM) *)
Definition read := (Z * Z * Z * Z)%type.
Definition rname (r : read) : Z := fst (fst (fst r)).
Definition rlen (r : read) : Z := snd (fst (fst r)).
Definition rpayload (r : read) : Z := snd (fst r).
Definition rlibstr (r : read) : Z := snd r.

Record cfg := mkCfg {
  req_untagged : bool;        (* --output-untagged given *)
  req_h : list bool;          (* per haplotype 1..ploidy: an output path was given *)
  null_outs : list bool;      (* per output 0..ploidy: the given path is the null device (the records are
                                 written and counted, but no file content can be observed) *)
  add_untagged : bool;
  only_largest : bool;
  discard : bool;             (* --discard-unknown-reads *)
  want_hist : bool }.         (* --read-lengths-histogram given *)
Definition ploidy (c : cfg) : nat := length (req_h c).
Definition req (c : cfg) : list bool := req_untagged c :: req_h c.     (* `outputs` of run_split *)
(* output o is a file whose content can be read back *)
Definition visible (c : cfg) (o : nat) : bool := nth o (req c) false && negb (nth o (null_outs c) false).

Record hlist := mkList {
  has_header : bool;          (* first line starts with '#' *)
  has_chrom : bool;           (* first line has >= 4 tab-separated columns *)
  entries : list entry }.

(* The four rules of the code that this check found defective (all repaired in /repo by now), each
   switchable between the defective and the repaired form. *)
Record rules := mkRules {
  early_exit : bool;          (* `missing_reads` countdown that breaks out of the pass *)
  dup_assert : bool;          (* assert total_reads == len(known_reads) *)
  hist_dup_rows : bool;       (* histogram rows from the un-deduplicated chain of Counter keys *)
  fastq_via_str : bool }.     (* FASTQ records are written as str(FastxRecord) *)
(* `legacy` = the code before the fixes cfc35a5, e3aea4e, fd3a952, 8e35f52 in /repo (kept for the
   `_refuted` witnesses and to name a re-introduced defect); `repaired` = the code as it is now. *)
Definition legacy : rules := mkRules true true true true.
Definition repaired : rules := mkRules false false false false.

Inductive err := EValue | EKey | EAssertDup | EAssertNoKnown.

Inductive outcome :=
| Fail (e : err)
| Done (outs : list (option (list Z))) (hist : option (list (list Z))).

(* ------------------------------------------------------------------------ small list utilities *)
Definition is_nil {A} (l : list A) : bool := match l with [] => true | _ => false end.

Fixpoint dedup (l : list Z) : list Z :=       (* keeps the LAST occurrence of each element *)
  match l with
  | [] => []
  | x :: l' => if existsb (Z.eqb x) l' then dedup l' else x :: dedup l'
  end.

Fixpoint insert (x : Z) (l : list Z) : list Z :=
  match l with
  | [] => [x]
  | y :: l' => if x <=? y then x :: l else y :: insert x l'
  end.
Fixpoint isort (l : list Z) : list Z :=
  match l with [] => [] | x :: l' => insert x (isort l') end.

(* ------------------------------------------------------------- process_haplotag_list_file (model) *)
Definition tagged (e : entry) : bool := 0 <? ehap e.
Definition hap_ok (p : nat) (e : entry) : bool := (0 <=? ehap e) && (ehap e <=? Z.of_nat p).

(* readname_to_haplotype[readname] = haplo_num for every tagged line, in file order: the last
   tagged line of a name wins; "none" lines store nothing; unknown keys read as 0 *)
Fixpoint last_hap (es : list entry) (n : Z) : Z :=
  match es with
  | [] => 0
  | e :: es' => let r := last_hap es' n in
                if (ename e =? n) && tagged e && (r =? 0) then ehap e else r
  end.

Definition in_block (c p : Z) (e : entry) : bool := tagged e && (echrom e =? c) && (eps e =? p).
Definition bcount (es : list entry) (c p : Z) : nat := length (filter (in_block c p) es).

(* block_sizes[chromosome].most_common(1)[0]: the first-inserted phaseset among those with the
   maximal count (heapq.nlargest(1) = max(), which keeps the first maximum) *)
Fixpoint best_scan (all es : list entry) (c : Z) (cur : option (Z * nat)) : option (Z * nat) :=
  match es with
  | [] => cur
  | e :: es' =>
      let cur' :=
        if tagged e && (echrom e =? c) then
          let k := bcount all c (eps e) in
          match cur with
          | None => Some (eps e, k)
          | Some (_, kb) => if (kb <? k)%nat then Some (eps e, k) else cur
          end
        else cur in
      best_scan all es' c cur'
  end.
Definition best_block (es : list entry) (c : Z) : option Z := option_map fst (best_scan es es c None).

Definition in_best (es : list entry) (e : entry) : bool :=
  match best_block es (echrom e) with Some p => eps e =? p | None => false end.
(* selected_reads: names of tagged lines that lie in the largest block of their chromosome *)
Definition selected (es : list entry) (n : Z) : bool :=
  existsb (fun e => (ename e =? n) && tagged e && in_best es e) es.

(* the final readname_to_haplotype (a defaultdict(int)) as a function *)
Definition assign (c : cfg) (es : list entry) (n : Z) : Z :=
  if only_largest c then (if selected es n then last_hap es n else 0) else last_hap es n.

(* known_reads (only used with --discard-unknown-reads): every name on any line *)
Definition known (es : list entry) (n : Z) : bool := existsb (fun e => ename e =? n) es.
Definition distinct_names (es : list entry) : nat := length (dedup (map ename es)).

Definition check_list (rs : rules) (c : cfg) (l : hlist) : option err :=
  let es := entries l in
  if negb (has_header l) && is_nil es then Some EValue            (* empty first line *)
  else if only_largest c && negb (has_chrom l) then Some EValue
  else if negb (forallb (hap_ok (ploidy c)) es) then Some EKey
  else if discard c && dup_assert rs && negb (Nat.eqb (length es) (distinct_names es)) then Some EAssertDup
  else if discard c && is_nil es then Some EAssertNoKnown
  else None.

(* ------------------------------------------------------------------- the single pass of run_split *)
(* process_haplotype[h]: an output path was given for class h (the null device counts as a path:
   tests/test_run_split.py takes its histogram from /dev/null outputs), or h is untagged and
   --add-untagged is on.  Reads of a class without path are skipped: not written, not counted. *)
Definition processed (c : cfg) (h : Z) : bool :=
  nth (Z.to_nat h) (req c) false || ((h =? 0) && add_untagged c).

(* The pass as the list of write events (haplotype, read) in input order.  `missing` is the
   missing_reads counter; it is decremented after every write and the pass stops at 0. *)
Fixpoint pass (rs : rules) (c : cfg) (es : list entry) (missing : Z) (reads : list read)
  : list (Z * read) :=
  match reads with
  | [] => []
  | r :: reads' =>
      if discard c && negb (known es (rname r)) then pass rs c es missing reads'
      else
        let h := assign c es (rname r) in
        if negb (processed c h) then pass rs c es missing reads'
        else (h, r) ::
             (if discard c && early_exit rs
              then (if missing - 1 =? 0 then [] else pass rs c es (missing - 1) reads')
              else pass rs c es missing reads')
  end.

(* output_writers[h].write(record); untagged records additionally to writers[1:] with --add-untagged *)
Definition goes_to (c : cfg) (h : Z) (o : nat) : bool :=
  (h =? Z.of_nat o) || ((h =? 0) && add_untagged c && (0 <? o)%nat).

Definition written (rs : rules) (r : read) : Z := if fastq_via_str rs then rlibstr r else rpayload r.

Definition out_reads (c : cfg) (evs : list (Z * read)) (o : nat) : list read :=
  map snd (filter (fun ev => goes_to c (fst ev) o) evs).

Definition outputs (rs : rules) (c : cfg) (evs : list (Z * read)) : list (option (list Z)) :=
  map (fun o => if visible c o then Some (map (written rs) (out_reads c evs o)) else None)
      (seq 0 (S (ploidy c))).

(* histogram_data[h][length] *)
Definition hcount (evs : list (Z * read)) (h l : Z) : Z :=
  Z.of_nat (length (filter (fun ev => (fst ev =? h) && (rlen (snd ev) =? l)) evs)).
Definition keys_of (evs : list (Z * read)) (h : Z) : list Z :=
  dedup (map (fun ev => rlen (snd ev)) (filter (fun ev => fst ev =? h) evs)).
Definition haps (c : cfg) : list Z := map Z.of_nat (seq 0 (S (ploidy c))).
Definition all_lengths (rs : rules) (c : cfg) (evs : list (Z * read)) : list Z :=
  let ks := flat_map (keys_of evs) (haps c) in
  isort (if hist_dup_rows rs then ks else dedup ks).
Definition hist_rows (rs : rules) (c : cfg) (evs : list (Z * read)) : list (list Z) :=
  map (fun l => l :: map (fun h => hcount evs h l) (haps c)) (all_lengths rs c evs).

Definition events (rs : rules) (c : cfg) (l : hlist) (reads : list read) : list (Z * read) :=
  pass rs c (entries l) (Z.of_nat (distinct_names (entries l))) reads.

Definition run (rs : rules) (c : cfg) (l : hlist) (reads : list read) : outcome :=
  match check_list rs c l with
  | Some e => Fail e
  | None =>
      let evs := events rs c l reads in
      Done (outputs rs c evs) (if want_hist c then Some (hist_rows rs c evs) else None)
  end.

(* =========================================================================== specification side *)
(* Inputs the property speaks about: a non-empty list file whose haplotype names are none/H1..Hp,
   with phaseset/chromosome columns if --only-largest-block is used, and -- with
   --discard-unknown-reads -- at least one listed name (the code refuses the rest on purpose). *)
Definition valid_input (c : cfg) (l : hlist) : bool :=
  negb (negb (has_header l) && is_nil (entries l)) &&
  negb (only_largest c && negb (has_chrom l)) &&
  forallb (hap_ok (ploidy c)) (entries l) &&
  negb (discard c && is_nil (entries l)).

(* --- which haplotype the list assigns to a name.  Under --only-largest-block a tagged line counts
   only if its phase set is THE largest block of its chromosome: the block with the most tagged
   lines, and among several of that size the one that appears first in the list (re-stated here
   independently of best_scan: the phase set of the first tagged line of the chromosome whose block
   size no other block exceeds).  A list that names a read once assigns exactly one haplotype;
   only where a name stands on several lines every reading of those lines is admitted. *)
Definition on_chrom (c : Z) (e : entry) : bool := tagged e && (echrom e =? c).
Definition is_max_block (es : list entry) (c p : Z) : bool :=
  forallb (fun e' => negb (on_chrom c e') || (bcount es c (eps e') <=? bcount es c p)%nat) es.
Definition first_max (es : list entry) (c : Z) : option Z :=
  option_map eps (find (fun e => on_chrom c e && is_max_block es c (eps e)) es).
Definition in_first_max (es : list entry) (e : entry) : bool :=
  match first_max es (echrom e) with Some p => eps e =? p | None => false end.

Definition cand_entry (c : cfg) (es : list entry) (e : entry) : list Z :=
  if negb (tagged e) then [0]
  else if negb (only_largest c) then [ehap e]
  else if in_first_max es e then [ehap e]
  else [0].

Definition entries_of (es : list entry) (n : Z) : list entry := filter (fun e => ename e =? n) es.
Definition cands (c : cfg) (es : list entry) (n : Z) : list Z :=
  match entries_of es n with
  | [] => [0]
  | [e] => cand_entry c es e
  | en => dedup (flat_map (cand_entry c es) en ++ (if only_largest c then map ehap en else []))
  end.

(* all resolutions of the names for which the list admits more than one reading *)
Fixpoint all_choices (c : cfg) (es : list entry) (names : list Z) : list (list (Z * Z)) :=
  match names with
  | [] => [[]]
  | n :: names' =>
      let rest := all_choices c es names' in
      match cands c es n with
      | [] | [_] => rest
      | hs => flat_map (fun h => map (cons (n, h)) rest) hs
      end
  end.
Fixpoint lookup (ch : list (Z * Z)) (n : Z) : option Z :=
  match ch with
  | [] => None
  | (k, h) :: ch' => if k =? n then Some h else lookup ch' n
  end.
Definition resolve (c : cfg) (es : list entry) (ch : list (Z * Z)) (n : Z) : Z :=
  match lookup ch n with Some h => h | None => hd 0 (cands c es n) end.

(* --- what the property demands, given a resolution a : name -> haplotype *)
Definition kept (c : cfg) (es : list entry) (r : read) : bool := negb (discard c) || known es (rname r).
Definition exp_out (c : cfg) (es : list entry) (a : Z -> Z) (reads : list read) (o : nat) : list Z :=
  map rpayload (filter (fun r => kept c es r && goes_to c (a (rname r)) o) reads).
Definition exp_count (c : cfg) (es : list entry) (a : Z -> Z) (reads : list read) (h l : Z) : Z :=
  Z.of_nat (length (filter (fun r => kept c es r && (a (rname r) =? h) && processed c h && (rlen r =? l)) reads)).

Fixpoint zlist_eqb (a b : list Z) : bool :=
  match a, b with
  | [], [] => true
  | x :: a', y :: b' => (x =? y) && zlist_eqb a' b'
  | _, _ => false
  end.

Definition routing_with (c : cfg) (es : list entry) (a : Z -> Z) (reads : list read)
           (outs : list (option (list Z))) : bool :=
  forallb (fun o => match nth o outs None with
                    | Some l => visible c o && zlist_eqb l (exp_out c es a reads o)
                    | None => negb (visible c o)
                    end) (seq 0 (S (ploidy c))).

Definition sumcol (rows : list (list Z)) (l : Z) (k : nat) : Z :=
  fold_right Z.add 0 (map (fun row => nth (S k) row 0) (filter (fun row => hd (-1) row =? l) rows)).
Definition hist_with (c : cfg) (es : list entry) (a : Z -> Z) (reads : list read)
           (rows : list (list Z)) : bool :=
  forallb (fun row => Nat.eqb (length row) (S (S (ploidy c)))) rows &&
  forallb (fun l => forallb (fun k => sumcol rows l k =? exp_count c es a reads (Z.of_nat k) l)
                            (seq 0 (S (ploidy c))))
          (map (hd (-1)) rows ++ map rlen reads).

Definition amb_names (c : cfg) (es : list entry) (reads : list read) : list Z := dedup (map rname reads).

Definition ok_outs_len (c : cfg) (outs : list (option (list Z))) : bool :=
  Nat.eqb (length outs) (S (ploidy c)).

(* routing / add-untagged / discard clause *)
Definition l1_routing (c : cfg) (l : hlist) (reads : list read) (outs : list (option (list Z))) : bool :=
  ok_outs_len c outs &&
  existsb (fun ch => routing_with c (entries l) (resolve c (entries l) ch) reads outs)
          (all_choices c (entries l) (amb_names c (entries l) reads)).

(* histogram clause (rows read as a table length -> counts, summed per length) *)
Definition l1_hist (c : cfg) (l : hlist) (reads : list read) (outs : list (option (list Z)))
           (hist : option (list (list Z))) : bool :=
  match hist with
  | None => negb (want_hist c)
  | Some rows =>
      want_hist c &&
      let chs := all_choices c (entries l) (amb_names c (entries l) reads) in
      if l1_routing c l reads outs
      then existsb (fun ch => routing_with c (entries l) (resolve c (entries l) ch) reads outs &&
                              hist_with c (entries l) (resolve c (entries l) ch) reads rows) chs
      else existsb (fun ch => hist_with c (entries l) (resolve c (entries l) ch) reads rows) chs
  end.

(* partition clause: with every output requested, no --add-untagged and no --discard-unknown-reads
   the outputs are pairwise disjoint, each is the input restricted to the records it contains
   (so: an order-preserving subsequence), and together they have as many records as the input *)
Definition all_requested (c : cfg) : bool := forallb (visible c) (seq 0 (S (ploidy c))).
Definition partition_applies (c : cfg) : bool :=
  all_requested c && negb (add_untagged c) && negb (discard c).
Definition zmem (x : Z) (l : list Z) : bool := existsb (Z.eqb x) l.
Definition olist (o : option (list Z)) : list Z := match o with Some l => l | None => [] end.
Fixpoint pairwise_disjoint (ls : list (list Z)) : bool :=
  match ls with
  | [] => true
  | l :: ls' => forallb (fun l' => forallb (fun x => negb (zmem x l')) l) ls' && pairwise_disjoint ls'
  end.
Definition l1_partition (c : cfg) (reads : list read) (outs : list (option (list Z))) : bool :=
  negb (partition_applies c) ||
  (let ls := map olist outs in
   ok_outs_len c outs &&
   forallb (fun o => match o with Some _ => true | None => false end) outs &&
   pairwise_disjoint ls &&
   forallb (fun l => zlist_eqb l (filter (fun x => zmem x l) (map rpayload reads))) ls &&
   Nat.eqb (length (concat ls)) (length reads)).

Definition l1 (c : cfg) (l : hlist) (reads : list read) (o : outcome) : bool :=
  match o with
  | Fail _ => negb (valid_input c l)
  | Done outs hist =>
      valid_input c l && l1_routing c l reads outs && l1_partition c reads outs &&
      l1_hist c l reads outs hist
  end.

(* ------------------------------------------------------------------- exact comparison (L2) *)
Definition err_eqb (a b : err) : bool :=
  match a, b with
  | EValue, EValue | EKey, EKey | EAssertDup, EAssertDup | EAssertNoKnown, EAssertNoKnown => true
  | _, _ => false
  end.
Definition oz_eqb (a b : option (list Z)) : bool :=
  match a, b with
  | None, None => true
  | Some x, Some y => zlist_eqb x y
  | _, _ => false
  end.
Fixpoint olists_eqb (a b : list (option (list Z))) : bool :=
  match a, b with
  | [], [] => true
  | x :: a', y :: b' => oz_eqb x y && olists_eqb a' b'
  | _, _ => false
  end.
Fixpoint rows_eqb (a b : list (list Z)) : bool :=
  match a, b with
  | [], [] => true
  | x :: a', y :: b' => zlist_eqb x y && rows_eqb a' b'
  | _, _ => false
  end.
Definition outcome_eqb (a b : outcome) : bool :=
  match a, b with
  | Fail x, Fail y => err_eqb x y
  | Done o1 h1, Done o2 h2 =>
      olists_eqb o1 o2 &&
      match h1, h2 with
      | None, None => true
      | Some x, Some y => rows_eqb x y
      | _, _ => false
      end
  | _, _ => false
  end.

(* the 16 rule sets, numbered by bit mask (1 = early_exit, 2 = dup_assert, 4 = hist_dup_rows,
   8 = fastq_via_str); 15 = legacy, 0 = repaired *)
Definition rules_of (m : nat) : rules :=
  mkRules (Nat.odd m) (Nat.odd (m / 2)) (Nat.odd (m / 4)) (Nat.odd (m / 8)).
(* L2: the implementation's result is exactly the repaired model's *)
Definition l2 (c : cfg) (l : hlist) (reads : list read) (o : outcome) : bool :=
  outcome_eqb (run repaired c l reads) o.
(* diagnosis of an L2 failure: which rule sets reproduce the implementation's result on this case *)
Definition matching_rules (c : cfg) (l : hlist) (reads : list read) (o : outcome) : list nat :=
  if l2 c l reads o then [0%nat]
  else filter (fun m => outcome_eqb (run (rules_of m) c l reads) o) (seq 1 15).
(* which single defective rule, switched on alone, makes the specification fail on this input *)
Definition blamed_rules (c : cfg) (l : hlist) (reads : list read) : list nat :=
  filter (fun m => negb (l1 c l reads (run (rules_of m) c l reads))) [1; 2; 4; 8]%nat.
