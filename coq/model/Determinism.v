(* C16 -- results depend on the input only.

   Executable models of the ordering mechanisms named by the property, and the executable
   specification side evaluated on the implementation's own outputs.  Model only: no lemmas here.

   1. src/readset.h:read_comparator_t and ReadSet::sort (std::sort with that comparator).  The value
      of std::hash<std::string>(name) ^ std::hash<int>(source_id) is NOT modelled: it enters as a
      Section variable `h` (theorems hold for every h) and as a table supplied by the harness when
      the model is evaluated.
   2. sorted(d.items()) / sorted(results, key=block_id): a stable insertion sort on a key.
   3. the per-sample record updates of PhasedVcfWriter.write / GenotypeVcfWriter.write_genotypes.
   4. setup_families: ComponentFinder over the samples + `sorted(families.items())`.
   5. spec side of the differential runs: all canonicalised outputs of one job are the same list. *)
From Coq Require Import ZArith NArith List Bool Arith.
From WH.Model Require Import UnionFind.
Import ListNotations.

(* ------------------------------------------------------------------------------------------- *)
(* generic stable insertion sort w.r.t. a boolean strict "less than"                             *)
Section Sort.
  Variable A : Type.
  Variable lt : A -> A -> bool.

  (* x is placed before the first element that is not smaller than x (stable when the list is
     built by inserting the head into the sorted tail) *)
  Fixpoint insert (x : A) (l : list A) : list A :=
    match l with
    | [] => [x]
    | y :: l' => if lt y x then y :: insert x l' else x :: y :: l'
    end.

  Definition isort (l : list A) : list A := fold_right insert [] l.

  (* adjacent elements strictly increasing *)
  Fixpoint sortedb (l : list A) : bool :=
    match l with
    | [] => true
    | x :: l' => match l' with [] => true | y :: _ => lt x y && sortedb l' end
    end.
End Sort.
Arguments insert {A}.
Arguments isort {A}.
Arguments sortedb {A}.

(* ------------------------------------------------------------------------------------------- *)
(* 1. reads and read_comparator_t                                                                *)

(* what the comparator looks at, plus an opaque payload standing for the rest of the read *)
Record read := mkRead {
  rname : list N;      (* bytes of the read name (std::string, compared as unsigned char) *)
  rsource : Z;         (* source_id (int) *)
  rnvars : N;          (* getVariantCount() *)
  rfirst : Z;          (* firstPosition() = position of variants[0]; only read when rnvars > 0 *)
  rpayload : Z         (* everything else (variants, qualities, sample id ...) *)
}.

(* std::string::compare: lexicographic on unsigned bytes, then by length *)
Fixpoint name_cmp (a b : list N) : comparison :=
  match a, b with
  | [], [] => Eq
  | [], _ :: _ => Lt
  | _ :: _, [] => Gt
  | x :: a', y :: b' => match N.compare x y with Eq => name_cmp a' b' | c => c end
  end.

Section Comparator.
  (* hasher(name_and_source_id_t(name, source_id)) as a whole *)
  Variable h : list N -> Z -> N.

  (* the tie-breaking tail of operator(): hash, then name, then source id *)
  Definition tie_lt (r1 r2 : read) : bool :=
    let h1 := h (rname r1) (rsource r1) in
    let h2 := h (rname r2) (rsource r2) in
    if negb (N.eqb h1 h2) then N.ltb h1 h2
    else match name_cmp (rname r1) (rname r2) with
         | Lt => true
         | Gt => false
         | Eq => Z.ltb (rsource r1) (rsource r2)
         end.

  (* bool operator()(const Read* r1, const Read* r2), statement by statement *)
  Definition read_lt (r1 r2 : read) : bool :=
    if N.ltb 0 (rnvars r1) || N.ltb 0 (rnvars r2) then
      if N.eqb (rnvars r1) 0 then true
      else if N.eqb (rnvars r2) 0 then false
      else if negb (Z.eqb (rfirst r1) (rfirst r2)) then Z.ltb (rfirst r1) (rfirst r2)
      else tie_lt r1 r2
    else tie_lt r1 r2.

  (* ReadSet::sort: std::sort returns *a* permutation sorted w.r.t. the comparator; the model picks
     the insertion sort, the theorem shows that every sorted permutation is this list *)
  Definition sort_reads (l : list read) : list read := isort read_lt l.
End Comparator.

(* ReadSet::add rejects a second read with the same (name, source_id) *)
Definition name_source (r : read) : list N * Z := (rname r, rsource r).

(* hash values supplied by the harness as a table ((name, source), value); default 0 *)
Fixpoint list_N_eqb (a b : list N) : bool :=
  match a, b with
  | [], [] => true
  | x :: a', y :: b' => N.eqb x y && list_N_eqb a' b'
  | _, _ => false
  end.
Fixpoint hash_of_table (t : list (list N * Z * N)) (n : list N) (s : Z) : N :=
  match t with
  | [] => 0%N
  | (n', s', v) :: t' => if list_N_eqb n n' && Z.eqb s s' then v else hash_of_table t' n s
  end.

Definition read_eqb (a b : read) : bool :=
  list_N_eqb (rname a) (rname b) && Z.eqb (rsource a) (rsource b) && N.eqb (rnvars a) (rnvars b)
  && Z.eqb (rfirst a) (rfirst b) && Z.eqb (rpayload a) (rpayload b).
Fixpoint reads_eqb (a b : list read) : bool :=
  match a, b with
  | [], [] => true
  | x :: a', y :: b' => read_eqb x y && reads_eqb a' b'
  | _, _ => false
  end.

(* L2 case: (hash table, reads in insertion order, reads in the order ReadSet.sort left them) *)
Definition sort_case := (list (list N * Z * N) * list read * list read)%type.
Definition l2_sort (c : sort_case) : bool :=
  let '(t, ins, out) := c in reads_eqb (sort_reads (hash_of_table t) ins) out.
(* weaker, hash-table independent part: the output is sorted w.r.t. the comparator under the table *)
Definition l1_sorted (c : sort_case) : bool :=
  let '(t, ins, out) := c in sortedb (read_lt (hash_of_table t)) out.

(* ------------------------------------------------------------------------------------------- *)
(* 2. sorting by a key: sorted(families.items()), sorted(blockwise_results, key=block_id)        *)

(* Python compares (key, value) tuples lexicographically; with distinct keys (dict keys, block ids)
   the values are never compared, so the model compares the keys only. *)
Definition key_lt {V : Type} (a b : nat * V) : bool := Nat.ltb (fst a) (fst b).
Definition sort_by_key {V : Type} (l : list (nat * V)) : list (nat * V) := isort key_lt l.

(* single-threaded loop of solve_polyphase_instance: results.append(phase_single_block(block_id,..))
   for block_id = 0, 1, ..., n-1 *)
Definition results_sequential {V : Type} (f : nat -> V) (n : nat) : list (nat * V) :=
  map (fun i => (i, f i)) (seq 0 n).

(* ------------------------------------------------------------------------------------------- *)
(* 3. per-sample record updates of the VCF writers                                               *)

(* a record as seen by the writer: sample |-> call; one update touches record.samples[s] only and
   computes the new call from the old call of the same sample (g carries that sample's results) *)
Section Updates.
  Variable C : Type.
  Definition vrecord := nat -> C.
  Definition set_call (r : vrecord) (s : nat) (c : C) : vrecord :=
    fun s' => if Nat.eqb s' s then c else r s'.
  Definition apply_update (r : vrecord) (u : nat * (C -> C)) : vrecord :=
    set_call r (fst u) (snd u (r (fst u))).
  Definition apply_updates (us : list (nat * (C -> C))) (r : vrecord) : vrecord :=
    fold_left apply_update us r.
End Updates.
Arguments set_call {C}.
Arguments apply_update {C}.
Arguments apply_updates {C}.

(* ------------------------------------------------------------------------------------------- *)
(* 4. setup_families: samples are numbered by their rank in string order (an order embedding, so
      "smaller value is the root" is preserved); merges = (father, child), (mother, child) per trio *)
Definition family_ops (merges : list (nat * nat)) : list uop :=
  map (fun m => UMerge (fst m) (snd m)) merges.

Definition representative (samples : list nat) (merges : list (nat * nat)) (x : nat) : option nat :=
  match find (urun_state (uf_init samples) (family_ops merges)) x with
  | inl (r, _) => Some r
  | inr _ => None
  end.

(* families = defaultdict(list); for sample in samples: families[find(sample)].append(sample) *)
Fixpoint fam_add (rep x : nat) (d : list (nat * list nat)) : list (nat * list nat) :=
  match d with
  | [] => [(rep, [x])]
  | (k, v) :: d' => if Nat.eqb k rep then (k, v ++ [x]) :: d' else (k, v) :: fam_add rep x d'
  end.
Fixpoint families_of (samples : list nat) (merges : list (nat * nat)) (todo : list nat)
  (d : list (nat * list nat)) : option (list (nat * list nat)) :=
  match todo with
  | [] => Some d
  | x :: todo' => match representative samples merges x with
                  | Some r => families_of samples merges todo' (fam_add r x d)
                  | None => None
                  end
  end.
(* what the main loop iterates over: sorted(families.items()) *)
Definition families_sorted (samples : list nat) (merges : list (nat * nat)) : option (list (nat * list nat)) :=
  match families_of samples merges samples [] with
  | Some d => Some (sort_by_key d)
  | None => None
  end.

Fixpoint list_nat_eqb (a b : list nat) : bool :=
  match a, b with
  | [], [] => true
  | x :: a', y :: b' => Nat.eqb x y && list_nat_eqb a' b'
  | _, _ => false
  end.
Fixpoint fams_eqb (a b : list (nat * list nat)) : bool :=
  match a, b with
  | [], [] => true
  | (k, v) :: a', (k', v') :: b' => Nat.eqb k k' && list_nat_eqb v v' && fams_eqb a' b'
  | _, _ => false
  end.
(* L2 case: (samples in iteration order, merges in ped order, observed sorted(families.items())) *)
Definition fam_case := (list nat * list (nat * nat) * list (nat * list nat))%type.
Definition l2_families (c : fam_case) : bool :=
  let '(samples, merges, obs) := c in
  match families_sorted samples merges with
  | Some d => fams_eqb d obs
  | None => false
  end.
(* order-independent content: keys and member *sets* (members sorted) *)
Definition norm_fams (d : list (nat * list nat)) : list (nat * list nat) :=
  map (fun kv => (fst kv, isort Nat.ltb (snd kv))) d.

(* ------------------------------------------------------------------------------------------- *)
(* 5. spec side of the differential runs: every run of one job (same files and options; different
      hash seed / thread count / repetition) produced the same canonical record list.  A record is
      represented by a 64-bit digest of its canonical text.                                      *)
Fixpoint list_Z_eqb (a b : list Z) : bool :=
  match a, b with
  | [], [] => true
  | x :: a', y :: b' => Z.eqb x y && list_Z_eqb a' b'
  | _, _ => false
  end.
Definition all_agree (runs : list (list Z)) : bool :=
  match runs with
  | [] => true
  | r0 :: rest => forallb (list_Z_eqb r0) rest
  end.
(* same for observed family tables (L1 of the in-process permutation runs) *)
Definition fams_all_agree (runs : list (list (nat * list nat))) : bool :=
  match runs with
  | [] => true
  | r0 :: rest => forallb (fams_eqb (norm_fams r0)) (map norm_fams rest)
  end.
Definition reads_all_agree (runs : list (list read)) : bool :=
  match runs with
  | [] => true
  | r0 :: rest => forallb (reads_eqb r0) rest
  end.
