(* C13 — model of `whatshap unphase` (whatshap/cli/unphase.py: run_unphase / unphase_header).

   Abstract VCF record: the eight fixed columns are opaque tokens (the harness interns the raw column
   text and pysam's parsed value); a per-sample call is
     - the GT value if the FORMAT column has a GT key (None = record without GT), as the list of allele
       numbers with None for '.',
     - the phased flag ('|' occurs in the GT text),
     - every other FORMAT field as (key, token) in FORMAT order; the keys HP, PS, PQ are the numbers
       1, 2, 3 (`has_key` gives the HP/PS/PQ presence).
   pysam/htslib's behaviour enters as data (parsed records) and as error values (the python exceptions
   raised while the record loop runs); it is not verified.

   The record step is parametrised by one small rule (`gt_rule`): what is done with the GT value of a
   call.  `cur_rule` is the code as it is (with its three exceptions), `fixed_rule` the repaired rule.
   This file contains definitions only (model + executable specification side). *)
From Coq Require Import ZArith List Bool Arith Permutation.
Import ListNotations.
Open Scope Z_scope.

(* ------------------------------------------------------------------------------------------ data *)
Definition token := Z.
Definition key := Z.
Definition K_HP : key := 1.
Definition K_PS : key := 2.
Definition K_PQ : key := 3.
(* TAGS_TO_REMOVE = frozenset(("HP", "PQ", "PS")) *)
Definition is_phase_key (k : key) : bool := (k =? K_HP) || (k =? K_PS) || (k =? K_PQ).

Definition allele := option Z.          (* None = '.' *)

Record call := mkCall {
  c_gt : option (list allele);          (* None: no GT key in FORMAT *)
  c_phased : bool;
  c_fields : list (key * token)         (* FORMAT fields other than GT, in order *)
}.

Record vrec := mkRec {
  r_fixed : list token;                 (* CHROM POS ID REF ALT QUAL FILTER INFO (+ parsed view) *)
  r_calls : list call                   (* one per sample column; [] for a sites-only file *)
}.

Inductive err := EIndex | EType | EKey.   (* IndexError, TypeError, KeyError *)
Inductive res (A : Type) := Ok (a : A) | Err (e : err).
Arguments Ok {A} a.
Arguments Err {A} e.

(* ------------------------------------------------------------------------------- shared helpers *)
(* `del record.format[tag]` for the three tags: the key disappears from every sample *)
Definition strip (fs : list (key * token)) : list (key * token) :=
  filter (fun kv => negb (is_phase_key (fst kv))) fs.

Definition has_key (k : key) (c : call) : bool := existsb (fun kv => fst kv =? k) (c_fields c).

(* python's sorted() on a list of ints *)
Fixpoint insert (x : Z) (l : list Z) : list Z :=
  match l with
  | [] => [x]
  | y :: t => if x <=? y then x :: l else y :: insert x t
  end.
Fixpoint isort (l : list Z) : list Z :=
  match l with
  | [] => []
  | x :: t => insert x (isort t)
  end.

(* Some zs iff no allele of the genotype is missing *)
Fixpoint all_called (g : list allele) : option (list Z) :=
  match g with
  | [] => Some []
  | None :: _ => None
  | Some a :: t => match all_called t with Some zs => Some (a :: zs) | None => None end
  end.

(* -------------------------------------------------------------------------------- the GT rules *)
(* A rule maps the GT value of a call (None = no GT key) to the new value or to an exception. *)
Definition gt_rule := option (list allele) -> res (option (list allele)).

(* The code as it is:
       if call["GT"] is not None and call["GT"][0] is not None and call["GT"][1] is not None:
           call["GT"] = sorted(call["GT"])
   call["GT"] raises KeyError if the record has no GT; [0] / [1] raise IndexError on a too short tuple;
   sorted raises TypeError as soon as a None has to be compared with anything (any list of length >= 2
   that contains None). *)
Definition cur_gt (g : list allele) : res (list allele) :=
  match g with
  | [] => Err EIndex
  | None :: _ => Ok g
  | Some _ :: [] => Err EIndex
  | Some _ :: None :: _ => Ok g
  | Some _ :: Some _ :: _ =>
      match all_called g with
      | Some zs => Ok (map Some (isort zs))
      | None => Err EType
      end
  end.
Definition cur_rule : gt_rule := fun og =>
  match og with
  | None => Err EKey
  | Some g => match cur_gt g with Ok g' => Ok (Some g') | Err e => Err e end
  end.

(* The repaired rule: nothing to do without GT; sort exactly the fully called genotypes (any ploidy),
   leave genotypes with a missing allele in place. *)
Definition fix_gt (g : list allele) : list allele :=
  match all_called g with
  | Some zs => map Some (isort zs)
  | None => g
  end.
Definition fixed_rule : gt_rule := fun og => Ok (option_map fix_gt og).

(* ------------------------------------------------------------------------------ the record step *)
Definition unphase_call (rule : gt_rule) (c : call) : res call :=
  match rule (c_gt c) with
  | Ok g' => Ok (mkCall g' false (strip (c_fields c)))      (* call.phased = False *)
  | Err e => Err e
  end.

(* `for call in record.samples.values()`: the first exception ends the run *)
Fixpoint unphase_calls (rule : gt_rule) (cs : list call) : res (list call) :=
  match cs with
  | [] => Ok []
  | c :: t =>
      match unphase_call rule c with
      | Err e => Err e
      | Ok c' => match unphase_calls rule t with Ok t' => Ok (c' :: t') | Err e => Err e end
      end
  end.

Definition unphase_rec (rule : gt_rule) (r : vrec) : res vrec :=
  match unphase_calls rule (r_calls r) with
  | Ok cs => Ok (mkRec (r_fixed r) cs)
  | Err e => Err e
  end.

(* The file: records are written one by one; an exception leaves the records written so far on stdout. *)
Fixpoint unphase_file (rule : gt_rule) (rs : list vrec) : list vrec * option err :=
  match rs with
  | [] => ([], None)
  | r :: t =>
      match unphase_rec rule r with
      | Err e => ([], Some e)
      | Ok r' => let (out, e) := unphase_file rule t in (r' :: out, e)
      end
  end.

(* The repaired record step as a total function (what `unphase_rec fixed_rule` computes). *)
Definition unphase_call_fixed (c : call) : call :=
  mkCall (option_map fix_gt (c_gt c)) false (strip (c_fields c)).
Definition unphase_fixed (r : vrec) : vrec := mkRec (r_fixed r) (map unphase_call_fixed (r_calls r)).

Definition is_some (a : allele) : bool := match a with Some _ => true | None => false end.

(* Which calls make the current code raise (the three defect classes of finding F2) *)
Definition crash_class (c : call) : option err :=
  match c_gt c with
  | None => Some EKey                                              (* record without GT *)
  | Some [] => Some EIndex
  | Some [Some _] => Some EIndex                                   (* called haploid genotype *)
  | Some (Some _ :: Some _ :: t) =>
      if forallb is_some t then None
      else Some EType                                              (* 0|1|. *)
  | Some _ => None
  end.
Definition rec_crashes (r : vrec) : bool :=
  existsb (fun c => match crash_class c with Some _ => true | None => false end) (r_calls r).

(* ------------------------------------------------------------------------------ the header step *)
(* header lines as (kind, id, token): kind 0 = "##phasing=...", 1 = "##FORMAT=<ID=id,...>", 2 = other.
   unphase_header removes the FIRST phasing line (`break`) and the FORMAT definitions of HP, PQ, PS. *)
Definition hline := (Z * key * token)%type.
Fixpoint remove_first_phasing (h : list hline) : list hline :=
  match h with
  | [] => []
  | (k, i, t) :: r => if k =? 0 then r else (k, i, t) :: remove_first_phasing r
  end.
(* a line survives the tag filter unless it is the FORMAT definition of HP, PS or PQ *)
Definition hline_keep (l : hline) : bool := match l with (k, i, _) => negb ((k =? 1) && is_phase_key i) end.
Definition unphase_header (h : list hline) : list hline := filter hline_keep (remove_first_phasing h).

(* header-level specification side: no FORMAT definition of HP / PS / PQ is left; `##phasing` lines are header
   metadata, compared separately *)
Definition is_phasing_line (l : hline) : bool := match l with (k, _, _) => k =? 0 end.
Definition header_clean (h : list hline) : bool := forallb hline_keep h.
Definition drop_phasing (h : list hline) : list hline := filter (fun l => negb (is_phasing_line l)) h.

(* -------------------------------------------------------------------- abstract phase writer *)
(* What a phasing writer may do to a record (C04 models the real one): permute the alleles of a fully
   called genotype, set the phased flag, set / add / drop HP, PS, PQ values.  Everything else stays. *)
Definition call_phase_rel (c c' : call) : Prop :=
  strip (c_fields c') = strip (c_fields c) /\
  match c_gt c, c_gt c' with
  | None, None => True
  | Some g, Some g' => Permutation g g' /\ (all_called g = None -> g' = g)
  | _, _ => False
  end.
Definition rec_phase_rel (r r' : vrec) : Prop :=
  r_fixed r' = r_fixed r /\ Forall2 call_phase_rel (r_calls r) (r_calls r').

(* A small executable writer satisfying the relation.  Per call a decision: the new allele order (used
   only if it is a permutation of a fully called genotype), the new phased flag, phase tags to set. *)
Record pdec := mkDec {
  d_order : option (list Z);
  d_phased : bool;
  d_tags : list (key * token)
}.

Fixpoint set_field (k : key) (v : token) (fs : list (key * token)) : list (key * token) :=
  match fs with
  | [] => [(k, v)]
  | (k', v') :: t => if k' =? k then (k, v) :: t else (k', v') :: set_field k v t
  end.
Definition set_tags (tags : list (key * token)) (fs : list (key * token)) : list (key * token) :=
  fold_left (fun acc kv => if is_phase_key (fst kv) then set_field (fst kv) (snd kv) acc else acc) tags fs.

Fixpoint zlist_eqb (a b : list Z) : bool :=
  match a, b with
  | [], [] => true
  | x :: a', y :: b' => (x =? y) && zlist_eqb a' b'
  | _, _ => false
  end.

Definition phase_gt (d : pdec) (og : option (list allele)) : option (list allele) :=
  match og, d_order d with
  | Some g, Some zs' =>
      match all_called g with
      | Some zs => if zlist_eqb (isort zs') (isort zs) then Some (map Some zs') else og
      | None => og
      end
  | _, _ => og
  end.
Definition phase_call (d : pdec) (c : call) : call :=
  mkCall (phase_gt d (c_gt c))
         (match c_gt c with Some _ => d_phased d | None => c_phased c end)
         (set_tags (d_tags d) (c_fields c)).
Fixpoint phase_calls (ds : list pdec) (cs : list call) {struct cs} : list call :=
  match cs with
  | [] => []
  | c :: t => match ds with
              | [] => c :: t
              | d :: ds' => phase_call d c :: phase_calls ds' t
              end
  end.
Definition phase_write (ds : list pdec) (r : vrec) : vrec := mkRec (r_fixed r) (phase_calls ds (r_calls r)).

(* ---------------------------------------------------- executable specification side (L1 checks) *)
Definition allele_eqb (a b : allele) : bool :=
  match a, b with
  | None, None => true
  | Some x, Some y => x =? y
  | _, _ => false
  end.

Section ListEq.
  Variable A : Type.
  Variable eqb : A -> A -> bool.
  Fixpoint list_eqb (a b : list A) : bool :=
    match a, b with
    | [], [] => true
    | x :: a', y :: b' => eqb x y && list_eqb a' b'
    | _, _ => false
    end.
  Definition opt_eqb (a b : option A) : bool :=
    match a, b with
    | None, None => true
    | Some x, Some y => eqb x y
    | _, _ => false
    end.
End ListEq.
Arguments list_eqb {A} eqb a b.
Arguments opt_eqb {A} eqb a b.

Definition field_eqb (a b : key * token) : bool := (fst a =? fst b) && (snd a =? snd b).
Definition call_eqb (a b : call) : bool :=
  opt_eqb (list_eqb allele_eqb) (c_gt a) (c_gt b) && Bool.eqb (c_phased a) (c_phased b)
  && list_eqb field_eqb (c_fields a) (c_fields b).
Definition rec_eqb (a b : vrec) : bool :=
  list_eqb Z.eqb (r_fixed a) (r_fixed b) && list_eqb call_eqb (r_calls a) (r_calls b).
Definition recs_eqb := list_eqb rec_eqb.
Definition err_eqb (a b : err) : bool :=
  match a, b with EIndex, EIndex | EType, EType | EKey, EKey => true | _, _ => false end.
Definition fres_eqb (a b : list vrec * option err) : bool :=
  recs_eqb (fst a) (fst b) && opt_eqb err_eqb (snd a) (snd b).
Definition hline_eqb (a b : hline) : bool :=
  match a, b with (k, i, t), (k', i', t') => (k =? k') && (i =? i') && (t =? t') end.

(* multiset equality of two genotypes ('.' counts as an element) *)
Fixpoint remove_one (a : allele) (l : list allele) : option (list allele) :=
  match l with
  | [] => None
  | b :: t => if allele_eqb a b then Some t
              else match remove_one a t with Some r => Some (b :: r) | None => None end
  end.
Fixpoint mset_eqb (l l' : list allele) : bool :=
  match l with
  | [] => match l' with [] => true | _ => false end
  | a :: t => match remove_one a l' with Some r => mset_eqb t r | None => false end
  end.

(* cleanliness: no phased genotype, no HP / PS / PQ *)
Definition call_clean (c : call) : bool :=
  negb (c_phased c) && forallb (fun kv => negb (is_phase_key (fst kv))) (c_fields c).
Definition rec_clean (r : vrec) : bool := forallb call_clean (r_calls r).

(* frames: fixed columns, number of samples, GT presence, the other fields (in order) and the multiset
   of alleles of every genotype are unchanged *)
Definition call_frame (c c' : call) : bool :=
  list_eqb field_eqb (strip (c_fields c)) (strip (c_fields c'))
  && match c_gt c, c_gt c' with
     | None, None => true
     | Some g, Some g' => mset_eqb g g'
     | _, _ => false
     end.
Definition rec_frame (r r' : vrec) : bool :=
  list_eqb Z.eqb (r_fixed r) (r_fixed r') && list_eqb call_frame (r_calls r) (r_calls r').

(* boolean version of the phase-writer relation (checked on the real `whatshap phase` output) *)
Definition call_phase_relb (c c' : call) : bool :=
  list_eqb field_eqb (strip (c_fields c')) (strip (c_fields c))
  && match c_gt c, c_gt c' with
     | None, None => true
     | Some g, Some g' =>
         mset_eqb g g' && match all_called g with Some _ => true | None => list_eqb allele_eqb g' g end
     | _, _ => false
     end.
Definition rec_phase_relb (r r' : vrec) : bool :=
  list_eqb Z.eqb (r_fixed r') (r_fixed r) && list_eqb call_phase_relb (r_calls r) (r_calls r').

(* ---- what the harness evaluates.
   A case of the main stream: (input header, input records, (output header, (output records, error)),
   (records, error) of the second application). *)
Definition ucase := (list hline * list vrec * (list hline * (list vrec * option err))
                     * (list hline * (list vrec * option err)))%type.
Definition uc_hin (c : ucase) := fst (fst (fst c)).
Definition uc_in (c : ucase) := snd (fst (fst c)).
Definition uc_hout (c : ucase) := fst (snd (fst c)).
Definition uc_out (c : ucase) := fst (snd (snd (fst c))).
Definition uc_err (c : ucase) := snd (snd (snd (fst c))).
Definition uc_hout2 (c : ucase) := fst (snd c).
Definition uc_out2 (c : ucase) := fst (snd (snd c)).
Definition uc_err2 (c : ucase) := snd (snd (snd c)).

(* L1: the property clauses on (input, output) *)
Definition l1_total (c : ucase) : bool :=
  match uc_err c with None => (length (uc_out c) =? length (uc_in c))%nat | Some _ => false end.
Definition l1_clean (c : ucase) : bool := forallb rec_clean (uc_out c).
Definition l1_frames (c : ucase) : bool :=
  list_eqb rec_frame (firstn (length (uc_out c)) (uc_in c)) (uc_out c).
Definition l1_idem (c : ucase) : bool :=
  recs_eqb (uc_out2 c) (uc_out c) && match uc_err2 c with None => true | Some _ => false end.
(* header level: no HP / PS / PQ definition is left in the output header, and the second application changes
   nothing in the header apart from `##phasing` metadata lines *)
Definition l1_header_clean (c : ucase) : bool := header_clean (uc_hout c).
Definition l1_header_idem (c : ucase) : bool :=
  list_eqb hline_eqb (drop_phasing (uc_hout2 c)) (drop_phasing (uc_hout c)).
(* observation (not a verdict): is the whole header, `##phasing` lines included, a fixed point? *)
Definition obs_header_idem_strict (c : ucase) : bool := list_eqb hline_eqb (uc_hout2 c) (uc_hout c).
(* L2: implementation = model of the current code (records written, exception class, header) *)
Definition l2_records (c : ucase) : bool := fres_eqb (unphase_file cur_rule (uc_in c)) (uc_out c, uc_err c).
Definition l2_header (c : ucase) : bool := list_eqb hline_eqb (unphase_header (uc_hin c)) (uc_hout c).
(* would the repaired rule have produced this output (on the prefix the current code managed to write)? *)
Definition l2_fixed_prefix (c : ucase) : bool :=
  recs_eqb (map unphase_fixed (firstn (length (uc_out c)) (uc_in c))) (uc_out c).

(* unphase after phase: (original records, records phased by whatshap, unphase(original), unphase(phased)) *)
Definition pcase := (list vrec * list vrec * (list vrec * list vrec))%type.
Definition l1_after_phase (c : pcase) : bool := recs_eqb (snd (snd c)) (fst (snd c)).
Definition l2_phase_rel (c : pcase) : bool := list_eqb rec_phase_relb (fst (fst c)) (snd (fst c)).
Definition l2_after_phase (c : pcase) : bool :=
  fres_eqb (unphase_file cur_rule (fst (fst c))) (fst (snd c), None)
  && fres_eqb (unphase_file cur_rule (snd (fst c))) (snd (snd c), None).

(* ------------------------------------------------------------- histories of phase / unphase steps *)
Inductive hop := HPhase (ds : list pdec) | HUnphase.
Definition hstep (r : vrec) (o : hop) : vrec :=
  match o with
  | HPhase ds => phase_write ds r
  | HUnphase => unphase_fixed r
  end.
(* the same history through the model of the current code (an exception ends it) *)
Fixpoint hrun_cur (ops : list hop) (r : vrec) : res vrec :=
  match ops with
  | [] => Ok r
  | HPhase ds :: t => hrun_cur t (phase_write ds r)
  | HUnphase :: t => match unphase_rec cur_rule r with Ok r' => hrun_cur t r' | Err e => Err e end
  end.

(* L2 against the other variant of the switch: implementation = model with the repaired rule *)
Definition l2_records_fixed (c : ucase) : bool := fres_eqb (unphase_file fixed_rule (uc_in c)) (uc_out c, uc_err c).

(* malformed stream (HP / PS / PQ used in records but not declared in the header): exception class only *)
Definition mcase := (list vrec * option err)%type.
Definition l2_mal_cur (c : mcase) : bool := opt_eqb err_eqb (snd (unphase_file cur_rule (fst c))) (snd c).
Definition l2_mal_fixed (c : mcase) : bool := opt_eqb err_eqb (snd (unphase_file fixed_rule (fst c))) (snd c).
