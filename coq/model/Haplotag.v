(* Executable model of whatshap/cli/haplotag.py (property C10) and the executable specification side.

   What is modelled (faithfully, including quirks):
     get_variant_information        -> phaseinfo / variants_of
     prepare_haplotag_information   -> acc_var / acc_read / acc_group (dict of score vectors in insertion
                                       order), first_best (stable sort by max, reverse), best_of (stable
                                       sort of the scores, reverse; quality = first - second; 0 -> no tag),
                                       group_of (BX grouping with distance cut-off), step, prepare
                                       (read_to_haplotype / BX_tag_to_haplotype shared by all samples,
                                       processed_reads reset per sample)
     attempt_add_phase_information  -> tag_aln (direct hit by read name; BX fall back: first cloud within
                                       the cut-off)
     ignore_read                    -> ignore_read
     run_haplotag's writing loop    -> out_rec, list_rec, plan_none / plan_current (one fetch per region,
                                       dict order of normalize_user_regions), run_current / list_current
                                       (unmapped tail copied as is)
   Two variants of the region handling and of the list line are kept side by side:
     run_current / list_current   the code before the repair of finding F8 (regions as given, one fetch per
                                  region; loop variable leaking into the list line) — refuted by props/C10.v
     run_fixed / list_fixed       the repaired rules (norm_fixed / written_fixed, list_entry_fixed): what
                                  /repo implements after the fix and what the correspondence (L2) demands

   Trusted / supplied as data by the harness: the variant table rows and the read sets (alleles detected
   by the real ReadSetReader), the order in which the samples are processed (recorded by the driver), and the semantics
   of pysam's fetch (a region yields, in file order, the alignments a with start < region end and
   end > region start, where end is htslib's bam_endpos).

   Order of a BX group: the read itself first, then the others in read-set order (/repo builds
   reads_to_consider as a list; it used to be a python set of Read objects, whose order only mattered for
   which of several phase sets with the same maximal score is reported).  `ambiguous` flags such groups
   (tallied by the harness, no longer exempted from L2).

   No lemmas in this file. *)
From Coq Require Import ZArith List Bool Arith.
Import ListNotations.
Open Scope Z_scope.

(* ------------------------------------------------------------------------------------------------ *)
(* python dict with int keys, in insertion order *)
Section Dict.
  Context {A : Type}.
  Fixpoint lookup (k : Z) (m : list (Z * A)) : option A :=
    match m with
    | [] => None
    | (k', v) :: t => if k =? k' then Some v else lookup k t
    end.
  Fixpoint upd (k : Z) (v : A) (m : list (Z * A)) : list (Z * A) :=
    match m with
    | [] => [(k, v)]
    | (k', v') :: t => if k =? k' then (k, v) :: t else (k', v') :: upd k v t
    end.
End Dict.

Definition lookup_list {A : Type} (k : Z) (m : list (Z * list A)) : list A :=
  match lookup k m with Some l => l | None => [] end.
Definition app_at {A : Type} (k : Z) (x : A) (m : list (Z * list A)) : list (Z * list A) :=
  upd k (lookup_list k m ++ [x]) m.

Definition memZ (x : Z) (l : list Z) : bool := existsb (Z.eqb x) l.
Definition opt_eqb (a : option Z) (b : Z) : bool := match a with Some x => x =? b | None => false end.

(* ------------------------------------------------------------------------------------------------ *)
(* data *)
Definition phase := (Z * list Z)%type.              (* (block id, allele of haplotype 0, 1, ...) *)
Definition vrow := (Z * bool * option phase)%type.  (* (position, genotype homozygous?, phase) per sample *)
Definition info := list (Z * phase).                (* vpos_to_phase_info *)

Record read := mkRead {
  r_name : Z;                     (* interned (sample key, read name): the key under which the tool files the decision —
                                     the read set's sample, or nothing with --ignore-read-groups *)
  r_start : Z;                    (* reference_start *)
  r_bx : option Z;                (* interned (sample key, non-empty BX tag) *)
  r_vars : list (Z * Z * Z)       (* (position, allele, quality) *)
}.

Definition tags3 := (option Z * option Z * option Z)%type.   (* HP, PS, PC *)
Definition no_tags : tags3 := (None, None, None).

Record aln := mkAln {
  a_id : Z;                       (* interned content of the record without HP/PS/PC *)
  a_name : Z;                     (* interned (sample of the record's read group | none, query name) *)
  a_start : Z;                    (* reference_start *)
  a_end : Z;                      (* bam_endpos *)
  a_unmapped : bool;
  a_secondary : bool;
  a_suppl : bool;
  a_bx : option Z;
  a_old : tags3                   (* HP/PS/PC present in the input *)
}.

Record config := mkCfg {
  ploidy : nat;
  linked : bool;                  (* true unless --ignore-linked-read *)
  cutoff : Z;                     (* --linked-read-distance-cutoff *)
  tag_suppl : bool                (* --tag-supplementary *)
}.

(* ------------------------------------------------------------------------------------------------ *)
(* get_variant_information *)
Definition phaseinfo (rows : list vrow) : info :=
  fold_left (fun m r => match r with (p, _, Some ph) => upd p ph m | _ => m end) rows [].
Definition variants_of (rows : list vrow) : list Z :=
  flat_map (fun r => match r with (p, false, Some _) => [p] | _ => [] end) rows.

(* ------------------------------------------------------------------------------------------------ *)
(* score accumulation: haplotype_costs[phaseset][hap_index] += quality for every haplotype whose allele
   equals the read's allele; the defaultdict entry is created at the first match *)
Fixpoint add_match (v phasing : list Z) (al q : Z) : list Z :=
  match v with
  | [] => []
  | x :: v' =>
      match phasing with
      | [] => x :: v'
      | a :: ph' => (if a =? al then x + q else x) :: add_match v' ph' al q
      end
  end.

Definition acc_var (inf : info) (pl : nat) (costs : list (Z * list Z)) (var : Z * Z * Z) : list (Z * list Z) :=
  let '(pos, al, q) := var in
  match lookup pos inf with
  | None => costs            (* KeyError in the code; excluded by reads_wf, see run_* *)
  | Some (ps, phasing) =>
      if existsb (Z.eqb al) phasing
      then upd ps (add_match (match lookup ps costs with Some v => v | None => repeat 0 pl end) phasing al q) costs
      else costs
  end.
Definition acc_read (inf : info) (pl : nat) (costs : list (Z * list Z)) (r : read) :=
  fold_left (acc_var inf pl) (r_vars r) costs.
Definition acc_group (inf : info) (pl : nat) (g : list read) : list (Z * list Z) :=
  fold_left (acc_read inf pl) g [].

(* max(scores) of a non-empty list *)
Definition maxl (v : list Z) : Z :=
  match v with [] => 0 | x :: t => fold_left Z.max t x end.

(* l.sort(key=max, reverse=True); l[0]  — python's sort is stable also with reverse=True, so this is the
   first entry (insertion order) whose maximum is the largest *)
Fixpoint first_best (l : list (Z * list Z)) : option (Z * list Z) :=
  match l with
  | [] => None
  | e :: t =>
      match first_best t with
      | None => Some e
      | Some b => if maxl (snd b) >? maxl (snd e) then Some b else Some e
      end
  end.

(* index of the first element equal to m *)
Fixpoint index_of (m : Z) (v : list Z) : nat :=
  match v with
  | [] => 0%nat
  | x :: t => if x =? m then 0%nat else S (index_of m t)
  end.
Fixpoint remove_nth (n : nat) (v : list Z) : list Z :=
  match v with
  | [] => []
  | x :: t => match n with O => t | S n' => x :: remove_nth n' t end
  end.

(* scores_list.sort(key=score, reverse=True): first = leftmost maximum, second = best of the rest;
   quality = first_score - second_score; quality 0 -> read stays untagged *)
Definition best_of (v : list Z) : option (nat * Z) :=
  let h := index_of (maxl v) v in
  let q := maxl v - maxl (remove_nth h v) in
  if q =? 0 then None else Some (h, q).

Definition decision := (nat * Z * Z)%type.     (* haplotype, quality, phase set *)

Definition decide (inf : info) (pl : nat) (g : list read) : option decision :=
  match first_best (acc_group inf pl g) with
  | None => None
  | Some (ps, scores) =>
      match best_of scores with
      | None => None
      | Some (h, q) => Some (h, q, ps)
      end
  end.

(* ------------------------------------------------------------------------------------------------ *)
(* prepare_haplotag_information *)
Record pstate := mkSt {
  processed : list Z;                               (* processed_reads (names) *)
  r2h : list (Z * decision);                        (* read_to_haplotype *)
  bx2h : list (Z * list (Z * nat * Z))              (* BX_tag_to_haplotype: (reference_start, haplotype, phaseset) *)
}.

Definition close (c x y : Z) : bool := Z.abs (x - y) <=? c.

(* reads_to_consider: the read itself and, for linked reads, the not yet processed reads of the read set
   with the same BX tag within the distance cut-off *)
Definition group_of (cfg : config) (rs : list read) (proc1 : list Z) (rd : read) : list read :=
  rd :: match linked cfg, r_bx rd with
        | true, Some b =>
            filter (fun r => opt_eqb (r_bx r) b && negb (memZ (r_name r) proc1)
                             && close (cutoff cfg) (r_start rd) (r_start r)) rs
        | _, _ => []
        end.

Definition step (cfg : config) (inf : info) (rs : list read) (st : pstate) (rd : read) : pstate :=
  if memZ (r_name rd) (processed st) then st else
  let g := group_of cfg rs (r_name rd :: processed st) rd in
  let proc2 := map r_name g ++ processed st in
  match decide inf (ploidy cfg) g with
  | None => mkSt proc2 (r2h st) (bx2h st)
  | Some d =>
      mkSt proc2
           (fold_left (fun m r => upd (r_name r) d m) g (r2h st))
           (match linked cfg, r_bx rd with
            | true, Some b => app_at b (r_start rd, fst (fst d), snd d) (bx2h st)
            | _, _ => bx2h st
            end)
  end.

Definition sample_in := (list vrow * list read)%type.   (* per shared sample: its table column, its read set *)

Definition prepare_sample (cfg : config) (st : pstate) (s : sample_in) : pstate :=
  fold_left (step cfg (phaseinfo (fst s)) (snd s)) (snd s) (mkSt [] (r2h st) (bx2h st)).
Definition prepare (cfg : config) (samples : list sample_in) : pstate :=
  fold_left (prepare_sample cfg) samples (mkSt [] [] []).

(* ------------------------------------------------------------------------------------------------ *)
(* attempt_add_phase_information / ignore_read / the write loop *)
Definition tag_aln (cfg : config) (st : pstate) (a : aln) : tags3 :=
  match lookup (a_name a) (r2h st) with
  | Some (h, q, ps) => (Some (Z.of_nat h + 1), Some ps, Some q)
  | None =>
      if linked cfg then
        match a_bx a with
        | None => no_tags
        | Some b =>
            match find (fun c => close (cutoff cfg) (fst (fst c)) (a_start a)) (lookup_list b (bx2h st)) with
            | Some (_, h, ps) => (Some (Z.of_nat h + 1), Some ps, None)
            | None => no_tags
            end
        end
      else no_tags
  end.

Definition ignore_read (cfg : config) (a : aln) : bool :=
  a_unmapped a || a_secondary a || (a_suppl a && negb (tag_suppl cfg)).

Definition out_rec (cfg : config) (st : pstate) (a : aln) : Z * tags3 :=
  (a_id a, if ignore_read cfg a then no_tags else tag_aln cfg st a).

(* pysam fetch (trusted): alignments overlapping [start, end) in file order *)
Definition region := (Z * option Z)%type.
Definition lt_end (x : Z) (e : option Z) : bool := match e with None => true | Some y => x <? y end.
Definition overlaps (rg : region) (a : aln) : bool := lt_end (a_start a) (snd rg) && (fst rg <? a_end a).
Definition fetch (alns : list aln) (rg : region) : list aln := filter (overlaps rg) alns.

Record chrom := mkChrom { c_samples : list sample_in; c_alns : list aln }.

(* --output-haplotag-list: one line per written non-secondary, non-supplementary alignment of the
   chromosome loop (not for the unmapped tail): (name, haplotype or none, phaseset or none).
   Quirk of attempt_add_phase_information: the loop over the read clouds of the BX tag rebinds the
   variable `phaseset`, so an alignment that finds no cloud within the cut-off is listed with haplotype
   "none" but with the phase set of the last cloud of its barcode. *)
Definition list_entry (cfg : config) (st : pstate) (a : aln) : option Z * option Z :=
  if ignore_read cfg a then (None, None) else
  match lookup (a_name a) (r2h st) with
  | Some (h, q, ps) => (Some (Z.of_nat h + 1), Some ps)
  | None =>
      if linked cfg then
        match a_bx a with
        | None => (None, None)
        | Some b =>
            let clouds := lookup_list b (bx2h st) in
            match find (fun c => close (cutoff cfg) (fst (fst c)) (a_start a)) clouds with
            | Some (_, h, ps) => (Some (Z.of_nat h + 1), Some ps)
            | None => (None, match rev clouds with [] => None | (_, _, ps) :: _ => Some ps end)
            end
        end
      else (None, None)
  end.
(* repaired rule: the line reports exactly the HP and PS written to the record *)
Definition list_entry_fixed (cfg : config) (st : pstate) (a : aln) : option Z * option Z :=
  let t := snd (out_rec cfg st a) in (fst (fst t), snd (fst t)).
Definition list_rec (le : config -> pstate -> aln -> option Z * option Z)
           (cfg : config) (st : pstate) (k : Z) (a : aln) : list (Z * option Z * option Z * Z) :=
  if a_secondary a || a_suppl a then [] else [(a_name a, fst (le cfg st a), snd (le cfg st a), k)].

(* a plan: for each processed chromosome (index, data) the alignments fetched, in the order written *)
Definition plan := list (Z * chrom * list aln).

Definition out_of_plan (cfg : config) (pl : plan) : list (Z * tags3) :=
  flat_map (fun x => let st := prepare cfg (c_samples (snd (fst x))) in map (out_rec cfg st) (snd x)) pl.
Definition list_of_plan (le : config -> pstate -> aln -> option Z * option Z)
           (cfg : config) (pl : plan) : list (Z * option Z * option Z * Z) :=
  flat_map (fun x => let st := prepare cfg (c_samples (snd (fst x))) in
                     flat_map (list_rec le cfg st (fst (fst x))) (snd x)) pl.

(* normalize_user_regions, current: a dict chromosome -> regions in the order given *)
Definition group_regions (l : list (Z * region)) : list (Z * list region) :=
  fold_left (fun m x => app_at (fst x) (snd x) m) l [].

Definition whole : region := (0, None).

(* preconditions whose violation crashes the real run (KeyError / AssertionError / IndexError) *)
Definition read_wf (inf : info) (r : read) : bool :=
  forallb (fun v => let '(pos, al, _) := v in
             match lookup pos inf with Some _ => true | None => false end
             && ((al =? 0) || (al =? 1))) (r_vars r).
Definition sample_wf (pl : nat) (s : sample_in) : bool :=
  forallb (read_wf (phaseinfo (fst s))) (snd s)
  && forallb (fun r => match r with (_, _, Some (_, ph)) => Nat.eqb (length ph) pl | _ => true end) (fst s).
Definition input_wf (cfg : config) (chroms : list chrom) : bool :=
  Nat.leb 2 (ploidy cfg) && forallb (fun c => forallb (sample_wf (ploidy cfg)) (c_samples c)) chroms.

(* without --regions: every chromosome of the BAM header, one fetch of the whole chromosome *)
Definition plan_none (chroms : list chrom) : plan :=
  map (fun kc => (Z.of_nat (fst kc), snd kc, fetch (c_alns (snd kc)) whole)) (combine (seq 0 (length chroms)) chroms).
(* with --regions, current code: chromosomes in the order of first mention, one fetch per region as given *)
Definition plan_of (chroms : list chrom) (user : list (Z * list region))
           (wr : list aln -> list region -> list aln) : plan :=
  flat_map (fun kr => match nth_error chroms (Z.to_nat (fst kr)) with
                      | Some c => [(fst kr, c, wr (c_alns c) (snd kr))]
                      | None => []
                      end) user.
Definition written_current (alns : list aln) (regs : list region) : list aln := flat_map (fetch alns) regs.
Definition plan_current (chroms : list chrom) (l : list (Z * region)) : plan :=
  plan_of chroms (group_regions l) written_current.

(* run_haplotag, current code.  user = None: no --regions; the unplaced unmapped tail is copied as is. *)
Definition run_current (cfg : config) (chroms : list chrom) (user : option (list (Z * region)))
           (tail : list aln) : option (list (Z * tags3)) :=
  if negb (input_wf cfg chroms) then None else
  Some match user with
       | None => out_of_plan cfg (plan_none chroms) ++ map (fun a => (a_id a, a_old a)) tail
       | Some l => out_of_plan cfg (plan_current chroms l)
       end.
Definition list_run (le : config -> pstate -> aln -> option Z * option Z)
           (pf : list chrom -> list (Z * region) -> plan)
           (cfg : config) (chroms : list chrom) (user : option (list (Z * region)))
  : list (Z * option Z * option Z * Z) :=
  list_of_plan le cfg (match user with None => plan_none chroms | Some l => pf chroms l end).
Definition list_current := list_run list_entry plan_current.

(* ------------------------------------------------------------------------------------------------ *)
(* repaired region rule (candidate patch for F8): chromosomes in BAM order; regions of a chromosome
   sorted by start and merged when overlapping or adjacent; an alignment that starts before the end of
   the previous region has been written with it and is skipped *)
Definition max_end (a b : option Z) : option Z :=
  match a, b with Some x, Some y => Some (Z.max x y) | _, _ => None end.
Fixpoint insert_reg (r : region) (l : list region) : list region :=
  match l with
  | [] => [r]
  | h :: t => if fst r <=? fst h then r :: l else h :: insert_reg r t
  end.
Definition sort_regs (l : list region) : list region := fold_right insert_reg [] l.
Definition touches (cur r : region) : bool :=
  match snd cur with None => true | Some e => fst r <=? e end.
Fixpoint merge_from (cur : region) (l : list region) : list region :=
  match l with
  | [] => [cur]
  | r :: t => if touches cur r then merge_from (fst cur, max_end (snd cur) (snd r)) t
              else cur :: merge_from r t
  end.
Definition merge_regs (l : list region) : list region :=
  match l with [] => [] | r :: t => merge_from r t end.
Definition norm_regs (l : list region) : list region := merge_regs (sort_regs l).

Definition regs_of (k : Z) (l : list (Z * region)) : list region :=
  map snd (filter (fun x => fst x =? k) l).
Definition norm_fixed (nchrom : nat) (l : list (Z * region)) : list (Z * list region) :=
  flat_map (fun k => match regs_of (Z.of_nat k) l with
                     | [] => []
                     | rs => [(Z.of_nat k, norm_regs rs)]
                     end) (seq 0 nchrom).

Fixpoint fetch_dedup (alns : list aln) (prev_end : option Z) (regs : list region) : list aln :=
  match regs with
  | [] => []
  | rg :: t => filter (fun a => negb (lt_end (a_start a) prev_end)) (fetch alns rg)
               ++ fetch_dedup alns (snd rg) t
  end.

Definition written_fixed (alns : list aln) (regs : list region) : list aln := fetch_dedup alns (Some 0) regs.
Definition plan_fixed (chroms : list chrom) (l : list (Z * region)) : plan :=
  plan_of chroms (norm_fixed (length chroms) l) written_fixed.

Definition run_fixed (cfg : config) (chroms : list chrom) (user : option (list (Z * region)))
           (tail : list aln) : option (list (Z * tags3)) :=
  if negb (input_wf cfg chroms) then None else
  Some match user with
       | None => out_of_plan cfg (plan_none chroms) ++ map (fun a => (a_id a, a_old a)) tail
       | Some l => out_of_plan cfg (plan_fixed chroms l)
       end.
Definition list_fixed := list_run list_entry_fixed plan_fixed.

(* ------------------------------------------------------------------------------------------------ *)
(* executable specification side (restates the property text; evaluated on the implementation's output) *)

(* summed quality of the alleles of the reads g that agree with haplotype h within phase set ps *)
Definition agrees (inf : info) (ps : Z) (h : nat) (var : Z * Z * Z) : Z :=
  let '(pos, al, q) := var in
  match lookup pos inf with
  | Some (ps', phasing) => if (ps' =? ps) && opt_eqb (nth_error phasing h) al then q else 0
  | None => 0
  end.
Definition score_spec (inf : info) (g : list read) (ps : Z) (h : nat) : Z :=
  fold_right Z.add 0 (map (agrees inf ps h) (flat_map r_vars g)).

(* h is the unique strict maximum of the scores of haplotypes 0..pl-1 *)
Definition strict_best (inf : info) (pl : nat) (g : list read) (ps : Z) (h : nat) : bool :=
  Nat.ltb h pl &&
  forallb (fun h' => Nat.eqb h' h || (score_spec inf g ps h' <? score_spec inf g ps h)) (seq 0 pl).

(* stream conservation: without regions the ids of the output are the ids of the input in order; with
   regions, per chromosome in BAM order, the alignments overlapping at least one region, each once *)
Definition in_regions (regs : list region) (a : aln) : bool := existsb (fun rg => overlaps rg a) regs.
Definition expected_ids (chroms : list chrom) (user : option (list (Z * region))) (tail : list aln) : list Z :=
  match user with
  | None => flat_map (fun c => map a_id (c_alns c)) chroms ++ map a_id tail
  | Some l => flat_map (fun kc => map a_id (filter (in_regions (regs_of (Z.of_nat (fst kc)) l)) (c_alns (snd kc))))
                       (combine (seq 0 (length chroms)) chroms)
  end.

Fixpoint list_eqb {A : Type} (eqb : A -> A -> bool) (a b : list A) : bool :=
  match a, b with
  | [], [] => true
  | x :: a', y :: b' => eqb x y && list_eqb eqb a' b'
  | _, _ => false
  end.
Definition oz_eqb (a b : option Z) : bool :=
  match a, b with Some x, Some y => x =? y | None, None => true | _, _ => false end.
Definition tags_eqb (a b : tags3) : bool :=
  oz_eqb (fst (fst a)) (fst (fst b)) && oz_eqb (snd (fst a)) (snd (fst b)) && oz_eqb (snd a) (snd b).
Definition out_eqb (a b : list (Z * tags3)) : bool :=
  list_eqb (fun x y => (fst x =? fst y) && tags_eqb (snd x) (snd y)) a b.
Definition oout_eqb (a : option (list (Z * tags3))) (b : list (Z * tags3)) : bool :=
  match a with Some x => out_eqb x b | None => false end.

Definition conserved_spec (chroms : list chrom) (user : option (list (Z * region))) (tail : list aln)
           (out : list (Z * tags3)) : bool :=
  list_eqb Z.eqb (map fst out) (expected_ids chroms user tail).

(* the tag rule for one written alignment that is not subject to BX linking: if it carries HP = h+1 and
   PS = ps then some sample has a read of that name for which h is the strict best haplotype within ps;
   an alignment without HP has neither PS nor PC; an alignment for which no sample has a read of that
   name (no phased heterozygous variant detected) is untagged. *)
Definition reads_named (n : Z) (samples : list sample_in) : list (info * read) :=
  flat_map (fun s => map (fun r => (phaseinfo (fst s), r)) (filter (fun r => r_name r =? n) (snd s))) samples.
Definition tag_ok (pl : nat) (samples : list sample_in) (a : aln) (t : tags3) : bool :=
  match t with
  | (Some hp, Some ps, _) =>
      (1 <=? hp) &&
      existsb (fun ir => strict_best (fst ir) pl [snd ir] ps (Z.to_nat (hp - 1))) (reads_named (a_name a) samples)
  | (None, None, None) => true
  | _ => false
  end.
(* alignments to which tag_ok applies: all if linking is off, else those whose name is not carried by any
   alignment or read with a BX tag *)
Definition unlinked (cfg : config) (c : chrom) (a : aln) : bool :=
  negb (linked cfg) ||
  (negb (existsb (fun b => (a_name b =? a_name a) && match a_bx b with Some _ => true | None => false end) (c_alns c))
   && negb (existsb (fun s => existsb (fun r => (r_name r =? a_name a) && match r_bx r with Some _ => true | None => false end) (snd s)) (c_samples c))).

(* out is the list of (id, tags) written for chromosome c, paired with the alignments in order *)
Definition tags_ok_chrom (cfg : config) (c : chrom) (alns : list aln) (out : list (Z * tags3)) : bool :=
  forallb (fun p => let '(a, o) := p in
             negb (unlinked cfg c a) || tag_ok (ploidy cfg) (c_samples c) a (snd o))
          (combine alns out).

(* the tag rule for linked reads, stated without reference to the processing order: if the reads of a
   barcode (within one sample's read set, names distinct) fall into well separated clouds — being within
   the distance cut-off of each other is transitive among them — then the cloud of a read is unambiguous
   (all reads of the barcode within the cut-off of it) and an alignment tagged through its own read (PC
   present) must carry the strict best haplotype of that whole cloud.  Applies when exactly one read of
   all samples has the alignment's name. *)
Definition bx_reads (b : Z) (rs : list read) : list read := filter (fun r => opt_eqb (r_bx r) b) rs.
Definition near (cfg : config) (r1 r2 : read) : bool := close (cutoff cfg) (r_start r1) (r_start r2).
Definition clouds_separated (cfg : config) (rb : list read) : bool :=
  forallb (fun r1 => forallb (fun r2 => forallb (fun r3 =>
     negb (near cfg r1 r2 && near cfg r2 r3) || near cfg r1 r3) rb) rb) rb.
Definition cloud_of (cfg : config) (rb : list read) (r : read) : list read := filter (near cfg r) rb.
Fixpoint nodupZ (l : list Z) : bool :=
  match l with [] => true | x :: t => negb (memZ x t) && nodupZ t end.
Definition named_in (n : Z) (samples : list sample_in) : list (sample_in * read) :=
  flat_map (fun s => map (fun r => (s, r)) (filter (fun r => r_name r =? n) (snd s))) samples.
Definition linked_tag_ok (cfg : config) (samples : list sample_in) (a : aln) (t : tags3) : bool :=
  match named_in (a_name a) samples with
  | [(s, r)] =>
      match r_bx r with
      | Some b =>
          let rb := bx_reads b (snd s) in
          if linked cfg && nodupZ (map r_name (snd s)) && clouds_separated cfg rb then
            match t with
            | (Some hp, Some ps, Some _) =>
                (1 <=? hp) && strict_best (phaseinfo (fst s)) (ploidy cfg) (cloud_of cfg rb r) ps (Z.to_nat (hp - 1))
            | _ => true
            end
          else true
      | None => true
      end
  | _ => true
  end.
Definition linked_tags_ok_chrom (cfg : config) (c : chrom) (alns : list aln) (out : list (Z * tags3)) : bool :=
  forallb (fun p => linked_tag_ok cfg (c_samples c) (fst p) (snd (snd p))) (combine alns out).
(* evidence only: the rule above was applied to a tagged alignment whose cloud has >= 2 reads *)
Definition linked_rule_applied (cfg : config) (c : chrom) (alns : list aln) (out : list (Z * tags3)) : bool :=
  existsb (fun p =>
     match named_in (a_name (fst p)) (c_samples c), snd (snd p) with
     | [(s, r)], (Some _, Some _, Some _) =>
         match r_bx r with
         | Some b => let rb := bx_reads b (snd s) in
                     linked cfg && nodupZ (map r_name (snd s)) && clouds_separated cfg rb
                     && Nat.ltb 1 (length (cloud_of cfg rb r)) && Nat.ltb (length (cloud_of cfg rb r)) (length rb)
         | None => false
         end
     | _, _ => false
     end) (combine alns out).

(* the variant table handed to the decision: rows = what the reader delivered, expected = the biallelic
   records of the VCF as generated (position, homozygous?, phase); without regions they must be equal,
   with regions the delivered rows are a sub-list of the expected ones that contains every expected row
   whose position lies inside a region *)
Definition phase_eqb (a b : option phase) : bool :=
  match a, b with
  | Some (x, p), Some (y, q) => (x =? y) && list_eqb Z.eqb p q
  | None, None => true
  | _, _ => false
  end.
Definition vrow_eqb (a b : vrow) : bool :=
  (fst (fst a) =? fst (fst b)) && Bool.eqb (snd (fst a)) (snd (fst b)) && phase_eqb (snd a) (snd b).
Fixpoint sublist_rows (rows expected : list vrow) : bool :=
  match rows, expected with
  | [], _ => true
  | _ :: _, [] => false
  | r :: rows', e :: expected' => if vrow_eqb r e then sublist_rows rows' expected' else sublist_rows rows expected'
  end.
Definition table_ok (regs : option (list region)) (rows expected : list vrow) : bool :=
  match regs with
  | None => list_eqb vrow_eqb rows expected
  | Some rl =>
      sublist_rows rows expected &&
      forallb (fun e => negb (existsb (fun rg => (fst rg <=? fst (fst e)) && lt_end (fst (fst e)) (snd rg)) rl)
                        || existsb (vrow_eqb e) rows) expected
  end.

(* the haplotag list agrees with the written records: one line (name, HP, PS) per primary record *)
Definition list_of_records (outs : list aln) : list (Z * option Z * option Z) :=
  flat_map (fun a => if a_secondary a || a_suppl a then [] else [(a_name a, fst (fst (a_old a)), snd (fst (a_old a)))]) outs.
(* the same on (alignment, written tags) pairs *)
Definition list_of_written (w : list (aln * tags3)) : list (Z * option Z * option Z) :=
  flat_map (fun x => if a_secondary (fst x) || a_suppl (fst x) then []
                     else [(a_name (fst x), fst (fst (snd x)), snd (fst (snd x)))]) w.

(* swap symmetry on two observed outputs: p is the permutation applied to the haplotype columns of
   phase set bs of sample k (new column j = old column p[j]); smp a = sample index of the alignment's read
   group.  For alignments of sample k tagged with PS = bs the new HP is the position of the old haplotype
   in p; everything else is unchanged. *)
Definition pos_in (h : nat) (p : list nat) : nat :=
  (fix go (l : list nat) : nat := match l with [] => 0%nat | x :: t => if Nat.eqb x h then 0%nat else S (go t) end) p.
Definition swap_tags (p : list nat) (bs : Z) (t : tags3) : tags3 :=
  match t with
  | (Some hp, Some ps, pc) =>
      if ps =? bs then (Some (Z.of_nat (pos_in (Z.to_nat (hp - 1)) p) + 1), Some ps, pc) else t
  | _ => t
  end.
Definition swap_ok (p : list nat) (bs : Z) (k : Z) (smp : list (option Z)) (out out' : list (Z * tags3)) : bool :=
  Nat.eqb (length out) (length out') && Nat.eqb (length out) (length smp) &&
  forallb (fun x => let '(s, (o, o')) := x in
             (fst o =? fst o') &&
             tags_eqb (snd o') (if opt_eqb s k then swap_tags p bs (snd o) else snd o))
          (combine smp (combine out out')).

(* the permuted variant table: haplotype column j of phase set bs becomes the old column p[j] *)
Definition permute {A : Type} (d : A) (p : list nat) (v : list A) : list A := map (fun j => nth j v d) p.
Definition swap_phase (p : list nat) (bs : Z) (ph : phase) : phase :=
  if fst ph =? bs then (fst ph, permute 0 p (snd ph)) else ph.
Definition swap_rows (p : list nat) (bs : Z) (rows : list vrow) : list vrow :=
  map (fun r => match r with (pos, hom, Some ph) => (pos, hom, Some (swap_phase p bs ph)) | _ => r end) rows.
Definition swap_samples (p : list nat) (bs : Z) (samples : list sample_in) : list sample_in :=
  map (fun s => (swap_rows p bs (fst s), snd s)) samples.
Definition swap_chrom (p : list nat) (bs : Z) (c : chrom) : chrom :=
  mkChrom (swap_samples p bs (c_samples c)) (c_alns c).
Definition is_perm (p : list nat) (n : nat) : bool :=
  Nat.eqb (length p) n && forallb (fun k => existsb (Nat.eqb k) p) (seq 0 n).

(* a BX group of >= 2 reads whose accumulated table has two phase sets with the same (maximal) maximum:
   the reported phase set then depends on python's set iteration order *)
Definition ambiguous_costs (costs : list (Z * list Z)) : bool :=
  match first_best costs with
  | None => false
  | Some b => Nat.ltb 1 (length (filter (fun e => maxl (snd e) =? maxl (snd b)) costs))
  end.
Definition ambiguous_sample (cfg : config) (s : sample_in) : bool :=
  existsb (fun rd =>
             let g := group_of cfg (snd s) [r_name rd] rd in
             Nat.ltb 1 (length g) && ambiguous_costs (acc_group (phaseinfo (fst s)) (ploidy cfg) g)) (snd s).
Definition ambiguous (cfg : config) (chroms : list chrom) : bool :=
  existsb (fun c => existsb (ambiguous_sample cfg) (c_samples c)) chroms.
