(* C20 — run-level model of the three auxiliary report writers of `whatshap phase`
   (whatshap/cli/phase.py: ReadList, write_changed_genotypes, write_recombination_list;
    whatshap/pedigree.py: find_recombination; whatshap/vcf.py: PhasedVcfWriter.write, genotype level)
   as functions of the list of per-(chromosome, family) results of a run, and the executable
   specification side evaluated on the real files.  No lemmas in this file.

   Names (samples, chromosomes, reads, REF/ALT strings) are interned to integers by the harness.
   Positions are 0-based as inside whatshap; VCF POS = position + 1. *)
From Coq Require Import ZArith List Bool Arith.
Import ListNotations.
Open Scope Z_scope.

(* ------------------------------------------------------------------ generic helpers *)
Fixpoint lookup {V : Type} (k : Z) (d : list (Z * V)) : option V :=
  match d with
  | [] => None
  | (k', v) :: t => if k =? k' then Some v else lookup k t
  end.

Fixpoint map_opt {A B : Type} (f : A -> option B) (l : list A) : option (list B) :=
  match l with
  | [] => Some []
  | a :: t => match f a, map_opt f t with
              | Some b, Some bs => Some (b :: bs)
              | _, _ => None
              end
  end.

Fixpoint insert {A : Type} (leb : A -> A -> bool) (x : A) (l : list A) : list A :=
  match l with
  | [] => [x]
  | y :: t => if leb x y then x :: l else y :: insert leb x t
  end.
Definition isort {A : Type} (leb : A -> A -> bool) (l : list A) : list A := fold_right (insert leb) [] l.

Fixpoint dedup (l : list Z) : list Z :=
  match l with
  | [] => []
  | x :: t => x :: filter (fun y => negb (y =? x)) (dedup t)
  end.

Fixpoint list_eqb {A : Type} (eqb : A -> A -> bool) (a b : list A) : bool :=
  match a, b with
  | [], [] => true
  | x :: s, y :: t => eqb x y && list_eqb eqb s t
  | _, _ => false
  end.

Definition opt_eqb {A : Type} (eqb : A -> A -> bool) (a b : option A) : bool :=
  match a, b with
  | None, None => true
  | Some x, Some y => eqb x y
  | _, _ => false
  end.

Definition is_some {A : Type} (o : option A) : bool := match o with Some _ => true | None => false end.

(* lexicographic "less or equal" on integer tuples written as lists *)
Fixpoint lex_leb (a b : list Z) : bool :=
  match a, b with
  | [], _ => true
  | _ :: _, [] => false
  | x :: s, y :: t => if x <? y then true else if y <? x then false else lex_leb s t
  end.

(* ------------------------------------------------------------------ files and the two writer rules *)
Inductive line (E : Type) : Type :=
| Header : line E
| Entry : E -> line E.
Arguments Header {E}.
Arguments Entry {E} _.

(* None: the file does not exist *)
Definition file (E : Type) : Type := option (list (line E)).

(* PerCall: the writer function opens its path with mode "w" on every call (truncate, header, entries);
   PerRun : the file is opened once before the main loop (header written then) and every call appends —
            this is what ReadList does, and what the repair of F9 does for the other two lists. *)
Inductive wrule : Type := PerCall | PerRun.

Definition open_run {E : Type} (r : wrule) : file E :=
  match r with
  | PerRun => Some [Header]
  | PerCall => None
  end.

Definition write_call {E : Type} (r : wrule) (f : file E) (es : list E) : file E :=
  match r with
  | PerCall => Some (Header :: map Entry es)
  | PerRun => match f with
              | Some l => Some (l ++ map Entry es)
              | None => None
              end
  end.

Definition write_calls {E : Type} (r : wrule) (calls : list (list E)) : file E :=
  fold_left (write_call r) calls (open_run r).

(* THE SWITCH (finding F9): the rule followed by write_changed_genotypes and write_recombination_list.
   old_rule: before commit 1fd343a of /repo (kept for the _refuted witnesses); repaired_rule: the code as it is. *)
Definition old_rule : wrule := PerCall.
Definition repaired_rule : wrule := PerRun.

(* coordinate written into the `position` column of the changed-genotype list:
   before commit a4e9ec3 the code printed variant.position (0-based, old_posrule); now, like the other two
   lists, position + 1 (= VCF POS) *)
Inductive posrule : Type := ZeroBased | OneBased.
Definition pos_shift (p : posrule) : Z := match p with ZeroBased => 0 | OneBased => 1 end.
Definition old_posrule : posrule := ZeroBased.
Definition repaired_posrule : posrule := OneBased.

(* find_recombination on a family without accessible position: before commit 341691b the code tripped its
   length assertion (both cost computers return [0] for an empty position list; old_emptyrule); now it
   returns no event *)
Inductive emptyrule : Type := Strict | EmptyOk.
Definition old_emptyrule : emptyrule := Strict.
Definition repaired_emptyrule : emptyrule := EmptyOk.

(* ------------------------------------------------------------------ data of a run *)
Record read := mkRead {
  r_name : Z;
  r_source : Z;
  r_sample : Z;                 (* numeric sample id stored in the read *)
  r_vars : list (Z * Z)         (* (position, allele) *)
}.

Definition superread := list (Z * Z).      (* (position, allele); alleles outside {0,1} = not phased here *)

(* one (chromosome, family) result, as dumped by the trace hook *)
Record inst := mkInst {
  i_family : list Z;                        (* sample names in pedigree order *)
  i_super : list (superread * superread);   (* superreads_list, zipped with i_family by the code *)
  i_trios : list (Z * (Z * Z));             (* (child, (father, mother)) *)
  i_positions : list Z;                     (* accessible positions *)
  i_comps : list (Z * Z);                   (* overall_components: position -> leftmost position of its block *)
  i_costs : list Z;                         (* recombination costs *)
  i_tv : list Z;                            (* transmission vector *)
  i_reads : list read;                      (* all_reads *)
  i_part : list Z                           (* optimal partitioning *)
}.

(* one record of the input VCF: 0-based start, REF, ALTs, calls (sample, GT alleles with -1 for '.') in file order *)
Record vrec := mkRec {
  v_pos : Z;
  v_ref : Z;
  v_alts : list Z;
  v_gts : list (Z * list Z)
}.

Record chrom := mkChrom {
  c_name : Z;
  c_selected : bool;            (* false: present in the VCF but not requested by --chromosome *)
  c_records : list vrec;
  c_insts : list inst           (* families in processing order *)
}.

Record opts := mkOpts {
  o_reads : bool;               (* --output-read-list given *)
  o_gts : bool;                 (* --changed-genotype-list given *)
  o_recs : bool                 (* --recombination-list given *)
}.

(* ------------------------------------------------------------------ entries of the three lists *)
Record read_entry := mkRE {
  re_name : Z; re_source : Z; re_sample : Z; re_ps : Z; re_hap : Z; re_n : Z; re_first : Z; re_last : Z
}.
Record gt_entry := mkGE {
  ge_sample : Z; ge_chrom : Z; ge_pos : Z; ge_ref : Z; ge_alt : Z; ge_old : list Z; ge_new : list Z
}.
Record rec_entry := mkCE {
  ce_child : Z; ce_chrom : Z; ce_p1 : Z; ce_p2 : Z; ce_f1 : Z; ce_f2 : Z; ce_m1 : Z; ce_m2 : Z; ce_cost : Z
}.

Definition re_eqb (a b : read_entry) : bool :=
  (re_name a =? re_name b) && (re_source a =? re_source b) && (re_sample a =? re_sample b) &&
  (re_ps a =? re_ps b) && (re_hap a =? re_hap b) && (re_n a =? re_n b) &&
  (re_first a =? re_first b) && (re_last a =? re_last b).
Definition ge_eqb (a b : gt_entry) : bool :=
  (ge_sample a =? ge_sample b) && (ge_chrom a =? ge_chrom b) && (ge_pos a =? ge_pos b) &&
  (ge_ref a =? ge_ref b) && (ge_alt a =? ge_alt b) &&
  list_eqb Z.eqb (ge_old a) (ge_old b) && list_eqb Z.eqb (ge_new a) (ge_new b).
Definition ce_eqb (a b : rec_entry) : bool :=
  (ce_child a =? ce_child b) && (ce_chrom a =? ce_chrom b) && (ce_p1 a =? ce_p1 b) && (ce_p2 a =? ce_p2 b) &&
  (ce_f1 a =? ce_f1 b) && (ce_f2 a =? ce_f2 b) && (ce_m1 a =? ce_m1 b) && (ce_m2 a =? ce_m2 b) &&
  (ce_cost a =? ce_cost b).

Definition line_eqb {E : Type} (eqb : E -> E -> bool) (a b : line E) : bool :=
  match a, b with
  | Header, Header => true
  | Entry x, Entry y => eqb x y
  | _, _ => false
  end.
Definition file_eqb {E : Type} (eqb : E -> E -> bool) (a b : file E) : bool :=
  opt_eqb (list_eqb (line_eqb eqb)) a b.

(* ------------------------------------------------------------------ pedigree.find_recombination *)
Record event := mkEv {
  ev_p1 : Z; ev_p2 : Z; ev_f1 : Z; ev_f2 : Z; ev_m1 : Z; ev_m2 : Z; ev_cost : Z
}.
Definition ev_key (e : event) : list Z :=
  [ev_p1 e; ev_p2 e; ev_f1 e; ev_f2 e; ev_m1 e; ev_m2 e; ev_cost e].
Definition ev_leb (a b : event) : bool := lex_leb (ev_key a) (ev_key b).   (* @dataclass(order=True) *)

(* a column of one block: (position, (transmission value of this trio, recombination cost)) *)
Definition col : Type := (Z * (Z * Z))%type.
Definition col_pos (c : col) : Z := fst c.
Definition col_tv (c : col) : Z := fst (snd c).
Definition col_cost (c : col) : Z := snd (snd c).

Definition mk_event (a b : col) : event :=
  mkEv (col_pos a) (col_pos b) (col_tv a mod 2) (col_tv b mod 2) (col_tv a / 2) (col_tv b / 2) (col_cost b).

(* events between consecutive columns of l *)
Fixpoint pair_events (l : list col) : list event :=
  match l with
  | [] => []
  | a :: tl =>
      match tl with
      | [] => []
      | b :: _ => (if col_tv a =? col_tv b then [] else [mk_event a b]) ++ pair_events tl
      end
  end.

(* `for i in range(2, len(block))`: the comparison of the first two variants of a block is never made *)
Definition block_events (blk : list col) : list event := pair_events (tl blk).

Definition block_ids (comps : list (Z * Z)) : list Z := dedup (map snd comps).
Definition block_of (comps : list (Z * Z)) (b : Z) : list Z :=
  isort Z.leb (map fst (filter (fun pc => snd pc =? b) comps)).          (* block.sort() *)

Definition find_recombination (er : emptyrule) (tv : list Z) (comps : list (Z * Z)) (positions costs : list Z)
  : option (list event) :=
  match er, positions with
  | EmptyOk, [] => Some []
  | _, _ =>
  if negb ((length tv =? length positions)%nat && (length positions =? length costs)%nat) then None
  else if negb (forallb (fun pc => existsb (Z.eqb (fst pc)) positions) comps) then None
  else
    let cols := combine positions (combine tv costs) in
    match map_opt (fun b => map_opt (fun p => option_map (pair p) (lookup p cols)) (block_of comps b))
                  (block_ids comps) with
    | None => None
    | Some blocks => Some (isort ev_leb (flat_map block_events blocks))     (* events.sort() *)
    end
  end.

(* ------------------------------------------------------------------ write_recombination_list: entries of one call *)
Fixpoint digits4 (n : nat) (v : Z) : list Z :=
  match n with
  | O => []
  | S m => (v mod 4) :: digits4 m (v / 4)
  end.
Definition tv_of_trio (ntrios k : nat) (tv : list Z) : list Z :=
  map (fun v => nth k (digits4 ntrios v) 0) tv.

Definition entry_of_event (child chromname : Z) (e : event) : rec_entry :=
  mkCE child chromname (ev_p1 e + 1) (ev_p2 e + 1) (ev_f1 e) (ev_f2 e) (ev_m1 e) (ev_m2 e) (ev_cost e).

Definition trio_rec_entries (er : emptyrule) (chromname : Z) (i : inst) (kt : nat * (Z * (Z * Z))) : option (list rec_entry) :=
  option_map (map (entry_of_event (fst (snd kt)) chromname))
             (find_recombination er (tv_of_trio (length (i_trios i)) (fst kt) (i_tv i))
                                 (i_comps i) (i_positions i) (i_costs i)).

Definition inst_rec_entries (er : emptyrule) (chromname : Z) (i : inst) : option (list rec_entry) :=
  option_map (@concat rec_entry)
             (map_opt (trio_rec_entries er chromname i) (combine (seq 0 (length (i_trios i))) (i_trios i))).

(* ------------------------------------------------------------------ ReadList.write: entries of one call *)
Definition read_entry_of (ids : list (Z * Z)) (scomps : list (Z * list (Z * Z))) (rh : read * Z)
  : option read_entry :=
  let r := fst rh in
  match lookup (r_sample r) ids with            (* numeric_id_to_name[read.sample_id] *)
  | None => None
  | Some sample =>
      match lookup sample scomps with           (* sample_components[sample] *)
      | None => None
      | Some comps =>
          match r_vars r with                   (* read[0] *)
          | [] => None
          | v0 :: _ =>
              match lookup (fst v0) comps with  (* components[read[0].position] *)
              | None => None
              | Some c =>
                  Some (mkRE (r_name r) (r_source r) sample (c + 1) (snd rh)
                             (Z.of_nat (length (r_vars r))) (fst v0 + 1) (fst (last (r_vars r) v0) + 1))
              end
          end
      end
  end.

Definition read_entries (ids : list (Z * Z)) (scomps : list (Z * list (Z * Z))) (i : inst)
  : option (list read_entry) :=
  if negb (length (i_reads i) =? length (i_part i))%nat then None          (* assert len(readset) == len(bipartition) *)
  else map_opt (read_entry_of ids scomps) (combine (i_reads i) (i_part i)).

(* members of a family as the main loop sees them: zip(family, superreads_list) *)
Definition inst_members (i : inst) : list (Z * (superread * superread)) := combine (i_family i) (i_super i).

(* `components[sample] = overall_components` for the members; `components` is reset per chromosome *)
Definition bind_comps (i : inst) (scomps : list (Z * list (Z * Z))) : list (Z * list (Z * Z)) :=
  map (fun m => (fst m, i_comps i)) (inst_members i) ++ scomps.

Fixpoint chrom_read_calls (ids : list (Z * Z)) (scomps : list (Z * list (Z * Z))) (insts : list inst)
  : option (list (list read_entry)) :=
  match insts with
  | [] => Some []
  | i :: t =>
      match read_entries ids (bind_comps i scomps) i, chrom_read_calls ids (bind_comps i scomps) t with
      | Some es, Some r => Some (es :: r)
      | _, _ => None
      end
  end.

(* ------------------------------------------------------------------ PhasedVcfWriter.write, genotype level *)
(* genotype_code: the allele multiset, empty if any allele is missing *)
Definition gcode (gt : list Z) : list Z :=
  if existsb (fun a => a <? 0) gt then [] else isort Z.leb gt.

Definition allowed (a : Z) : bool := (a =? 0) || (a =? 1).

(* sample_phases / sample_genotypes: position -> alleles of the two superreads, where both are 0 or 1 *)
Fixpoint phases_of (s0 s1 : superread) : list (Z * (Z * Z)) :=
  match s0, s1 with
  | (p, a) :: t0, (_, b) :: t1 =>
      if allowed a && allowed b then (p, (a, b)) :: phases_of t0 t1 else phases_of t0 t1
  | _, _ => []
  end.

(* per target sample (in the order of the dict sample_superreads): its phases and its components *)
Definition target : Type := (Z * (list (Z * (Z * Z)) * list (Z * Z)))%type.
Definition targets_of (insts : list inst) : list target :=
  flat_map (fun i => map (fun m => (fst m, (phases_of (fst (snd m)) (snd (snd m)), i_comps i))) (inst_members i))
           insts.

Definition phased_in (tg : list target) (pos : Z) (s : Z) : bool :=
  match lookup s tg with
  | Some (ph, comps) => is_some (lookup pos comps) && is_some (lookup pos ph)
  | None => false
  end.

(* one target sample's call in a processed record: Some (changes, (sample, new genotype)); None = KeyError *)
Definition write_call_gt (pr : posrule) (chromname : Z) (r : vrec) (t : target)
  : option (list gt_entry * (Z * list Z)) :=
  match lookup (fst t) (v_gts r) with
  | None => None
  | Some gt =>
      let old := gcode gt in
      match lookup (v_pos r) (fst (snd t)) with
      | Some (a, b) =>
          let new := isort Z.leb [a; b] in
          if list_eqb Z.eqb new old then Some ([], (fst t, old))
          else Some ([mkGE (fst t) chromname (v_pos r + pos_shift pr) (v_ref r) (hd 0 (v_alts r)) old new],
                     (fst t, new))
      | None => Some ([], (fst t, old))
      end
  end.

Definition record_skipped (vcf_samples : list Z) (tg : list target) (prev : option Z) (r : vrec) : bool :=
  match v_alts r with
  | [] => true                                            (* if not record.alts: continue *)
  | _ :: _ :: _ => true                                   (* multiallelic, no --mav *)
  | [_] =>
      opt_eqb Z.eqb (Some (v_pos r)) prev                 (* duplicate position *)
      || negb (existsb (phased_in tg (v_pos r)) vcf_samples)   (* not phased in any sample *)
  end.

(* genotype of a sample in the output record: rewritten for target samples of processed records *)
Definition out_calls (r : vrec) (news : list (Z * list Z)) : list (Z * list Z) :=
  map (fun sg => match lookup (fst sg) news with
                 | Some g => (fst sg, g)
                 | None => (fst sg, gcode (snd sg))
                 end) (v_gts r).

Definition write_record (pr : posrule) (chromname : Z) (vcf_samples : list Z) (tg : list target)
           (prev : option Z) (r : vrec) : option (option Z * (list gt_entry * list (Z * list Z))) :=
  if record_skipped vcf_samples tg prev r then Some (prev, ([], out_calls r []))
  else match map_opt (write_call_gt pr chromname r) tg with
       | None => None
       | Some res => Some (Some (v_pos r), (concat (map fst res), out_calls r (map snd res)))
       end.

Fixpoint write_records (pr : posrule) (chromname : Z) (vcf_samples : list Z) (tg : list target)
         (prev : option Z) (rs : list vrec) : option (list (list gt_entry * list (Z * list Z))) :=
  match rs with
  | [] => Some []
  | r :: t =>
      match write_record pr chromname vcf_samples tg prev r with
      | None => None
      | Some (prev', res) =>
          match write_records pr chromname vcf_samples tg prev' t with
          | None => None
          | Some rest => Some (res :: rest)
          end
      end
  end.

(* specification of the changed-genotype entries of one record: the calls of the given samples whose
   genotype (allele multiset) differs between the input record r and the output calls `outs`,
   listed with position column v_pos r + d  (d = 1: the VCF POS) *)
Definition diff_entry (d : Z) (chromname : Z) (r : vrec) (outs : list (Z * list Z)) (s : Z) : list gt_entry :=
  match lookup s (v_gts r), lookup s outs with
  | Some gi, Some go =>
      if list_eqb Z.eqb go (gcode gi) then []
      else [mkGE s chromname (v_pos r + d) (v_ref r) (hd 0 (v_alts r)) (gcode gi) go]
  | _, _ => []
  end.
Definition record_changes (d : Z) (chromname : Z) (samples : list Z) (r : vrec) (outs : list (Z * list Z))
  : list gt_entry := flat_map (diff_entry d chromname r outs) samples.

(* without --distrust-genotypes the solver's super-reads reproduce the input genotypes (C01/C05) *)
Definition superreads_conform (tg : list target) (rs : list vrec) : Prop :=
  forall t r a b g, In t tg -> In r rs ->
    lookup (v_pos r) (fst (snd t)) = Some (a, b) -> lookup (fst t) (v_gts r) = Some g ->
    isort Z.leb [a; b] = gcode g.

(* ------------------------------------------------------------------ the run *)
Record chrom_result := mkCR {
  cr_reads : list (list read_entry);       (* one ReadList.write call per family *)
  cr_recs : list (list rec_entry);         (* one write_recombination_list call per family *)
  cr_gts : list (list gt_entry);           (* one write_changed_genotypes call per processed chromosome *)
  cr_vcf : list (list (Z * list Z))        (* genotypes of the output records *)
}.

Definition chrom_step (pr : posrule) (er : emptyrule) (o : opts) (ids : list (Z * Z)) (vcf_samples : list Z) (c : chrom)
  : option chrom_result :=
  if c_selected c then
    match (if o_reads o then chrom_read_calls ids [] (c_insts c) else Some []),
          (if o_recs o then map_opt (inst_rec_entries er (c_name c)) (c_insts c) else Some []),
          write_records pr (c_name c) vcf_samples (targets_of (c_insts c)) None (c_records c) with
    | Some rd, Some rc, Some wr =>
        Some (mkCR rd rc (if o_gts o then [concat (map fst wr)] else []) (map snd wr))
    | _, _, _ => None
    end
  else
    (* vcf_writer.write(chromosome, {}, {}); continue *)
    match write_records pr (c_name c) vcf_samples [] None (c_records c) with
    | Some wr => Some (mkCR [] [] [] (map snd wr))
    | None => None
    end.

Record outputs := mkOut {
  out_reads : file read_entry;
  out_gts : file gt_entry;
  out_recs : file rec_entry;
  out_vcf : list (list (list (Z * list Z)))
}.

Definition requested {E : Type} (b : bool) (f : file E) : file E := if b then f else None.

(* gt_rule / rec_rule: the writer rule of the changed-genotype / recombination list; the read list is
   always PerRun (ReadList is a context manager entered before the main loop).  None = the run crashed. *)
Definition run (gt_rule rec_rule : wrule) (pr : posrule) (er : emptyrule) (o : opts) (ids : list (Z * Z))
           (vcf_samples : list Z) (cs : list chrom) : option outputs :=
  match map_opt (chrom_step pr er o ids vcf_samples) cs with
  | None => None
  | Some rs =>
      Some (mkOut (requested (o_reads o) (write_calls PerRun (flat_map cr_reads rs)))
                  (requested (o_gts o) (write_calls gt_rule (flat_map cr_gts rs)))
                  (requested (o_recs o) (write_calls rec_rule (flat_map cr_recs rs)))
                  (map cr_vcf rs))
  end.

Definition run_old := run old_rule old_rule old_posrule old_emptyrule.
Definition run_phase := run repaired_rule repaired_rule repaired_posrule repaired_emptyrule.

(* all (chromosome, family) instances that the run processes, in processing order *)
Definition instances (cs : list chrom) : list (chrom * inst) :=
  flat_map (fun c => if c_selected c then map (pair c) (c_insts c) else []) cs.

(* the differences between input VCF (cs) and output genotypes (ovcf) over the processed chromosomes,
   record by record, for the samples being phased *)
Definition target_names (c : chrom) : list Z := map fst (targets_of (c_insts c)).
Definition chrom_diffs (d : Z) (c : chrom) (ovc : list (list (Z * list Z))) : list gt_entry :=
  concat (map (fun ro => record_changes d (c_name c) (target_names c) (fst ro) (snd ro))
              (combine (c_records c) ovc)).
Definition run_diffs (d : Z) (cs : list chrom) (ovcf : list (list (list (Z * list Z)))) : list gt_entry :=
  flat_map (fun co => if c_selected (fst co) then chrom_diffs d (fst co) (snd co) else []) (combine cs ovcf).

(* ------------------------------------------------------------------ well-formedness of the traced data
   (representation invariants of the Python objects; checked on every real trace) *)
Fixpoint strictly_increasing (l : list Z) : bool :=
  match l with
  | [] => true
  | x :: t => match t with
              | [] => true
              | y :: _ => (x <? y) && strictly_increasing t
              end
  end.

Definition nodupb (l : list Z) : bool := (length (dedup l) =? length l)%nat.

Definition read_in_family (ids : list (Z * Z)) (i : inst) (r : read) : bool :=
  match lookup (r_sample r) ids with
  | Some s => existsb (Z.eqb s) (map fst (inst_members i))
  | None => false
  end.

Definition inst_wf (ids : list (Z * Z)) (i : inst) : bool :=
  strictly_increasing (i_positions i)                          (* sorted(set(...)) *)
  && nodupb (map fst (i_comps i))                              (* a dict *)
  && forallb (read_in_family ids i) (i_reads i)
  && nodupb (map fst (i_trios i)).

Definition run_wf (ids : list (Z * Z)) (cs : list chrom) : bool :=
  forallb (fun c => forallb (inst_wf ids) (c_insts c) && nodupb (map fst (targets_of (c_insts c)))) cs.

(* ================================================================== specification side
   Boolean predicates evaluated by Coq on the implementation's own files / VCFs (level L1). *)

(* observed: the three real files, and the calls of the real output VCF:
   per chromosome, per record, per sample (in file order): (sample, (GT alleles with -1 for '.', PS)) *)
Record observed := mkObs {
  ob_reads : file read_entry;
  ob_gts : file gt_entry;
  ob_recs : file rec_entry;
  ob_vcf : list (list (list (Z * (list Z * option Z))))
}.

Fixpoint remove_first {A : Type} (eqb : A -> A -> bool) (x : A) (l : list A) : option (list A) :=
  match l with
  | [] => None
  | y :: t => if eqb x y then Some t
              else match remove_first eqb x t with
                   | Some t' => Some (y :: t')
                   | None => None
                   end
  end.
(* multiset equality *)
Fixpoint perm_eqb {A : Type} (eqb : A -> A -> bool) (a b : list A) : bool :=
  match a with
  | [] => match b with [] => true | _ => false end
  | x :: t => match remove_first eqb x b with
              | Some b' => perm_eqb eqb t b'
              | None => false
              end
  end.

(* multiset inclusion *)
Fixpoint msub {A : Type} (eqb : A -> A -> bool) (a b : list A) : bool :=
  match a with
  | [] => true
  | x :: t => match remove_first eqb x b with
              | Some b' => msub eqb t b'
              | None => false
              end
  end.

(* a file with exactly one header line, at the top *)
Definition entries_of {E : Type} (f : file E) : option (list E) :=
  match f with
  | Some (Header :: rest) =>
      map_opt (fun l => match l with Entry e => Some e | Header => None end) rest
  | _ => None
  end.

(* ---- read list *)
Definition ps_of_call (ovcf : list (list (Z * (list Z * option Z)))) (recs : list vrec) (sample pos : Z) : option Z :=
  match find (fun ro => v_pos (fst ro) =? pos) (combine recs ovcf) with
  | Some (_, calls) => match lookup sample calls with
                       | Some (_, ps) => ps
                       | None => None
                       end
  | None => None
  end.

(* entry e is justified by read number k of instance i on chromosome c (whose output calls are ovc) *)
Definition read_entry_justified (ids : list (Z * Z)) (c : chrom) (ovc : list (list (Z * (list Z * option Z))))
           (i : inst) (e : read_entry) (rh : read * Z) : bool :=
  let r := fst rh in
  match r_vars r with
  | [] => false
  | v0 :: _ =>
      (re_name e =? r_name r) && (re_source e =? r_source r)
      && opt_eqb Z.eqb (lookup (r_sample r) ids) (Some (re_sample e))
      && existsb (Z.eqb (re_sample e)) (i_family i)
      && (re_hap e =? snd rh)
      && (re_n e =? Z.of_nat (length (r_vars r)))
      && (re_first e =? fst v0 + 1)
      && (re_last e =? fst (last (r_vars r) v0) + 1)
      && opt_eqb Z.eqb (option_map (Z.add 1) (lookup (fst v0) (i_comps i))) (Some (re_ps e))
      (* agreement with the phased VCF: where the call of its first variant carries a PS, it is this one *)
      && match ps_of_call ovc (c_records c) (re_sample e) (fst v0) with
         | Some ps => ps =? re_ps e
         | None => true
         end
  end.

Definition spec_read_sound (ids : list (Z * Z)) (cs : list chrom) (ob : observed) : bool :=
  match entries_of (ob_reads ob) with
  | None => false
  | Some es =>
      forallb (fun e =>
        existsb (fun co => c_selected (fst co) &&
          existsb (fun i => existsb (read_entry_justified ids (fst co) (snd co) i e)
                                    (combine (i_reads i) (i_part i)))
                  (c_insts (fst co)))
          (combine cs (ob_vcf ob))) es
  end.

(* every selected read of every processed (chromosome, family) is listed, and nothing else (as multisets of
   (name, source, numeric sample id -> name, #variants, first, last)) *)
Definition read_key (ids : list (Z * Z)) (r : read) : list Z :=
  [r_name r; r_source r; match lookup (r_sample r) ids with Some s => s | None => -1 end;
   Z.of_nat (length (r_vars r));
   match r_vars r with v0 :: _ => fst v0 + 1 | [] => -1 end;
   match r_vars r with v0 :: _ => fst (last (r_vars r) v0) + 1 | [] => -1 end].
Definition entry_key (e : read_entry) : list Z :=
  [re_name e; re_source e; re_sample e; re_n e; re_first e; re_last e].

Definition spec_read_cover (ids : list (Z * Z)) (cs : list chrom) (ob : observed) : bool :=
  match entries_of (ob_reads ob) with
  | None => false
  | Some es =>
      perm_eqb (list_eqb Z.eqb) (map entry_key es)
               (flat_map (fun ci => map (read_key ids) (i_reads (snd ci))) (instances cs))
  end.

(* ---- changed-genotype list: exactly the differences between input and output VCF *)
Definition record_diffs (chromname : Z) (r : vrec) (ocalls : list (Z * (list Z * option Z))) : list gt_entry :=
  flat_map (fun io =>
              let old := gcode (snd (fst io)) in
              let new := gcode (fst (snd (snd io))) in
              if (fst (fst io) =? fst (snd io)) && list_eqb Z.eqb old new then []
              else [mkGE (fst (fst io)) chromname (v_pos r + 1) (v_ref r) (hd 0 (v_alts r)) old new])
           (combine (v_gts r) ocalls).

Definition vcf_diffs (cs : list chrom) (ovcf : list (list (list (Z * (list Z * option Z))))) : list gt_entry :=
  flat_map (fun co => flat_map (fun ro => record_diffs (c_name (fst co)) (fst ro) (snd ro))
                               (combine (c_records (fst co)) (snd co)))
           (combine cs ovcf).

(* the output VCF has the same chromosomes, records and samples as the input (stream conservation, C04) *)
Definition vcf_aligned (cs : list chrom) (ovcf : list (list (list (Z * (list Z * option Z))))) : bool :=
  (length cs =? length ovcf)%nat &&
  forallb (fun co => (length (c_records (fst co)) =? length (snd co))%nat &&
                     forallb (fun ro => list_eqb Z.eqb (map fst (v_gts (fst ro))) (map fst (snd ro)))
                             (combine (c_records (fst co)) (snd co)))
          (combine cs ovcf).

Definition shift_pos (d : Z) (e : gt_entry) : gt_entry :=
  mkGE (ge_sample e) (ge_chrom e) (ge_pos e + d) (ge_ref e) (ge_alt e) (ge_old e) (ge_new e).

(* d = 0: the `position` column is the VCF POS (what the property demands);
   d = 1: used only to classify a failure (the column holds the 0-based position) *)
Definition spec_gt_exact (d : Z) (cs : list chrom) (ob : observed) : bool :=
  vcf_aligned cs (ob_vcf ob) &&
  match entries_of (ob_gts ob) with
  | None => false
  | Some es => perm_eqb ge_eqb (map (shift_pos d) es) (vcf_diffs cs (ob_vcf ob))
  end.

(* without --distrust-genotypes: no entry and no difference *)
Definition spec_no_change (cs : list chrom) (ob : observed) : bool :=
  vcf_aligned cs (ob_vcf ob) &&
  match vcf_diffs cs (ob_vcf ob) with [] => true | _ => false end &&
  match ob_gts ob with
  | None => true
  | Some _ => match entries_of (ob_gts ob) with Some [] => true | _ => false end
  end.

(* ---- recombination list *)
Definition rec_entry_justified (c : chrom) (ovc : list (list (Z * (list Z * option Z)))) (i : inst)
           (e : rec_entry) : bool :=
  (ce_chrom e =? c_name c)
  && existsb (fun t => fst t =? ce_child e) (i_trios i)
  && (ce_p1 e <? ce_p2 e)
  && match lookup (ce_p1 e - 1) (i_comps i), lookup (ce_p2 e - 1) (i_comps i) with
     | Some b1, Some b2 => b1 =? b2                 (* two variants of one phase set *)
     | _, _ => false
     end
  (* agreement with the phased VCF: no family member has the two variants in different phase sets *)
  && forallb (fun s => match ps_of_call ovc (c_records c) s (ce_p1 e - 1),
                             ps_of_call ovc (c_records c) s (ce_p2 e - 1) with
                       | Some a, Some b => a =? b
                       | _, _ => true
                       end) (i_family i).

Definition spec_rec_sound (cs : list chrom) (ob : observed) : bool :=
  match entries_of (ob_recs ob) with
  | None => false
  | Some es =>
      forallb (fun e =>
        existsb (fun co => c_selected (fst co) &&
                           existsb (fun i => rec_entry_justified (fst co) (snd co) i e) (c_insts (fst co)))
                (combine cs (ob_vcf ob))) es
  end.

(* the events of every processed (chromosome, family) are all there, and nothing else *)
Definition spec_rec_cover (cs : list chrom) (ob : observed) : bool :=
  match entries_of (ob_recs ob),
        map_opt (fun ci => inst_rec_entries repaired_emptyrule (c_name (fst ci)) (snd ci)) (instances cs) with
  | Some es, Some calls => perm_eqb ce_eqb es (concat calls)
  | _, _ => false
  end.

(* ---- recombination list, event by event (implementation independent).
   The events of a family, as find_recombination defines them: for a trio k, two variants p < q of one phase
   set with no variant of that set in between, p not being the first variant of the set
   (`for i in range(2, len(block))`), at which the trio's transmission values differ. *)
Definition trio_cols (i : inst) (k : nat) : list col :=
  combine (i_positions i) (combine (tv_of_trio (length (i_trios i)) k (i_tv i)) (i_costs i)).

Definition set_neighbours (comps : list (Z * Z)) (p q : Z) : bool :=
  match lookup p comps, lookup q comps with
  | Some a, Some b =>
      (a =? b) && (p <? q)
      && negb (existsb (fun rc => (snd rc =? a) && (p <? fst rc) && (fst rc <? q)) comps)
      && existsb (fun rc => (snd rc =? a) && (fst rc <? p)) comps
  | _, _ => false
  end.

Definition expected_event (chromname : Z) (i : inst) (k : nat) (child p q : Z) : option rec_entry :=
  match lookup p (trio_cols i k), lookup q (trio_cols i k) with
  | Some (ta, _), Some (tb, cb) =>
      if set_neighbours (i_comps i) p q && negb (ta =? tb)
      then Some (mkCE child chromname (p + 1) (q + 1) (ta mod 2) (tb mod 2) (ta / 2) (tb / 2) cb)
      else None
  | _, _ => None
  end.

Definition expected_recs (chromname : Z) (i : inst) : list rec_entry :=
  flat_map (fun kt =>
    flat_map (fun p =>
      flat_map (fun q => match expected_event chromname i (fst kt) (fst (snd kt)) p q with
                         | Some e => [e]
                         | None => []
                         end) (i_positions i)) (i_positions i))
    (combine (seq 0 (length (i_trios i))) (i_trios i)).

Definition all_expected_recs (cs : list chrom) : list rec_entry :=
  flat_map (fun ci => expected_recs (c_name (fst ci)) (snd ci)) (instances cs).

(* every listed line is a transmission change of its family between neighbouring variants of one phase set,
   with the haplotype columns and cost of that change (nothing fabricated) *)
Definition spec_rec_genuine (cs : list chrom) (ob : observed) : bool :=
  match entries_of (ob_recs ob) with
  | None => false
  | Some es => msub ce_eqb es (all_expected_recs cs)
  end.
(* every such change of every processed (chromosome, family) is listed (nothing missing) *)
Definition spec_rec_complete (cs : list chrom) (ob : observed) : bool :=
  match entries_of (ob_recs ob) with
  | None => false
  | Some es => msub ce_eqb (all_expected_recs cs) es
  end.

(* ---- recombination list against the phased output VCF alone (independent of the run's own transmission vector).
   In a trio, at a variant p where the parent is heterozygous and phased in phase set ps (GT a|b, PS = ps) and
   the child's allele inherited from that parent is known (child phased in the same set: first allele = paternal,
   second = maternal; or, when genotypes are trusted, child homozygous -- with --distrust-genotypes an unphased
   call keeps its input genotype, which need not be the solver's), the output VCF determines which of the parent's two haplotypes was
   transmitted.  Between two consecutive such variants p < q of one phase set (p not being the first variant of
   the set, whose successor pair find_recombination never examines) the transmitted haplotype changes iff the
   list holds an odd number of events of that child and set inside [p, q] that switch this parent's haplotype. *)
Definition call_at (ovc : list (list (Z * (list Z * option Z)))) (recs : list vrec) (s p : Z)
  : option (list Z * option Z) :=
  match find (fun ro => v_pos (fst ro) =? p) (combine recs ovc) with
  | Some (_, calls) => lookup s calls
  | None => None
  end.

(* which : 0 = the child's paternal allele (parent = father), 1 = its maternal allele (parent = mother) *)
Definition implied_transmission (distrust : bool) (ovc : list (list (Z * (list Z * option Z)))) (recs : list vrec)
           (child parent : Z) (which : nat) (p : Z) : option (Z * Z) :=
  match call_at ovc recs parent p, call_at ovc recs child p with
  | Some (a :: b :: nil, Some ps), Some (cg, cps) =>
      if a =? b then None
      else
        let inherited :=
          match cps with
          | Some ps' => if ps' =? ps then nth_error cg which else None
          | None => match cg with
                    | x :: y :: nil => if negb distrust && (x =? y) && (0 <=? x) then Some x else None
                    | _ => None
                    end
          end in
        match inherited with
        | Some x => if x =? a then Some (ps, 0) else if x =? b then Some (ps, 1) else None
        | None => None
        end
  | _, _ => None
  end.

(* the informative variants (position, phase set, transmitted haplotype) of one parent-child pair, in VCF order *)
Definition informative (distrust : bool) (ovc : list (list (Z * (list Z * option Z)))) (recs : list vrec)
           (child parent : Z) (which : nat) : list (Z * (Z * Z)) :=
  flat_map (fun p => match implied_transmission distrust ovc recs child parent which p with
                     | Some x => [(p, x)]
                     | None => []
                     end) (dedup (map v_pos recs)).

Definition switches_parent (which : nat) (e : rec_entry) : bool :=
  match which with
  | O => negb (ce_f1 e =? ce_f2 e)
  | _ => negb (ce_m1 e =? ce_m2 e)
  end.

Fixpoint consecutive_ok (chromname child : Z) (which : nat) (comps : list (Z * Z)) (es : list rec_entry)
         (l : list (Z * (Z * Z))) : bool :=
  match l with
  | [] => true
  | (p, (ps, h)) :: tl =>
      match tl with
      | [] => true
      | (q, (_, h')) :: _ =>
          ((p + 1 =? ps) ||
           Bool.eqb (Nat.odd (length (filter (fun e =>
                        (ce_child e =? child) && (ce_chrom e =? chromname) &&
                        (p + 1 <=? ce_p1 e) && (ce_p2 e <=? q + 1) &&
                        opt_eqb Z.eqb (lookup (ce_p1 e - 1) comps) (Some (ps - 1)) &&
                        switches_parent which e) es)))
                    (negb (h =? h')))
          && consecutive_ok chromname child which comps es tl
      end
  end.

Definition pair_ok (distrust : bool) (c : chrom) (ovc : list (list (Z * (list Z * option Z)))) (i : inst) (es : list rec_entry)
           (child parent : Z) (which : nat) : bool :=
  let inf := informative distrust ovc (c_records c) child parent which in
  forallb (fun ps => consecutive_ok (c_name c) child which (i_comps i) es
                                    (filter (fun x => fst (snd x) =? ps) inf))
          (dedup (map (fun x => fst (snd x)) inf)).

Definition spec_rec_vs_vcf (distrust : bool) (cs : list chrom) (ob : observed) : bool :=
  match entries_of (ob_recs ob) with
  | None => false
  | Some es =>
      forallb (fun co =>
                 negb (c_selected (fst co)) ||
                 forallb (fun i =>
                            forallb (fun t => pair_ok distrust (fst co) (snd co) i es (fst t) (fst (snd t)) 0
                                              && pair_ok distrust (fst co) (snd co) i es (fst t) (snd (snd t)) 1)
                                    (i_trios i))
                         (c_insts (fst co)))
              (combine cs (ob_vcf ob))
  end.

(* ---- level L2: model = implementation *)
Definition vcf_eqb (m : list (list (list (Z * list Z)))) (ovcf : list (list (list (Z * (list Z * option Z))))) : bool :=
  list_eqb (list_eqb (list_eqb (fun a b => (fst a =? fst b) && list_eqb Z.eqb (snd a) (snd b))))
           m (map (map (map (fun c => (fst c, gcode (fst (snd c)))))) ovcf).

(* the model's own outputs seen as an observation (the model does not produce PS tags) *)
Definition obs_of_out (out : outputs) : observed :=
  mkObs (out_reads out) (out_gts out) (out_recs out)
        (map (map (map (fun c : Z * list Z => (fst c, (snd c, @None Z))))) (out_vcf out)).

(* ================================================================== one evaluated run (rendered by the harness) *)
Record case := mkCase {
  k_opts : opts;
  k_distrust : bool;                         (* --distrust-genotypes given *)
  k_ids : list (Z * Z);                      (* numeric sample id -> sample name *)
  k_samples : list Z;                        (* samples of the VCF header *)
  k_cs : list chrom;                         (* input VCF + traced instances *)
  k_ob : observed;                           (* what the real run wrote *)
  k_inst_recs : option (list (option (list rec_entry)));  (* real write_recombination_list on each traced instance alone (None: AssertionError) *)
  k_read_src : list (Z * (Z * Z))            (* generator's knowledge: (read name, (sample, index of the input file it was written to)) *)
}.

(* the source_id column names the input file (its index on the command line) that the read was taken from *)
Definition spec_read_source (src : list (Z * (Z * Z))) (ob : observed) : bool :=
  match entries_of (ob_reads ob) with
  | None => false
  | Some es =>
      forallb (fun e => existsb (fun x => (fst x =? re_name e) && (fst (snd x) =? re_sample e)
                                          && (snd (snd x) =? re_source e)) src) es
  end.

Definition spec_gt_sound (d : Z) (cs : list chrom) (ob : observed) : bool :=
  vcf_aligned cs (ob_vcf ob) &&
  match entries_of (ob_gts ob) with
  | None => false
  | Some es => msub ge_eqb (map (shift_pos d) es) (vcf_diffs cs (ob_vcf ob))
  end.
Definition spec_gt_cover (d : Z) (cs : list chrom) (ob : observed) : bool :=
  vcf_aligned cs (ob_vcf ob) &&
  match entries_of (ob_gts ob) with
  | None => false
  | Some es => msub ge_eqb (vcf_diffs cs (ob_vcf ob)) (map (shift_pos d) es)
  end.

Definition chk_wf (k : case) : bool := run_wf (k_ids k) (k_cs k).
Definition chk_read_sound (k : case) : bool :=
  negb (o_reads (k_opts k)) || spec_read_sound (k_ids k) (k_cs k) (k_ob k).
Definition chk_read_source (k : case) : bool :=
  negb (o_reads (k_opts k)) || spec_read_source (k_read_src k) (k_ob k).
Definition chk_read_cover (k : case) : bool :=
  negb (o_reads (k_opts k)) || spec_read_cover (k_ids k) (k_cs k) (k_ob k).
Definition chk_gt_sound (d : Z) (k : case) : bool :=
  negb (o_gts (k_opts k)) || spec_gt_sound d (k_cs k) (k_ob k).
Definition chk_gt_cover (d : Z) (k : case) : bool :=
  negb (o_gts (k_opts k)) || spec_gt_cover d (k_cs k) (k_ob k).
Definition chk_no_change (k : case) : bool :=
  k_distrust k || spec_no_change (k_cs k) (k_ob k).
Definition chk_rec_sound (k : case) : bool :=
  negb (o_recs (k_opts k)) || spec_rec_sound (k_cs k) (k_ob k).
(* "the entries of a (chromosome, family)" are what the real write_recombination_list writes for that traced
   instance alone (k_inst_recs); without them, what the model's per-call function gives *)
Definition chk_rec_genuine (k : case) : bool :=
  negb (o_recs (k_opts k)) || spec_rec_genuine (k_cs k) (k_ob k).
Definition chk_rec_complete (k : case) : bool :=
  negb (o_recs (k_opts k)) || spec_rec_complete (k_cs k) (k_ob k).
Definition chk_rec_vs_vcf (k : case) : bool :=
  negb (o_recs (k_opts k)) || spec_rec_vs_vcf (k_distrust k) (k_cs k) (k_ob k).
Definition chk_rec_cover (k : case) : bool :=
  negb (o_recs (k_opts k)) ||
  match k_inst_recs k with
  | Some real => match entries_of (ob_recs (k_ob k)) with
                 | Some es => perm_eqb ce_eqb es (flat_map (fun x => match x with Some l => l | None => [] end) real)
                 | None => false
                 end
  | None => spec_rec_cover (k_cs k) (k_ob k)
  end.

(* ---- level L2: the files and the output genotypes are exactly those of the model of the code as it is
   (run_phase: files opened once per run, VCF positions, no event for a family without accessible position) *)
Definition with_run (k : case) (f : outputs -> bool) : bool :=
  match run_phase (k_opts k) (k_ids k) (k_samples k) (k_cs k) with
  | Some out => f out
  | None => false
  end.
Definition l2_reads (k : case) : bool :=
  with_run k (fun out => file_eqb re_eqb (out_reads out) (ob_reads (k_ob k))).
Definition l2_vcf (k : case) : bool :=
  with_run k (fun out => vcf_eqb (out_vcf out) (ob_vcf (k_ob k))).
Definition l2_gts (k : case) : bool :=
  with_run k (fun out => file_eqb ge_eqb (out_gts out) (ob_gts (k_ob k))).
Definition l2_recs (k : case) : bool :=
  with_run k (fun out => file_eqb ce_eqb (out_recs out) (ob_recs (k_ob k))).
(* the per-call function of the model against the real function called on every traced instance *)
Definition l2_inst_recs (k : case) : bool :=
  match k_inst_recs k with
  | None => true
  | Some real =>
      list_eqb (opt_eqb (list_eqb ce_eqb))
               (map (fun ci => inst_rec_entries repaired_emptyrule (c_name (fst ci)) (snd ci)) (instances (k_cs k))) real
  end.

(* crashed runs: does the model reach its error value as well? *)
Definition model_crashes (k : case) : bool :=
  match run_phase (k_opts k) (k_ids k) (k_samples k) (k_cs k) with
  | None => true
  | Some _ => false
  end.
