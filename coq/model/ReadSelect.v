(* Executable model of whatshap/readselect.pyx (readselection, readselection_helper,
   _slice_read_selection, the bridging loop) and whatshap/coverage.py (CovMonitor), plus the
   executable specification side of C07.  Model only: no lemmas here.

   Reads are lists of VARIANT INDICES (the values of `vcf_indices`, i.e. the rank of the variant's
   position among all positions of the read set), strictly increasing, >= 2 entries.  The priority
   queue and the scores are NOT modelled: the order in which reads are popped is an input of the model
   (an "order oracle": for every outer iteration the pop order of the slice loop and the pop order of
   the bridging loop); the model accepts every order that is a permutation of the undecided reads. *)
From Coq Require Import Arith List Bool ZArith.
From WH.Model Require Import UnionFind.
Import ListNotations.

(* ---------------------------------------------------------------------------------------------- *)
(* reads and spans                                                                                 *)

Definition read := list nat.
Definition rbegin (r : read) : nat := hd 0 r.            (* vcf_indices[read.getPosition(0)]          *)
Definition rend (r : read) : nat := S (last r 0).         (* vcf_indices[read.getPosition(last)] + 1   *)
Definition spans (r : read) (i : nat) : bool := (rbegin r <=? i) && (i <? rend r).
Definition get_read (reads : list read) (ri : nat) : read := nth ri reads [].

Fixpoint increasing (r : read) : bool :=
  match r with
  | [] => true
  | x :: r' => match r' with [] => true | y :: _ => (x <? y) && increasing r' end
  end.
(* what readselection may assume about one read: >= 2 variants (checked by the code: ValueError),
   sorted by position without duplicates (Read.sort / is_sorted upstream), indices < number of
   variants (by construction of vcf_indices) *)
Definition wf_read (n : nat) (r : read) : bool :=
  (2 <=? length r) && increasing r && forallb (fun v => v <? n) r.
Definition wf_reads (n : nat) (reads : list read) : bool := forallb (wf_read n) reads.

(* ---------------------------------------------------------------------------------------------- *)
(* coverage.py: CovMonitor                                                                         *)

Definition covmon := list nat.
Definition cov_init (n : nat) : covmon := repeat 0 n.
Definition cov_slice (c : covmon) (b e : nat) : list nat := firstn (e - b) (skipn b c).   (* c[b:e] *)
(* max(self.coverage[begin:end]); the slice is never empty for a well-formed read (max of an empty
   list would be a ValueError in python; here 0) *)
Definition max_coverage_in_range (c : covmon) (b e : nat) : nat := list_max (cov_slice c b e).
Fixpoint add_from (c : covmon) (i b e : nat) : covmon :=
  match c with
  | [] => []
  | x :: c' => (if (b <=? i) && (i <? e) then S x else x) :: add_from c' (S i) b e
  end.
Definition add_read (c : covmon) (b e : nat) : covmon := add_from c 0 b e.

(* ---------------------------------------------------------------------------------------------- *)
(* python sets of read indices as duplicate-free lists                                             *)

Definition mem (x : nat) (l : list nat) : bool := existsb (Nat.eqb x) l.
Definition set_add (x : nat) (l : list nat) : list nat := if mem x l then l else l ++ [x].
Definition set_union (l add : list nat) : list nat := fold_left (fun acc x => set_add x acc) add l.
Definition set_diff (l rm : list nat) : list nat := filter (fun x => negb (mem x rm)) l.
Definition set_remove (x : nat) (l : list nat) : list nat := filter (fun y => negb (Nat.eqb y x)) l.
Fixpoint nodupb (l : list nat) : bool :=
  match l with [] => true | x :: l' => negb (mem x l') && nodupb l' end.
Definition subsetb (a b : list nat) : bool := forallb (fun x => mem x b) a.
(* a legal pop order: every undecided read exactly once *)
Definition is_perm (order und : list nat) : bool := nodupb order && subsetb order und && subsetb und order.

Inductive decision := Violates | Selected | Skipped.
Definition decision_eqb (a b : decision) : bool :=
  match a, b with Violates, Violates | Selected, Selected | Skipped, Skipped => true | _, _ => false end.

(* ---------------------------------------------------------------------------------------------- *)
(* _slice_read_selection                                                                           *)

Record slice_st := SliceSt {
  s_cov : covmon;                 (* coverages (shared, mutated)                          *)
  s_covered : list nat;           (* already_covered_variants                              *)
  s_in : list nat;                (* reads_in_slice, in order of selection                 *)
  s_viol : list nat }.            (* reads_violating_coverage                              *)

Definition covers_new (covered : list nat) (r : read) : bool := existsb (fun v => negb (mem v covered)) r.

Definition slice_step (reads : list read) (k : nat) (ss : slice_st) (ri : nat) : slice_st * decision :=
  let r := get_read reads ri in
  if k <=? max_coverage_in_range (s_cov ss) (rbegin r) (rend r) then
    (SliceSt (s_cov ss) (s_covered ss) (s_in ss) (set_add ri (s_viol ss)), Violates)
  else if covers_new (s_covered ss) r then
    (SliceSt (add_read (s_cov ss) (rbegin r) (rend r)) (s_covered ss ++ r) (set_add ri (s_in ss)) (s_viol ss),
     Selected)
  else (ss, Skipped).

Fixpoint slice_run (reads : list read) (k : nat) (ss : slice_st) (order : list nat)
  : slice_st * list (nat * decision) :=
  match order with
  | [] => (ss, [])
  | ri :: rest =>
      let (ss1, d) := slice_step reads k ss ri in
      let (ss2, ds) := slice_run reads k ss1 rest in
      (ss2, (ri, d) :: ds)
  end.

(* ---------------------------------------------------------------------------------------------- *)
(* component finder use: merge(read[0], read[i]) for i >= 1; find of every variant of a read       *)

Definition merge_read (cf : uf) (r : read) : uf + err :=
  match r with
  | [] => inl cf
  | x :: tl => fold_left (fun acc y => match acc with inl s => merge s x y | inr e => inr e end) tl (inl cf)
  end.

Definition merge_reads (reads : list read) (cf : uf) (ris : list nat) : uf + err :=
  fold_left (fun acc ri => match acc with inl s => merge_read s (get_read reads ri) | inr e => inr e end)
            ris (inl cf).

(* covered_blocks = { component_finder.find(position) for position in read } *)
Fixpoint find_blocks (cf : uf) (r : read) (blocks : list nat) : (uf * list nat) + err :=
  match r with
  | [] => inl (cf, blocks)
  | x :: tl => match find cf x with
               | inl (b, cf') => find_blocks cf' tl (set_add b blocks)
               | inr e => inr e
               end
  end.

(* ---------------------------------------------------------------------------------------------- *)
(* readselection_helper                                                                            *)

Record st := St { cov : covmon; sel : list nat; und : list nat }.

Inductive rs_err :=
  | IllegalOrder              (* the oracle is not a permutation of the undecided reads (not an implementation behaviour) *)
  | UFErr (e : err)           (* KeyError / AssertionError out of ComponentFinder *)
  | ValueErr.                 (* 'readselection expects reads that cover at least two variants' *)

Record bridge_st := BridgeSt { b_st : st; b_cf : uf }.

Definition bridge_step (reads : list read) (k : nat) (bs : bridge_st) (ri : nat)
  : (bridge_st * decision) + rs_err :=
  let r := get_read reads ri in
  let s := b_st bs in
  match find_blocks (b_cf bs) r [] with
  | inr e => inr (UFErr e)
  | inl (cf1, blocks) =>
      if k <=? max_coverage_in_range (cov s) (rbegin r) (rend r) then
        inl (BridgeSt (St (cov s) (sel s) (set_remove ri (und s))) cf1, Violates)
      else if length blocks <? 2 then inl (BridgeSt s cf1, Skipped)
      else match merge_read cf1 r with
           | inr e => inr (UFErr e)
           | inl cf2 =>
               inl (BridgeSt (St (add_read (cov s) (rbegin r) (rend r)) (set_add ri (sel s))
                                 (set_remove ri (und s))) cf2, Selected)
           end
  end.

Fixpoint bridge_run (reads : list read) (k : nat) (bs : bridge_st) (order : list nat)
  : (bridge_st * list (nat * decision)) + rs_err :=
  match order with
  | [] => inl (bs, [])
  | ri :: rest =>
      match bridge_step reads k bs ri with
      | inr e => inr e
      | inl (bs1, d) =>
          match bridge_run reads k bs1 rest with
          | inr e => inr e
          | inl (bs2, ds) => inl (bs2, (ri, d) :: ds)
          end
      end
  end.

(* what the trace hook records per outer iteration: sorted(undecided) at its start, the pops of the
   slice loop and the pops of the bridging loop with the decision taken *)
Definition outer_item := (list nat * list (nat * decision) * list (nat * decision))%type.

(* one pass of the `while len(undecided_reads) > 0` body; (so, bo) = pop orders of the two loops *)
Definition iteration (reads : list read) (n k : nat) (bridging : bool) (s : st) (so bo : list nat)
  : (st * outer_item) + rs_err :=
  if negb (is_perm so (und s)) then inr IllegalOrder else
  let (ss, sdec) := slice_run reads k (SliceSt (cov s) [] [] []) so in
  let s1 := St (s_cov ss) (set_union (sel s) (s_in ss)) (set_diff (set_diff (und s) (s_in ss)) (s_viol ss)) in
  match merge_reads reads (uf_init (seq 0 n)) (s_in ss) with
  | inr e => inr (UFErr e)
  | inl cf =>
      if bridging then
        if negb (is_perm bo (und s1)) then inr IllegalOrder else
        match bridge_run reads k (BridgeSt s1 cf) bo with
        | inr e => inr e
        | inl (bs, bdec) => inl (b_st bs, (und s, sdec, bdec))
        end
      else
        match bo with
        | [] => inl (s1, (und s, sdec, []))
        | _ :: _ => inr IllegalOrder
        end
  end.

Definition oracle := list (list nat * list nat).

(* The loop is driven by the oracle (structural recursion): it stops when no read is undecided, or
   when the oracle is used up (then `und` of the result is non-empty: an intermediate state).
   The unused rest of the oracle is returned (the main phase continues with it). *)
Fixpoint helper (reads : list read) (n k : nat) (bridging : bool) (o : oracle) (s : st)
  : (st * list outer_item * oracle) + rs_err :=
  match und s with
  | [] => inl (s, [], o)
  | _ :: _ =>
      match o with
      | [] => inl (s, [], [])
      | (so, bo) :: o' =>
          match iteration reads n k bridging s so bo with
          | inr e => inr e
          | inl (s1, item) =>
              match helper reads n k bridging o' s1 with
              | inr e => inr e
              | inl (s2, items, rest) => inl (s2, item :: items, rest)
              end
          end
      end
  end.

(* ---------------------------------------------------------------------------------------------- *)
(* readselection                                                                                   *)

(* After the preferred-source phase the code executes `undecided_reads -= preferred_reads`, but
   readselection_helper has emptied the very set object `preferred_reads` (it was passed as the
   helper's `undecided_reads` and is mutated in place), so nothing is removed: PrefCurrent.
   PrefRepaired is the evident intention (remove the preferred reads from the second phase). *)
Inductive pref_rule := PrefCurrent | PrefRepaired.

Definition second_phase_undecided (rule : pref_rule) (all preferred : list nat) : list nat :=
  match rule with
  | PrefCurrent => all
  | PrefRepaired => set_diff all preferred
  end.

Record rs_result := RsResult {
  r_state : st;                     (* final coverage monitor, selected set, undecided set *)
  r_trace1 : list outer_item;       (* outer iterations of the preferred-source phase *)
  r_trace2 : list outer_item;       (* outer iterations of the main phase *)
  r_rest : oracle;                  (* unused part of the oracle *)
  r_complete : bool }.              (* both loops ran until no read was undecided *)

Definition is_nil {A} (l : list A) : bool := match l with [] => true | _ => false end.

(* pref : for every read, whether read.source_id is in preferred_source_ids.
   o : the pop orders of all outer iterations (preferred phase first, then the main phase). *)
Definition readselection (rule : pref_rule) (reads : list read) (pref : list bool) (n k : nat)
    (bridging : bool) (o : oracle) : rs_result + rs_err :=
  if negb (forallb (fun r => 2 <=? length r) reads) then inr ValueErr else
  let all := seq 0 (length reads) in
  let preferred := filter (fun ri => nth ri pref false) all in
  if is_nil preferred then
    match helper reads n k bridging o (St (cov_init n) [] all) with
    | inr e => inr e
    | inl (s2, t2, rest) => inl (RsResult s2 [] t2 rest (is_nil (und s2)))
    end
  else
    match helper reads n k bridging o (St (cov_init n) [] preferred) with
    | inr e => inr e
    | inl (s1, t1, o2) =>
        if negb (is_nil (und s1)) then inl (RsResult s1 t1 [] o2 false) else
        match helper reads n k bridging o2
                (St (cov s1) (sel s1) (second_phase_undecided rule all preferred)) with
        | inr e => inr e
        | inl (s2, t2, rest) => inl (RsResult s2 t1 t2 rest (is_nil (und s2)))
        end
    end.

(* ---------------------------------------------------------------------------------------------- *)
(* specification side (evaluated on the implementation's returned index set alone)                 *)

(* number of selected reads whose span [first index, last index] contains variant i *)
Definition span_count (reads : list read) (selected : list nat) (i : nat) : nat :=
  length (filter (fun ri => spans (get_read reads ri) i) selected).

Definition subset_ok (reads : list read) (selected : list nat) : bool :=
  nodupb selected && forallb (fun ri => ri <? length reads) selected.

Definition cap_ok (reads : list read) (n k : nat) (selected : list nat) : bool :=
  forallb (fun i => span_count reads selected i <=? k) (seq 0 n).

(* read ri cannot be added: some variant it spans is already spanned by >= k selected reads *)
Definition blocked (reads : list read) (n k : nat) (selected : list nat) (ri : nat) : bool :=
  existsb (fun i => spans (get_read reads ri) i && (k <=? span_count reads selected i)) (seq 0 n).

Definition maximal_ok (reads : list read) (n k : nat) (selected : list nat) : bool :=
  forallb (fun ri => mem ri selected || blocked reads n k selected ri) (seq 0 (length reads)).

(* The same two checks with the span counts tabulated once per case (ReadSelectProofs.fast_evaluators_agree:
   equal to cap_ok / maximal_ok for all arguments); used by the harness on large read sets. *)
Definition count_table (reads : list read) (n : nat) (selected : list nat) : list (nat * nat) :=
  map (fun i => (i, span_count reads selected i)) (seq 0 n).
Definition cap_ok_fast (reads : list read) (n k : nat) (selected : list nat) : bool :=
  forallb (fun ic => snd ic <=? k) (count_table reads n selected).
Definition maximal_ok_fast (reads : list read) (n k : nat) (selected : list nat) : bool :=
  let tbl := count_table reads n selected in
  forallb (fun ri => mem ri selected ||
                     existsb (fun ic => spans (get_read reads ri) (fst ic) && (k <=? snd ic)) tbl)
          (seq 0 (length reads)).

(* trace comparison for the correspondence (L2) *)
Fixpoint list_eqb {A} (eqb : A -> A -> bool) (a b : list A) : bool :=
  match a, b with
  | [], [] => true
  | x :: a', y :: b' => eqb x y && list_eqb eqb a' b'
  | _, _ => false
  end.
Definition dec_eqb (a b : nat * decision) : bool := Nat.eqb (fst a) (fst b) && decision_eqb (snd a) (snd b).
Definition item_eqb (a b : outer_item) : bool :=
  list_eqb Nat.eqb (fst (fst a)) (fst (fst b)) && list_eqb dec_eqb (snd (fst a)) (snd (fst b))
  && list_eqb dec_eqb (snd a) (snd b).
Definition same_set (a b : list nat) : bool := subsetb a b && subsetb b a.

(* oracle = the pop orders read off an implementation trace *)
Definition oracle_of (t : list outer_item) : oracle := map (fun it => (map fst (snd (fst it)), map fst (snd it))) t.

(* L2: replaying the implementation's pop orders, the model takes the same decision at every step,
   sees the same undecided sets, uses up exactly the traced iterations, runs both loops to completion
   and returns the same set *)
Definition replay_ok (rule : pref_rule) (reads : list read) (pref : list bool) (n k : nat) (bridging : bool)
    (t : list outer_item) (result : list nat) : bool :=
  match readselection rule reads pref n k bridging (oracle_of t) with
  | inr _ => false
  | inl r => r_complete r && is_nil (r_rest r) && list_eqb item_eqb (r_trace1 r ++ r_trace2 r) t
             && same_set (sel (r_state r)) result
  end.

(* ---------------------------------------------------------------------------------------------- *)
(* family level (cli/phase.py): per-sample cap and the total over a family, on genomic positions   *)

Definition zread := list Z.
Definition zfirst (r : zread) : Z := hd 0%Z r.
Definition zlast (r : zread) : Z := last r 0%Z.
Definition zspans (r : zread) (p : Z) : bool := (zfirst r <=? p)%Z && (p <=? zlast r)%Z.
Definition zspan_count (rs : list zread) (p : Z) : nat := length (filter (fun r => zspans r p) rs).
(* max_coverage_per_sample = max(1, max_coverage // len(family)) *)
Definition per_sample_cap (k f : nat) : nat := Nat.max 1 (k / f).
(* total number of reads (over all members) spanning position p *)
Definition family_span_count (members : list (list zread)) (p : Z) : nat :=
  fold_right (fun rs acc => zspan_count rs p + acc) 0 members.
Definition family_cap_ok (k : nat) (members : list (list zread)) (positions : list Z) : bool :=
  forallb (fun p => family_span_count members p <=? k) positions.
