(* Executable model of whatshap/graph.py:ComponentFinder (union-find, smaller value is the root,
   path compression, no union by rank). Model only: no lemmas here. *)
From Coq Require Import Arith List Bool.
Import ListNotations.

(* nodes: value |-> parent value (None = root). `dom` is the key set of self.nodes. *)
Definition pmap := nat -> option nat.
Definition upd (f : pmap) (x : nat) (v : option nat) : pmap :=
  fun y => if Nat.eqb y x then v else f y.

Record uf := UF { dom : list nat; par : pmap }.
Definition uf_init (values : list nat) : uf := UF values (fun _ => None).

Definition in_dom (s : uf) (x : nat) : bool := existsb (Nat.eqb x) (dom s).

(* first loop of _find_node: while root.parent is not None: root = root.parent *)
Fixpoint root (fuel : nat) (p : pmap) (x : nat) : nat :=
  match fuel with
  | 0 => x
  | S f => match p x with None => x | Some q => root f p q end
  end.

(* second loop: while node.parent is not None: node.parent, node = root, node.parent *)
Fixpoint compress (fuel : nat) (p : pmap) (node r : nat) : pmap :=
  match fuel with
  | 0 => p
  | S f => match p node with
           | None => p
           | Some q => compress f (upd p node (Some r)) q r
           end
  end.

(* parents are strictly smaller than children (proved invariant), so fuel = S x is enough *)
Definition find_node (s : uf) (x : nat) : nat * uf :=
  let r := root (S x) (par s) x in
  (r, UF (dom s) (compress (S x) (par s) x r)).

Inductive err := KeyError | AssertionError.

Definition find (s : uf) (x : nat) : (nat * uf) + err :=
  if in_dom s x then inl (find_node s x) else inr KeyError.

Definition merge (s : uf) (x y : nat) : uf + err :=
  if Nat.eqb x y then inr AssertionError
  else if negb (in_dom s x) then inr KeyError
  else let (xr, s1) := find_node s x in
       if negb (in_dom s1 y) then inr KeyError
       else let (yr, s2) := find_node s1 y in
            if Nat.eqb xr yr then inl s2
            else if Nat.ltb xr yr then inl (UF (dom s2) (upd (par s2) yr (Some xr)))
            else inl (UF (dom s2) (upd (par s2) xr (Some yr))).

(* histories *)
Inductive uop := UMerge (x y : nat) | UFind (x : nat).
Inductive uout := UOk | UVal (v : nat) | UErr (e : err).

Definition ustep (s : uf) (o : uop) : uf * uout :=
  match o with
  | UMerge x y => match merge s x y with inl s' => (s', UOk) | inr e => (s, UErr e) end
  | UFind x => match find s x with inl (v, s') => (s', UVal v) | inr e => (s, UErr e) end
  end.

Fixpoint urun (s : uf) (ops : list uop) : list uout :=
  match ops with
  | [] => []
  | o :: ops' => let (s', r) := ustep s o in r :: urun s' ops'
  end.

Fixpoint urun_state (s : uf) (ops : list uop) : uf :=
  match ops with
  | [] => s
  | o :: ops' => urun_state (fst (ustep s o)) ops'
  end.
